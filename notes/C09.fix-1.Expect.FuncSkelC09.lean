-- BLESSED copy (bin/bless C09) of Generated/FuncSkelC09.lean: the tree the C09 model was written from and validated against.
namespace MaddyVerif.Expect.FuncSkelC09

/-- (declaration, fingerprint of its normalised text): comments, layout, local names and log/trace statements do not count -/
def funcs : List (String × String) := [
  ("internal/msgpipeline/msgpipeline.go:MsgPipeline.Start", "9b9e3864f9de0ef6"),
  ("internal/msgpipeline/msgpipeline.go:msgpipelineDelivery.AddRcpt", "483b2d7e72200db8"),
  ("internal/msgpipeline/msgpipeline.go:msgpipelineDelivery.BodyNonAtomic", "7b9e7db40807d5d7"),
  ("internal/msgpipeline/msgpipeline.go:statusCollector.SetStatus", "ce68335872bcfb76"),
  ("internal/smtpconn/smtpconn.go:C.Data", "e530fddde562e053"),
  ("internal/smtpconn/smtpconn.go:C.LMTPData", "e179f60ed562690a"),
  ("internal/smtpconn/smtpconn.go:C.Mail", "8523461fcbacba1f"),
  ("internal/smtpconn/smtpconn.go:C.Rcpt", "243e20ba4f421fdc"),
  ("internal/smtpconn/smtpconn.go:C.Rcpts", "180e824f795f01ee"),
  ("internal/smtpconn/smtpconn.go:C.wrapClientErr", "061f2b3d64b9f03c"),
  ("internal/target/remote/remote.go:remoteDelivery.AddRcpt", "22f624f979db1f13"),
  ("internal/target/remote/remote.go:remoteDelivery.Body", "a554d8cda54e01ca"),
  ("internal/target/remote/remote.go:remoteDelivery.BodyNonAtomic", "74a666db1a05c9ea"),
  ("internal/target/smtp/smtp_downstream.go:Downstream.Init", "aba1b36f32ce13ef"),
  ("internal/target/smtp/smtp_downstream.go:Downstream.InstanceName", "6e7760df5bb2be86"),
  ("internal/target/smtp/smtp_downstream.go:Downstream.Name", "e7dac2487599bc9c"),
  ("internal/target/smtp/smtp_downstream.go:Downstream.Start", "38aaa4b6e2493d7e"),
  ("internal/target/smtp/smtp_downstream.go:Downstream.moduleError", "23436769285843f0"),
  ("internal/target/smtp/smtp_downstream.go:NewDownstream", "de85576e77a38686"),
  ("internal/target/smtp/smtp_downstream.go:delivery.Abort", "1165e84a5fbc4594"),
  ("internal/target/smtp/smtp_downstream.go:delivery.AddRcpt", "70ae4e5f5dbd39ac"),
  ("internal/target/smtp/smtp_downstream.go:delivery.Body", "3014f2e7bf3c5aab"),
  ("internal/target/smtp/smtp_downstream.go:delivery.Commit", "ed078a6d3c27840f"),
  ("internal/target/smtp/smtp_downstream.go:delivery.connect", "6a0603d98b83eee2"),
  ("internal/target/smtp/smtp_downstream.go:init", "3b4c44f06284398a"),
  ("internal/target/smtp/smtp_downstream.go:lmtpDelivery.BodyNonAtomic", "7c317da1d0ed03bd"),
  ("internal/target/smtp/smtp_downstream.go:type Downstream", "48282401dea8067b"),
  ("internal/target/smtp/smtp_downstream.go:type delivery", "5b8d6be69d39c03b"),
  ("internal/target/smtp/smtp_downstream.go:type lmtpDelivery", "95062c840117a5fb")
]

end MaddyVerif.Expect.FuncSkelC09
