import sys,json
t=open('/verif/notes/prompt_strengthener.txt').read()
cases=json.load(open('/tmp/str_cases.json'))
note="\nAdditional note: every check now also proves `MaddyVerif.T1.Cxx_T1_mirrored_code_unchanged` (fingerprints of the normalised text of the mirrored Go declarations; see lib/vlib.py t1_mirrored_code, tools/extract/funcskel.go, bin/bless). On a seeded patch that theorem is EXPECTED to break — what you are after is the concrete monitor violation in addition. If you make a `fix:` commit in your worktree the fingerprints differ from the blessed ones: run `VERIF_REPO=/tmp/s_%(p)s/repo VERIF_LEAN=/tmp/s_%(p)s/lean bin/bless %(P)s` (it then blesses into YOUR lean copy only) and tell the coordinator which fix commits need a re-bless in /verif.\n"
for p,c in cases.items():
    s=(t%dict(p=p,P=p.upper(),CASES=c)).replace("## Strengthening round 2","## Strengthening round 3")+note%dict(p=p,P=p.upper())
    open('/tmp/strengthen_%s.txt'%p,'w').write(s)
print('ok')
