import MaddyVerif.Model.TimeWheel
import Driver.Util
namespace Driver.C12
open MaddyVerif.TimeWheel Driver

/-! `C12 run <u|f> <semCap> <withClose 0|1> <time:budget,…|-> <schedule tokens,…|->`
schedule tokens: `t<i>.<choice>` `tp<i>.<n>` `c` `k` `kb<kind>` `kt` `ku<i>` `ks` `a<d>`  (`kb<kind>`: the tick goroutine's
dispatch step of an entry whose message is on disk only, while the spool entry cannot be opened; the
kind — 1 meta-data missing, 2 meta-data undecodable, 3 header undecodable — matters to the harness only;
`tp<i>.<n>`, n < 20: the delivery attempt of goroutine `i` panics — n < 16: the next hop, at stage n % 4 of the dialogue
(Start, AddRcpt, Body, Commit) with a panic value of kind n / 4; 16 ≤ n: the next hop rejects the message for good and the
bounce pipeline panics while it takes the failure report (kind n - 16): both are panics of code the attempt calls, the
difference matters to the harness only). -/

def parseWho (s : String) : Option Who :=
  let cs := s.toList
  match cs with
  | ['c'] => some .closer
  | ['k'] => some .tick
  | ['k', 't'] => some .tickTimer
  | ['k', 's'] => some .tickStop
  | 'k' :: 'b' :: rest => (String.ofList rest).toNat?.bind (fun n => if 1 ≤ n ∧ n ≤ 3 then some Who.tickBad else none)
  | 'k' :: 'u' :: rest => (String.ofList rest).toNat?.map Who.tickUpd
  | 'a' :: rest => (String.ofList rest).toNat?.map Who.clock
  | 't' :: 'p' :: rest =>
    match (String.ofList rest).splitOn "." with
    | [i, n] => do
      let i ← i.toNat?
      let n ← n.toNat?
      if n < 20 then pure (Who.thrPanic i) else none
    | _ => none
  | 't' :: rest =>
    match (String.ofList rest).splitOn "." with
    | [i, c] => do
      let i ← i.toNat?
      let c ← c.toNat?
      pure (Who.thr i c)
    | _ => none
  | _ => none

def parseList {α} (f : String → Option α) (s : String) : Option (List α) :=
  if s == "-" then some [] else (s.splitOn ",").mapM f

def parseProd (s : String) : Option (Nat × Nat) :=
  match s.splitOn ":" with
  | [t, b] => do
    let t ← t.toNat?
    let b ← b.toNat?
    pure (t, b)
  | _ => none

def pcStr : Pc → String
  | .acquire => "acquire" | .acquireBad => "acquire" | .deliver => "deliver" | .check => "check" | .lock => "lock"
  | .push => "push" | .send => "send" | .release => "release" | .panicRelease => "release"
  | .discard => "discard" | .done => "done" | .panicked => "panicked"

def kindStr : Kind → String
  | .producer => "p" | .attempt => "a"

def tickStr : TickPc → String
  | .top => "top" | .scanLock => "scanLock" | .scan => "scan" | .mkTimer _ => "mkTimer"
  | .waitEmpty => "waitEmpty" | .waitTimer _ _ => "waitTimer" | .rmLock _ => "rmLock"
  | .rm _ => "rm" | .dispatch _ => "dispatch" | .ack => "ack" | .exited => "exited"

def closerStr : Option ClosePc → String
  | none => "-"
  | some .setStopped => "setStopped" | some .sendStop => "sendStop" | some .recvAck => "recvAck"
  | some .closeChan => "closeChan" | some .wgWait => "wgWait" | some .done => "done"

def insertSorted (x : Nat) : List Nat → List Nat
  | [] => [x]
  | y :: ys => if x < y then x :: y :: ys else if x = y then y :: ys else y :: insertSorted x ys

def sortDedup (l : List Nat) : List Nat := l.foldr insertSorted []

def insertPair (x : Nat × Nat) : List (Nat × Nat) → List (Nat × Nat)
  | [] => [x]
  | y :: ys => if x.1 < y.1 || (x.1 == y.1 && x.2 ≤ y.2) then x :: y :: ys else y :: insertPair x ys

/-- the wheel content as a multiset: sorted by (message, time) (the real collection may be a list, a
heap, a map, …) -/
def sortPairs (l : List (Nat × Nat)) : List (Nat × Nat) := l.foldr insertPair []

def joinOr (l : List String) : String := if l.isEmpty then "-" else ",".intercalate l

def bit (b : Bool) : String := if b then "1" else "0"

/-- run, recording for each schedule entry whether it was enabled -/
def runBits (v : Variant) (s : St) : List Who → String → St × String
  | [], acc => (s, acc)
  | w :: ws, acc =>
    match step v s w with
    | some s' => runBits v s' ws (acc ++ "1")
    | none => runBits v s ws (acc ++ "0")

def showSt (s : St) (bits : String) : String :=
  let thr := joinOr (s.thr.map (fun t => kindStr t.kind ++ ":" ++ pcStr t.pc))
  -- the list is observable only while nobody is inside a critical section
  let slots := if s.mutex.isSome then "locked" else joinOr ((sortPairs (s.slots.map (fun x => (x.msg, x.time)))).map (fun x => s!"{x.1}@{x.2}"))
  let disp := joinOr (s.dispatched.map (fun d => s!"{d.1.msg}@{d.1.time}/{d.2}"))
  let broken := joinOr ((sortDedup s.broken).map toString)
  let removed := joinOr ((sortDedup s.removed).map toString)
  s!"en={if bits.isEmpty then "-" else bits} now={s.now} stopped={bit s.stopped} tick={tickStr s.tick} closer={closerStr s.closer} thr={thr} slots={slots} disp={disp} broken={broken} removed={removed} wg={s.wg} sem={s.semHeld} crashed={bit s.crashed}"

def handle : List String → String
  | ["run", v, cap, wc, prods, sched] =>
    match (if v == "f" then some Variant.fixed else if v == "u" then some Variant.unfixed else none),
          cap.toNat?, parseList parseProd prods, parseList parseWho sched with
    | some v, some cap, some prods, some sched =>
      if wc != "0" && wc != "1" then "bad-op" else
      let (s, bits) := runBits v (init cap prods (wc == "1")) sched ""
      showSt s bits
    | _, _, _, _ => "bad-op"
  | _ => "bad-op"

end Driver.C12
