import MaddyVerif.Model.Session
import Driver.Util
/-! Driver for C03: `s <S|L> <D|I> <T><partial>:<r0><r1><r2> [P<peer><host>.<limits>] <token>… [O:<seg>,<seg>…]` → replies,
(recipient tokens `R:…[:<form>]`, `R=`, `R+<form>`: alias families rewritten by the modifier, see `Fam`)
target logs, leaks, panics, permits out per scope; `t <S|L> <D|I> <a|i|s><order><rate> <k> <peer>` → the replies of
`k` sessions refused by an exhausted scope and the permits out. -/
namespace Driver.C03
open MaddyVerif.Session Driver

def clsOf : String → Option Cls
  | "t" => some .temp | "p" => some .perm | _ => none

def digit? (c : Char) : Option Nat :=
  if '0' ≤ c ∧ c ≤ '9' then some (c.toNat - '0'.toNat) else none

def mkindOf : String → Option MKind
  | "a" => some .ascii | "A" => some .upper | "n" => some .null | "x" => some .syntax
  | "u" => some .nonAscii | "8" => some .utf8 | "p" => some .param | "z" => some .size
  -- other sender domains (A-label, U-label): other keys of the source scope, the same session behaviour
  | "i" => some .ascii | "I" => some .utf8 | _ => none

def rvarOf : String → Option RVar
  | "a" => some .plain | "U" => some .upper | "x" => some .syntax | "u" => some .nonAscii
  -- other spellings of the same mailbox (harness: `c03Rcpt`): ASCII ones (mixed-case local part, upper-case /
  -- absolute domain, quoted local part, A-label of the domain's second name) behave like the plain address,
  -- the ones with non-ASCII characters (NFD, upper-case non-ASCII, U-label) need SMTPUTF8
  | "c" | "C" | "d" | "e" | "q" | "i" | "I" => some .plain
  | "n" | "k" | "j" | "J" => some .nonAscii
  | _ => none

def dkindOf : String → Option DKind
  | "o" => some .plain | "r" => some .loop | "h" => some .bigHeader | "t" => some .truncated
  | "a" => some .withArg | _ => none

def flagsOk (s allowed : String) : Bool :=
  s == "0" || (!s.isEmpty && s.toList.all (fun c => allowed.toList.contains c))

def has (s : String) (c : Char) : Bool := s != "0" && s.toList.contains c

def parseMail : List String → Option MailF
  | [k, c, fl, sca] => do
    let kind ← mkindOf k
    let cls ← clsOf c
    if !flagsOk fl "csiw" then none
    match sca.toList with
    | [s, cm, a] => do
      let s ← digit? s
      let cm ← digit? cm
      let a ← digit? a
      pure ⟨kind, cls, has fl 'c', has fl 's', has fl 'i', has fl 'w', s, cm, a⟩
    | _ => none
  | _ => none

def parseRcpt (uid : Nat) : List String → Option RcptF
  | [id, j, v, c, fl, m] => do
    let id ← id.toNat?
    let j ← j.toNat?
    let var ← rvarOf v
    let cls ← clsOf c
    if !flagsOk fl "cm" then none
    let mask ← m.toNat?
    pure ⟨uid, id, j, var, cls, has fl 'c', has fl 'm', mask⟩
  | _ => none

def parseData : List String → Option DataF
  | [k, c, fl, b, p] => do
    let kind ← dkindOf k
    let cls ← clsOf c
    if !flagsOk fl "cm" then none
    let bm ← b.toNat?
    let ids ← p.toList.mapM digit?
    pure ⟨kind, cls, has fl 'c', has fl 'm', bm, ids⟩
  | _ => none

/-- Alias forms of a recipient family (`R:…:<form>`, `R+<form>`): `0` the mailbox, `1` and `b` two aliases of it,
`2` an alias of alias `1`.  The harness's modifier rewrites `2 → 1 → 0` and `b → 0`, each step into the next of
the three routed domains: level = number of steps down to the mailbox. -/
def formLevel : Char → Nat
  | '1' => 1 | 'b' => 1 | '2' => 2 | _ => 0

def formIdx : Char → Nat
  | '1' => 1 | '2' => 2 | 'b' => 3 | _ => 0

def formOf (s : String) : Option Char :=
  match s.toList with
  | [c] => if c == '0' || c == '1' || c == '2' || c == 'b' then some c else none
  | _ => none

/-- the family of the address token right before the current one: fields of the `R:` token that opened it, its
token index (part of every address of the family), the domain of the mailbox -/
structure Fam where
  r : RcptF
  n : Nat
  baseJ : Nat

/-- a member of the family as the model sees it: `uid` is the RCPT TO argument (an address string of its own per
form), `dom` the domain of the EFFECTIVE address (the destination block is chosen after the rewriting), the
fault fields are those of the family (the rewriting keeps them) -/
def Fam.member (f : Fam) (form : Char) : RcptF :=
  let j := (f.baseJ + 3 - formLevel form) % 3
  { f.r with uid := f.n + 100 * formIdx form, dom := if form == '0' then j else (j + 1) % 3 }

/-- tokens left to right; `R=` repeats the address of the R token right before it (NOOP if there is none),
`R+<form>` is another member of the family of the address token right before it (NOOP if there is none) -/
def parseToks : List String → Nat → Option RcptF → Option Fam → Option (List Tok)
  | [], _, _, _ => some []
  | t :: ts, i, lastR, fam =>
    let t := if t.endsWith "~" then (t.dropEnd 1).toString else t
    let simple (k : Tok) : Option (List Tok) := (parseToks ts (i + 1) none none).map (k :: ·)
    match t with
    | "E" => simple .greet
    | "Eh" => simple .helo
    | "Ex" => simple .greetWrong
    | "Eb" => simple .greetNoArg
    | "N" => simple .noop
    | "S" => simple .rset
    | "Z" => simple .unknown
    | "V" => simple .vrfy
    | "Q" => simple .quit
    | "X" => simple .drop
    | "A:g" => simple .authGood
    | "A:b" => simple .authBad
    | "Bx" => simple .bdatNoArg
    | "Bl" => simple (.bdat true DataF.tail)
    | "R=" =>
      match lastR with
      | some r => (parseToks ts (i + 1) (some r) fam).map (Tok.rcpt r :: ·)
      | none => simple .noop
    | _ =>
      if t.startsWith "R+" then
        match formOf (t.drop 2).toString with
        | none => none
        | some form =>
          match fam with
          | some f =>
            let r := f.member form
            (parseToks ts (i + 1) (some r) fam).map (Tok.rcpt r :: ·)
          | none => simple .noop
      else
      match t.splitOn ":" with
      | "M" :: rest => do
        let m ← parseMail rest
        simple (.mail m)
      | "R" :: rest => do
        let (rest, form) ← (match rest with
          | [a, b, c, d, e, f, g] => (formOf g).map (fun fm => ([a, b, c, d, e, f], fm))
          | _ => some (rest, '0'))
        let r ← parseRcpt i rest
        if r.var = .syntax then (parseToks ts (i + 1) none none).map (Tok.rcpt r :: ·)
        else if r.dom ≥ 3 then
          -- a domain without a destination block: not rewritten
          let r := { r with uid := i + 100 * formIdx form }
          (parseToks ts (i + 1) (some r) none).map (Tok.rcpt r :: ·)
        else
          let f : Fam := ⟨r, i, (r.dom + formLevel form) % 3⟩
          let r := f.member form
          (parseToks ts (i + 1) (some r) (some f)).map (Tok.rcpt r :: ·)
      | "D" :: rest => do
        let d ← parseData rest
        simple (.data d)
      | "Bf" :: rest => do
        let d ← parseData rest
        simple (.bdat true d)
      | "Bp" :: rest => do
        let d ← parseData rest
        simple (.bdat false d)
      | _ => none

def parseOracle (s : String) : Option (List (List Nat)) :=
  if s == "O:-" then some [] else
  if !s.startsWith "O:" then none else
  ((s.drop 2).toString.splitOn ",").mapM (fun seg => seg.toList.mapM digit?)

def pm (b : Bool) : String := if b then "+" else "-"

def showEv : Ev → String
  | .rcpt _ id ok => s!"R{id}{pm ok}"
  | .body ok => s!"B{pm ok}"
  | .bodyNA st => "N(" ++ ",".intercalate (st.map (fun p => s!"{p.2.1}={if p.2.2 then 1 else 0}")) ++ ")"
  | .commit ok => s!"C{pm ok}"
  | .abort ok => s!"A{pm ok}"

def showDel (d : TDel) : String := "[" ++ ";".intercalate (d.evs.map showEv) ++ "]"

def showOut : Out → String
  | .codes [] => "x"
  | .codes l => "/".intercalate (l.map toString)
  | .skipped => "-"

/-- the scopes (all, ip, source) configured by the limits block with the given index (harness: `c03LimCfgs`) -/
def limScopes : Nat → Option (Bool × Bool × Bool)
  | 0 | 1 | 2 | 5 => some (true, true, true)
  | 3 => some (false, true, false)
  | 4 => some (true, false, true)
  | _ => none

/-- `P<kind><host>.<limits>`: the peer address shown to the server does not change what the model does (the
key of the `ip` scope is the same when the permit is taken and when it is released); the limits block says
which scopes exist -/
def parsePeer (t : String) : Option (Bool × Bool × Bool) :=
  match t.toList with
  | ['P', k, h, '.', l] =>
    if !("l4m6zu".toList.contains k) then none else
    match digit? h, digit? l with
    | some h, some l => if h > 3 || (k == 'l' && h != 0) then none else limScopes l
    | _, _ => none
  | _ => none

def scopeOf : Char → Option Scope
  | 'a' => some .all | 'i' => some .ip | 's' => some .source | _ => none

def handleT : List String → String
  | [p, m, lim, k, peer] =>
    match lim.toList, k.toNat?, peer.toList with
    | [sc, o, r], some k, [pk, ph] =>
      match scopeOf sc, digit? ph with
      | some tight, some ph =>
        if (p != "S" && p != "L") || (m != "D" && m != "I") || (o != '0' && o != '1') || (r != '0' && r != '1')
            || k < 1 || k > 4 || ph > 3 || !("4m6zu".toList.contains pk) then "bad-op" else
        let has : Scope → Bool := fun _ => true
        -- the session that keeps its transaction open was granted every scope
        let (h1, _) := takeMsg has (fun _ => true) {}
        let (codes, h2) := contend has tight k h1
        -- the end: every session that holds a permit returns it
        let h3 := (codes.filter (· == 250)).foldl (fun h _ => releaseMsg has h) (releaseMsg has h2)
        " ".intercalate (codes.map toString) ++ s!" | held={h2.all},{h2.ip},{h2.source} | end={h3.all},{h3.ip},{h3.source}"
      | _, _ => "bad-op"
    | _, _, _ => "bad-op"
  | _ => "bad-op"


/-- the scopes with a concurrency limiter per limits block (harness: `c03LimCfgs`): all, ip, source -/
def limScopesB : Nat → Option (Bool × Bool × Bool)
  | 0 | 1 | 2 | 5 => some (true, true, true)
  | 3 => some (false, true, false)
  | 4 => some (true, false, true)
  | _ => none

def bReap : Nat := 10

def showB (tok code : String) (s : BSt) : String :=
  s!"{tok}={code}:{if s.hasAll then s.glob else 0},{s.ip.held},{s.src.held};{s.ip.m.length},{s.src.m.length}"

def codeStr (c : Nat) : String := if c == 0 then "-" else toString c

/-- `f<n>`: n sessions in a row with fresh keys, each MAIL (+RCPT), RSET, QUIT -/
def floodB : Nat → Nat → BSt → List String → BSt × Nat × List String
  | 0, fresh, s, acc => (s, fresh, acc.reverse)
  | n + 1, fresh, s, acc =>
    let k := 100 + fresh + 1
    let (s1, c) := s.step (.opn (1000 + k) k k)
    let (s2, _) := s1.step (.cls (1000 + k) false true)
    floodB n (fresh + 1) s2 (codeStr c :: acc)

def stepsB : List String → Nat → BSt → Option (List String)
  | [], _, s => some [s!"| panics={s.panics}"]
  | t :: ts, fresh, s =>
    let next (o : String) (s1 : BSt) (fr : Nat) : Option (List String) := (stepsB ts fr s1).map (o :: ·)
    if t == "a" then let s1 := (s.step (.adv 15)).1; next (showB t "-" s1) s1 fresh
    else if t == "h" then let s1 := (s.step (.adv 3)).1; next (showB t "-" s1) s1 fresh
    else if t.startsWith "f" then
      match (t.drop 1).toString.toNat? with
      | some n =>
        let (s1, fr, codes) := floodB n fresh s []
        next (showB t (if codes.isEmpty then "-" else "/".intercalate codes) s1) s1 fr
      | none => none
    else if t.startsWith "o" then
      match ((t.drop 1).toString.splitOn ":").mapM String.toNat? with
      | some [i, ip, dom] =>
        if i ≥ 1000 || s.connected i then none else
        let (s1, c) := s.step (.opn i ip dom)
        next (showB t (codeStr c) s1) s1 fresh
      | _ => none
    else if t.startsWith "c" then
      match (t.drop 1).toString.splitOn ":" with
      | [i, how] =>
        match i.toNat? with
        | some i =>
          if how != "d" && how != "r" && how != "q" && how != "x" then none else
          let (s1, c) := s.step (.cls i (how == "d") (how == "r"))
          next (showB t (codeStr c) s1) s1 fresh
        | none => none
      | _ => none
    else none

def handleB : List String → String
  | p :: m :: lim :: maxB :: steps =>
    match lim.toNat?, maxB.toNat? with
    | some lim, some maxB =>
      match limScopesB lim with
      | some (hasAll, hasIp, hasSrc) =>
        if (p != "S" && p != "L") || (m != "D" && m != "I") || maxB < 1 || steps.isEmpty then "bad-op" else
        let s0 : BSt := { hasAll := hasAll, ip := { on := hasIp, maxB := maxB, reap := bReap }, src := { on := hasSrc, maxB := maxB, reap := bReap } }
        match stepsB steps 0 s0 with
        | some outs =>
          -- the end: whatever is still connected goes away
          " ".intercalate outs
        | none => "bad-op"
      | none => "bad-op"
    | _, _ => "bad-op"
  | _ => "bad-op"

/-! `x <S|L> <D|I> <T><partial>:<r0><r1><r2> G=<tab> S=<tab> D=<tab> <token>… [O:…]`: sessions whose recipients stand
for several effective addresses (`X<k><j>` = RCPT TO the address with id `k` in domain `j`). -/

def parseXA (s : String) : Option XA :=
  match s.toList with
  | [k, j] => do
    let k ← digit? k
    let j ← digit? j
    if k > 7 || j > 3 then none else pure (k, j)
  | _ => none

def parseXTab (s : String) : Option XTab :=
  if s == "-" then some [] else
  (s.splitOn ",").mapM (fun ent =>
    match ent.splitOn ">" with
    | [k, vs] => do
      let k ← parseXA k
      let vs ← if vs == "" then some [] else (vs.splitOn "+").mapM parseXA
      pure (k, vs)
    | _ => none)

def parseXToks : List String → Nat → Option (List XTok)
  | [], _ => some []
  | t :: ts, i =>
    if t.startsWith "X" then do
      let a ← parseXA (t.drop 1).toString
      let rest ← parseXToks ts (i + 1)
      pure (XTok.rcpt ⟨1000 + a.1 * 4 + a.2, a.1, a.2, .plain, .perm, false, false, xMask a.1⟩ a :: rest)
    else
      match parseToks [t] i none none with
      | some [k] => (parseXToks ts (i + 1)).map (XTok.plain k :: ·)
      | _ => none

def handleX : List String → String
  | p :: m :: cfgS :: gS :: sS :: dS :: rest =>
    match cfgS.toList with
    | [t, pmk, ':', r0, r1, r2] =>
      match digit? t, digit? pmk, digit? r0, digit? r1, digit? r2 with
      | some nT, some pmask, some r0, some r1, some r2 =>
        if (p != "S" && p != "L") || (m != "D" && m != "I") || nT < 1 || nT > 3
            || !gS.startsWith "G=" || !sS.startsWith "S=" || !dS.startsWith "D=" then "bad-op" else
        let (toksS, orS) := match rest.reverse with
          | last :: init => if last.startsWith "O:" then (init.reverse, last) else (rest, "O:-")
          | [] => ([], "O:-")
        match parseXTab (gS.drop 2).toString, parseXTab (sS.drop 2).toString, parseXTab (dS.drop 2).toString,
            parseXToks toksS 0, parseOracle orS with
        | some g, some s, some d, some toks, some oracle =>
          let routes : Nat → Nat := fun j => if j == 0 then r0 else if j == 1 then r1 else if j == 2 then r2 else 0
          let cfg : Cfg := ⟨p == "L", m == "D", nT, pmask, routes⟩
          let (st, outs) := xRun cfg g s d { w := { oracle := oracle } } toks
          let tg := (List.range nT).map (fun k =>
            s!"t{k}:" ++ String.join ((st.w.log.filter (fun d => d.tgt == k)).map showDel))
          " ".intercalate (outs.map showOut) ++ " | " ++ " ".intercalate tg ++ s!" | panics={st.w.panics}"
        | _, _, _, _, _ => "bad-op"
      | _, _, _, _, _ => "bad-op"
    | _ => "bad-op"
  | _ => "bad-op"

def handle : List String → String
  | "t" :: rest => handleT rest
  | "b" :: rest => handleB rest
  | "x" :: rest => handleX rest
  | "s" :: p :: m :: cfgS :: rest0 =>
    let (scopes, rest) : Option (Bool × Bool × Bool) × List String := match rest0 with
      | t :: ts => if t.startsWith "P" then (parsePeer t, ts) else (some (true, true, true), rest0)
      | [] => (some (true, true, true), rest0)
    match scopes with
    | none => "bad-op"
    | some (hasAll, hasIp, hasSrc) =>
    match cfgS.toList with
    | [t, pmk, ':', r0, r1, r2] =>
      match digit? t, digit? pmk, digit? r0, digit? r1, digit? r2 with
      | some nT, some pmask, some r0, some r1, some r2 =>
        if (p != "S" && p != "L") || (m != "D" && m != "I") || nT < 1 || nT > 3 then "bad-op" else
        let (toksS, orS) := match rest.reverse with
          | last :: init => if last.startsWith "O:" then (init.reverse, last) else (rest, "O:-")
          | [] => ([], "O:-")
        match parseToks toksS 0 none none, parseOracle orS with
        | some toks, some oracle =>
          let routes : Nat → Nat := fun j => if j == 0 then r0 else if j == 1 then r1 else if j == 2 then r2 else 0
          let cfg : Cfg := ⟨p == "L", m == "D", nT, pmask, routes⟩
          let (st, outs) := run cfg { w := { oracle := oracle } } toks
          let tg := (List.range nT).map (fun k =>
            s!"t{k}:" ++ String.join ((st.w.log.filter (fun d => d.tgt == k)).map showDel))
          " ".intercalate (outs.map showOut) ++ " | " ++ " ".intercalate tg ++
            s!" | leak={st.w.heldSrc},{st.w.heldNull} | panics={st.w.panics}" ++
            s!" | held={if hasAll then st.w.heldTotal else 0},{if hasIp then st.w.heldTotal else 0},{if hasSrc then st.w.heldTotal else 0}"
        | _, _ => "bad-op"
      | _, _, _, _, _ => "bad-op"
    | _ => "bad-op"
  | _ => "bad-op"

end Driver.C03
