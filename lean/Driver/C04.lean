import MaddyVerif.Model.Routing
import Driver.Util
/-! C04 driver: `case <depth> [P <n> <string>…] <configuration tree> | <envelopes> | <normalisation tables>`
(token grammar: see harness/internal/msgpipeline/zz_verif_c04_test.go, `c04Encode`).
A string is `#<index into the pool>`, `$<hex runes>` or bare hex runes. -/
namespace Driver.C04
open MaddyVerif.Routing MaddyVerif.Address Driver

abbrev P := ReaderT (Array Str) (StateT (List String) Option)

def tok : P String := do
  match (← get) with
  | [] => failure
  | t :: r => set r; pure t

def peek : P String := do
  match (← get) with
  | [] => failure
  | t :: _ => pure t

def num : P Nat := do
  match (← tok).toNat? with
  | some n => pure n
  | none => failure

def rep {α} (p : P α) : Nat → P (List α)
  | 0 => pure []
  | n + 1 => do
    let a ← p
    let r ← rep p n
    pure (a :: r)

def counted {α} (p : P α) : P (List α) := do rep p (← num)

def str : P Str := do
  let t ← tok
  if t.startsWith "#" then
    match (t.drop 1).toNat? with
    | some i =>
      match (← read)[i]? with
      | some s => pure s
      | none => failure
    | none => failure
  else
    match unhexRunes? (if t.startsWith "$" then (t.drop 1).toString else t) with
    | some s => pure s
    | none => failure

def entryP : P (Str × List Str) := do
  let k ← str
  let vs ← counted str
  pure (k, vs)

def modP : P Modifier := do
  let k ← tok
  let es ← counted entryP
  match k with
  | "S" => pure ⟨.sender, es⟩
  | "R" => pure ⟨.rcpt, es⟩
  | _ => failure

def tblP : P (Option Table) := do
  match (← tok) with
  | "x" => pure none
  | "T" => do pure (some ⟨← counted str, 0⟩)
  | "TD" => do
    let d ← num
    pure (some ⟨← counted str, d⟩)
  | _ => failure

def itemP {ρ} (rr : P (Option ρ)) : P (Item ρ) := do
  let t ← tok
  match t with
  | "C1" => pure (.check true)
  | "C0" => pure (.check false)
  | "Mx" => pure (.modify none)
  | "M" => do pure (.modify (some (← counted modP)))
  | "D0" => pure (.deliverTo .noArgs)
  | "Dx" => pure (.deliverTo .unknown)
  | "D" => do pure (.deliverTo (.target (← num)))
  | "RR" => do pure (.reroute (← rr))
  | "RJx" => pure (.reject none)
  | "RJ" => do
    let c ← num
    let a ← num
    let b ← num
    let d ← num
    pure (.reject (if (c, a, b, d) == (554, 5, 7, 0) then parseReject [] else some ⟨c, a, b, d, defaultRejectMsg⟩))
  | "RJA" => do
    -- the arguments of the directive as configured ("-" = the empty string): the model reads them itself
    let args ← counted (do
      if (← peek) == "-" then
        let _ ← tok
        pure ([] : Str)
      else str)
    pure (.reject (parseReject args))
  | _ => if t.startsWith "X" then pure .other else failure

def srcNodeP {ρ} (rr : P (Option ρ)) : P (SrcN ρ) := do
  match (← peek) with
  | "TI" => do
    let _ ← tok
    let t ← tblP
    pure (.tbl t (← counted (itemP rr)))
  | "RU" => do
    let _ ← tok
    let rs ← counted str
    pure (.rules rs (← counted (itemP rr)))
  | "DF" => do
    let _ ← tok
    pure (.dflt (← counted (itemP rr)))
  | _ => do pure (.sub (← itemP rr))

def rootNodeP {ρ} (rr : P (Option ρ)) : P (RootN ρ) := do
  match (← peek) with
  | "SI" => do
    let _ ← tok
    let t ← tblP
    pure (.tbl t (← counted (srcNodeP rr)))
  | "SR" => do
    let _ ← tok
    let rs ← counted str
    pure (.rules rs (← counted (srcNodeP rr)))
  | "SD" => do
    let _ ← tok
    pure (.dflt (← counted (srcNodeP rr)))
  | _ => do pure (.sub (← srcNodeP rr))

/-- a configuration of nesting depth ≤ n; deeper `reroute` bodies make the op ill-formed -/
def astP : (n : Nat) → P (Ast n)
  | 0 => counted (rootNodeP (ρ := Empty) (do
      if (← tok) == "0" then pure none else failure))
  | n + 1 => counted (rootNodeP (ρ := Ast n) (do
      if (← peek) == "0" then
        let _ ← tok
        pure none
      else
        pure (some (← astP n))))

def envP : P (Str × List Str) := do
  let t ← tok
  if t != "E" && t != "V" then failure
  let s ← str
  let rs ← counted str
  pure (s, rs)

structure Tabs where
  k : List (Str × Option Str) := []
  d : List (Str × Option Str) := []
  v : List Str := []
  a : List Str := []

def optStrP : P (Option Str) := do
  if (← peek) == "!" then
    let _ ← tok
    pure none
  else
    pure (some (← str))

def atEnd : P Bool := do pure (← get).isEmpty

/-- the normalisation tables: the rest of the line (`fuel` bounds the number of entries) -/
def tabsP : Nat → Tabs → P Tabs
  | 0, t => do if (← atEnd) then pure t else failure
  | fuel + 1, t => do
    if (← atEnd) then pure t else
    match (← tok) with
    | "k" => do
      let i ← str
      let o ← optStrP
      tabsP fuel { t with k := (i, o) :: t.k }
    | "d" => do
      let i ← str
      let o ← optStrP
      tabsP fuel { t with d := (i, o) :: t.d }
    | "v" => do tabsP fuel { t with v := (← str) :: t.v }
    | "a" => do tabsP fuel { t with a := (← str) :: t.a }
    | _ => failure

def find (l : List (Str × Option Str)) (a : Str) : Option Str :=
  match l.find? (fun p => p.1 == a) with
  | some p => p.2
  | none => none

def Tabs.norm (t : Tabs) : Norm where
  key := find t.k
  dkey := find t.d
  validRule := fun a => t.v.contains a
  validAddr := fun a => t.a.contains a

def lvl : Lvl → String
  | .src => "src"
  | .dst => "dst"

def showLoadErr : LoadErr → String
  | .unknownDirective => "unknownDirective"
  | .moduleErr => "moduleErr"
  | .emptyLevel l => "emptyLevel." ++ lvl l
  | .handlingWithRules l => "handlingWithRules." ++ lvl l
  | .missingDefault l => "missingDefault." ++ lvl l
  | .dupDefault l => "dupDefault." ++ lvl l
  | .noRule l => "noRule." ++ lvl l
  | .invalidRule l => "invalidRule." ++ lvl l
  | .rejectAndDeliver => "rejectAndDeliver"
  | .deliverNoArgs => "deliverNoArgs"
  | .emptyReroute => "emptyReroute"
  | .badReject => "badReject"
  | .noDecision => "noDecision"

def showRefusal : Refusal → String
  | .reply r => s!"{r.code}/{r.e0}.{r.e1}.{r.e2}" ++
      (if r.msg.isEmpty || r.msg == defaultRejectMsg then "" else "/" ++ hexRunes r.msg)
  | .malformed => "malformed"
  | .badReplacement => "badrepl"
  | .panic => "panic"

def showDelivs (ds : List Deliv) : String :=
  "[" ++ ";".intercalate (ds.map fun d => s!"{d.tgt},{hexRunes d.sender},{hexRunes d.rcpt}") ++ "]"

def showOut (o : Out) : String :=
  (match o.2 with
   | none => "ok"
   | some e => showRefusal e) ++ showDelivs o.1

def runCase (N : Norm) (n : Nat) (a : Ast n) (envs : List (Str × List Str)) : String :=
  match load N n a with
  | .error e => "L:" ++ showLoadErr e
  | .ok c =>
    "L:ok" ++ String.join (envs.map fun (s, rs) =>
      match mailRefusal N n c s with
      | some e => " | M:" ++ showRefusal e
      | none => " | M:ok" ++ String.join (rs.map fun r => " R:" ++ showOut (route N n c s r)))

def parseCase (n : Nat) : P (Ast n × List (Str × List Str) × Tabs) := do
  let a ← astP n
  if (← tok) != "|" then failure
  let envs ← counted envP
  if (← tok) != "|" then failure
  let fuel := (← get).length
  let t ← tabsP fuel {}
  pure (a, envs, t)

/-- `P <n> <hex>…` (optional) -/
def poolP : List String → Option (Array Str × List String)
  | "P" :: n :: rest => do
    let n ← n.toNat?
    if rest.length < n then none else
    let strs ← (rest.take n).mapM unhexRunes?
    pure (strs.toArray, rest.drop n)
  | rest => some (#[], rest)

def handle (toks : List String) : String :=
  match toks with
  | "case" :: d :: rest =>
    match d.toNat? with
    | none => "bad-op"
    | some n =>
      if n > 8 then "bad-op" else
      match poolP rest with
      | none => "bad-op"
      | some (pool, rest) =>
        match ((parseCase n).run pool).run rest with
        | none => "bad-op"
        | some ((a, envs, t), _) => runCase t.norm n a envs
  | _ => "bad-op"

end Driver.C04
