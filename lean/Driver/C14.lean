import MaddyVerif.Model.Auth
import MaddyVerif.Expect.AuthSkel
import Driver.Util
/-!
Line protocol of C14.

`hist L<0|1> A:<nil|name of the AuthNormalize function> M:<nil|description of the AuthMap table> <op>… | <row>…`
  (of the AuthMap the model only needs to know whether it is nil; the rest is for replay on the Go side)
  an optional token `P:<n>` in front of the ops: the logins of this history run with runtime.GOMAXPROCS(n) (0 = unchanged)
  ops:  `c:<u>:<p>:<spec>` spec = `b` | `b,<cost>` | `a` | `a,<time>,<memory>,<threads>` | `s` | `x` (HashOpts of the CreateUserHash call;
        `b` = cost 4, `a` = 1,8,1)  `h:<u>:<p>:<spec>` a row computed by another implementation of the documented format is written for
        the account (spec not `x`)  `s:<u>:<p>`  `d:<u>`  `p:<authzid>:<u>:<p>`  `l:<u>:<p>`  `t:<u>:<p>`
        (names: hex code points, passwords: hex bytes)
        overlapping logins: `B<i>:p:<authzid>:<u>:<p>` `B<i>:l:<u>:<p>` `B<i>:t:<u>:<p>` (or `G<i>:…`) login i starts and reads its row (answer `-`),
        `E<i>` login i finishes (answer: its verdict), `R<i>` scheduling hint of the harness (answer `-`)
  rows: `n:<in>:<out|!>` UsernameCaseMapped.CompareKey  `q:` UsernameCasePreserved.CompareKey  `f:` address.PRECISFold
        `g:` address.PRECIS  `w:<in>:<out>` strings.ToLower  `v:<in>:<0|1>` address.Valid  `m:<in>:<out|!>` AuthMap.Lookup
        (the AuthNormalize function named by `A:` is composed from these by the model: Model/Auth.lean `normalizeFunc`)
  answer: one token per op — `ok` `e-algo` `e-name` `e-exists` `e-hash` `panic` | `ok=<identity>` `fail` `unsup`
  A query that is not in the shipped tables makes the answer `MISSING` (a divergence, never a default).

`skel <fact>`  answer: the expected shape of the named piece of Go source (Expect/AuthSkel.lean).

`gate <required 0|1> L<0|1> <user>:<password> <cmd>…`
  cmds: `E N S M R D` (EHLO NOOP RSET MAIL RCPT DATA+body), `Ap:<authzid>:<u>:<p>` (AUTH PLAIN), `Al:<u>:<p>` (AUTH LOGIN),
  `Ax` (AUTH with an unknown mechanism); the outcome of each SASL exchange is computed by the credential model
  for an endpoint whose only account is <user>/<password>.   answer: reply codes.
  Every cmd may carry a suffix `/r` `/t` `/x`: what the endpoint's early (connection-level) check answers if it is run
  while the command is processed (rejection 550 / temporary failure 451 / error without SMTP annotations 554; no suffix:
  it passes).  In the model only the greeting that gives the connection its session consults it.
-/
namespace Driver.C14
open MaddyVerif.Auth Driver

structure Tabs where
  n : List (Name × Option Name) := []   -- precis.UsernameCaseMapped.CompareKey
  q : List (Name × Option Name) := []   -- precis.UsernameCasePreserved.CompareKey
  f : List (Name × Option Name) := []   -- address.PRECISFold
  g : List (Name × Option Name) := []   -- address.PRECIS
  w : List (Name × Option Name) := []   -- strings.ToLower (never `!`)
  v : List (Name × Bool) := []          -- address.Valid
  m : List (Name × Option Name) := []   -- AuthMap.Lookup

/-- marker name returned for a query missing from the tables -/
def missing : Name := [0x10FFFF, 77]

def look (t : List (Name × Option Name)) (k : Name) : Option Name :=
  match t.find? (fun p => p.1 == k) with
  | some p => p.2
  | none => some missing

def parseOut (s : String) : Option (Option Name) :=
  if s == "!" then some none else (unhexRunes? s).map some

def parseRow (t : Tabs) (tok : String) : Option Tabs :=
  match tok.splitOn ":" with
  | ["n", i, o] => do pure { t with n := (← unhexRunes? i, ← parseOut o) :: t.n }
  | ["q", i, o] => do pure { t with q := (← unhexRunes? i, ← parseOut o) :: t.q }
  | ["f", i, o] => do pure { t with f := (← unhexRunes? i, ← parseOut o) :: t.f }
  | ["g", i, o] => do pure { t with g := (← unhexRunes? i, ← parseOut o) :: t.g }
  | ["w", i, o] => do pure { t with w := (← unhexRunes? i, some (← unhexRunes? o)) :: t.w }
  | ["v", i, "0"] => do pure { t with v := (← unhexRunes? i, false) :: t.v }
  | ["v", i, "1"] => do pure { t with v := (← unhexRunes? i, true) :: t.v }
  | ["m", i, o] => do pure { t with m := (← unhexRunes? i, ← parseOut o) :: t.m }
  | _ => none

/-- the library primitives as shipped on the op line (values computed by the real library functions). -/
def prims (t : Tabs) : NormPrims :=
  { ucm := look t.n, ucp := look t.q, emailFold := look t.f, emailPres := look t.g,
    lower := fun u => (look t.w u).getD missing,
    validEmail := fun u => match t.v.find? (fun p => p.1 == u) with | some p => p.2 | none => false }

def parseKind (a : String) : Option (Option NormKind) :=
  match a with
  | "A:nil" => some none
  | "A:auto" => some (some .auto)
  | "A:precis_casefold_email" => some (some .precisCasefoldEmail)
  | "A:precis_casefold" => some (some .precisCasefold)
  | "A:precis_email" => some (some .precisEmail)
  | "A:precis" => some (some .precis)
  | "A:casefold" => some (some .casefold)
  | "A:noop" => some (some .noop)
  | _ => none

def natIn (s : String) (bound : Nat) : Option Nat :=
  match s.toNat? with
  | some n => if n < bound then some n else none
  | none => none

/-- `<spec>` of a create / put op: scheme (`none` = unknown algorithm) and the `HashOpts` of the call. -/
def parseSpec (s : String) : Option (Option Scheme × HashOpts) :=
  match s.splitOn "," with
  | ["b"] => some (some .bcrypt, {})
  | ["b", c] => do pure (some .bcrypt, { bcryptCost := ← natIn c 2147483648 })
  | ["a"] => some (some .argon2, {})
  | ["a", t, m, th] => do
    pure (some .argon2, { argonTime := ← natIn t 4294967296, argonMemory := ← natIn m 4294967296, argonThreads := ← natIn th 256 })
  | ["s"] => some (some .sha256, {})
  | ["x"] => some (none, {})
  | _ => none

/-- the salt of the row written by the `i`-th op (any value: the verdicts do not depend on it) -/
def parseOp (i : Nat) (tok : String) : Option COp :=
  match tok.splitOn ":" with
  | ["c", u, p, s] => do
    let (sch, o) ← parseSpec s
    pure (.create (← unhexRunes? u) (← unhexBytes? p) sch o [i])
  | ["h", u, p, s] => do
    let (sch, o) ← parseSpec s
    pure (.put (← unhexRunes? u) (← unhexBytes? p) (← sch) o [i])
  | ["s", u, p] => do pure (.setPw (← unhexRunes? u) (← unhexBytes? p) [i])
  | ["d", u] => do pure (.delete (← unhexRunes? u))
  | ["p", a, u, p] => do pure (.plain (← unhexRunes? a) (← unhexRunes? u) (← unhexBytes? p))
  | ["l", u, p] => do pure (.login (← unhexRunes? u) (← unhexBytes? p))
  | ["t", u, p] => do pure (.direct (← unhexRunes? u) (← unhexBytes? p))
  | _ => none

def parseId (s : String) : Option Nat := (s.drop 1).toNat?

/-- `B<i>:<login op>` / `G<i>:<login op>` login i starts and reads its row (the harness then holds it at its hash
verification / right after the read); `E<i>` it finishes; `R<i>` scheduling hint; anything else is an atomic operation. -/
def parseEv (idx : Nat) (tok : String) : Option CEv :=
  if tok.startsWith "B" || tok.startsWith "G" then
    match tok.splitOn ":" with
    | b :: "p" :: rest => do
      let i ← parseId b
      match rest with
      | [a, u, p] => pure (.fetch i (.plain (← unhexRunes? a) (← unhexRunes? u) (← unhexBytes? p)))
      | _ => none
    | [b, "l", u, p] => do pure (.fetch (← parseId b) (.login (← unhexRunes? u) (← unhexBytes? p)))
    | [b, "t", u, p] => do pure (.fetch (← parseId b) (.direct (← unhexRunes? u) (← unhexBytes? p)))
    | _ => none
  else if tok.startsWith "E" then (parseId tok).map .finish
  else if tok.startsWith "R" then (parseId tok).map (fun _ => .yield)
  else (parseOp idx tok).map .op

def showMgmt : MgmtRes → String
  | .ok => "ok" | .errAlgo => "e-algo" | .errName => "e-name" | .errExists => "e-exists" | .errHash => "e-hash"

def showOut : Out → String
  | .mgmt r => showMgmt r
  | .auth (.ok i) => "ok=" ++ hexRunes i
  | .auth .fail => "fail"
  | .auth .unsupported => "unsup"
  | .direct true => "ok"
  | .direct false => "fail"

def showEvOut : CEvOut → String
  | .out (.out o) => showOut o
  | .out .panic => "panic"
  | .begun => "-"
  | .noLogin => "no-login"

def splitBar (toks : List String) : List String × List String :=
  (toks.takeWhile (· ≠ "|"), (toks.dropWhile (· ≠ "|")).drop 1)

/-- the names an event consults (as an abstract op on the same name) -/
def probe : COp → Op
  | .create u _ _ _ _ | .setPw u _ _ | .put u _ _ _ _ | .delete u => .delete u
  | .plain a u p => .plain a u p
  | .login u p => .login u p
  | .direct u p => .direct u p

def evOp : CEv → Option Op
  | .op o => some (probe o)
  | .fetch _ o => some (probe o)
  | _ => none

/-- did the run consult a missing table entry?  The marker can only surface through an identity or by
making a lookup fail, so the tables are checked for completeness up front instead. -/
def needed (c : Cfg) (vKnown : Name → Bool) (ops : List Op) : List (Option Name) :=
  ops.flatMap fun op =>
    let auth (u : Name) : List (Option Name) :=
      let n := match c.anorm with | none => some u | some f => f u
      let m := match n, c.amap with
        | some n, some m => m n
        | some n, none => some n
        | none, _ => none
      [if vKnown u then none else some missing, n, m, m.bind c.norm]
    match op with
    | .create u _ _ | .setPw u _ | .delete u | .direct u _ => [c.norm u]
    | .plain _ u _ | .login u _ => auth u

def handleHist (l a m : String) (rest : List String) : String :=
  let (procsTok, rest) := match rest with
    | t :: r => if t.startsWith "P:" then (t.drop 2, r) else ("0", rest)
    | [] => ("0", rest)
  let (opToks, rowToks) := splitBar rest
  match opToks.zipIdx.mapM (fun (tok, i) => parseEv i tok), rowToks.foldlM parseRow ({} : Tabs), parseKind a, procsTok.toNat? with
  | some evs, some tabs, some kind, some procs =>
    let c : Cfg := Cfg.ofConfig (prims tabs) kind (if m == "M:nil" then none else some (look tabs.m)) (l == "L1")
    let vKnown : Name → Bool := fun u => kind != some .auto || tabs.v.any (fun p => p.1 == u)
    if (needed c vKnown (evs.filterMap evOp)).any (· == some missing) then "MISSING"
    else " ".intercalate ((crunEv c procs ⟨CTbl.empty, []⟩ evs).map showEvOut)
  | _, _, _, _ => "bad-op"

/-- the endpoint of the gate harness: one account `u` with password `p`, compared verbatim
(no AuthNormalize, no AuthMap), LOGIN enabled or not. -/
def gateCfg (login : Bool) : Cfg :=
  { norm := some, anorm := none, amap := none, loginEnabled := login }

def gateTbl (u : Name) (p : Pw) : Tbl := Tbl.empty.set u (.sha256, p)

/-- the reply code `wrapErr` gives the error of the scripted early check: `r` an `exterrors.SMTPError` with code 550,
`t` one with code 451, `x` an error without SMTP annotations (554 "Internal server error") -/
def earlyVerdict? : String → Option EarlyVerdict
  | "" => some none | "r" => some (some 550) | "t" => some (some 451) | "x" => some (some 554)
  | _ => none

def parseCmd (c : Cfg) (t : Tbl) (tok0 : String) : Option Cmd :=
  -- `<cmd>/<v>`: the verdict of the early checks while the command is processed; only a greeting consults them
  let (tok, vs) := match tok0.splitOn "/" with
    | [a, b] => (a, b)
    | _ => (tok0, "")
  match earlyVerdict? vs with
  | none => none
  | some v =>
  match tok with
  | "E" => some (.ehlo v) | "N" => some .noop | "S" => some .rset
  | "M" => some .mail | "R" => some .rcpt | "D" => some .data
  | "Ax" => some (.auth .unsupported)
  | _ =>
    match tok.splitOn ":" with
    | ["Ap", a, u, p] => do pure (.auth (plain c t (← unhexRunes? a) (← unhexRunes? u) (← unhexBytes? p)))
    -- the gate harness sends AUTH LOGIN without initial response: the exchange goes through the model of the LOGIN server
    | ["Al", u, p] => do pure (.auth (loginVia c t false (← unhexRunes? u) (← unhexBytes? p)))
    | _ => none

def handle : List String → String
  | "hist" :: l :: a :: m :: rest =>
    if (l == "L0" || l == "L1") && a.startsWith "A:" && m.startsWith "M:" then handleHist l a m rest
    else "bad-op"
  | "gate" :: req :: l :: cred :: cmds =>
    if (req != "0" && req != "1") || (l != "L0" && l != "L1") then "bad-op" else
    match cred.splitOn ":" with
    | [u, p] =>
      match unhexRunes? u, unhexBytes? p with
      | some u, some p =>
        match cmds.mapM (parseCmd (gateCfg (l == "L1")) (gateTbl u p)) with
        | some cs => " ".intercalate ((connRun (req == "1") {} cs).map toString)
        | none => "bad-op"
      | _, _ => "bad-op"
    | _ => "bad-op"
  | ["skel", name] => (MaddyVerif.Expect.AuthSkel.lookup name).getD "bad-op"
  | _ => "bad-op"

end Driver.C14
