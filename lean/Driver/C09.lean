import MaddyVerif.Model.StatusKeys
import Driver.Util
namespace Driver.C09
open MaddyVerif.StatusKeys Driver

/-- What the driver keeps per recipient next to the model's `Rcpt`: the mailbox number (several
recipients may be spellings of one mailbox), the domain number and whether the domain is the
internationalised one. -/
structure RcptInfo where
  id : Nat
  mbox : Nat
  dnum : Nat
  idn : Bool
  /-- the domain is given in absolute form (root dot) -/
  abs : Bool := false

/-- spelling forms: (non-ASCII, convertible, spelling class of the domain = connection key, IDN domain)
a `u1@d0.example`  u `U1@D0.EXAMPLE`  i `u1@пример0.example`  x its A-label spelling  I `U1@пример0.example`
U `U1@d0.example`  X `U1@XN--….EXAMPLE`  l `ю1@d0.example`  c/d `é1@d0.example` composed/decomposed  C `É1@d0.example`
L `ю1@пример0.example`  z `ю1@xn--….example` (non-ASCII local part on the connections of i / x)
t `u1@d0.example.`  T `U1@D0.EXAMPLE.`  j `u1@пример0.example.`  y `u1@xn--….example.` (absolute domain: the root dot is part of
the domain as spelled — a connection key of its own — and stays in the address on the wire and in the status key) -/
def formInfo : String → Option (Bool × Bool × Nat × Bool)
  | "a" => some (false, false, 0, false)
  | "u" => some (false, false, 1, false)
  | "U" => some (false, false, 0, false)
  | "i" => some (true, true, 2, true)
  | "I" => some (true, true, 2, true)
  | "x" => some (false, false, 3, true)
  | "X" => some (false, false, 4, true)
  | "l" => some (true, false, 0, false)
  | "c" => some (true, false, 0, false)
  | "d" => some (true, false, 0, false)
  | "C" => some (true, false, 0, false)
  | "L" => some (true, false, 2, true)
  | "z" => some (true, false, 3, true)
  | "t" => some (false, false, 5, false)
  | "T" => some (false, false, 6, false)
  | "j" => some (true, true, 7, true)
  | "y" => some (false, false, 8, true)
  | _ => none

def parseRcpt (s : String) : Option (Rcpt × RcptInfo) := do
  let (id, dom, form, act, mbox) ← match s.splitOn "." with
    | [id, dom, form, act] => some (id, dom, form, act, id)
    | [id, dom, form, act, mbox] => some (id, dom, form, act, mbox)
    | _ => none
  let id ← id.toNat?
  let dom ← dom.toNat?
  let mbox ← mbox.toNat?
  let (na, cv, cls, idn) ← formInfo form
  let (acc, fault) ← match act with
    | "1" => some (true, false) | "0" => some (false, false) | "t" => some (false, false)
    | "4" => some (false, true) | "c" => some (false, true) | "r" => some (false, true) | "s" => some (false, true)
    | _ => none
  pure (⟨id, dom * 16 + cls, na, cv, acc, fault⟩, ⟨id, mbox, dom, idn, cls ≥ 5⟩)

/-- tx = `<rcpt>,<rcpt>,...:<df>[:<buf>[:<oracle>]]`; df = `0` no DATA failure, `1` DATA fails everywhere,
`d<digits>` DATA fails for the listed domain numbers; buf = `-` | `o<k>` (the message buffer can be opened k
times, then `Open` fails) | `m<k>` (the reader handed out by the k-th `Open` fails mid-way) | `q` (the message is
quarantined after the recipients were added); oracle = the connection keys (`+`-separated, `-` = none) whose
goroutine met the failing `Open` / got the failing reader — decided by the Go scheduler, observed by the harness. -/
def parseTx (s : String) : Option (Tx × List RcptInfo) :=
  match s.splitOn ":" with
  | rs :: df :: more => do
    let rcpts ← (rs.splitOn ",").mapM parseRcpt
    let fail : Nat → Bool ←
      if df == "0" then some (fun _ => false)
      else if df == "1" then some (fun _ => true)
      else if df.startsWith "d" then
        let ds : List Nat := (df.toList.drop 1).filterMap (fun c => (String.singleton c).toNat?)
        some (fun ck => ds.contains (ck / 16))
      else none
    let buf := more.head?.getD "-"
    let oracle : List Nat := match more.drop 1 with
      | [o] => if o == "-" then [] else (o.splitOn "+").filterMap String.toNat?
      | _ => []
    if more.length > 2 then none
    let hit : Nat → Bool := fun ck => oracle.contains ck
    let tx : Tx ←
      if buf == "-" then some { rcpts := rcpts.map (·.1), dataFail := fail }
      else if buf == "q" then some { rcpts := rcpts.map (·.1), dataFail := fail, quarantine := true }
      else if buf.startsWith "o" then some { rcpts := rcpts.map (·.1), dataFail := fail, openFail := hit }
      else if buf.startsWith "m" then some { rcpts := rcpts.map (·.1), dataFail := fail, readFail := hit }
      else none
    pure (tx, rcpts.map (·.2))
  | _ => none

def okStr (b : Bool) : String := if b then "o" else "f"

def insertSorted (x : String) : List String → List String
  | [] => [x]
  | y :: r => if x ≤ y then x :: y :: r else y :: insertSorted x r

def sortStr (l : List String) : List String := l.foldr insertSorted []

def showWire (infos : List RcptInfo) (id : Nat) : String :=
  match infos.find? (fun i => i.id == id) with
  | some i => s!"{i.mbox}@{i.dnum}" ++ (if i.idn then "i" else "a") ++ (if i.abs then "." else "")
  | none => s!"?{id}"

def showObs (o : TxObs) (infos : List RcptInfo) : String :=
  "add:" ++ ",".intercalate (o.adds.map (fun p => s!"{p.1}={okStr p.2}")) ++
  " status:" ++ ",".intercalate (sortStr (o.statuses.map (fun p => s!"{p.1}={okStr p.2}"))) ++
  " srv:" ++ ",".intercalate (sortStr (o.delivered.map (showWire infos)))

/-- spelling forms of a pipeline address token `<number>[<form>]` (other spellings of one mailbox:
letter case, U-label/A-label domain, NFC/NFD); two tokens are the same ADDRESS iff number and form agree. -/
def pipeForms : List Char := ['u', 'U', 'D', 'i', 'I', 'x', 'X', 'c', 'd', 'C']

/-- `<number>[<form>]` → key `number * 16 + (index of the form, 0 = none)`. -/
def parseTok (s : String) : Option Nat :=
  let cs := s.toList
  let ds := cs.takeWhile Char.isDigit
  match cs.dropWhile Char.isDigit with
  | [] => (String.ofList ds).toNat?.map (· * 16)
  | [f] =>
    match pipeForms.idxOf? f with
    | some i => (String.ofList ds).toNat?.map (· * 16 + i + 1)
    | none => none
  | _ => none

/-- the canonical name of an address key: `c<token>` for numbers below 10 (client recipients), else `e<token>` -/
def tokName (k : Nat) : String :=
  let n := k / 16
  let f := match k % 16 with
    | 0 => ""
    | i + 1 => match pipeForms[i]? with | some c => String.singleton c | none => "?"
  (if n < 10 then "c" else "e") ++ toString n ++ f

/-- `address.ForLookup` on a token: the mailbox number and the family of spellings (0 = ASCII case
variants, 1 = IDN U-label/A-label variants, 2 = NFC/NFD/case variants of the non-ASCII local part) —
the key of the per-address destination blocks. -/
def lookupKey (k : Nat) : Nat :=
  let f := k % 16
  (k / 16) * 4 + (if f ≤ 3 then 0 else if f ≤ 7 then 1 else 2)

/-- the nested pipeline of a `pipe` op: `<K><p>:<routed>:<inner spec>` -/
structure Nest where
  all : Bool
  routed : List Nat
  rw : List (Nat × List Nat)

def parseNest (tok : String) : Option Nest :=
  match tok.splitOn ":" with
  | kp :: rt :: rest =>
    if kp.length != 2 || !(kp.startsWith "R" || kp.startsWith "M") then none else
    let inner := ":".intercalate rest
    let rw : List (Nat × List Nat) := if inner == "-" then [] else (inner.splitOn ",").filterMap (fun p =>
      match p.splitOn ":" with
      | [x, ys] => do
        let x ← parseTok x
        let ys := (ys.splitOn "+").filterMap parseTok
        if ys.isEmpty then none else pure (x, ys)
      | _ => none)
    some { all := rt == "*", routed := if rt == "*" then [] else ((rt.splitOn "+").filterMap parseTok).map lookupKey, rw := rw }
  | _ => none

/-- `S<stage>/<tgt>[/<routed>]` (outer pipeline) / `I<stage>/<tgt>` (nested pipeline): the stage at which the
body fails for the whole delivery (`-` none; body checks `cg cs cr`, `ar` applyResults, `RewriteBody` `mg ms mr`) and
the kind of target: `p` per-recipient results, `a` none and `Body` succeeds, `A` none and `Body` fails; routed = the
per-address destination blocks that lead to the a/A target (absent or `*`: every direct recipient). -/
structure Plan where
  stage : String := "-"
  tgt : String := "p"
  all : Bool := true
  routed : List Nat := []

def parsePlan (tag : String) (tok : String) : Option Plan :=
  if !tok.startsWith tag then none else
  match (String.ofList (tok.toList.drop 1)).splitOn "/" with
  | [st, tg] => if ["p", "a", "A"].contains tg then some { stage := st, tgt := tg } else none
  | [st, tg, rt] =>
    if !["p", "a", "A"].contains tg then none else
    if rt == "*" then some { stage := st, tgt := tg }
    else some { stage := st, tgt := tg, all := false, routed := ((rt.splitOn "+").filterMap parseTok).map lookupKey }
  | _ => none

/-- `<srv>[n]`: srv `0` no SMTPUTF8 at the next hop, `1` offered, `2` offered and RFC 6531 §3.4 enforced; `n` = the
message does not carry the SMTPUTF8 flag. -/
def parseCaps : String → Option Caps
  | "0" => some { srvUtf8 := false }
  | "1" => some { srvUtf8 := true }
  | "2" => some { srvUtf8 := true, strict := true }
  | "0n" => some { srvUtf8 := false, msgUtf8 := false }
  | "1n" => some { srvUtf8 := true, msgUtf8 := false }
  | "2n" => some { srvUtf8 := true, strict := true, msgUtf8 := false }
  | _ => none

/-- `X<token>/<k>,…` / `Y…` (`X-`: none) -/
def parseRefusals (tok : String) : List (Nat × Nat) :=
  let body := String.ofList (tok.toList.drop 1)
  if body == "-" then [] else (body.splitOn ",").filterMap (fun e =>
    match e.splitOn "/" with
    | [t, k] => do
      let t ← parseTok t
      let k ← k.toNat?
      pure (t, k)
    | _ => none)

def sizePairs : List Char → List (Nat × Char)
  | d :: k :: rest => (d.toNat - '0'.toNat, k) :: sizePairs rest
  | _ => []

def handle : List String → String
  | ["remote", utf8, txs] =>
    -- `<caps>[/<dom><kind>…]`: SIZE announcement per recipient domain, kind `s` = smaller than the message
    -- (enforced by the next hop), `e` exactly its size, `b` bigger, `0` no fixed limit
    let (capTok, sizeTok) := match utf8.splitOn "/" with
      | [c, z] => (c, z)
      | _ => (utf8, "")
    let small : List Nat := (sizePairs sizeTok.toList).filterMap (fun p => if p.2 == 's' then some p.1 else none)
    match parseCaps capTok, (txs.splitOn ";").mapM parseTx with
    | some caps, some txs =>
      let obs := runHistorySize caps (fun ck => small.contains (ck / 16)) [] (txs.map (·.1))
      " | ".intercalate ((obs.zip (txs.map (·.2))).map (fun p => showObs p.1 p.2))
    | _, _ => "bad-op"
  | ["lmtp", acc, sts, _spec] =>
    -- accepted ids "1,2,3" (or "-"), server statuses "o,f" (or "-")
    let accepted := if acc == "-" then some [] else (acc.splitOn ",").mapM String.toNat?
    let st := if sts == "-" then [] else (sts.splitOn ",").map (· == "o")
    match accepted with
    | some a => ",".intercalate ((lmtpStatuses a st).map (fun p => s!"{p.1}={okStr p.2}"))
    | none => "bad-op"
  | "pipe" :: spec :: fails :: rest =>
    -- spec: <client>:<eff>+<eff>,... ; the target reports one status per effective recipient in
    -- AddRcpt order; the collector translates through the delivery's own table (later entries overwrite).
    let failIds := if fails == "-" then [] else (fails.splitOn ",").filterMap parseTok
    let parts := spec.splitOn ","
    let entries : List (Nat × List Nat) := parts.filterMap (fun p =>
      match p.splitOn ":" with
      | [c, es] => do
        let c ← parseTok c
        let es := if es == "" then [] else (es.splitOn "+").filterMap parseTok
        pure (c, es)
      | _ => none)
    let place := rest.head?.getD "g"
    -- a nested pipeline behind the outer one; a `P…` token (OriginalRcpts table of a pipeline the message
    -- passed earlier) is deliberately NOT an input of the model: it takes no part in the translation
    let nest := (rest.drop 1).findSome? parseNest
    let outerPlan : Plan := ((rest.drop 1).findSome? (parsePlan "S")).getD {}
    let innerPlan : Plan := ((rest.drop 1).findSome? (parsePlan "I")).getD {}
    -- the AddRcpt calls: client-supplied address and its effective addresses (an unrewritten client recipient is
    -- its own effective recipient); numbers below 10 are client-supplied addresses, also when they occur as a rewrite
    -- result; a key is an address STRING (another spelling of the same mailbox is another key), the
    -- same client token may occur several times (the client sent the address twice), several client
    -- recipients may have the same effective address
    let rs : List PipeRcpt := entries.map (fun e => (e.1, if e.2.isEmpty then [e.1] else e.2))
    -- the table of the outer delivery as built by AddRcpt: for each rewritten effective address, last writer wins
    let origO : List (Nat × Nat) := pipeTable rs
    -- (client, outer effective recipient) in AddRcpt order
    let paths : List (Nat × Nat) := rs.flatMap (fun e => e.2.map (fun x => (e.1, x)))
    -- the destination block is chosen before its own modifiers run: placement r = by the client-supplied address
    let blockKey (p : Nat × Nat) : Nat := lookupKey (if place == "r" then p.1 else p.2)
    -- (per-address destination blocks come before the default block)
    let altBlock (p : Nat × Nat) : Bool := outerPlan.tgt != "p" && !outerPlan.all && outerPlan.routed.contains (blockKey p)
    let routed (p : Nat × Nat) : Bool := match nest with
      | none => false
      | some n => n.routed.contains (blockKey p) || (n.all && !altBlock p)
    let direct (p : Nat × Nat) : Bool := outerPlan.tgt != "p" && (outerPlan.all || outerPlan.routed.contains (blockKey p))
    let innerEffs (x : Nat) : List Nat := match nest with
      | none => [x]
      | some n => match n.rw.find? (fun e => e.1 == x) with
        | some e => e.2
        | none => [x]
    -- the table of the nested delivery: what its AddRcpt calls recorded
    let origI : List (Nat × Nat) := pipeTable ((paths.filter routed).map (fun p => (p.2, innerEffs p.2)))
    let showSt (s : Nat × Bool) : String := tokName s.1 ++ "=" ++ okStr s.2
    -- refusals at AddRcpt time: `X…` by the per-recipient target, `Y…` by a second target of every block
    let xTok := (rest.drop 1).find? (·.startsWith "X")
    let yTok := (rest.drop 1).find? (·.startsWith "Y")
    let wTok := (rest.drop 1).find? (·.startsWith "W")
    let wKeys : List Nat := match wTok with
      | some t => (((String.ofList (t.toList.drop 1)).splitOn ",").filterMap parseTok).map lookupKey
      | none => []
    let isW (a : Nat) : Bool := wKeys.contains (lookupKey a)
    if xTok.isSome || yTok.isSome || wTok.isSome then
      if nest.isSome || outerPlan.tgt != "p" || (outerPlan.stage != "-" && yTok.isSome) then "bad-op" else
      let (st, oks) := pipeAddCalls yTok.isSome (parseRefusals (xTok.getD "X-")) (parseRefusals (yTok.getD "Y-"))
        (fun c => place == "r" && isW c) (fun e => place != "r" && isW e) {} rs
      let sts := if !oks.any id then [] else
        if outerPlan.stage != "-" then st.generated else st.statuses (fun e => !failIds.contains e)
      "add:" ++ ",".intercalate (oks.map okStr) ++ " status:" ++ ",".intercalate (sortStr (sts.map showSt))
    else
    let sts :=
      if outerPlan.stage != "-" then
        -- setStatusAll: every entry of every delivery's `recipients`, as supplied, untranslated
        (pipeGenerated rs).map showSt
      else paths.flatMap (fun p =>
        if routed p then
          if innerPlan.stage != "-" || innerPlan.tgt == "A" then
            -- the NESTED delivery generates the failures for the addresses it was given (once per inner effective
            -- recipient); they pass the outer delivery's collector: ONE look-up
            (pipeGenerated [(p.2, innerEffs p.2)]).map (fun s => showSt (translate origO s.1, s.2))
          else if innerPlan.tgt == "a" then []      -- no per-recipient results, Body succeeded: silence
          else
            (innerEffs p.2).map (fun y => tokName (translateNested origO origI y) ++ "=" ++ okStr (!failIds.contains y))
        else if direct p then
          -- Body error of a target without per-recipient results: `delivery.recipients`, untranslated
          if outerPlan.tgt == "A" then (pipeGenerated [(p.1, [p.2])]).map showSt else []
        else
          [tokName (translate origO p.2) ++ "=" ++ okStr (!failIds.contains p.2)])   -- statusCollector.SetStatus: ONE look-up
    ",".intercalate (sortStr sts)
  | _ => "bad-op"

end Driver.C09
