import MaddyVerif.Model.StatusKeys
import Driver.Util
namespace Driver.C09
open MaddyVerif.StatusKeys Driver

/-- What the driver keeps per recipient next to the model's `Rcpt`: the mailbox number (several
recipients may be spellings of one mailbox), the domain number and whether the domain is the
internationalised one. -/
structure RcptInfo where
  id : Nat
  mbox : Nat
  dnum : Nat
  idn : Bool

/-- spelling forms: (non-ASCII, convertible, spelling class of the domain = connection key, IDN domain)
a `u1@d0.example`  u `U1@D0.EXAMPLE`  i `u1@пример0.example`  x its A-label spelling  I `U1@пример0.example`
U `U1@d0.example`  X `U1@XN--….EXAMPLE`  l `ю1@d0.example`  c/d `é1@d0.example` composed/decomposed  C `É1@d0.example` -/
def formInfo : String → Option (Bool × Bool × Nat × Bool)
  | "a" => some (false, false, 0, false)
  | "u" => some (false, false, 1, false)
  | "U" => some (false, false, 0, false)
  | "i" => some (true, true, 2, true)
  | "I" => some (true, true, 2, true)
  | "x" => some (false, false, 3, true)
  | "X" => some (false, false, 4, true)
  | "l" => some (true, false, 0, false)
  | "c" => some (true, false, 0, false)
  | "d" => some (true, false, 0, false)
  | "C" => some (true, false, 0, false)
  | _ => none

def parseRcpt (s : String) : Option (Rcpt × RcptInfo) := do
  let (id, dom, form, act, mbox) ← match s.splitOn "." with
    | [id, dom, form, act] => some (id, dom, form, act, id)
    | [id, dom, form, act, mbox] => some (id, dom, form, act, mbox)
    | _ => none
  let id ← id.toNat?
  let dom ← dom.toNat?
  let mbox ← mbox.toNat?
  let (na, cv, cls, idn) ← formInfo form
  let (acc, fault) ← match act with
    | "1" => some (true, false) | "0" => some (false, false) | "t" => some (false, false)
    | "4" => some (false, true) | "c" => some (false, true) | "r" => some (false, true) | "s" => some (false, true)
    | _ => none
  pure (⟨id, dom * 8 + cls, na, cv, acc, fault⟩, ⟨id, mbox, dom, idn⟩)

/-- tx = `<rcpt>,<rcpt>,...:<df>`; df = `0` no DATA failure, `1` DATA fails everywhere,
`d<digits>` DATA fails for the listed domain numbers. -/
def parseTx (s : String) : Option (Tx × List RcptInfo) :=
  match s.splitOn ":" with
  | [rs, df] => do
    let rcpts ← (rs.splitOn ",").mapM parseRcpt
    let fail : Nat → Bool ←
      if df == "0" then some (fun _ => false)
      else if df == "1" then some (fun _ => true)
      else if df.startsWith "d" then
        let ds : List Nat := (df.toList.drop 1).filterMap (fun c => (String.singleton c).toNat?)
        some (fun ck => ds.contains (ck / 8))
      else none
    pure ({ rcpts := rcpts.map (·.1), dataFail := fail }, rcpts.map (·.2))
  | _ => none

def okStr (b : Bool) : String := if b then "o" else "f"

def insertSorted (x : String) : List String → List String
  | [] => [x]
  | y :: r => if x ≤ y then x :: y :: r else y :: insertSorted x r

def sortStr (l : List String) : List String := l.foldr insertSorted []

def showWire (infos : List RcptInfo) (id : Nat) : String :=
  match infos.find? (fun i => i.id == id) with
  | some i => s!"{i.mbox}@{i.dnum}" ++ (if i.idn then "i" else "a")
  | none => s!"?{id}"

def showObs (o : TxObs) (infos : List RcptInfo) : String :=
  "add:" ++ ",".intercalate (o.adds.map (fun p => s!"{p.1}={okStr p.2}")) ++
  " status:" ++ ",".intercalate (sortStr (o.statuses.map (fun p => s!"{p.1}={okStr p.2}"))) ++
  " srv:" ++ ",".intercalate (sortStr (o.delivered.map (showWire infos)))

/-- spelling forms of a pipeline address token `<number>[<form>]` (other spellings of one mailbox:
letter case, U-label/A-label domain, NFC/NFD); two tokens are the same ADDRESS iff number and form agree. -/
def pipeForms : List Char := ['u', 'U', 'D', 'i', 'I', 'x', 'X', 'c', 'd', 'C']

/-- `<number>[<form>]` → key `number * 16 + (index of the form, 0 = none)`. -/
def parseTok (s : String) : Option Nat :=
  let cs := s.toList
  let ds := cs.takeWhile Char.isDigit
  match cs.dropWhile Char.isDigit with
  | [] => (String.ofList ds).toNat?.map (· * 16)
  | [f] =>
    match pipeForms.idxOf? f with
    | some i => (String.ofList ds).toNat?.map (· * 16 + i + 1)
    | none => none
  | _ => none

/-- the canonical name of an address key: `c<token>` for numbers below 10 (client recipients), else `e<token>` -/
def tokName (k : Nat) : String :=
  let n := k / 16
  let f := match k % 16 with
    | 0 => ""
    | i + 1 => match pipeForms[i]? with | some c => String.singleton c | none => "?"
  (if n < 10 then "c" else "e") ++ toString n ++ f

def handle : List String → String
  | ["remote", utf8, txs] =>
    match (txs.splitOn ";").mapM parseTx with
    | some txs =>
      let obs := runHistory (utf8 == "1") [] (txs.map (·.1))
      " | ".intercalate ((obs.zip (txs.map (·.2))).map (fun p => showObs p.1 p.2))
    | none => "bad-op"
  | ["lmtp", acc, sts, _spec] =>
    -- accepted ids "1,2,3" (or "-"), server statuses "o,f" (or "-")
    let accepted := if acc == "-" then some [] else (acc.splitOn ",").mapM String.toNat?
    let st := if sts == "-" then [] else (sts.splitOn ",").map (· == "o")
    match accepted with
    | some a => ",".intercalate ((lmtpStatuses a st).map (fun p => s!"{p.1}={okStr p.2}"))
    | none => "bad-op"
  | "pipe" :: spec :: fails :: _place =>
    -- spec: <client>:<eff>+<eff>,... ; the target reports one status per effective recipient in
    -- AddRcpt order; the collector translates through OriginalRcpts (later entries overwrite).
    let failIds := if fails == "-" then [] else (fails.splitOn ",").filterMap parseTok
    let parts := spec.splitOn ","
    let entries : List (Nat × List Nat) := parts.filterMap (fun p =>
      match p.splitOn ":" with
      | [c, es] => do
        let c ← parseTok c
        let es := if es == "" then [] else (es.splitOn "+").filterMap parseTok
        pure (c, es)
      | _ => none)
    -- OriginalRcpts as built by AddRcpt: for each rewritten effective address, last writer wins
    let orig : List (Nat × Nat) := (entries.flatMap (fun e => e.2.map (fun x => (x, e.1)))).reverse
    -- effective recipients in AddRcpt order (an unrewritten client recipient is its own effective
    -- recipient); numbers below 10 are client-supplied addresses, also when they occur as a rewrite
    -- result; a key is an address STRING (another spelling of the same mailbox is another key), the
    -- same client token may occur several times (the client sent the address twice)
    let effs : List Nat := entries.flatMap (fun e => if e.2.isEmpty then [e.1] else e.2)
    let sts := effs.map (fun x =>
      let k := translate orig x          -- statusCollector.SetStatus: ONE look-up in OriginalRcpts
      tokName k ++ "=" ++ okStr (!failIds.contains x))
    ",".intercalate (sortStr sts)
  | _ => "bad-op"

end Driver.C09
