import MaddyVerif.Model.StatusKeys
import Driver.Util
namespace Driver.C09
open MaddyVerif.StatusKeys Driver

def parseRcpt (s : String) : Option Rcpt :=
  match s.splitOn "." with
  | [id, dom, form, acc] => do
    let id ← id.toNat?
    let dom ← dom.toNat?
    let (na, cv) ← match form with
      | "a" => some (false, false) | "u" => some (false, false)
      | "i" => some (true, true) | "l" => some (true, false) | _ => none
    pure ⟨id, dom, na, cv, acc == "1"⟩
  | _ => none

def parseTx (s : String) : Option Tx :=
  match s.splitOn ":" with
  | [rs, df] => do
    let rcpts ← (rs.splitOn ",").mapM parseRcpt
    pure { rcpts := rcpts, dataFail := fun _ => df == "1" }
  | _ => none

def okStr (b : Bool) : String := if b then "o" else "f"

def insertSorted (x : String) : List String → List String
  | [] => [x]
  | y :: r => if x ≤ y then x :: y :: r else y :: insertSorted x r

def sortStr (l : List String) : List String := l.foldr insertSorted []

def showObs (o : TxObs) : String :=
  "add:" ++ ",".intercalate (o.adds.map (fun p => s!"{p.1}={okStr p.2}")) ++
  " status:" ++ ",".intercalate (sortStr (o.statuses.map (fun p => s!"{p.1}={okStr p.2}")))

def handle : List String → String
  | ["remote", utf8, txs] =>
    match (txs.splitOn ";").mapM parseTx with
    | some txs => " | ".intercalate ((runHistory (utf8 == "1") [] txs).map showObs)
    | none => "bad-op"
  | ["lmtp", acc, sts, _spec] =>
    -- accepted ids "1,2,3" (or "-"), server statuses "o,f" (or "-")
    let accepted := if acc == "-" then some [] else (acc.splitOn ",").mapM String.toNat?
    let st := if sts == "-" then [] else (sts.splitOn ",").map (· == "o")
    match accepted with
    | some a => ",".intercalate ((lmtpStatuses a st).map (fun p => s!"{p.1}={okStr p.2}"))
    | none => "bad-op"
  | "pipe" :: spec :: fails :: _place =>
    -- spec: <client>:<eff>+<eff>,... ; the target reports one status per effective recipient in
    -- AddRcpt order; the collector translates through OriginalRcpts (later entries overwrite).
    let failIds := if fails == "-" then [] else (fails.splitOn ",").filterMap String.toNat?
    let parts := spec.splitOn ","
    let entries : List (Nat × List Nat) := parts.filterMap (fun p =>
      match p.splitOn ":" with
      | [c, es] => do
        let c ← c.toNat?
        let es := if es == "" then [] else (es.splitOn "+").filterMap String.toNat?
        pure (c, es)
      | _ => none)
    -- OriginalRcpts as built by AddRcpt: for each rewritten effective address, last writer wins
    let orig : List (Nat × Nat) := (entries.flatMap (fun e => e.2.map (fun x => (x, e.1)))).reverse
    let effs : List (Nat × Bool) := entries.flatMap (fun e =>
      if e.2.isEmpty then [(e.1, true)] else e.2.map (fun x => (x, false)))
    let sts := effs.map (fun (x, isClient) =>
      let k := if isClient then x else translate orig x
      let nm := if isClient || (orig.find? (fun o => o.1 == x)).isSome then s!"c{k}" else s!"e{k}"
      nm ++ "=" ++ okStr (!failIds.contains x))
    ",".intercalate (sortStr sts)
  | _ => "bad-op"

end Driver.C09
