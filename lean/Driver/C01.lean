import MaddyVerif.Model.Queue
import Driver.Util
namespace Driver.C01
open MaddyVerif.Queue Driver

def clsOf (c : Char) : Option Cls :=
  match c with
  | 'o' => some .ok | 't' => some .temp | 'p' => some .perm | 'u' => some .unspec
  | _ => none

def clsStr : Cls → String
  | .ok => "o" | .temp => "t" | .perm => "p" | .unspec => "u"

def lookupCls (rs : List Nat) (cs : List Cls) (r : Nat) : Cls :=
  match (rs.zip cs).find? (fun p => p.1 == r) with
  | some p => p.2
  | none => .ok

def parsePlan (rs : List Nat) (s : String) : Option Plan :=
  match s.splitOn "/" with
  | [st, rc, bd, brc, cm] => do
    let st ← st.toList.head? >>= clsOf
    let bd ← bd.toList.head? >>= clsOf
    let cm ← cm.toList.head? >>= clsOf
    let rcs ← rc.toList.mapM clsOf
    let brcs ← brc.toList.mapM clsOf
    if rcs.length != rs.length || brcs.length != rs.length then none else
    pure { start := st, rcpt := lookupCls rs rcs, body := bd, bodyRc := lookupCls rs brcs, commit := cm }
  | _ => none

def allOk : Plan := { start := .ok, rcpt := fun _ => .ok, body := .ok, bodyRc := fun _ => .ok, commit := .ok }

def _root_.Driver.C09sortIns (x : String) : List String → List String
  | [] => [x]
  | y :: r => if x ≤ y then x :: y :: r else y :: Driver.C09sortIns x r
def _root_.Driver.C09sort (l : List String) : List String := l.foldr Driver.C09sortIns []

def natList (l : List Nat) : String := ",".intercalate (l.map toString)

def showEv : Ev → Option String
  | .start c => some s!"start:{clsStr c}"
  | .rcpt r c => some s!"rcpt:{r}:{clsStr c}"
  | .body c => some s!"body:{clsStr c}"
  | .bodyNA st => some ("bodyNA:" ++ ",".intercalate (st.map (fun p => s!"{p.1}={clsStr p.2}")))
  | .abort => some "abort"
  | .commit c => some s!"commit:{clsStr c}"
  | .committed rs => some ("committed:" ++ natList rs)
  | .report rs => some ("report:" ++ natList rs)
  | .requeue _ => none
  | .removed => some "removed"

def handle : List String → String
  | ["run", mt, kind, dsn, rcpts, plans] =>
    match mt.toNat?, (rcpts.splitOn ",").mapM String.toNat? with
    | some maxTries, some rs =>
      match (plans.splitOn ";").mapM (parsePlan rs) with
      | some ps =>
        let k := if kind == "p" then Kind.partialD else Kind.atomic
        let planAt : Nat → Plan := fun i => (ps[i]?).getD allOk
        let evs := run maxTries k (dsn == "1") planAt (maxTries + 1) 0 ⟨rs, fun _ => 0⟩
        " ".intercalate (evs.filterMap showEv)
      | none => "bad-op"
    | _, _ => "bad-op"
  | "outcomes" :: mt :: kind :: dsn :: rcpts :: plans :: _ =>
    -- terminal outcomes only, canonically ordered: the queue on top of the real remote target
    match mt.toNat?, (rcpts.splitOn ",").mapM String.toNat? with
    | some maxTries, some rs =>
      match (plans.splitOn ";").mapM (parsePlan rs) with
      | some ps =>
        let k := if kind == "p" then Kind.partialD else Kind.atomic
        let planAt : Nat → Plan := fun i => (ps[i]?).getD allOk
        let evs := run maxTries k (dsn == "1") planAt (maxTries + 1) 0 ⟨rs, fun _ => 0⟩
        let cnt (f : Nat → List Ev → Nat) : String :=
          ",".intercalate (rs.map (fun r => s!"{r}={f r evs}"))
        let rm := if evs.any (fun e => match e with | .removed => true | _ => false) then "removed" else "NOT-REMOVED"
        s!"c:{cnt commitCount} r:{cnt reportCount} {rm}"
      | none => "bad-op"
    | _, _ => "bad-op"
  | _ => "bad-op"

end Driver.C01
