import MaddyVerif.Model.Queue
import MaddyVerif.Model.QueueHop
import MaddyVerif.Model.QueueRestart
import MaddyVerif.Model.QueueErr
import MaddyVerif.Model.QueueDup
import MaddyVerif.Model.QueueTrace
import Driver.Util
namespace Driver.C01
open MaddyVerif.Queue Driver

def clsOf (c : Char) : Option Cls :=
  match c with
  | 'o' => some .ok | 't' => some .temp | 'p' => some .perm | 'u' => some .unspec
  | _ => none

def clsStr : Cls → String
  | .ok => "o" | .temp => "t" | .perm => "p" | .unspec => "u"

def lookupCls (rs : List Nat) (cs : List Cls) (r : Nat) : Cls :=
  match (rs.zip cs).find? (fun p => p.1 == r) with
  | some p => p.2
  | none => .ok

/-! ### the error grid (`C01 cls`, `C01 run … X=`): the harness's table of error forms as chains -/
section grid
open MaddyVerif.QueueErr

def enhOf (style : Char) (basic : Nat) : Option Enh :=
  match style with
  | 'a' => some (Int.ofNat (basic / 100), 0, 0)
  | 'n' => some (0, 0, 0)
  | '2' => some (2, 0, 0)
  | '4' => some (4, 2, 2)
  | '5' => some (5, 1, 1)
  | '0' => some (0, 1, 1)
  | '1' => some (1, 1, 1)
  | '9' => some (9, 0, 0)
  | 'm' => some (-1, -1, -1)
  | 'k' => some (Int.ofNat (basic / 100), 1000, 1)
  | _ => none

/-- class letter `t|p|u`, shape, style → the Unwrap chain `c01ErrForm` builds -/
def chainOf (c shape style : Char) : Option Err :=
  if !"SFWMYEPD".toList.contains shape then none else
  match c with
  | 'u' =>
    (enhOf style 550).map (fun _ =>
      match shape with
      | 'F' => [.fields, .leaf]
      | 'M' => [.wrap, .leaf]
      | 'Y' => [.wrap, .leaf]
      | 'E' => [.fields, .wrap, .leaf]
      | _ => [.leaf])
  | 't' | 'p' =>
    let temp := c == 't'
    let basic := if temp then 451 else 550
    let opp := if temp then 550 else 451
    match enhOf style basic, enhOf style opp with
    | some ec, some ec2 =>
      match shape with
      | 'S' => some [.smtp basic ec]
      | 'F' => some [.fields, .smtp basic ec]
      | 'W' => some [.marker temp, .leaf]
      | 'M' => some [.marker temp, .smtp basic ec]
      | 'Y' => some [.marker temp, .smtp opp ec2]
      | 'E' => some [.smtp basic ec, .marker (!temp), .leaf]
      | 'P' => some [.plainSmtp basic ec]
      | 'D' => some (if temp then [.wrap, .deadline] else [.smtp basic ec])
      | _ => none
    | _, _ => none
  | _ => none

def handleCls : List String → String
  | [tok] =>
    match tok.toList with
    | [c, sh, st] =>
      match chainOf c sh st with
      | some e =>
        let r := recorded e
        let verdict := if (cls e).retryable then "retry" else "final"
        let rep := if reportable r.2 then "report:ok" else "report:fails"
        s!"{verdict} {r.1} {r.2.1}.{r.2.2.1}.{r.2.2.2} {rep}"
      | none => "bad-op"
    | _ => "bad-op"
  | _ => "bad-op"

/-- `X=<shape><style>…` -/
def parseForms (s : String) : Option (List (Char × Char)) :=
  let rec pairs : List Char → Option (List (Char × Char))
    | [] => some []
    | sh :: st :: rest =>
      if "SFWMYEPD".toList.contains sh && (enhOf st 550).isSome then (pairs rest).map ((sh, st) :: ·) else none
    | _ => none
  match s.toList with
  | 'X' :: '=' :: rest => if rest.isEmpty then none else pairs rest
  | _ => none

/-- class of the failure at (attempt, stage, recipient position): the plan's letter, spelled in the
form `c01FormIdx` picks, classified by `QueueErr.cls` -/
def cellCls (forms : List (Char × Char)) (a stage pos : Nat) (c : Char) : Option Cls :=
  if forms.isEmpty || c == 'o' then clsOf c else
  let f := forms.getD ((a * 11 + stage * 5 + pos * 3) % forms.length) ('S', 'a')
  (chainOf c f.1 f.2).map cls

end grid

def parsePlan (forms : List (Char × Char)) (rs : List Nat) (sa : String × Nat) : Option Plan :=
  let a := sa.2
  match sa.1.splitOn "/" with
  | [st, rc, bd, brc, cm] => do
    let st ← st.toList.head? >>= cellCls forms a 0 0
    let bd ← bd.toList.head? >>= cellCls forms a 2 0
    let cm ← cm.toList.head? >>= cellCls forms a 4 0
    let rcs ← rc.toList.zipIdx.mapM (fun cj => cellCls forms a 1 cj.2 cj.1)
    let brcs ← brc.toList.zipIdx.mapM (fun cj => cellCls forms a 3 cj.2 cj.1)
    if rcs.length != rs.length || brcs.length != rs.length then none else
    pure { start := st, rcpt := lookupCls rs rcs, body := bd, bodyRc := lookupCls rs brcs, commit := cm }
  | _ => none

def allOk : Plan := { start := .ok, rcpt := fun _ => .ok, body := .ok, bodyRc := fun _ => .ok, commit := .ok }

def _root_.Driver.C09sortIns (x : String) : List String → List String
  | [] => [x]
  | y :: r => if x ≤ y then x :: y :: r else y :: Driver.C09sortIns x r
def _root_.Driver.C09sort (l : List String) : List String := l.foldr Driver.C09sortIns []

def natList (l : List Nat) : String := ",".intercalate (l.map toString)

def showEv : Ev → Option String
  | .start c => some s!"start:{clsStr c}"
  | .rcpt r c => some s!"rcpt:{r}:{clsStr c}"
  | .body c => some s!"body:{clsStr c}"
  | .bodyNA st => some ("bodyNA:" ++ ",".intercalate (st.map (fun p => s!"{p.1}={clsStr p.2}")))
  | .abort => some "abort"
  | .commit c => some s!"commit:{clsStr c}"
  | .committed rs => some ("committed:" ++ natList rs)
  | .report rs => some ("report:" ++ natList rs)
  | .requeue _ => none
  | .removed => some "removed"

/-! ### `C01 hop`: the queue on a real forwarding target against a misbehaving next hop -/
section hop
open MaddyVerif.QueueHop

/-- action letter → what the client sees and whether the session is over -/
def faultOf (c : Char) : Option Fault :=
  match c with
  | 't' => some ⟨.temp, false⟩      -- 4xx, session continues
  | 'p' => some ⟨.perm, false⟩      -- 5xx, session continues
  | 'x' => some ⟨.temp, false⟩      -- 552, handled as 452 (RFC 5321 4.5.3.1.10)
  | 'c' => some ⟨.temp, true⟩       -- 421, then closed
  | 'd' => some ⟨.unspec, true⟩     -- closed without an answer
  | 'r' => some ⟨.unspec, true⟩     -- reset without an answer
  | 's' => some ⟨.temp, true⟩       -- silence: the command times out
  | _ => none

def rejOf (c : Char) : Option (Option FCls) :=
  match c with
  | 'o' => some none | 't' => some (some .temp) | 'p' => some (some .perm) | _ => none

def lookupOpt (rs : List Nat) (cs : List (Option FCls)) (r : Nat) : Option FCls :=
  match (rs.zip cs).find? (fun p => p.1 == r) with
  | some p => p.2
  | none => none

/-- `<digits><letter>` -/
def numAct (s : String) : Option (Nat × Char) :=
  match s.toList.reverse with
  | c :: ds => if ds.isEmpty then none else (String.ofList ds.reverse).toNat?.map (·, c)
  | [] => none

def noFault : Fault := ⟨.temp, false⟩

/-- body fault of the attempt: `-` none, `O` the spooled body cannot be opened, `<k>` / `<k>e` the
reader fails after `k` octets (`e`: together with the last octets) -/
def bodyFaultOf (s : String) : Option (Bool × Bool) :=
  if s == "-" then some (false, false)
  else if s == "O" then some (true, false)
  else
    let ds := if s.endsWith "e" then (s.dropEnd 1).toString else s
    ds.toNat?.map (fun _ => (false, true))

def parseScript8 (rs : List Nat) (ml lim rej dat st drp qt bf : String) : Option Script := do
  let (mn, ma) ← numAct ml
  let (mailN, mailF) ← (if ma == 'o' then some (0, noFault) else (faultOf ma).map (mn, ·))
  let (limit, limF) ← (if lim == "-o" then some (none, noFault) else do
    let (k, a) ← numAct lim
    if a == 'o' then some (none, noFault) else (faultOf a).map (some k, ·))
  let rejs ← rej.toList.mapM rejOf
  let sts ← st.toList.mapM rejOf
  if rejs.length != rs.length || sts.length != rs.length then none else
  let (dataCmd, dataEnd) ← (match dat.toList with
    | ['o'] => some (none, none)
    | ['T'] => some (some FCls.temp, none)
    | ['P'] => some (some FCls.perm, none)
    | [c] => (faultOf c).map (fun f => (none, some f))
    | _ => none)
  let drop ← (if drp == "-" then some none else drp.toNat?.map some)
  let _ ← (if qt == "o" then some noFault else qt.toList.head? >>= faultOf)   -- teardown: no effect
  let (bo, br) ← bodyFaultOf bf
  pure { mailN := mailN, mailF := mailF, limit := limit, limF := limF, rej := lookupOpt rs rejs,
         dataCmd := dataCmd, dataEnd := dataEnd, lmtpSt := lookupOpt rs sts, lmtpDrop := drop,
         bodyOpenF := bo, bodyReadF := br }

/-- `mail/limit/rej/data/status/drop/quit[/body[/enh]]` -/
def parseScript (rs : List Nat) (s : String) : Option Script :=
  match s.splitOn "/" with
  | [ml, lim, rej, dat, st, drp, qt] => parseScript8 rs ml lim rej dat st drp qt "-"
  | [ml, lim, rej, dat, st, drp, qt, bf] => parseScript8 rs ml lim rej dat st drp qt bf
  | [ml, lim, rej, dat, st, drp, qt, bf, enh] =>
    -- the style of the enhanced status codes of the hop's replies: no field of the model reads it
    match enh.toList with
    | [c] => if (enhOf c 550).isSome then parseScript8 rs ml lim rej dat st drp qt bf else none
    | _ => none
  | _ => none

def quiet : Script :=
  { mailN := 0, mailF := noFault, limit := none, limF := noFault, rej := fun _ => none,
    dataCmd := none, dataEnd := none, lmtpSt := fun _ => none, lmtpDrop := none }

/-- next hop of a recipient form under target.remote: one MX per distinct domain string -/
def domOfForm (c : Char) : Option Nat :=
  match c with
  | 'a' => some 0 | 'l' => some 0 | 'n' => some 0 | 'u' => some 1 | 'i' => some 2 | 'b' => some 3
  | 'j' => some 4 | _ => none

def lookupNat (rs : List Nat) (vs : List Nat) (r : Nat) : Nat :=
  match (rs.zip vs).find? (fun p => p.1 == r) with
  | some p => p.2
  | none => 0

def handleHop : List String → String
  | [kind, mt, dsn, rcpts, forms, utf8, scripts] =>
    match mt.toNat?, (rcpts.splitOn ",").mapM String.toNat?, forms.toList.mapM domOfForm with
    | some maxTries, some rs, some ds =>
      if ds.length != rs.length then "bad-op" else
      match (scripts.splitOn ";").mapM (parseScript rs) with
      | some ss =>
        let tk? : Option TKind := match kind with
          | "r" => some .remote | "s" => some .smtp | "l" => some .lmtp | _ => none
        match tk? with
        | none => "bad-op"
        | some tk =>
          let scriptAt : Nat → Script := fun i => (ss[i]?).getD quiet
          let dom : Nat → Nat := if tk == .remote then lookupNat rs ds else fun _ => 0
          let nd := if tk == .remote then 5 else 1
          -- non-ASCII local part and no SMTPUTF8 at the next hop: refused locally
          let locals := (rs.zip forms.toList).filter (fun p => (p.2 == 'l' || p.2 == 'n') && utf8 != "1") |>.map (·.1)
          let lr : Nat → Bool := fun r => locals.contains r
          let res := runHopD maxTries tk (dsn == "1") scriptAt lr dom nd (maxTries + 1) 0 ⟨rs, fun _ => 0⟩
          let cs := ",".intercalate (rs.map (fun r => s!"{r}={res.2.count r}"))
          let rp := ",".intercalate (rs.map (fun r => s!"{r}={reportCount r res.1}"))
          let rm := if res.1.any (fun e => match e with | .removed => true | _ => false) then "removed" else "NOT-REMOVED"
          s!"c:{cs} r:{rp} {rm}"
      | none => "bad-op"
    | _, _, _ => "bad-op"
  | _ => "bad-op"

end hop

/-! ### optional tokens of `C01 run`: restarts and envelope -/
section ext
open MaddyVerif.QueueRestart

/-- `R=-` | `R=k.k.…` : number of restarts before attempt `k` -/
def parseRestarts (s : String) : Option (Nat → Nat) :=
  match s.toList with
  | 'R' :: '=' :: rest =>
    if rest == ['-'] then some (fun _ => 0) else
    ((String.ofList rest).splitOn ".").mapM String.toNat? |>.map (fun ks i => ks.count i)
  | _ => none

/-- non-ASCII local part: shapes `n`, `m`; mailboxes 2 and 5 of the harness's table -/
def shapeNA (c : Char) : Bool := c == 'n' || c == 'm'
def mailboxNA (r : Nat) : Bool := (r - 1) % 6 == 1 || (r - 1) % 6 == 4

/-- `E=<0|1><sender shape><shape of the address the client named, per recipient | ->` -/
def parseEnv (rs : List Nat) (s : String) : Option Env :=
  match s.toList with
  | 'E' :: '=' :: u :: sd :: forms =>
    if forms.length != rs.length || !(u == '0' || u == '1') || !"animj".toList.contains sd
       || forms.any (fun c => !"-animj".toList.contains c) then none else
    let named : Nat → Bool := fun r =>
      match (rs.zip forms).find? (fun p => p.1 == r) with
      | some p => if p.2 == '-' then mailboxNA r else shapeNA p.2
      | none => false
    let env : Env := ⟨u == '1', shapeNA sd, named⟩
    -- outside the input space: a non-ASCII local part without SMTPUTF8
    if !env.utf8 && (env.senderNA || rs.any (fun r => named r || mailboxNA r)) then none else some env
  | _ => none

/-- `T=<k><h|m|d>.…` : number of transient read faults before attempt `k` -/
def parseFaults (s : String) : Option (Nat → Nat) :=
  match s.toList with
  | 'T' :: '=' :: rest =>
    let one (f : String) : Option Nat :=
      match f.toList.reverse with
      | c :: ds => if "hmd".toList.contains c && !ds.isEmpty then (String.ofList ds.reverse).toNat? else none
      | [] => none
    (((String.ofList rest).splitOn ".").mapM one).map (fun (ks : List Nat) i => ks.count i)
  | _ => none

/-- `H=<k>`: the header of the queued message, number `k` of the harness's table `c01Headers` -/
def headerTable : List MaddyVerif.Queue.Header :=
  [ [("Subject", "verif")],
    [("Subject", "verif"), ("Auto-Submitted", "auto-generated")],
    [("Subject", "verif"), ("Auto-Submitted", "auto-replied")],
    [("Subject", "verif"), ("Auto-Submitted", "auto-notified; owner-email=\"o@example.org\"")],
    [("Subject", "verif"), ("Auto-Submitted", "no")],
    [("Subject", "verif"), ("Precedence", "bulk")],
    [("Subject", "verif"), ("Precedence", "list"), ("List-Id", "<l.example.org>"), ("List-Unsubscribe", "<mailto:u@example.org>")],
    [("Subject", "verif"), ("Return-Path", "<>"), ("X-Loop", "mx.example.org")],
    [("Subject", "verif"), ("Content-Type", "multipart/report; report-type=delivery-status; boundary=b")],
    [("Subject", "verif"), ("Content-Type", "text/plain; charset=utf-8"), ("X-Auto-Response-Suppress", "All")],
    [],
    [("Subject", "verif"), ("AUTO-SUBMITTED", "Auto-Generated"), ("Precedence", "junk"), ("From", "MAILER-DAEMON@example.org")] ]

def parseHeader (s : String) : Option MaddyVerif.Queue.Header :=
  match s.toList with
  | 'H' :: '=' :: rest => (String.ofList rest).toNat? >>= (headerTable[·]?)
  | _ => none

/-- `F=<attempt><x|c|k><t|p|u>.…`: a per-recipient target files a failure under an address that is
not in the envelope (x an unrelated one, c the converted form of a recipient, k its other-case
form).  Validated; no part of the model reads it — that is the statement
(`C01_commit_decision_ignores_foreign_keys`). -/
def parseForeign (s : String) : Option Unit :=
  match s.toList with
  | 'F' :: '=' :: rest =>
    let one (f : String) : Option Unit :=
      match f.toList.reverse with
      | c :: kd :: ds =>
        if "tpu".toList.contains c && "xck".toList.contains kd && !ds.isEmpty
           && (String.ofList ds.reverse).toNat?.isSome then some () else none
      | _ => none
    (((String.ofList rest).splitOn ".").mapM one).map (fun _ => ())
  | _ => none

/-- `C=<k><t|n>`: the client that submitted the message, row `k` of the harness's table `c01Conns`
(the name it gave in HELO/EHLO), sender traced / not traced. -/
def long64 : String := "pc-of-the-accounting-department-second-floor-room-two-hundred-and-seven"

def rep (n : Nat) (s : String) : String := String.join (List.replicate n s)

def clientTable : List String :=
  [ "mail.example.com", "laptop..lan", long64 ++ ".corp.example.com",
    rep 24 "department." ++ "example.com", "[192.0.2.7]", "[IPv6:2001:db8::7]", "localhost",
    "my_host.lan", "xn--1.example", "пример.example", "xn--e1afmkfd.example", "MAIL.Example.COM.",
    ".lan", "-pc-.example.com", rep 60 "ю" ++ ".example", "XN--A.example", "..", "x", "",
    "bücher.example.xn--zz--" ]

/-- `Q=<k>`: the configured name of the server, row `k` of the harness's table `c01Hosts`. -/
def hostTable : List String :=
  [ "mx.example.org", "mx..example.org", long64 ++ ".example.org", "mx.example.org.",
    "пример.example", "xn--e1afmkfd.example", "MX.Example.ORG", "localhost",
    rep 90 "mx." ++ "example.org", ".example.org", "mx_1.example.org", rep 60 "ю" ++ ".example" ]

/-- `V=<k><forms>.…`: while the server is down before attempt `k` the entry's meta-data is rewritten
the way another build would have left it (unknown fields, other key order, white space, zero-valued
fields left out).  Validated (`k` must be preceded by a restart or a read fault - a running server
does not read its own meta-data back); the run model does not read it: the rewritten file holds the
same `Stored` entry (`Model/QueueSpool.lean`, `C01_load_ignores_other_build`), and a restart is
transparent. -/
def parseOtherBuild (s : String) : Option (List Nat) :=
  match s.toList with
  | 'V' :: '=' :: rest =>
    let one (f : String) : Option Nat :=
      let ds := f.toList.takeWhile Char.isDigit
      let fs := f.toList.dropWhile Char.isDigit
      if !ds.isEmpty && !fs.isEmpty && fs.all (fun c => "acbdniozw".toList.contains c) then
        (String.ofList ds).toNat? else none
    ((String.ofList rest).splitOn ".").mapM one
  | _ => none

def parseClient (s : String) : Option (String × Bool) :=
  match s.toList with
  | 'C' :: '=' :: rest =>
    match rest.reverse with
    | c :: ds =>
      if (c == 't' || c == 'n') && !ds.isEmpty then
        ((String.ofList ds.reverse).toNat? >>= (clientTable[·]?)).map (fun h => (h, c == 'n'))
      else none
    | [] => none
  | _ => none

def parseHost (s : String) : Option String :=
  match s.toList with
  | 'Q' :: '=' :: rest => (String.ofList rest).toNat? >>= (hostTable[·]?)
  | _ => none

structure Ext where
  client : Option (String × Bool) := none
  host : String := "mx.example.org"
  restarts : Nat → Nat := fun _ => 0
  faults : Nat → Nat := fun _ => 0
  env : Env := ⟨true, false, fun _ => false⟩
  forms : List (Char × Char) := []
  hdr : MaddyVerif.Queue.Header := [("Subject", "verif")]
  other : List Nat := []

/-- optional tokens, told apart by their prefix; `E=` and `X=` only after an `R=` token -/
def parseExt (rs : List Nat) (toks : List String) : Option Ext :=
  match toks with
  | [] => some {}
  | r :: rest =>
    (parseRestarts r).bind (fun rr =>
      (rest.foldlM (fun (x : Ext) (tok : String) =>
        if tok.startsWith "E=" then (parseEnv rs tok).map (fun e => { x with env := e })
        else if tok.startsWith "T=" then
          (parseFaults tok).bind (fun f =>
            -- the first attempt of a running server does not read the spool
            if f 0 > 0 && rr 0 == 0 then none else some { x with faults := f })
        else if tok.startsWith "X=" then (parseForms tok).map (fun f => { x with forms := f })
        else if tok.startsWith "H=" then (parseHeader tok).map (fun h => { x with hdr := h })
        else if tok.startsWith "F=" then (parseForeign tok).map (fun _ => x)
        else if tok.startsWith "C=" then (parseClient tok).map (fun c => { x with client := some c })
        else if tok.startsWith "Q=" then (parseHost tok).map (fun h => { x with host := h })
        else if tok.startsWith "V=" then (parseOtherBuild tok).map (fun ks => { x with other := ks ++ x.other })
        else none) { restarts := rr }).bind (fun x =>
        -- V= only where a new instance reads the entry
        if x.other.all (fun k => rr k > 0 || x.faults k > 0) then some x else none))

end ext

/-- `C01 names <utf8> <client row|-><t|n> <server row> <hc> <cc>`: the MTA-name fields of the report;
`hc` / `cc` = the result of `dns.SelectIDNA` for the server / client name (`!` = error). -/
def handleNames : List String → String
  | [u, ct, hk, hc, cc] =>
    let convTok (t : String) : Option (Option String) :=
      if t == "!" then some none
      else (Driver.unhexRunes? t).map (fun l => some (String.ofList (l.map Char.ofNat)))
    let client : Option (Option (String × Bool)) :=
      if ct == "-n" then some none else (parseClient ("C=" ++ ct)).map some
    match (if u == "0" || u == "1" then some () else none), client, parseHost ("Q=" ++ hk), convTok hc, convTok cc with
    | some _, some cl, some host, some hres, some cres =>
      let conv : String → Option String := fun s =>
        if s == host then hres else if (cl.map (·.1)) == some s then cres else none
      let o : MaddyVerif.QueueTrace.Origin := ⟨cl.map (·.1), (cl.map (·.2)).getD true, host⟩
      let enc (v : String) : String :=
        Driver.hexRunes ((v.toList.filter (fun c => !c.isWhitespace)).map Char.toNat)
      match MaddyVerif.QueueTrace.mtaFields conv o.host (MaddyVerif.QueueTrace.receivedFromMTA o) with
      | none => "fails"
      | some fs =>
        let get (n : String) : Option String := (fs.find? (·.1 == n)).map (·.2)
        let rf := match get "Received-From-MTA" with | some v => enc v | none => "none"
        s!"ok rm={enc ((get "Reporting-MTA").getD "")} rf={rf}"
    | _, _, _, _, _ => "bad-op"
  | _ => "bad-op"

def handle : List String → String
  | "hop" :: rest => handleHop rest
  | "names" :: rest => handleNames rest
  | "cls" :: rest => handleCls rest
  | "run" :: mt :: kind :: dsn :: rcpts :: plans :: ext =>
    -- optional tokens: R=<restart before attempt k>.… and E=<utf8><sender form><original-recipient forms>
    match mt.toNat?, (rcpts.splitOn ",").mapM String.toNat? with
    | some maxTries, some rs =>
      match parseExt rs ext with
      | none => "bad-op"
      | some x =>
      match (plans.splitOn ";").zipIdx.mapM (parsePlan x.forms rs) with
      | none => "bad-op"
      | some ps =>
        let restarts := MaddyVerif.QueueRestart.withReadFaults x.restarts x.faults
        let env := x.env
        let k := if kind == "p" then Kind.partialD else Kind.atomic
        let planAt : Nat → Plan := fun i => (ps[i]?).getD allOk
        -- the names of the MTAs in the report (Model/QueueTrace.lean).  Assumption on the library
        -- primitive: dns.SelectIDNA converts every server name of the table (the harness checks that
        -- on the names it uses); what it does with a client name does not matter
        -- (C01_report_decision_ignores_client), so the conversion that refuses them all will do.
        let conv : String → Option String := fun s => if hostTable.contains s then some s else none
        let origin : MaddyVerif.QueueTrace.Origin :=
          ⟨x.client.map (·.1), (x.client.map (·.2)).getD true, x.host⟩
        let canName := MaddyVerif.QueueTrace.mtaOk conv origin
        let res := MaddyVerif.QueueRestart.runRD maxTries k (dsn == "1" && canName) env x.hdr planAt restarts (maxTries + 1) 0
          (MaddyVerif.QueueRestart.accepted rs)
        " ".intercalate (res.1.filterMap showEv ++ (if res.2 then ["BROKEN"] else []))
    | _, _ => "bad-op"
  | "outcomes" :: mt :: kind :: dsn :: rcpts :: plans :: _ =>
    -- terminal outcomes only, canonically ordered: the queue on top of the real remote target
    match mt.toNat?, (rcpts.splitOn ",").mapM String.toNat? with
    | some maxTries, some rs =>
      match (plans.splitOn ";").zipIdx.mapM (parsePlan [] rs) with
      | some ps =>
        let k := if kind == "p" then Kind.partialD else Kind.atomic
        let planAt : Nat → Plan := fun i => (ps[i]?).getD allOk
        let evs := run maxTries k (dsn == "1") planAt (maxTries + 1) 0 ⟨rs, fun _ => 0⟩
        let cnt (f : Nat → List Ev → Nat) : String :=
          ",".intercalate (rs.map (fun r => s!"{r}={f r evs}"))
        let rm := if evs.any (fun e => match e with | .removed => true | _ => false) then "removed" else "NOT-REMOVED"
        s!"c:{cnt commitCount} r:{cnt reportCount} {rm}"
      | none => "bad-op"
    | _, _ => "bad-op"
  | _ => "bad-op"

end Driver.C01
