import MaddyVerif.Model.Queue
import MaddyVerif.Model.QueueHop
import MaddyVerif.Model.QueueRestart
import Driver.Util
namespace Driver.C01
open MaddyVerif.Queue Driver

def clsOf (c : Char) : Option Cls :=
  match c with
  | 'o' => some .ok | 't' => some .temp | 'p' => some .perm | 'u' => some .unspec
  | _ => none

def clsStr : Cls → String
  | .ok => "o" | .temp => "t" | .perm => "p" | .unspec => "u"

def lookupCls (rs : List Nat) (cs : List Cls) (r : Nat) : Cls :=
  match (rs.zip cs).find? (fun p => p.1 == r) with
  | some p => p.2
  | none => .ok

def parsePlan (rs : List Nat) (s : String) : Option Plan :=
  match s.splitOn "/" with
  | [st, rc, bd, brc, cm] => do
    let st ← st.toList.head? >>= clsOf
    let bd ← bd.toList.head? >>= clsOf
    let cm ← cm.toList.head? >>= clsOf
    let rcs ← rc.toList.mapM clsOf
    let brcs ← brc.toList.mapM clsOf
    if rcs.length != rs.length || brcs.length != rs.length then none else
    pure { start := st, rcpt := lookupCls rs rcs, body := bd, bodyRc := lookupCls rs brcs, commit := cm }
  | _ => none

def allOk : Plan := { start := .ok, rcpt := fun _ => .ok, body := .ok, bodyRc := fun _ => .ok, commit := .ok }

def _root_.Driver.C09sortIns (x : String) : List String → List String
  | [] => [x]
  | y :: r => if x ≤ y then x :: y :: r else y :: Driver.C09sortIns x r
def _root_.Driver.C09sort (l : List String) : List String := l.foldr Driver.C09sortIns []

def natList (l : List Nat) : String := ",".intercalate (l.map toString)

def showEv : Ev → Option String
  | .start c => some s!"start:{clsStr c}"
  | .rcpt r c => some s!"rcpt:{r}:{clsStr c}"
  | .body c => some s!"body:{clsStr c}"
  | .bodyNA st => some ("bodyNA:" ++ ",".intercalate (st.map (fun p => s!"{p.1}={clsStr p.2}")))
  | .abort => some "abort"
  | .commit c => some s!"commit:{clsStr c}"
  | .committed rs => some ("committed:" ++ natList rs)
  | .report rs => some ("report:" ++ natList rs)
  | .requeue _ => none
  | .removed => some "removed"

/-! ### `C01 hop`: the queue on a real forwarding target against a misbehaving next hop -/
section hop
open MaddyVerif.QueueHop

/-- action letter → what the client sees and whether the session is over -/
def faultOf (c : Char) : Option Fault :=
  match c with
  | 't' => some ⟨.temp, false⟩      -- 4xx, session continues
  | 'p' => some ⟨.perm, false⟩      -- 5xx, session continues
  | 'x' => some ⟨.temp, false⟩      -- 552, handled as 452 (RFC 5321 4.5.3.1.10)
  | 'c' => some ⟨.temp, true⟩       -- 421, then closed
  | 'd' => some ⟨.unspec, true⟩     -- closed without an answer
  | 'r' => some ⟨.unspec, true⟩     -- reset without an answer
  | 's' => some ⟨.temp, true⟩       -- silence: the command times out
  | _ => none

def rejOf (c : Char) : Option (Option FCls) :=
  match c with
  | 'o' => some none | 't' => some (some .temp) | 'p' => some (some .perm) | _ => none

def lookupOpt (rs : List Nat) (cs : List (Option FCls)) (r : Nat) : Option FCls :=
  match (rs.zip cs).find? (fun p => p.1 == r) with
  | some p => p.2
  | none => none

/-- `<digits><letter>` -/
def numAct (s : String) : Option (Nat × Char) :=
  match s.toList.reverse with
  | c :: ds => if ds.isEmpty then none else (String.ofList ds.reverse).toNat?.map (·, c)
  | [] => none

def noFault : Fault := ⟨.temp, false⟩

/-- body fault of the attempt: `-` none, `O` the spooled body cannot be opened, `<k>` / `<k>e` the
reader fails after `k` octets (`e`: together with the last octets) -/
def bodyFaultOf (s : String) : Option (Bool × Bool) :=
  if s == "-" then some (false, false)
  else if s == "O" then some (true, false)
  else
    let ds := if s.endsWith "e" then (s.dropEnd 1).toString else s
    ds.toNat?.map (fun _ => (false, true))

def parseScript8 (rs : List Nat) (ml lim rej dat st drp qt bf : String) : Option Script := do
  let (mn, ma) ← numAct ml
  let (mailN, mailF) ← (if ma == 'o' then some (0, noFault) else (faultOf ma).map (mn, ·))
  let (limit, limF) ← (if lim == "-o" then some (none, noFault) else do
    let (k, a) ← numAct lim
    if a == 'o' then some (none, noFault) else (faultOf a).map (some k, ·))
  let rejs ← rej.toList.mapM rejOf
  let sts ← st.toList.mapM rejOf
  if rejs.length != rs.length || sts.length != rs.length then none else
  let (dataCmd, dataEnd) ← (match dat.toList with
    | ['o'] => some (none, none)
    | ['T'] => some (some FCls.temp, none)
    | ['P'] => some (some FCls.perm, none)
    | [c] => (faultOf c).map (fun f => (none, some f))
    | _ => none)
  let drop ← (if drp == "-" then some none else drp.toNat?.map some)
  let _ ← (if qt == "o" then some noFault else qt.toList.head? >>= faultOf)   -- teardown: no effect
  let (bo, br) ← bodyFaultOf bf
  pure { mailN := mailN, mailF := mailF, limit := limit, limF := limF, rej := lookupOpt rs rejs,
         dataCmd := dataCmd, dataEnd := dataEnd, lmtpSt := lookupOpt rs sts, lmtpDrop := drop,
         bodyOpenF := bo, bodyReadF := br }

/-- `mail/limit/rej/data/status/drop/quit[/body]` -/
def parseScript (rs : List Nat) (s : String) : Option Script :=
  match s.splitOn "/" with
  | [ml, lim, rej, dat, st, drp, qt] => parseScript8 rs ml lim rej dat st drp qt "-"
  | [ml, lim, rej, dat, st, drp, qt, bf] => parseScript8 rs ml lim rej dat st drp qt bf
  | _ => none

def quiet : Script :=
  { mailN := 0, mailF := noFault, limit := none, limF := noFault, rej := fun _ => none,
    dataCmd := none, dataEnd := none, lmtpSt := fun _ => none, lmtpDrop := none }

/-- next hop of a recipient form under target.remote: one MX per distinct domain string -/
def domOfForm (c : Char) : Option Nat :=
  match c with
  | 'a' => some 0 | 'l' => some 0 | 'n' => some 0 | 'u' => some 1 | 'i' => some 2 | 'b' => some 3
  | 'j' => some 4 | _ => none

def lookupNat (rs : List Nat) (vs : List Nat) (r : Nat) : Nat :=
  match (rs.zip vs).find? (fun p => p.1 == r) with
  | some p => p.2
  | none => 0

def handleHop : List String → String
  | [kind, mt, dsn, rcpts, forms, utf8, scripts] =>
    match mt.toNat?, (rcpts.splitOn ",").mapM String.toNat?, forms.toList.mapM domOfForm with
    | some maxTries, some rs, some ds =>
      if ds.length != rs.length then "bad-op" else
      match (scripts.splitOn ";").mapM (parseScript rs) with
      | some ss =>
        let tk? : Option TKind := match kind with
          | "r" => some .remote | "s" => some .smtp | "l" => some .lmtp | _ => none
        match tk? with
        | none => "bad-op"
        | some tk =>
          let scriptAt : Nat → Script := fun i => (ss[i]?).getD quiet
          let dom : Nat → Nat := if tk == .remote then lookupNat rs ds else fun _ => 0
          let nd := if tk == .remote then 5 else 1
          -- non-ASCII local part and no SMTPUTF8 at the next hop: refused locally
          let locals := (rs.zip forms.toList).filter (fun p => (p.2 == 'l' || p.2 == 'n') && utf8 != "1") |>.map (·.1)
          let lr : Nat → Bool := fun r => locals.contains r
          let res := runHop maxTries tk (dsn == "1") scriptAt lr dom nd (maxTries + 1) 0 ⟨rs, fun _ => 0⟩
          let cs := ",".intercalate (rs.map (fun r => s!"{r}={res.2.count r}"))
          let rp := ",".intercalate (rs.map (fun r => s!"{r}={reportCount r res.1}"))
          let rm := if res.1.any (fun e => match e with | .removed => true | _ => false) then "removed" else "NOT-REMOVED"
          s!"c:{cs} r:{rp} {rm}"
      | none => "bad-op"
    | _, _, _ => "bad-op"
  | _ => "bad-op"

end hop

/-! ### optional tokens of `C01 run`: restarts and envelope -/
section ext
open MaddyVerif.QueueRestart

/-- `R=-` | `R=k.k.…` : number of restarts before attempt `k` -/
def parseRestarts (s : String) : Option (Nat → Nat) :=
  match s.toList with
  | 'R' :: '=' :: rest =>
    if rest == ['-'] then some (fun _ => 0) else
    ((String.ofList rest).splitOn ".").mapM String.toNat? |>.map (fun ks i => ks.count i)
  | _ => none

/-- non-ASCII local part: shapes `n`, `m`; mailboxes 2 and 5 of the harness's table -/
def shapeNA (c : Char) : Bool := c == 'n' || c == 'm'
def mailboxNA (r : Nat) : Bool := (r - 1) % 6 == 1 || (r - 1) % 6 == 4

/-- `E=<0|1><sender shape><shape of the address the client named, per recipient | ->` -/
def parseEnv (rs : List Nat) (s : String) : Option Env :=
  match s.toList with
  | 'E' :: '=' :: u :: sd :: forms =>
    if forms.length != rs.length || !(u == '0' || u == '1') || !"animj".toList.contains sd
       || forms.any (fun c => !"-animj".toList.contains c) then none else
    let named : Nat → Bool := fun r =>
      match (rs.zip forms).find? (fun p => p.1 == r) with
      | some p => if p.2 == '-' then mailboxNA r else shapeNA p.2
      | none => false
    let env : Env := ⟨u == '1', shapeNA sd, named⟩
    -- outside the input space: a non-ASCII local part without SMTPUTF8
    if !env.utf8 && (env.senderNA || rs.any (fun r => named r || mailboxNA r)) then none else some env
  | _ => none

def parseExt (rs : List Nat) : List String → Option ((Nat → Nat) × Env)
  | [] => some (fun _ => 0, ⟨true, false, fun _ => false⟩)
  | [r] => (parseRestarts r).map (·, ⟨true, false, fun _ => false⟩)
  | [r, e] => do
    let rr ← parseRestarts r
    let env ← parseEnv rs e
    pure (rr, env)
  | _ => none

end ext

def handle : List String → String
  | "hop" :: rest => handleHop rest
  | "run" :: mt :: kind :: dsn :: rcpts :: plans :: ext =>
    -- optional tokens: R=<restart before attempt k>.… and E=<utf8><sender form><original-recipient forms>
    match mt.toNat?, (rcpts.splitOn ",").mapM String.toNat? with
    | some maxTries, some rs =>
      match (plans.splitOn ";").mapM (parsePlan rs), parseExt rs ext with
      | some ps, some (restarts, env) =>
        let k := if kind == "p" then Kind.partialD else Kind.atomic
        let planAt : Nat → Plan := fun i => (ps[i]?).getD allOk
        let res := MaddyVerif.QueueRestart.runR maxTries k (dsn == "1") env planAt restarts (maxTries + 1) 0
          (MaddyVerif.QueueRestart.accepted rs)
        " ".intercalate (res.1.filterMap showEv ++ (if res.2 then ["BROKEN"] else []))
      | _, _ => "bad-op"
    | _, _ => "bad-op"
  | "outcomes" :: mt :: kind :: dsn :: rcpts :: plans :: _ =>
    -- terminal outcomes only, canonically ordered: the queue on top of the real remote target
    match mt.toNat?, (rcpts.splitOn ",").mapM String.toNat? with
    | some maxTries, some rs =>
      match (plans.splitOn ";").mapM (parsePlan rs) with
      | some ps =>
        let k := if kind == "p" then Kind.partialD else Kind.atomic
        let planAt : Nat → Plan := fun i => (ps[i]?).getD allOk
        let evs := run maxTries k (dsn == "1") planAt (maxTries + 1) 0 ⟨rs, fun _ => 0⟩
        let cnt (f : Nat → List Ev → Nat) : String :=
          ",".intercalate (rs.map (fun r => s!"{r}={f r evs}"))
        let rm := if evs.any (fun e => match e with | .removed => true | _ => false) then "removed" else "NOT-REMOVED"
        s!"c:{cnt commitCount} r:{cnt reportCount} {rm}"
      | none => "bad-op"
    | _, _ => "bad-op"
  | _ => "bad-op"

end Driver.C01
