import MaddyVerif.Model.Dmarc
import MaddyVerif.Spec.C07
import Driver.Util
/-!
Line protocol of C07 (tokens after the `C07` tag; groups separated by `|`):

  verify <rnd> <priorQ>  | groups…      → `<val> <reason> <spfAligned> <dkimAligned> <policy>`
  reply  <rnd> <priorQ>  | groups…      → `refuse <code> <c>.<s>.<d>` / `accept <quarantine>`
  extract                | F-groups…    → `ok <dom>` / `err <kind>`
  aligned <from> <auth> <r|s> | tables… → `0` / `1`
  laws                   | tables… o-groups… → `ok` / `law-fail <name> <dom>…`

groups:
  F m | F a <dom|!>*                        one From field (ParseAddressList failed | addresses, `!` = Split failed)
  D <dom> nx|nx2|temp|temp2|other|other2 | D <dom> ok <txt>*
                                            what the resolver answers for _dmarc.<dom> (names compare case-insensitively;
                                            nx2 = IsNotFound+IsTemporary, temp2 = IsTimeout, other2 = a DNSError that is neither)
       txt:  j | x | r,<adkim>,<aspf>,<p>,<sp|->,<pct|->      each followed by #<hex of the raw text> (replay only)
  I … | H …                                 generator intent and raw header: for the Go monitor and replay, ignored here
  R d <val> <dom> [<ident>] | R s <val> <from> <helo> | R o [<k>]       (k: which other method, harness only)
                                            ident: the signing identity (i= / header.i) of the DKIM result as a string token
                                            (`=` alone: none); it needs no library rows - the model never consults it
  B <n|->{3} q<k> smtp|lmtp                 (reply only) pipeline run with a timing: number of R results the check of
                                            the global / source / recipient block reports (in order; `-`: no check
                                            in that block), q<k>: block of the quarantining check, smtp|lmtp: Body or
                                            BodyNonAtomic (both harness only: the same checkBody/applyResults sequence)
  A <dom> <stage>                           (with B) the answer for _dmarc.<dom> arrives at that stage (0 at once,
                                            k while the checks of block k run, 4 after all of them)
  W <wrap|->+                               (reply only) how the check of each block hands its results over (one token per
                                            entry of B, or one token for the single global check of a run without B):
                                            stage c|s|r|b (CheckConnection, CheckSender, CheckRcpt, CheckBody) followed by any of
                                            i (a Reason, neither Reject nor Quarantine), q (Reason and Quarantine), h (header
                                            fields of its own), d (the later blocks reference the same check again);
                                            answered with `pipelineChecks`
  N <p|c|m|f>+                              (reply only) the routing blocks (nested pipelines sharing the message's metadata)
                                            between the evaluating pipeline and the storage, outermost first: p no checks,
                                            c / m checks with nothing to say, f a check of the block flags the message;
                                            answered through `routed`
  t <dom> <lower> <publicSuffix(lower)> <etld1(lower)|!>     library answers for a domain
  c <dom> <class>                           strings.EqualFold classes (same class ⇔ EqualFold)
  o <dom> <org>                             the KNOWN organizational domain (hand-written list; `laws` only)
dom token: `=ascii-text` or `~hex.code.points`.
A string whose library answers are not in the tables makes the answer `missing` (never a default).
-/
namespace Driver.C07
open MaddyVerif.Dmarc Driver

def dom? (s : String) : Option Str :=
  match s.toList with
  | '=' :: r => some (r.map Char.toNat)
  | '~' :: r => if r.isEmpty then none else unhexRunes? (String.ofList r)
  | _ => none

def showDom (d : Str) : String :=
  if d.all (fun c => c < 128 ∧ c > 32 ∧ c ≠ 124) then "=" ++ String.ofList (d.map Char.ofNat) else "~" ++ hexRunes d

structure Tabs where
  t : List (Str × (Str × Str × Option Str)) := []
  c : List (Str × Nat) := []
  o : List (Str × Str) := []
  dns : List (Str × Lookup) := []
  hdr : List FieldParse := []      -- reversed
  res : List AuthRes := []         -- reversed
  blocks : Option (List (Option Nat)) := none
  hops : List Bool := []
  wraps : Option (List (Option (Stage × Bool × Bool × Bool × Bool))) := none
  arr : List (Str × Nat) := []

def groups (toks : List String) : List (List String) :=
  let rec go (cur : List String) (acc : List (List String)) : List String → List (List String)
    | [] => (cur.reverse :: acc).reverse
    | "|" :: r => go [] (cur.reverse :: acc) r
    | t :: r => go (t :: cur) acc r
  go [] [] toks

def mode? : String → Option Mode
  | "r" => some .relaxed | "s" => some .strict | _ => none
def pol? : String → Option Policy
  | "n" => some .none | "q" => some .quarantine | "r" => some .reject | _ => none
def val? : String → Option Val
  | "none" => some .none | "pass" => some .pass | "fail" => some .fail | "softfail" => some .softfail
  | "neutral" => some .neutral | "temperror" => some .temperror | "permerror" => some .permerror
  | "policy" => some .policy | "empty" => some .empty | _ => none

def txt? (s : String) : Option Txt :=
  -- the raw text after '#' is for replay only
  match ((s.splitOn "#").headD "").splitOn "," with
  | ["j"] => some .junk
  | ["x"] => some (.dmarc none)
  | ["r", ad, as, p, sp, pct] => do
    let ad ← mode? ad
    let as ← mode? as
    let p ← pol? p
    let sp ← if sp == "-" then some none else (pol? sp).map some
    let pct ← if pct == "-" then some none else pct.toNat?.map some
    pure (.dmarc (some ⟨ad, as, p, sp, pct⟩))
  | _ => none

/-- a wrap token: stage letter c|s|r|b, then any of i (reason, no action), q (reason and
quarantine), h (header fields), d (referenced again by the later blocks), each once, in any order, not i together with q; "-": no check -/
def wrap? (s : String) : Option (Option (Stage × Bool × Bool × Bool × Bool)) :=
  if s == "-" then some none else
  match s.toList with
  | [] => none
  | c :: fl => do
    let st ← match c with
      | 'c' => some Stage.conn | 's' => some Stage.sender | 'r' => some Stage.rcpt | 'b' => some Stage.body
      | _ => none
    if !(fl.all fun x => x == 'i' || x == 'q' || x == 'h' || x == 'd') then none
    else if fl.eraseDups.length != fl.length then none
    else if fl.contains 'i' && fl.contains 'q' then none
    else pure (some (st, fl.contains 'i' || fl.contains 'q', fl.contains 'q', fl.contains 'h', fl.contains 'd'))

def addr? (s : String) : Option (Option Str) :=
  if s == "!" then some none else (dom? s).map some

def parse (gs : List (List String)) : Option Tabs :=
  gs.foldlM (fun (T : Tabs) g =>
    match g with
    | [] => some T
    | ["F", "m"] => some { T with hdr := .malformed :: T.hdr }
    | "F" :: "a" :: as => do pure { T with hdr := .addrs (← as.mapM addr?) :: T.hdr }
    | "I" :: _ => some T           -- generator intent (monitor / replay only)
    | "H" :: _ => some T           -- raw header (replay only)
    | ["D", d, "nx"] => do pure { T with dns := T.dns ++ [(← dom? d, .notFound)] }
    | ["D", d, "nx2"] => do pure { T with dns := T.dns ++ [(← dom? d, .notFound)] }
    | ["D", d, "temp"] => do pure { T with dns := T.dns ++ [(← dom? d, .temp)] }
    | ["D", d, "temp2"] => do pure { T with dns := T.dns ++ [(← dom? d, .temp)] }
    | ["D", d, "other"] => do pure { T with dns := T.dns ++ [(← dom? d, .other)] }
    | ["D", d, "other2"] => do pure { T with dns := T.dns ++ [(← dom? d, .other)] }
    | "D" :: d :: "ok" :: txts => do pure { T with dns := T.dns ++ [(← dom? d, .ok (← txts.mapM txt?))] }
    | ["R", "d", v, d] => do pure { T with res := .dkim (← val? v) (← dom? d) [] :: T.res }
    | ["R", "d", v, d, i] => do pure { T with res := .dkim (← val? v) (← dom? d) (← dom? i) :: T.res }
    | ["R", "s", v, f, h] => do pure { T with res := .spf (← val? v) (← dom? f) (← dom? h) :: T.res }
    | ["R", "o"] => some { T with res := .other :: T.res }
    | ["R", "o", k] => do let _ ← k.toNat?; pure { T with res := .other :: T.res }
    | ["B", a, b, c, q, how] =>
      if !(q.startsWith "q") || (how != "smtp" && how != "lmtp") then none else do
      let cnt (x : String) : Option (Option Nat) := if x == "-" then some none else x.toNat?.map some
      pure { T with blocks := some [← cnt a, ← cnt b, ← cnt c] }
    | "W" :: ws => do
      if ws.isEmpty then none else
      pure { T with wraps := some (← ws.mapM wrap?) }
    | "N" :: hs => do
      if hs.isEmpty then none else
      let hop (h : String) : Option Bool :=
        if h == "p" || h == "c" || h == "m" then some false else if h == "f" then some true else none
      pure { T with hops := ← hs.mapM hop }
    | ["A", d, st] => do pure { T with arr := T.arr ++ [(← dom? d, ← st.toNat?)] }
    | ["t", d, l, p, e] => do
      let e ← if e == "!" then some none else (dom? e).map some
      pure { T with t := (← dom? d, (← dom? l, ← dom? p, e)) :: T.t }
    | ["c", d, k] => do pure { T with c := (← dom? d, ← k.toNat?) :: T.c }
    | ["o", d, o] => do pure { T with o := (← dom? d, ← dom? o) :: T.o }
    | _ => none) {}

def look {β} (t : List (Str × β)) (k : Str) : Option β :=
  (t.find? (fun p => p.1 == k)).map (·.2)

/-- marker for an answer that is not in the tables -/
def missing : Str := [0x10FFFF, 77, 73, 83, 83]

def Tabs.cls (T : Tabs) (s : Str) : Option Nat := look T.c s

def Tabs.prims (T : Tabs) : Prims where
  eqFold x y := match T.cls x, T.cls y with
    | some a, some b => a == b
    | _, _ => false
  lower x := match look T.t x with | some r => r.1 | none => missing
  publicSuffix x :=
    -- the table is keyed by the ORIGINAL domain; publicSuffix is asked for its lower-cased form
    match T.t.find? (fun p => p.2.1 == x) with | some r => r.2.2.1 | none => missing
  etld1 x := match T.t.find? (fun p => p.2.1 == x) with | some r => r.2.2.2 | none => some missing

/-- the resolver: names compare case-insensitively -/
def Tabs.dnsFn (T : Tabs) (name : Str) : Lookup :=
  match T.cls name with
  | none => .other
  | some k => match T.dns.find? (fun p => T.cls p.1 == some k) with
    | some p => p.2
    | none => .other

/-- arrival stage of the answer for a name (names compare case-insensitively); `none`: not shipped -/
def Tabs.arrFn (T : Tabs) (name : Str) : Option Nat :=
  match T.cls name with
  | none => none
  | some k => (T.arr.find? (fun p => T.cls p.1 == some k)).map (·.2)

/-- the results each existing block reports: consecutive pieces of the result list -/
def splitBlocks : List (Option Nat) → List AuthRes → Option (List (List AuthRes))
  | [], [] => some []
  | [], _ :: _ => none
  | none :: bs, rs => splitBlocks bs rs
  | some n :: bs, rs =>
    if rs.length < n then none else (splitBlocks bs (rs.drop n)).map (rs.take n :: ·)

/-- the checks of a run: block k (from `k`) with its share of the results and its wrap -/
def buildChecks : Nat → List (Option Nat) → List (Option (Stage × Bool × Bool × Bool × Bool)) → List AuthRes →
    Option (List CheckRes)
  | _, [], [], [] => some []
  | k, none :: bs, none :: ws, rs => buildChecks (k + 1) bs ws rs
  | k, some n :: bs, some (st, reason, q, h, d) :: ws, rs =>
    if rs.length < n then none else
    (buildChecks (k + 1) bs ws (rs.drop n)).map
      ({ block := k, stage := st, results := rs.take n, reason := reason, quarantine := q, header := h, again := d } :: ·)
  | _, _, _, _ => none

def authDoms : AuthRes → List Str
  | .dkim _ d _ => [d]
  | .spf _ f h => [f, h]
  | .other => []

def hdrDoms : FieldParse → List Str
  | .malformed => []
  | .addrs l => l.filterMap id

/-- Completeness of the shipped tables for the given subject domains: every domain has its library
row, every string that can appear has an EqualFold class, every name the resolver may be asked has
an answer. -/
def Tabs.complete (T : Tabs) (doms : List Str) (needDns : Bool) : Bool :=
  doms.all (fun d =>
    match look T.t d with
    | none => false
    | some (l, p, e) =>
      (T.cls d).isSome && (T.cls l).isSome && (T.cls p).isSome &&
      (match e with | none => true | some o => (T.cls o).isSome) &&
      (!needDns ||
        ((T.dns.any (fun q => T.cls q.1 == T.cls d)) &&
         (match e with | none => true | some o => T.dns.any (fun q => T.cls q.1 == T.cls o)))))

def b01 (b : Bool) : String := if b then "1" else "0"

def showVal : Val → String
  | .none => "none" | .pass => "pass" | .fail => "fail" | .softfail => "softfail" | .neutral => "neutral"
  | .temperror => "temperror" | .permerror => "permerror" | .policy => "policy" | .empty => "empty"
def showReason : Reason → String
  | .lookupFailed => "lookupFailed" | .notEnough => "notEnough" | .dkimTemp => "dkimTemp"
  | .spfTemp => "spfTemp" | .noAligned => "noAligned" | .blank => "blank"
def showPol : Policy → String
  | .none => "none" | .quarantine => "quarantine" | .reject => "reject"
def showReply : Reply → String
  | .refuse c a b d => s!"refuse {c} {a}.{b}.{d}"
  | .accept q => s!"accept {b01 q}"
def showExtractErr : ExtractErr → String
  | .missingField => "missingField" | .multipleFields => "multipleFields" | .malformed => "malformed"
  | .multipleAddrs => "multipleAddrs" | .missingAddr => "missingAddr" | .malformedAddr => "malformedAddr"

/-- the spec-side domain theory shipped with a `laws` op -/
def Tabs.theory (T : Tabs) : MaddyVerif.C07.DomainTheory where
  same x y := match T.cls x, T.cls y with
    | some a, some b => a == b
    | _, _ => false
  org x := match look T.o x with | some o => o | none => missing

def handle (toks : List String) : String :=
  match groups toks with
  | [] => "bad-op"
  | call :: gs =>
    match parse gs with
    | none => "bad-op"
    | some T =>
      let T := { T with hdr := T.hdr.reverse, res := T.res.reverse }
      let P := T.prims
      match call with
      | [op, rnd, q] =>
        if op != "verify" && op != "reply" then "bad-op" else
        match rnd.toNat?, q with
        | some rnd, q =>
          if q != "0" && q != "1" then "bad-op" else
          let froms := match extractFromDomain T.hdr with | .ok d => [d] | .error _ => []
          if !(T.complete froms true && T.complete (T.res.flatMap authDoms) false) then "missing" else
          let r := verify P T.dnsFn T.hdr T.res rnd
          if op == "verify" then
            s!"{showVal r.1.val} {showReason r.1.reason} {b01 r.1.spfAligned} {b01 r.1.dkimAligned} {showPol r.2}"
          else
          let showReply := fun (x : Reply) => showReply (routed T.hops x)
          match T.blocks, T.wraps with
            | none, none => showReply (applyResults (q == "1") r)
            | none, some [some (st, reason, wq, h, d)] =>
              -- one global check, every answer at once
              showReply (pipelineChecks P T.dnsFn (fun _ => 0) T.hdr
                [{ block := 0, stage := st, results := T.res, reason := reason, quarantine := wq, header := h, again := d }] rnd (q == "1"))
            | none, some _ => "bad-op"
            | some bl, some ws =>
              match buildChecks 0 bl ws T.res with
              | none => "bad-op"
              | some cs =>
                if !(T.dns.all fun p => (T.arrFn p.1).isSome) then "missing" else
                showReply (pipelineChecks P T.dnsFn (fun n => (T.arrFn n).getD 0) T.hdr cs rnd (q == "1"))
            | some bl, none =>
              -- pipeline run with a timing: the model of the asynchronous hand-off
              match splitBlocks bl T.res with
              | none => "bad-op"
              | some blocks =>
                if !(T.dns.all fun p => (T.arrFn p.1).isSome) then "missing" else
                showReply (pipelineBody P T.dnsFn (fun n => (T.arrFn n).getD 0) T.hdr blocks rnd (q == "1"))
        | _, _ => "bad-op"
      | ["extract"] =>
        match extractFromDomain T.hdr with
        | .ok d => "ok " ++ showDom d
        | .error e => "err " ++ showExtractErr e
      | ["aligned", f, a, m] =>
        match dom? f, dom? a, mode? m with
        | some f, some a, some m =>
          if !T.complete [f, a] false then "missing" else b01 (isAligned P f a m)
        | _, _, _ => "bad-op"
      | ["laws"] =>
        let doms := T.o.map (·.1)
        if !(T.complete doms false && doms.all (fun d => (look T.o d).isSome && (T.cls ((look T.o d).getD [])).isSome)) then "missing" else
        match MaddyVerif.C07.lawFailure P T.theory doms with
        | none => "ok"
        | some (name, ds) => s!"law-fail {name} " ++ " ".intercalate (ds.map showDom)
      | _ => "bad-op"

end Driver.C07
