import MaddyVerif.Model.QueueDsn
import Driver.Util
import Driver.C16
/-! Driver for C18: `gen` (dsn.GenerateDSN alone) and `q` (emitDSN inside the queue's attempts).
The rendering of a report mirrors `vdsn.(*Parsed).Canon` of the Go harness. -/
namespace Driver.C18
open MaddyVerif.Errors MaddyVerif.Dsn MaddyVerif.QueueDsn MaddyVerif.Queue Driver

abbrev S := List Nat

/-- collapse runs of space/tab, trim (what header folding + unfolding preserves) -/
def canonWs (s : S) : S :=
  let rec go : S → S → List S → List S
    | [], cur, acc => if cur.isEmpty then acc else cur.reverse :: acc
    | c :: r, cur, acc =>
      if c == 32 || c == 9 then go r [] (if cur.isEmpty then acc else cur.reverse :: acc)
      else go r (c :: cur) acc
  let words := (go s [] []).reverse
  match words with
  | [] => []
  | w :: ws => ws.foldl (fun a x => a ++ [32] ++ x) w

def hx (s : S) : String := hexRunes (canonWs s)

def b01 (b : Bool) : String := if b then "1" else "0"

def parseEnch (s : String) : Option Ench :=
  match s.splitOn "." with
  | [a, b, c] => do pure ⟨← a.toNat?, ← b.toNat?, ← c.toNat?⟩
  | _ => none

def enchStr (e : Ench) : String := s!"{e.cls}.{e.subj}.{e.det}"

/-! ### IDNA table -/

structure Tab where
  a : List (S × Option S)
  d : List (S × Option S)

def parseTab (s : String) : Option Tab :=
  if s == "-" then some ⟨[], []⟩ else
  (s.splitOn ",").foldlM (fun (t : Tab) e =>
    match e.splitOn ":" with
    | [k, i, o] => do
      let i ← unhexRunes? i
      let o ← if o == "!" then pure none else some <$> unhexRunes? o
      if k == "a" then pure { t with a := t.a ++ [(i, o)] }
      else if k == "d" then pure { t with d := t.d ++ [(i, o)] }
      else none
    | _ => none) ⟨[], []⟩

def lookup (l : List (S × Option S)) (x : S) : Option (Option S) :=
  (l.find? (fun p => p.1 == x)).map (·.2)

def Tab.idna (t : Tab) : Idna :=
  { addr := fun _ x => (lookup t.a x).getD none,
    dom := fun _ x => (lookup t.d x).getD none }

/-- every non-empty string that may be converted has an entry (no defaults) -/
def Tab.covers (t : Tab) (addrs doms : List S) : Bool :=
  addrs.all (fun x => x.isEmpty || (lookup t.a x).isSome) &&
  doms.all (fun x => x.isEmpty || (lookup t.d x).isSome)

/-! ### rendering -/

def diagStr : DiagOut → String
  | .smtp c e t => s!"smtp:{c}:{enchStr e}:{hexRunes (canonWs t)}"
  | .xMaddy t => "xmaddy:" ++ hx t
  | .omitted => "_"

def optStr : Option S → String
  | some s => hx s
  | none => "_"

def atStr : AddrType → String
  | .rfc822 => "rfc822"
  | .utf8 => "utf8"

def pad3 (n : Nat) : S :=
  let d := (toString n).toList.map Char.toNat
  List.replicate (3 - d.length) 48 ++ d

def humanErrText : HumanErr → S
  | .smtp c m => lit "SMTP error " ++ pad3 c ++ (if m.isEmpty then [] else lit ": " ++ m)
  | .other t => t
  | .nil => lit "<nil>"

def humanTail (l : List (S × HumanErr)) : S :=
  l.foldl (fun acc p => acc ++ lit "Delivery to " ++ p.1 ++ lit " failed with error: " ++ humanErrText p.2 ++ [10]) []

def reportStr (r : Report) : String :=
  let mta := r.mta
  let xs := match mta.xSender with
    | some (t, a) => atStr t ++ ":" ++ hx a
    | none => "_"
  let rs := r.rcpts.map (fun g =>
    s!" r={atStr g.addrType};{hx g.addr};{hx g.action};{enchStr g.status};{diagStr g.diag};{optStr g.remoteMTA}")
  s!"rep utf8={b01 r.utf8} mid={hx r.msgId} to={hx r.hdrTo} from={hx r.hdrFrom} parts={"|".intercalate r.partTypes}" ++
  s!" mta=rm:{hx mta.reportingMTA},rcvd:{optStr mta.receivedFrom},xs:{xs},xid:{optStr mta.xMsgId},dates:{b01 mta.dates}" ++
  s!" n={r.rcpts.length}" ++ String.join rs ++
  s!" human={hexRunes (humanTail r.human)} hdr={r.origHdr}"

def genErrStr : GenErr → String
  | .mtaMissing => "mtaMissing" | .mtaConv => "mtaConv" | .rcvdConv => "rcvdConv"
  | .senderConv => "senderConv" | .rcptMissing => "rcptMissing" | .rcptConv => "rcptConv"
  | .actionMissing => "actionMissing" | .statusMissing => "statusMissing"
  | .remoteConv => "remoteConv" | .panic => "panic"

/-! ### gen -/

def parseDiag (s : String) : Option DiagIn :=
  match s.splitOn ":" with
  | ["N"] => some .nil
  | ["O", t] => DiagIn.other <$> unhexRunes? t
  | ["S", c, e, m] => do pure (.smtp (← c.toNat?) (← parseEnch e) (← unhexRunes? m))
  | _ => none

def parseRcpts : Nat → List String → Option (List RcptInfo × List String)
  | 0, rest => some ([], rest)
  | n + 1, f :: rm :: ac :: st :: dg :: rest => do
    let r : RcptInfo := { finalRcpt := ← unhexRunes? f, remoteMTA := ← unhexRunes? rm,
                          action := ← unhexRunes? ac, status := ← parseEnch st, diag := ← parseDiag dg }
    let (rs, rest') ← parseRcpts n rest
    pure (r :: rs, rest')
  | _, _ => none

def handleGen : List String → Option String
  | utf8 :: msgId :: from_ :: to :: rm :: rcvd :: xs :: xid :: arr :: hdr :: nr :: rest => do
    let (rs, rest') ← parseRcpts (← nr.toNat?) rest
    match rest' with
    | [tab] =>
      let t ← parseTab tab
      let mta : MtaInfo := { reportingMTA := ← unhexRunes? rm, receivedFromMTA := ← unhexRunes? rcvd,
                             xSender := ← unhexRunes? xs, xMsgId := ← unhexRunes? xid, hasArrival := arr == "1" }
      let env : Envelope := { msgId := ← unhexRunes? msgId, from_ := ← unhexRunes? from_, to := ← unhexRunes? to }
      if !t.covers (mta.xSender :: rs.map (·.finalRcpt)) (mta.reportingMTA :: mta.receivedFromMTA :: rs.map (·.remoteMTA)) then none else
      match generate t.idna (utf8 == "1") env mta rs (← hdr.toNat?) with
      | .error e => pure ("err:" ++ genErrStr e)
      | .ok r => pure (reportStr r)
    | _ => none
  | _ => none

/-! ### q -/

def parseNames (s : String) : Option (List (Nat × S)) :=
  if s == "-" then some [] else
  (s.splitOn ",").mapM (fun e => match e.splitOn "=" with
    | [i, h] => do pure (← i.toNat?, ← unhexRunes? h)
    | _ => none)

def parseMap (s : String) : Option (List (Nat × Nat)) :=
  if s == "-" then some [] else
  (s.splitOn ",").mapM (fun e => match e.splitOn ">" with
    | [k, v] => do pure (← k.toNat?, ← v.toNat?)
    | _ => none)

def parseIds (s : String) : Option (List Nat) :=
  if s == "-" then some [] else (s.splitOn ",").mapM String.toNat?

/-- one attempt: `id=err,…` with the error in C16's prefix notation, tokens joined by `~` -/
def parsePlan (s : String) : Option (List (Nat × Err)) :=
  if s == "-" then some [] else
  (s.splitOn ",").mapM (fun e => match e.splitOn "=" with
    | [i, er] =>
      match Driver.C16.parseErr (er.splitOn "~") with
      | some (err, []) => do pure (← i.toNat?, err)
      | _ => none
    | _ => none)

def assoc {β} (l : List (Nat × β)) (k : Nat) : Option β := (l.find? (fun p => p.1 == k)).map (·.2)

def stageOf : String → Option (Option Stage)
  | "-" => some none | "s" => some (some .start) | "r" => some (some .rcpt)
  | "b" => some (some .body) | "c" => some (some .commit) | _ => none

def natList (l : List Nat) : String := ",".intercalate (l.map toString)

def bevStr : BEv → String
  | .start mf orf u t ok => s!"bstart(mf={mf},of={orf},utf8={b01 u},rtls={b01 t},ok={b01 ok})"
  | .rcpt to ok => s!"brcpt({to},ok={b01 ok})"
  | .body r ok => "bbody(ok=" ++ b01 ok ++ "){" ++ reportStr r ++ "}"
  | .commit ok => s!"bcommit(ok={b01 ok})"
  | .abort => "babort"
  | .genError e => "generr:" ++ genErrStr e
  | .panic => "panic"

def qevStr : QEv → Option String
  | .bounce e => some (bevStr e)
  | .removed => some "removed"
  | .requeue _ => none

def runQ (cfg : Cfg) (maxTries : Nat) (plans : List (List (Nat × Err))) (failAt : Option Stage) :
    Nat → Nat → QMeta → List String
  | 0, _, _ => ["FUEL"]
  | fuel + 1, i, q =>
    let now : Nat → Option Err := fun r => assoc ((plans[i]?).getD []) r
    let (next, evs) := attempt cfg maxTries now failAt q
    let here := ("try:" ++ natList q.to) :: evs.filterMap qevStr
    match next with
    | none => here
    | some q' => here ++ runQ cfg maxTries plans failAt fuel (i + 1) q'

def handleQ : List String → Option String
  | [utf8, rtls, pipeline, mt, failAt, from_, ofrom, rcvd, hdr, host, domain, msgid, names, omap, rcpts, plans, tab, _truth] => do
    let names ← parseNames names
    let omap ← parseMap omap
    let rcpts ← parseIds rcpts
    let plans ← (plans.splitOn ";").mapM parsePlan
    let t ← parseTab tab
    let failAt ← stageOf failAt
    let from_ ← from_.toNat?
    let ofrom ← ofrom.toNat?
    let known (i : Nat) : Bool := i == 0 || (assoc names i).isSome
    if !(known from_ && known ofrom && rcpts.all known && omap.all (fun p => known p.1 && known p.2)
         && plans.all (fun p => p.all (fun e => known e.1))) then none else
    if names.any (fun p => p.1 == 0) then none else
    let name : Nat → S := fun i => (assoc names i).getD []
    let host ← unhexRunes? host
    let rcvd ← unhexRunes? rcvd
    if !t.covers (names.map (·.2)) [host, rcvd] then none else
    let cfg : Cfg := { pipeline := pipeline == "1", hostname := host, autogenDomain := ← unhexRunes? domain,
                       idna := t.idna, name := name }
    let m : MsgMeta := { id := ← unhexRunes? msgid, from_ := from_, originalFrom := ofrom,
                         origRcpts := fun r => (assoc omap r).getD 0, utf8 := utf8 == "1", requireTLS := rtls == "1",
                         rcvdFrom := rcvd, rcptErrs := fun _ => none, hdr := ← hdr.toNat? }
    let maxTries ← mt.toNat?
    pure (" | ".intercalate (runQ cfg maxTries plans failAt (maxTries + 2) 0 ⟨rcpts, fun _ => 0, m⟩))
  | _ => none

def handle : List String → String
  | "gen" :: rest => (handleGen rest).getD "bad-op"
  | "q" :: rest => (handleQ rest).getD "bad-op"
  | _ => "bad-op"

end Driver.C18
