import MaddyVerif.Model.QueueDsn
import Driver.Util
import Driver.C16
/-! Driver for C18: `gen` (dsn.GenerateDSN alone) and `q` (emitDSN inside the queue's attempts).
The rendering of a report mirrors `vdsn.(*Parsed).Canon` of the Go harness. -/
namespace Driver.C18
open MaddyVerif.Errors MaddyVerif.Dsn MaddyVerif.QueueDsn MaddyVerif.Queue Driver

abbrev S := List Nat

/-- collapse runs of space/tab, trim (what header folding + unfolding preserves) -/
def canonWs (s : S) : S :=
  let rec go : S → S → List S → List S
    | [], cur, acc => if cur.isEmpty then acc else cur.reverse :: acc
    | c :: r, cur, acc =>
      if c == 32 || c == 9 then go r [] (if cur.isEmpty then acc else cur.reverse :: acc)
      else go r (c :: cur) acc
  let words := (go s [] []).reverse
  match words with
  | [] => []
  | w :: ws => ws.foldl (fun a x => a ++ [32] ++ x) w

def hx (s : S) : String := hexRunes (canonWs s)

def b01 (b : Bool) : String := if b then "1" else "0"

def parseEnch (s : String) : Option Ench :=
  match s.splitOn "." with
  | [a, b, c] => do pure ⟨← a.toNat?, ← b.toNat?, ← c.toNat?⟩
  | _ => none

def enchStr (e : Ench) : String := s!"{e.cls}.{e.subj}.{e.det}"

/-! ### IDNA table -/

structure Tab where
  pa : List (S × Option S)      -- idna.ToASCII(domain)
  pu : List (S × Option S)      -- norm.NFC.String(idna.ToUnicode(domain))
  d : List (S × Option S)       -- dns.SelectIDNA(utf8, domain) in the flavour of the case

/-- `pa:<dom>:<out|!>`, `pu:<dom>:<out|!>` — the library calls under `address.SelectIDNA` for the
DOMAINS of the addresses of the case (the address conversion itself is the model's `selectIDNA`);
`d:<dom>:<out|!>` — `dns.SelectIDNA`. -/
def parseTab (s : String) : Option Tab :=
  if s == "-" then some ⟨[], [], []⟩ else
  (s.splitOn ",").foldlM (fun (t : Tab) e =>
    match e.splitOn ":" with
    | [k, i, o] => do
      let i ← unhexRunes? i
      let o ← if o == "!" then pure none else some <$> unhexRunes? o
      if k == "pa" then pure { t with pa := t.pa ++ [(i, o)] }
      else if k == "pu" then pure { t with pu := t.pu ++ [(i, o)] }
      else if k == "d" then pure { t with d := t.d ++ [(i, o)] }
      else none
    | _ => none) ⟨[], [], []⟩

def lookup (l : List (S × Option S)) (x : S) : Option (Option S) :=
  (l.find? (fun p => p.1 == x)).map (·.2)

def Tab.idna (t : Tab) : Idna :=
  Idna.ofConv ⟨fun x => (lookup t.pa x).getD none, fun x => (lookup t.pu x).getD none⟩
    (fun _ x => (lookup t.d x).getD none)

/-- every string the library may be asked to convert has an entry (no defaults): the domain of
every address that `address.Split` accepts, in the flavour of the case -/
def Tab.covers (t : Tab) (utf8 : Bool) (addrs doms : List S) : Bool :=
  addrs.all (fun x => match MaddyVerif.Dsn.splitAddr x with
    | some (_, dom) => dom.isEmpty || (lookup (if utf8 then t.pu else t.pa) dom).isSome
    | none => true) &&
  doms.all (fun x => x.isEmpty || (lookup t.d x).isSome)

/-! ### rendering -/

def diagStr : DiagOut → String
  | .smtp c e t => s!"smtp:{c}:{enchStr e}:{hexRunes (canonWs t)}"
  | .xMaddy t => "xmaddy:" ++ hx t
  | .omitted => "_"

def optStr : Option S → String
  | some s => hx s
  | none => "_"

def atStr : AddrType → String
  | .rfc822 => "rfc822"
  | .utf8 => "utf8"

def pad3 (n : Nat) : S :=
  let d := (toString n).toList.map Char.toNat
  List.replicate (3 - d.length) 48 ++ d

def humanErrText : HumanErr → S
  | .smtp c m => lit "SMTP error " ++ pad3 c ++ (if m.isEmpty then [] else lit ": " ++ m)
  | .other t => t
  | .nil => lit "<nil>"

def humanTail (l : List (S × HumanErr)) : S :=
  l.foldl (fun acc p => acc ++ lit "Delivery to " ++ p.1 ++ lit " failed with error: " ++ humanErrText p.2 ++ [10]) []

def reportStr (r : Report) : String :=
  let mta := r.mta
  let xs := match mta.xSender with
    | some (t, a) => atStr t ++ ":" ++ hx a
    | none => "_"
  let rs := r.rcpts.map (fun g =>
    s!" r={atStr g.addrType};{hx g.addr};{hx g.action};{enchStr g.status};{diagStr g.diag};{optStr g.remoteMTA}")
  s!"rep utf8={b01 r.utf8} mid={hx r.msgId} to={hx r.hdrTo} from={hx r.hdrFrom} parts={"|".intercalate r.partTypes}" ++
  s!" mta=rm:{hx mta.reportingMTA},rcvd:{optStr mta.receivedFrom},xs:{xs},xid:{optStr mta.xMsgId},dates:{b01 mta.dates}" ++
  s!" n={r.rcpts.length}" ++ String.join rs ++
  s!" human={hexRunes (humanTail r.human)} hdr={r.origHdr}"

def genErrStr : GenErr → String
  | .mtaMissing => "mtaMissing" | .mtaConv => "mtaConv"
  | .senderConv => "senderConv" | .rcptMissing => "rcptMissing" | .rcptConv => "rcptConv"
  | .actionMissing => "actionMissing" | .statusMissing => "statusMissing"
  | .remoteConv => "remoteConv" | .panic => "panic"

/-! ### gen -/

def parseDiag (s : String) : Option DiagIn :=
  match s.splitOn ":" with
  | ["N"] => some .nil
  | ["O", t] => DiagIn.other <$> unhexRunes? t
  | ["S", c, e, m] => do pure (.smtp (← c.toNat?) (← parseEnch e) (← unhexRunes? m))
  | _ => none

def parseRcpts : Nat → List String → Option (List RcptInfo × List String)
  | 0, rest => some ([], rest)
  | n + 1, f :: rm :: ac :: st :: dg :: rest => do
    let r : RcptInfo := { finalRcpt := ← unhexRunes? f, remoteMTA := ← unhexRunes? rm,
                          action := ← unhexRunes? ac, status := ← parseEnch st, diag := ← parseDiag dg }
    let (rs, rest') ← parseRcpts n rest
    pure (r :: rs, rest')
  | _, _ => none

def handleGen : List String → Option String
  | utf8 :: msgId :: from_ :: to :: rm :: rcvd :: xs :: xid :: arr :: hdr :: nr :: rest => do
    let (rs, rest') ← parseRcpts (← nr.toNat?) rest
    match rest' with
    | [tab] =>
      let t ← parseTab tab
      let mta : MtaInfo := { reportingMTA := ← unhexRunes? rm, receivedFromMTA := ← unhexRunes? rcvd,
                             xSender := ← unhexRunes? xs, xMsgId := ← unhexRunes? xid, hasArrival := arr == "1" }
      let env : Envelope := { msgId := ← unhexRunes? msgId, from_ := ← unhexRunes? from_, to := ← unhexRunes? to }
      if !t.covers (utf8 == "1") (mta.xSender :: rs.map (·.finalRcpt)) (mta.reportingMTA :: mta.receivedFromMTA :: rs.map (·.remoteMTA)) then none else
      match generate t.idna (utf8 == "1") env mta rs (← hdr.toNat?) with
      | .error e => pure ("err:" ++ genErrStr e)
      | .ok r => pure (reportStr r)
    | _ => none
  | _ => none

/-! ### q -/

def parseNames (s : String) : Option (List (Nat × S)) :=
  if s == "-" then some [] else
  (s.splitOn ",").mapM (fun e => match e.splitOn "=" with
    | [i, h] => do pure (← i.toNat?, ← unhexRunes? h)
    | _ => none)

def parseMap (s : String) : Option (List (Nat × Nat)) :=
  if s == "-" then some [] else
  (s.splitOn ",").mapM (fun e => match e.splitOn ">" with
    | [k, v] => do pure (← k.toNat?, ← v.toNat?)
    | _ => none)

def parseIds (s : String) : Option (List Nat) :=
  if s == "-" then some [] else (s.splitOn ",").mapM String.toNat?

/-- one attempt: items joined by `,`; `id=err` (refused at RCPT), `S=err` (Start), `B=err` (Body of
an atomic target), `C=err` (Commit), `b<id>=err` (per-recipient status of a PartialDelivery target);
the error in C16's prefix notation, tokens joined by `~` -/
structure RawPlan where
  start : Option Err := none
  rcpt : List (Nat × Err) := []
  body : Option Err := none
  bodyRc : List (Nat × Err) := []
  commit : Option Err := none

def parsePlan (s : String) : Option RawPlan :=
  if s == "-" then some {} else
  (s.splitOn ",").foldlM (fun (pl : RawPlan) e => match e.splitOn "=" with
    | [i, er] =>
      match Driver.C16.parseErr (er.splitOn "~") with
      | some (err, []) =>
        if i == "S" then some { pl with start := some err }
        else if i == "B" then some { pl with body := some err }
        else if i == "C" then some { pl with commit := some err }
        else if i.startsWith "b" then do pure { pl with bodyRc := pl.bodyRc ++ [(← (i.drop 1).toNat?, err)] }
        else do pure { pl with rcpt := pl.rcpt ++ [(← i.toNat?, err)] }
      | _ => none
    | _ => none) {}

def assoc {β} (l : List (Nat × β)) (k : Nat) : Option β := (l.find? (fun p => p.1 == k)).map (·.2)

def stageOf : String → Option (Option Stage)
  | "-" => some none | "s" => some (some .start) | "r" => some (some .rcpt)
  | "b" => some (some .body) | "c" => some (some .commit) | _ => none

def natList (l : List Nat) : String := ",".intercalate (l.map toString)

def bevStr : BEv → String
  | .start mf orf u t ok => s!"bstart(mf={mf},of={orf},utf8={b01 u},rtls={b01 t},ok={b01 ok})"
  | .rcpt to ok => s!"brcpt({to},ok={b01 ok})"
  | .body r ok => "bbody(ok=" ++ b01 ok ++ "){" ++ reportStr r ++ "}"
  | .commit ok => s!"bcommit(ok={b01 ok})"
  | .abort => "babort"
  | .genError e => "generr:" ++ genErrStr e
  | .panic => "panic"

def qevStr : QEv → Option String
  | .bounce e => some (bevStr e)
  | .removed => some "removed"
  | .requeue _ => none

def RawPlan.plan (pl : RawPlan) : APlan :=
  { start := pl.start, rcpt := assoc pl.rcpt, body := pl.body, bodyRc := assoc pl.bodyRc, commit := pl.commit }

/-- the rewrite map as the downstream target sees it in `Start`: `k>v` for the known ids -/
def omapStr (ids : List Nat) (m : Nat → Nat) : String :=
  ",".intercalate ((ids.filter (fun i => m i != 0)).map (fun i => s!"{i}>{m i}"))

def runQ (cfg : Cfg) (maxTries : Nat) (kind : Kind) (ids : List Nat) (plans : List RawPlan) (failAt : Option Stage) :
    Nat → Nat → QMeta → List String
  | 0, _, _ => ["FUEL"]
  | fuel + 1, i, q =>
    let pl : RawPlan := (plans[i]?).getD {}
    let now : Nat → Option Err := deliverErrs kind pl.plan q.to
    let (next, evs) := attempt cfg maxTries now failAt q
    -- the scripted target records the recipients it is OFFERED: none when its Start fails
    let offered := if pl.start.isSome then [] else q.to
    let here := ("try:" ++ natList offered ++ "@" ++ omapStr ids q.msg.origRcpts) :: evs.filterMap qevStr
    match next with
    | none => here
    | some q' => here ++ runQ cfg maxTries kind ids plans failAt fuel (i + 1) q'

def parseRules (s : String) : Option (List (Nat × List Nat)) :=
  if s == "-" then some [] else
  (s.splitOn ",").mapM (fun e => match e.splitOn ">" with
    | [k, v] => do pure (← k.toNat?, ← (v.splitOn "+").mapM String.toNat?)
    | _ => none)

/-- the pipeline(s) in front of the queue: `<nested>/<given>/<g>/<s>/<r>/<n>` -/
structure Front where
  outer : Rules
  inner : Option Rules
  given : List Nat
  ids : List Nat         -- every id mentioned

def parseFront (s : String) : Option Front :=
  match s.splitOn "/" with
  | [nested, given, g, s_, r, n] => do
    let given ← if given == "-" then pure [] else (given.splitOn "+").mapM String.toNat?
    let g ← parseRules g
    let s_ ← parseRules s_
    let r ← parseRules r
    let n ← parseRules n
    let idsOf (l : List (Nat × List Nat)) : List Nat := l.flatMap (fun p => p.1 :: p.2)
    let none3 : Nat → Option (List Nat) := fun _ => none
    pure { outer := ⟨assoc g, assoc s_, assoc r⟩,
           inner := if nested == "1" then some ⟨assoc n, none3, none3⟩ else none,
           given := given, ids := given ++ idsOf g ++ idsOf s_ ++ idsOf r ++ idsOf n }
  | _ => none

def kindOf : String → Option Kind
  | "a" => some .atomic | "p" => some .partialD | _ => none

def handleQ : List String → Option String
  | [utf8, rtls, pipeline, mt, failAt, from_, ofrom, rcvd, hdr, host, domain, msgid, names, omap, rcpts, plans, tab, kind, front, _truth] => do
    let names ← parseNames names
    let omap ← parseMap omap
    let rcpts ← parseIds rcpts
    let plans ← (plans.splitOn ";").mapM parsePlan
    let t ← parseTab tab
    let failAt ← stageOf failAt
    let kind ← kindOf kind
    let from_ ← from_.toNat?
    let ofrom ← ofrom.toNat?
    let known (i : Nat) : Bool := i == 0 || (assoc names i).isSome
    if !(known from_ && known ofrom && rcpts.all known && omap.all (fun p => known p.1 && known p.2)
         && plans.all (fun p => p.rcpt.all (fun e => known e.1) && p.bodyRc.all (fun e => known e.1))) then none else
    if names.any (fun p => p.1 == 0) then none else
    let name : Nat → S := fun i => (assoc names i).getD []
    let host ← unhexRunes? host
    let rcvd ← unhexRunes? rcvd
    if !t.covers (utf8 == "1") (names.map (·.2)) [host, rcvd] then none else
    let cfg : Cfg := { pipeline := pipeline == "1", hostname := host, autogenDomain := ← unhexRunes? domain,
                       idna := t.idna, name := name }
    let m : MsgMeta := { id := ← unhexRunes? msgid, from_ := from_, originalFrom := ofrom,
                         origRcpts := fun r => (assoc omap r).getD 0, utf8 := utf8 == "1", requireTLS := rtls == "1",
                         rcvdFrom := rcvd, rcptErrs := fun _ => none, hdr := ← hdr.toNat? }
    let maxTries ← mt.toNat?
    let ids := names.map (·.1)
    -- the message as the queue holds it: handed over directly with a prepared map, or through
    -- the pipeline(s) of the `front` token
    let q0 ← if front == "-" then pure (some (⟨rcpts, fun _ => 0, m⟩ : QMeta)) else do
      let f ← parseFront front
      if !(f.ids.all (fun i => i != 0 && known i)) || !omap.isEmpty then none else
      let q := viaFront f.outer f.inner f.given m
      pure (if q.to == rcpts then some q else none)
    match q0 with
    | none => pure "front-mismatch"
    | some q => pure (" | ".intercalate (runQ cfg maxTries kind ids plans failAt (maxTries + 2) 0 q))
  | _ => none

def handle : List String → String
  | "gen" :: rest => (handleGen rest).getD "bad-op"
  | "q" :: rest => (handleQ rest).getD "bad-op"
  | _ => "bad-op"

end Driver.C18
