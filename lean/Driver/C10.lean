import MaddyVerif.Model.WireSpool
import Driver.Util
namespace Driver.C10
open MaddyVerif.Wire MaddyVerif.WireSpool Driver

/-- "-" (no field) or comma-separated hex byte strings -/
def parseFieldsHex (s : String) : Option (List Bytes) :=
  if s == "-" then some [] else (s.splitOn ",").mapM unhexBytes?

def showFields (h : List Bytes) : String :=
  if h.isEmpty then "-" else ",".intercalate (h.map hexBytes)

def showErr : ParseErr → String
  | .initialSpace => "err:initial"
  | .noColon => "err:nocolon"
  | .badKey => "err:badkey"

def showRead (r : Except ParseErr Header) : String :=
  match r with
  | .ok h => s!"ok {h.length} {showFields h}"
  | .error e => showErr e

/-! ### `run`: one message through the queue under a history of attempts and restarts

`C10 run <hist> <hdr> <body> S=.. J=<i:j.i:j|-> from=<i> to=<i.i> orc=<i:j.i:j|-> f=<utf8 rtls tro quar dts> auth=<0|1|2> late=<0|1> dsn=<0|1|2> X=<i.i|-> peer=<-|i.i/hist> pre=<-|h,b,m>`

* pre: leftover files of the message's own names in the spool directory when it is stored (`parsePre`);
  the output starts with the spool's header and body file right after acceptance (`st[hdr=<len>.<digest> body=<len>.<digest>]`);
* dsn: 0 = no bounce pipeline, 1 = a bounce pipeline, 2 = one that refuses the report at the body stage (the
  same for the queue); X: the strings for which `address.SelectIDNA <the message's SMTPUTF8 flag>` fails;
* peer: a SECOND queue fed by the same source with the same header, body and metadata, its own recipients
  and its own history (output: the two observations joined by " || ");

* hist: steps joined by "."; `r` = restart (as first step: crash between `Body` and `Commit`);
  `R` (first step only) = restart after a `Commit` that dispatched nothing; `a<P|A><letters>` = attempt against a partial /
  atomic target, one letter per ORIGINAL recipient position: o accepted+delivered, t accepted,
  temporary failure at the body stage, q temporary / p permanent rejection at RCPT;
* hdr: "-" or comma-separated `r:<hex raw>` / `g:<hex key>:<hex value>:<hex raw>`;
* body: `<m|f>:<kind>:<len>:<seed>:<digest>` - the model is the identity on bodies, so a body is
  represented by the pair [len, digest];
* strings are indices into the case's table `S=` (0 = the empty string); `J=` lists the strings
  that `encoding/json` does not give back unchanged (not valid UTF-8) with what comes back instead.
The field-visibility parameter is fixed to "everything visible" here: that the must-preserve
fields ARE visible in the current tree is the regenerated-table obligation of Props/C10. -/

def parseHdr (s : String) : Option Header :=
  if s == "-" then some [] else
  (s.splitOn ",").mapM fun f =>
    match f.splitOn ":" with
    | ["r", raw] => unhexBytes? raw
    | ["g", _, _, raw] => unhexBytes? raw
    | _ => none

def parseBody (s : String) : Option Bytes :=
  match s.splitOn ":" with
  | [_, _, len, _, dig] => do pure [← len.toNat?, ← dig.toNat?]
  | _ => none

def parseIdxs (s : String) : Option (List Nat) :=
  if s == "-" then some [] else (s.splitOn ".").mapM String.toNat?

def parsePairs (s : String) : Option (List (Nat × Nat)) :=
  if s == "-" then some [] else
  (s.splitOn ".").mapM fun p =>
    match p.splitOn ":" with
    | [a, b] => do pure (← a.toNat?, ← b.toNat?)
    | _ => none

def kv (key : String) (tok : String) : Option String :=
  if tok.startsWith (key ++ "=") then some (tok.drop (key.length + 1)).toString else none

def letterAt (orig : List Nat) (letters : List Char) (r : Nat) : Char :=
  match orig.idxOf? r with
  | some i => letters.getD i '?'
  | none => '?'

/-- the target's answers and `tryDelivery`'s classification for one scripted attempt: `next` /
`failed` pick the ENTRIES of the list classified "retry" / "given up" (the letter of an address is
the one of its first position in the accepted list, so every entry naming it is classified alike);
that each address is then kept / reported once is the model's `pending` / `givenUp` -/
def mkStep (orig : List Nat) (partialD : Bool) (letters : List Char) (bounce : Bool) (unrep : List Nat) : Step :=
  let l := letterAt orig letters
  let dsn : Option Dsn := if bounce then
      some { failed := fun to => to.filter fun r => l r == 'p' || l r == '?', reportable := fun _ s => !unrep.contains s }
    else none
  let accepted (to : List Nat) := to.filter fun r => l r == 'o' || l r == 't'
  let bodyFail (to : List Nat) := (accepted to).any fun r => l r == 't'
  .attempt (fun to => !(accepted to).isEmpty)
    (fun to => to.filter fun r =>
      l r == 'q' || (if partialD then l r == 't' else (l r == 'o' || l r == 't') && bodyFail to))
    dsn

def parseStage : Char → Option Stage
  | 's' => some .start
  | 'r' => some .rcpt
  | 'b' => some .body
  | 'c' => some .fin
  | _ => none

/-- `r` / `rn<digit>`: restart (`n<d>`: with a leftover `<id>.meta.new` of class d - empty, truncated
somewhere, complete - beside the intact `<id>.meta`: for the queue the same as a plain restart);
`a<P|A><letters>`: attempt; `a<P|A><letters>!<s|r|b|c>`: attempt in which the target panics at
`Start` / its first `AddRcpt` / the body stage / the final `Commit` or `Abort`. -/
def parseStep (orig : List Nat) (bounce : Bool) (unrep : List Nat) (s : String) : Option Step :=
  match s.toList with
  | ['r'] => some .restart
  | ['r', 'n', d] => if d.isDigit then some .restart else none
  | 'a' :: k :: rest =>
    let letters := rest.takeWhile (· != '!')
    let tail := rest.dropWhile (· != '!')
    if (k == 'P' || k == 'A') && letters.length == orig.length &&
        letters.all (fun c => c == 'o' || c == 't' || c == 'q' || c == 'p') then
      match tail with
      | [] => some (mkStep orig (k == 'P') letters bounce unrep)
      | ['!', st] =>
        match parseStage st, mkStep orig (k == 'P') letters bounce unrep with
        | some stage, .attempt acc _ _ => some (.panicked stage acc)
        | _, _ => none
      | _ => none
    else none
  | _ => none

def bit (b : Bool) : String := if b then "1" else "0"

def showIdxs (l : List Nat) : String :=
  if l.isEmpty then "-" else ".".intercalate (l.map toString)

def insertPair (p : Nat × Nat) : List (Nat × Nat) → List (Nat × Nat)
  | [] => [p]
  | q :: r => if p.1 < q.1 || (p.1 == q.1 && p.2 ≤ q.2) then p :: q :: r else q :: insertPair p r

/-- a Go map prints in sorted key order -/
def showPairs (l : List (Nat × Nat)) : String :=
  let l := l.foldr insertPair []
  if l.isEmpty then "-" else ".".intercalate (l.map fun p => s!"{p.1}:{p.2}")

def showSeen (s : Seen) (conn : Bool) : String :=
  let c := match s.content with
    | some (h, b) =>
      let w := writeHeader h
      s!"hdr={h.length}.{w.length}.{digest w} body={b.getD 0 0}.{b.getD 1 0}"
    | none => "hdr=- body=-"
  "[from=" ++ toString s.sender ++ " to=" ++ showIdxs s.to ++ " f=" ++ bit s.utf8 ++ bit s.requireTLS ++
    bit s.tlsRequireOverride ++ " orc=" ++ showPairs s.originalRcpts ++ " c=" ++ bit conn ++ " " ++ c ++ "]"

def showEv : Ev → Option String
  | .seen s c => some (showSeen s c)
  | .readError => some "readerr"
  | .wrote _ => none
  | .removed => none
  | .seenPanicked s c => some (showSeen s c ++ "!")
  | .broke _ => none
  | .report r =>
    let w := writeHeader r.hdr
    some s!"rep[to={r.to} u={bit r.utf8} hdr={w.length}.{digest w}]"
  | .reportFailed => some "rep[failed]"

def allVisible : Vis := fun _ => true

/-- one queue: history `hist` for recipients `to` of the accepted message -/
def runOne (co : Nat → Nat) (pre : Leftovers) (h : Header) (b : Bytes) (mm : MsgMeta) (sender : Nat) (to : List Nat)
    (bounce : Bool) (unrep : List Nat) (hist : String) : Option String := do
  -- `R` (first step only): restart after `Commit` was answered by a queue that was already stopping
  -- (nothing dispatched, the message is in the spool only) - for the spool the same as `r`
  let hsteps := match hist.splitOn "." with
    | "R" :: rest => "r" :: rest
    | l => match l with
      | first :: rest => if first.startsWith "Rn" then ("r" ++ (first.drop 1).toString) :: rest else l
      | [] => l
  let steps ← hsteps.mapM (parseStep to bounce unrep)
  let a : Accepted := { hdr := h, body := b, qmeta := { msgMeta := mm, sender := sender, to := to } }
  let (st, evs) := runOver allVisible co pre a steps
  -- the spool files right after acceptance
  let stored := match (acceptOver allVisible co pre a).1.disk with
    | some d => s!"st[hdr={d.hdrFile.length}.{digest d.hdrFile} body={d.bodyFile.getD 0 0}.{d.bodyFile.getD 1 0}]"
    | none => "st[?]"
  let broken := evs.filterMap fun e => match e with | .broke d => some d | _ => none
  let fin := match st.disk, broken with
    | none, [] => "end=removed"
    | none, d :: _ => s!"end=broken:{showIdxs d.to}"
    | some d, _ => s!"end=pending:{showIdxs d.metaFile.to}"
  let leak := if (docs evs).all (fun d => (secretsOf d).isEmpty) then "0" else "1"
  pure (" ".intercalate (stored :: evs.filterMap showEv ++ [fin, s!"leak={leak}"]))

/-- `pre=<h>,<b>,<m>`: files `<id>.header` / `<id>.body` / `<id>.meta.new` lying in the spool directory
when the message is stored: `x` = none, else (header, body) the signed difference between the length of
the leftover and the length of what is stored, (meta.new) the absolute length.  The bytes of a leftover
are not on the op line (a body is represented by [len, digest] anyway): stand-ins of the given size. -/
def parsePre (s : String) (hdrLen bodyLen : Nat) : Option Leftovers :=
  if s == "-" then some noLeftovers else
  let one (spec : String) (n : Nat) : Option (Option Bytes) :=
    if spec == "x" then some none else
    match spec.toInt? with
    | some d => some (some (List.replicate ((Int.ofNat n + d).toNat) 115))
    | none => none
  match s.splitOn "," with
  | [h, b, m] => do
    guard ((h == "x" || h.startsWith "+" || h.startsWith "-") && (b == "x" || b.startsWith "+" || b.startsWith "-"))
    let lh ← one (if h.startsWith "+" then (h.drop 1).toString else h) hdrLen
    let lb ← one (if b.startsWith "+" then (b.drop 1).toString else b) (min bodyLen 4096)
    let lm ← one m 0
    pure ⟨lh, lb, lm⟩
  | _ => none

/-! ### `fleet`: several queue blocks, several messages, a restart, a process that dies while storing

`C10 fleet Q=<hex name>:<d|e|i>:<par>,... M=<block>:<tag>:<o|t|g>:<body len>:<extra fields>:<x|0-4>:<s|v>,...`
(`v`: the next message is stored before this one is committed - the order of the store operations and of the
Commits is the order of the list either way, which is all the model depends on)
(see harness/internal/target/queue/zz_verif_c10_fleet_test.go).  Output: per phase and block the messages
the block's next hop is handed (index; `?flt<tag>` = something the block never accepted). -/
open MaddyVerif.SpoolFleet in
def parseBlock (s : String) : Option Block :=
  match s.splitOn ":" with
  | [name, loc, par] => do
    let n ← unhexBytes? name
    let l ← (match loc with | "d" => some Loc.dflt | "e" => some Loc.directive | "i" => some Loc.inline | _ => none)
    let p ← par.toNat?
    if p == 0 then none else pure { name := n, loc := l, par := p }
  | _ => none

open MaddyVerif.SpoolFleet in
def parseFleetMsg (nblocks : Nat) (s : String) : Option Msg :=
  match s.splitOn ":" with
  | [q, tag, fate, blen, nf, snap, ov] => do
    let _ ← (if ov == "s" || ov == "v" then some () else none)
    let q ← q.toNat?
    let tag ← tag.toNat?
    let _ ← blen.toNat?
    let _ ← nf.toNat?
    let f ← (match fate with | "o" => some Fate.taken | "t" => some Fate.deferred | "g" => some Fate.hangs | _ => none)
    let crash ← (if snap == "x" then some false else
      match snap.toNat? with
      | some n => if n ≤ 4 then some true else none
      | none => none)
    if q < nblocks then pure { q := q, tag := tag, fate := f, crash := crash } else none
  | _ => none

open MaddyVerif.SpoolFleet in
def fateLetter : Fate → String
  | .taken => "o" | .deferred => "t" | .hangs => "g"

open MaddyVerif.SpoolFleet in
def fleetLabels (k : Nat) (es : List Entry) : String :=
  ".".intercalate (((es.filter fun e => e.q == k).map fun e => toString e.idx) ++
    ((es.filter fun e => !(e.q == k)).map fun e => s!"?flt{e.tag}"))

open MaddyVerif.SpoolFleet in
def handleFleet (qs ms : String) : Option String := do
  let bs ← (qs.splitOn ",").mapM parseBlock
  let msgs ← (ms.splitOn ",").mapM (parseFleetMsg bs.length)
  let st := phase1 bs msgs
  let ims := (List.range msgs.length).zip msgs
  let blocks := List.range bs.length
  let p1 := blocks.map fun k =>
    ".".intercalate ((ims.filter fun im => im.2.q == k).map fun im => s!"{im.1}{fateLetter im.2.fate}")
  let p2 := blocks.map fun k => fleetLabels k (handedAfterRestart bs (atRest st) k)
  let p3 := st.leftBehind.map fun (i, es) =>
    match msgs[i]? with
    | some m => s!"{i}:{fleetLabels m.q es}"
    | none => s!"{i}:"
  pure s!"p1[{";".intercalate p1}] p2[{";".intercalate p2}] p3[{";".intercalate p3}]"

def handleRun (hist hdr body : String) (rest0 : List String) : Option String := do
  -- op lines recorded before the bounce pipeline / second queue were added: no bounce pipeline, one queue
  let rest1 := if rest0.length == 8 then rest0 ++ ["dsn=0", "X=-", "peer=-"] else rest0
  -- ... before leftover files of the message's own names were added
  let rest := if rest1.length == 11 then rest1 ++ ["pre=-"] else rest1
  let [sS, sJ, sFrom, sTo, sOrc, sF, sAuth, _sLate, sDsn, sX, sPeer, sPre] := rest | none
  let _ ← kv "S" sS
  let jt ← parsePairs (← kv "J" sJ)
  let co (x : Nat) : Nat := match jt.find? (fun p => p.1 == x) with | some p => p.2 | none => x
  -- `from=<sender>` or `from=<sender>/<original sender>` (MsgMeta.OriginalFrom, a dimension of its own)
  let fromParts := (← kv "from" sFrom).splitOn "/"
  guard (fromParts.length ≤ 2)
  let sender ← (fromParts.getD 0 "").toNat?
  let osender ← (fromParts.getD 1 (fromParts.getD 0 "")).toNat?
  let to ← parseIdxs (← kv "to" sTo)
  let orc ← parsePairs (← kv "orc" sOrc)
  let f := (← kv "f" sF).toList
  guard (f.length == 5 && f.all (fun c => c == '0' || c == '1'))
  let fb (i : Nat) : Bool := f.getD i '0' == '1'
  let auth ← (← kv "auth" sAuth).toNat?
  let dsn ← (← kv "dsn" sDsn).toNat?
  guard (dsn ≤ 2)
  let unrep ← parseIdxs (← kv "X" sX)
  let peer ← kv "peer" sPeer
  let h ← parseHdr hdr
  let b ← parseBody body
  let conn : Option Conn := if auth == 0 then none else if auth == 1 then some ⟨0, 0⟩ else some ⟨1000001, 1000002⟩
  let mm : MsgMeta := ⟨1000000, osender, fb 4, fb 3, orc, fb 0, fb 1, conn, fb 2⟩
  let pre ← parsePre (← kv "pre" sPre) (writeHeader h).length (b.getD 0 0)
  let obsA ← runOne co pre h b mm sender to (dsn != 0) unrep hist
  if peer == "-" then pure obsA else
  match peer.splitOn "/" with
  | [pTo, pHist] => do
    let toB ← parseIdxs pTo
    let obsB ← runOne co pre h b mm sender toB (dsn != 0) unrep pHist
    pure (obsA ++ " || " ++ obsB)
  | _ => none

def handle : List String → String
  | ["parse", blob] =>
    match unhexBytes? blob with
    | some bs => showRead (readHeader bs)
    | none => "bad-op"
  | ["rt", fs] =>
    match parseFieldsHex fs with
    | some h =>
      let r := readHeader (writeHeader h)
      let same := match r with
        | .ok h' => if h' == h then "1" else "0"
        | .error _ => "0"
      let wf := if h.all wfFieldB then "1" else "0"
      s!"{showRead r} same={same} wf={wf}"
    | none => "bad-op"
  | "run" :: hist :: hdr :: body :: rest => (handleRun hist hdr body rest).getD "bad-op"
  | ["fleet", qs, ms] =>
    if qs.startsWith "Q=" && ms.startsWith "M=" then (handleFleet (String.ofList (qs.toList.drop 2)) (String.ofList (ms.toList.drop 2))).getD "bad-op" else "bad-op"
  | _ => "bad-op"

end Driver.C10
