import MaddyVerif.Model.Cfg
import Driver.Util
/-! Driver for C20.

```
C20 spaces                                   → all code points with isSpace (hex runes)
C20 decode <hexbytes>                        → hex runes
C20 lex <hexbytes>                           → <line>:<hexrunes> …     ("-" when no token)
C20 parse <hexbytes> {| e <k> <v>} {| f <id> <name> <content-hexbytes>} {| L <runes>} {| D <runes>} {| r <dir> <class> <ref>}
                                             → ok <tree> | err <kind> <line> | panic | fuel
C20 charge … (same arguments)                → ok <import budget charged> <nodes of the tree> | err … (readTree: no env expansion)
C20 print … (same arguments)                 → ok <hexrunes of the canonical text> | err … | …
```
-/
namespace Driver.C20
open MaddyVerif.Cfg Driver

def toStr (l : List Nat) : Option Str :=
  l.mapM (fun n => if n.isValidChar then some (Char.ofNat n) else none)

def ofStr (s : Str) : String := hexRunes (s.map Char.toNat)

def groups (toks : List String) : List (List String) :=
  let rec go (cur : List String) (acc : List (List String)) : List String → List (List String)
    | [] => (cur.reverse :: acc).reverse
    | "|" :: r => go [] (cur.reverse :: acc) r
    | t :: r => go (t :: cur) acc r
  go [] [] toks

structure Env where
  env : List (Str × Str) := []
  files : List (Str × Nat × Str) := []
  letters : Str := []
  digits : Str := []

def parseEnv (gs : List (List String)) : Option Env :=
  gs.foldlM (fun (t : Env) g =>
    match g with
    | ["e", k, v] => do
      let k ← toStr (← unhexRunes? k); let v ← toStr (← unhexRunes? v)
      pure { t with env := t.env ++ [(k, v)] }
    | ["f", id, name, content] => do
      let name ← toStr (← unhexRunes? name)
      let bs ← unhexBytes? content
      pure { t with files := t.files ++ [(name, id.toNat?.getD 0, decodeUtf8 bs)] }
    | ["L", r] => do pure { t with letters := ← toStr (← unhexRunes? r) }
    | ["D", r] => do pure { t with digits := ← toStr (← unhexRunes? r) }
    | ["r", _, _, _] => some t   -- the generator's record of a macro reference: for the Go monitor only
    | [] => some t
    | _ => none) {}

def Env.uni (e : Env) : Uni := ⟨fun c => e.letters.contains c, fun c => e.digits.contains c⟩
def Env.fs (e : Env) : Fs := fun name =>
  match e.files.find? (fun f => f.1 == name) with
  | some f => some f.2
  | none => none

def errName : ErrKind → String
  | .blockHeader => "blockHeader" | .emptyName => "emptyName" | .digitName => "digitName"
  | .badNameChar => "badNameChar" | .macroNoClose => "macroNoClose" | .macroFewArgs => "macroFewArgs"
  | .macroNoEq => "macroNoEq" | .nestingLimit => "nestingLimit"
  | .newlineAfterBrace => "newlineAfterBrace" | .unexpectedClose => "unexpectedClose"
  | .macroNotTop => "macroNotTop" | .snippetNotTop => "snippetNotTop" | .snippetArgs => "snippetArgs"
  | .macroAsName => "macroAsName" | .macroMultiInString => "macroMultiInString"
  | .unexpectedEOF => "unexpectedEOF" | .importLimit => "importLimit" | .importArgs => "importArgs"
  | .unknownImport => "unknownImport" | .importNodes => "importNodes"

mutual
partial def showNode : Node → List String → List String
  | .mk name args block ch sn ma f l, acc =>
    "N" :: ofStr name :: toString args.length :: (args.map ofStr ++
      ((if block then "B" else "-") :: ((if sn then "S" else "-") ++ (if ma then "M" else "-")) ::
        toString f :: toString l :: toString ch.length :: showList ch acc))
partial def showList : List Node → List String → List String
  | [], acc => acc
  | n :: ns, acc => showNode n (showList ns acc)
end

def showRes {α} (f : α → String) : Res α → String
  | .ok a => "ok " ++ f a
  | .err k l => s!"err {errName k} {l}"
  | .panic => "panic"
  | .fuel => "fuel"

def showTokens (ts : List Token) : String :=
  if ts.isEmpty then "-" else " ".intercalate (ts.map (fun t => s!"{t.line}:{ofStr t.text}"))

def allSpaces : List Nat :=
  (List.range 0x110000).filter (fun n => n.isValidChar && isSpace (Char.ofNat n))

def handle (toks : List String) : String :=
  match groups toks with
  | [] => "bad-op"
  | call :: envGroups =>
    match parseEnv envGroups with
    | none => "bad-op"
    | some e =>
      match call with
      | ["spaces"] => hexRunes allSpaces
      | ["decode", b] => match unhexBytes? b with
        | some bs => ofStr (decodeUtf8 bs)
        | none => "bad-op"
      | ["lex", b] => match unhexBytes? b with
        | some bs => showTokens (lexAll (decodeUtf8 bs))
        | none => "bad-op"
      | ["parse", b] => match unhexBytes? b with
        | some bs => showRes (fun ns => " ".intercalate (toString ns.length :: showList ns []))
                       (readBytes e.uni e.fs e.env bs)
        | none => "bad-op"
      | ["charge", b] => match unhexBytes? b with
        | some bs => showRes (fun r : List Node × Maps => s!"{r.2.cnt} {sizeL r.1}") (readTree e.uni e.fs (decodeUtf8 bs))
        | none => "bad-op"
      | ["print", b] => match unhexBytes? b with
        | some bs => showRes (fun ns => ofStr (printList ns)) (readBytes e.uni e.fs e.env bs)
        | none => "bad-op"
      | _ => "bad-op"

end Driver.C20
