import MaddyVerif.Model.SpoolFS
import Driver.Util
/-!
C02 driver.  One line = the whole history of ONE message id as a sequence of model choices:

  C02 run <maxTries> <hp> <tok>…           from the fresh id
  C02 syn <maxTries> <hp> <H> <B> <M> <N> <X> <tok>…   from a hand-made directory state, process down

tokens:  A<n>,<hl>,<bl>[,<env>]  accept (recipients 1..n, header/body of hl/bl bytes, bl = 0: header-only message,
           the body file is created and stays empty, no write call is made for it; env = spelling of the
           envelope: p plain (default) | i IDN + SMTPUTF8 | q quoted local parts | m mixed recipient spellings |
           n null reverse-path | z null reverse-path + mixed recipients — the model only reads "null or not")
         +<k>  issue k file operations (calls the real code made: a zero-length write is not one)
         C commit   B abort   D dispatch   O<letters o|t|p|u per recipient of the attempt>   P panic
         O<add>/a<b>/<c>   the attempt stage by stage at a plain target: AddRcpt per recipient, Body, Commit
         O<add>/n<b…>/<c>  … at a target implementing PartialDelivery: BodyNonAtomic status per ACCEPTED recipient
           (a stage in which every recipient has the same letter may be spelled <letter>*<count>: `Ot*3000`;
           `M#<n>;<c>` in a `syn` line = recipients 1..n, each with the stored counter c)
           (the per-recipient errors of the attempt are `deliverErrs`, the model of `Queue.deliver`)
         X<keep>  crash     T<n>;<keep>  crash in the middle of the next write after n bytes      R restart
         Rf<call>,<errno>  restart whose start-up scan meets a transient fault (errno: EMFILE, EIO, EACCES, …; the model
           does not read it) at call openM | readM | statH | statB for this id: skipped and kept
         Df<call>,<errno>  dispatch whose openMessage meets a transient fault at call openM | readM | statB | openH
         S<par>  max_parallelism of the recovery runs (only in lines named by a violation; no choice of the model:
           the history of one id does not depend on it, `C02_backlog_*`)
         L<k>  name of the spool directory (index into the harness's list of unusual but legal names: glob
           metacharacters, spaces, `%`, leading dash, non-ASCII, very long); no choice of the model: the procedures
           address the five files of an id by name, whatever the directory is called
         Q  `Queue.Close` while the transaction is open (time wheel stopped, the process stays up): no choice of the
           model (Body / Abort on a stopped queue are the same file operations)
         K  Commit on the stopped queue returned nil (`commitStopped`: acknowledged, nothing scheduled in this process)
         G<a>,<e>  size dimension: every recipient address is padded by a bytes, every error text the target returns /
           the stored meta-data records by e bytes; no choice of the model: the spool model is size-agnostic
           (`C02_meta_roundtrip_any_size`)
         keep = a (nothing lost) | d (all un-synced data lost) | <h>,<b>,<m>,<n> kept pending bytes per file (a = all)
`hp` = does `textproto.ReadHeader` accept the header bytes found after the crash (computed by the real code).

answer: the labels of the last segment (from the last `R`, or everything when there is none), `|`, the files
(and `SLOT-NEVER-FIRED` when the model still has a slot in the time wheel at the end of the line: the harness
runs the real queue to quiescence, so that never matches).
-/
namespace Driver.C02
open MaddyVerif.SpoolFS MaddyVerif.Queue Driver

def kn : FKind → String
  | .header => "H" | .body => "B" | .metaF => "M" | .metaNew => "N" | .broken => "X"

def opName : Op → String
  | .create k => "c" ++ kn k
  | .write k _ => "w" ++ kn k
  | .fsync k => "s" ++ kn k
  | .rename a b => "mv" ++ kn a ++ kn b
  | .remove k => "rm" ++ kn k

def nextOp (P : Params) (s : St) : Option Op :=
  match s.pc with
  | .store m h b i => (storeOps P.codec m h b)[i]?
  | .abortRm i => removeOps[i]?
  | .update m i => (updateOps P.codec m)[i]?
  | .remove i => removeOps[i]?
  | .clean (o :: _) => some o
  | .quarantine => some (.rename .metaF .broken)
  | _ => none

/-- Op lines count the file-system CALLS the real code made.  For a zero-length body `io.Copy` issues no
`Write` at all, while the model's `storeOps` keeps the (zero-length) `write .body []` — a stutter step that
changes neither disk nor history (`C02_empty_write_stutter`).  The driver therefore takes such steps
silently, right after the step that made them the next operation. -/
def skipEmptyWrites (P : Params) (s : St) : Nat → St
  | 0 => s
  | fuel + 1 =>
    match nextOp P s with
    | some (.write _ []) =>
      match step? P s .op with
      | some s' => skipEmptyWrites P s' fuel
      | none => s
    | _ => s

def natList (l : List Nat) : String := ".".intercalate (l.map toString)

def clsOf (c : Char) : Option (Option Cls) :=
  match c with
  | 'o' => some none | 't' => some (some .temp) | 'p' => some (some .perm) | 'u' => some (some .unspec)
  | _ => none

def lookupTbl (tbl : List (Nat × Option Cls)) (r : Nat) : Option Cls :=
  match tbl.find? (fun p => p.1 == r) with
  | some p => p.2
  | none => none

/-- (the table is built once per attempt, not once per look-up: messages with thousands of recipients) -/
def lookupErr (rs : List Nat) (cs : List (Option Cls)) : Nat → Option Cls :=
  lookupTbl (rs.zip cs)

/-- A stage in which every recipient has the same letter may be spelled `<letter>*<count>`. -/
def unrle (s : String) : List Char :=
  match s.splitOn "*" with
  | [l, n] =>
    match l.toList, n.toNat? with
    | [c], some k => List.replicate k c
    | _, _ => s.toList
  | _ => s.toList

def parseKeepNum (s : String) : Option Nat :=
  if s == "a" then some 1000000000 else s.toNat?

def parseKeep (s : String) : Option (FKind → Nat) :=
  if s == "a" || s == "" then some (fun _ => 1000000000)
  else if s == "d" then some (fun _ => 0)
  else match (s.splitOn ",").mapM parseKeepNum with
    | some [h, b, m, n] => some (fun k => match k with
        | .header => h | .body => b | .metaF => m | .metaNew => n | .broken => 1000000000)
    | _ => none

/-- The envelope-spelling field: is the reverse-path the null one? -/
def envNull : List String → Option Bool
  | [] => some false
  | [e] => if e == "p" || e == "i" || e == "q" || e == "m" then some false
           else if e == "n" || e == "z" then some true else none
  | _ => none

def faultAt (t : String) : Option FaultAt :=
  match (t.splitOn ",").head? with
  | some "openM" => some .openMeta
  | some "readM" => some .readMeta
  | some "statH" => some .statHeader
  | some "statB" => some .statBody
  | some "openH" => some .openHeader
  | _ => none

/-- Parse one token into the choices it stands for (needs the state for `O`). -/
def parseTok (s : St) (t : String) : Option (List Choice) :=
  match t.toList with
  | 'A' :: rest =>
    let fs := (String.ofList rest).splitOn ","
    match (fs.take 3).mapM String.toNat?, envNull (fs.drop 3) with
    | some [n, hl, bl], some nf => some [.accept ((List.range n).map (· + 1)) (List.range hl) (List.range bl) nf]
    | _, _ => none
  | '+' :: rest => (String.ofList rest).toNat?.map (fun k => List.replicate k Choice.op)
  | 'S' :: rest => (String.ofList rest).toNat?.map (fun _ => [])
  | 'L' :: rest => (String.ofList rest).toNat?.map (fun _ => [])
  | ['C'] => some [.commit]
  | ['K'] => some [.commitStopped]
  | ['Q'] => some []
  | 'G' :: rest => ((String.ofList rest).splitOn ",").mapM String.toNat? |>.map (fun _ => [])
  | 'W' :: rest => ((String.ofList rest).splitOn ",").mapM String.toNat? |>.map (fun _ => [])
  | 'Y' :: rest => (String.ofList rest).toNat?.map (fun _ => [])
  | ['B'] => some [.abort]
  | ['D'] => some [.dispatch]
  | ['P'] => some [.panic]
  | ['R'] => some [.restart]
  | 'R' :: 'f' :: rest => (faultAt (String.ofList rest)).map (fun w => [Choice.scanFault w])
  | 'D' :: 'f' :: rest => (faultAt (String.ofList rest)).map (fun w => [Choice.openFault w])
  | 'O' :: rest =>
    match s.pc with
    | .attempting m =>
      match (String.ofList rest).splitOn "/" with
      | [add] =>
        match (unrle add).mapM clsOf with
        | some cs =>
          if cs.length = m.to.length then
            let tbl := m.to.zip cs
            some [.outcome (lookupTbl tbl)]
          else none
        | none => none
      | [add, body, commit] =>
        match (unrle add).mapM clsOf, body.toList, commit.toList.mapM clsOf with
        | some cs, k :: bl0, some [cm] =>
          let bl := unrle (String.ofList bl0)
          let addT := m.to.zip cs
          let addE := lookupTbl addT
          let acc := m.to.filter (fun r => (addE r).isNone)
          match bl.mapM clsOf with
          | some bs =>
            if cs.length != m.to.length then none
            else if k == 'a' then
              match bs with
              | [b] =>
                -- `deliverErrs` (`C02_deliverErrs_eq_case`), its branch decided once
                let sc : Staged := ⟨addE, false, b, fun _ => none, cm⟩
                let dc := deliverCase m.to sc
                some [.outcome (errsOfCase sc dc)]
              | _ => none
            else if k == 'n' then
              if bs.length = acc.length then
                let bT := acc.zip bs
                let sc : Staged := ⟨addE, true, none, lookupTbl bT, cm⟩
                let dc := deliverCase m.to sc
                some [.outcome (errsOfCase sc dc)]
              else none
            else none
          | none => none
        | _, _, _ => none
      | _ => none
    | _ => none
  | 'X' :: rest => (parseKeep (String.ofList rest)).map (fun k => [Choice.crash k])
  | 'T' :: rest =>
    match (String.ofList rest).splitOn ";" with
    | [n, k] => match n.toNat?, parseKeep k with
      | some n, some k => some [.tornCrash n k]
      | _, _ => none
    | _ => none
  | _ => none

def labels (P : Params) (s : St) (c : Choice) (s' : St) : List String :=
  match c with
  | .op => (match nextOp P s with | some o => [opName o] | none => [])
           ++ (if s'.g.aborted && !s.g.aborted then ["ABT"] else [])
  | .commit => ["ACC"]
  | .commitStopped => ["ACC"]
  | .dispatch =>
    (match s.pc with | .sched none => ["disp"] | _ => []) ++
    (match s'.pc with
     | .attempting m => ["ATT:" ++ natList m.to]
     | .fin => ["openfail"]
     | _ => [])
  | .outcome e =>
    match s.pc with
    | .attempting m =>
      let d := delivered m e
      let f := reportedNow m (attemptResult P m e)
      (if d.isEmpty then [] else ["DLV:" ++ natList d]) ++ (if f.isEmpty then [] else ["RPT:" ++ natList f])
    | _ => []
  | .panic => ["PANIC"]
  | .restart => if s.disk.metaF.isSome then ["scan"] else []
  | .scanFault _ => ["scan"]
  | .openFault _ => ["disp", "openfail"]
  | _ => []

def showFile (tag : String) : Option File → String
  | none => tag ++ "-"
  | some f => s!"{tag}{f.content.length}/{f.durable.length}"

def showMeta (c : Codec) : Option File → String
  | none => "M-"
  | some f =>
    match c.parse f.content with
    | none => "M?"
    | some m => "M" ++ natList m.to ++ ";" ++ natList (m.to.map m.triesFn) ++ (if m.nullFrom then ";n" else "") ++
        (if f.pending.isEmpty then "/f" else "/p")

def showPresent (tag : String) : Option File → String
  | none => tag ++ "-"
  | some _ => tag ++ "+"

def showDisk (c : Codec) (d : Disk) : String :=
  " ".intercalate [showFile "H" d.header, showFile "B" d.body, showMeta c d.metaF,
    showPresent "N" d.metaNew, showPresent "X" d.broken]

def kindOfLetter : Char → Option FKind
  | 'H' => some .header | 'B' => some .body | 'M' => some .metaF | 'N' => some .metaNew | 'X' => some .broken
  | _ => none

/-- `Z<kind>`: a file is deleted behind the queue's back while the slot waits in the time wheel
(not a step of the model's transition system; only used to reach the clean-up branches of `openMsg`). -/
def externalRemove (s : St) (t : String) : Option (St × String) :=
  match t.toList, s.pc with
  | ['Z', c], .sched none => (kindOfLetter c).map (fun k => ({ s with disk := applyOp s.disk (.remove k) }, "z" ++ kn k))
  | _, _ => none

/-- Run the tokens; the accumulator keeps the labels of the current segment. -/
def runToks (P : Params) : List String → St → List String → Nat → Except String (St × List String)
  | [], s, acc, _ => .ok (s, acc)
  | t :: rest, s, acc, i =>
    if t.startsWith "Z" then
      match externalRemove s t with
      | some (s', l) => runToks P rest s' (acc ++ [l]) (i + 1)
      | none => .error s!"bad-step@{i}:{t}"
    else
    match parseTok s t with
    | none => .error s!"bad-token@{i}"
    | some cs =>
      let rec go : List Choice → St → List String → Option (St × List String)
        | [], s, acc => some (s, acc)
        | c :: cs, s, acc =>
          match step? P s c with
          | none => none
          | some s' =>
            let acc' := match c with
              | .restart => labels P s c s'
              | .scanFault _ => labels P s c s'
              | _ => acc ++ labels P s c s'
            go cs (skipEmptyWrites P s' 2) acc'
      match go cs s acc with
      | none => .error s!"bad-step@{i}:{t}"
      | some (s', acc') => runToks P rest s' acc' (i + 1)

def parseFileSpec (t : String) (tag : Char) : Option (Option File) :=
  match t.toList with
  | c :: rest =>
    if c != tag then none
    else if rest == ['-'] then some none
    else (String.ofList rest).toNat?.map (fun n => some ⟨List.range n, []⟩)
  | _ => none

def parseNatList (s : String) : Option (List Nat) :=
  if s == "" then some [] else (s.splitOn ".").mapM String.toNat?

def parseMetaSpec (c : Codec) (t : String) : Option (Option File) :=
  match t.toList with
  | 'M' :: rest =>
    let r := String.ofList rest
    if r == "-" then some none
    else if r == "g" then some (some ⟨[], []⟩)
    else match r.splitOn ";" with
      | to :: tr :: env =>
        -- `M#<n>;<c>`: recipients 1..n, every one with the stored counter c (big meta-data records)
        let big : Option (List Nat × List Nat) :=
          if to.startsWith "#" then
            match (to.drop 1).toString.toNat?, tr.toNat? with
            | some n, some c => some ((List.range n).map (· + 1), List.replicate n c)
            | _, _ => none
          else none
        match (match big with | some p => some p.1 | none => parseNatList to),
              (match big with | some p => some p.2 | none => parseNatList tr), envNull env with
        | some to, some tr, some nf =>
          if to.length != tr.length then none
          else some (some ⟨c.ser ⟨to, (to.zip tr).filter (fun p => p.2 != 0), nf⟩, []⟩)
        | _, _, _ => none
      | _ => none
  | _ => none

def parsePresent (t : String) (tag : Char) : Option (Option File) :=
  match t.toList with
  | [c, '-'] => if c == tag then some none else none
  | [c, '+'] => if c == tag then some (some ⟨[], []⟩) else none
  | _ => none

def mkParams (maxTries : Nat) (hl : Option Nat) (hp : Bool) : Params :=
  { maxTries := maxTries, codec := listCodec,
    hdrOk := fun b => (match hl with | some n => b.length == n | none => false) || hp }

def acceptHdrLen (toks : List String) : Option Nat :=
  match toks.find? (fun t => t.startsWith "A") with
  | some t => match (((t.drop 1).toString.splitOn ",").take 3).mapM String.toNat? with
    | some [_, hl, _] => some hl
    | _ => none
  | none => none

def finish (P : Params) (r : Except String (St × List String)) : String :=
  match r with
  | .error e => e
  | .ok (s, acc) =>
    -- every line ends with a run that went on until nothing was left to do: a slot still waiting in
    -- the time wheel means the real queue did not attempt something the model schedules
    let pending := match s.pc with
      | .sched _ => " SLOT-NEVER-FIRED"
      | _ => ""
    " ".intercalate acc ++ " | " ++ showDisk P.codec s.disk ++ pending

def handle : List String → String
  | "run" :: mt :: hp :: toks =>
    match mt.toNat? with
    | some maxTries =>
      let P := mkParams maxTries (acceptHdrLen toks) (hp == "1")
      finish P (runToks P toks {} [] 0)
    | none => "bad-op"
  | "syn" :: mt :: hp :: h :: b :: m :: n :: x :: toks =>
    match mt.toNat? with
    | some maxTries =>
      let P := mkParams maxTries none (hp == "1")
      match parseFileSpec h 'H', parseFileSpec b 'B', parseMetaSpec P.codec m, parsePresent n 'N', parsePresent x 'X' with
      | some h, some b, some m, some n, some x =>
        let s : St := { disk := { header := h, body := b, metaF := m, metaNew := n, broken := x }, pc := .down }
        finish P (runToks P toks s [] 0)
      | _, _, _, _, _ => "bad-op"
    | none => "bad-op"
  | _ => "bad-op"

end Driver.C02
