import MaddyVerif.Model.Errors
import Driver.Util
namespace Driver.C16
open MaddyVerif.Errors Driver

partial def parseErr : List String → Option (Err × List String)
  | "P" :: r => some (.plain, r)
  | "D" :: r => some (.deadline, r)
  | "N" :: b :: r => some (.net (b == "1"), r)
  | "S" :: c :: a :: s :: d :: m :: r => do
      pure (.smtp (← c.toNat?) ⟨← a.toNat?, ← s.toNat?, ← d.toNat?⟩ (← unhexRunes? m), r)
  | "R" :: c :: a :: s :: d :: m :: r => do
      pure (.rawSmtp (← c.toNat?) ⟨← a.toNat?, ← s.toNat?, ← d.toNat?⟩ (← unhexRunes? m), r)
  | "W" :: c :: a :: s :: d :: m :: r => do
      let (i, r') ← parseErr r
      pure (.smtpWrap (← c.toNat?) ⟨← a.toNat?, ← s.toNat?, ← d.toNat?⟩ (← unhexRunes? m) i, r')
  | "T" :: b :: r => do
      let (i, r') ← parseErr r
      pure (.withTemp (b == "1") i, r')
  | "F" :: c :: e :: m :: r => do
      let code ← if c == "-" then pure none else some <$> c.toNat?
      let ench ← if e == "-" then pure none else
        match e.splitOn "." with
        | [a, s, d] => do pure (some (⟨← a.toNat?, ← s.toNat?, ← d.toNat?⟩ : Ench))
        | _ => none
      let msg ← if m == "_" then pure none else some <$> unhexRunes? m
      let (i, r') ← parseErr r
      pure (.withFields code ench msg i, r')
  | _ => none

def showReply (r : Reply) : String :=
  let e := match wireEnch r with
    | some en => s!"{en.cls}.{en.subj}.{en.det}"
    | none => "none"
  let m := match r.msg with
    | .generic => "generic"
    | .highLoad => "highload"
    | .text cps => "text:" ++ hexRunes cps
  s!"{r.code} {e} {m}"

def showStored (r : Reply) : String :=
  let e := match r.ench with
    | some en => s!"{en.cls}.{en.subj}.{en.det}"
    | none => "none"
  let m := match r.msg with
    | .generic => "generic"
    | .highLoad => "highload"
    | .text cps => "text:" ++ hexRunes cps
  s!"{r.code} {e} {m}"

def handle : List String → String
  | "wrap" :: mang :: rest =>
    match parseErr rest with
    | some (e, []) => showReply (wrapErr (mang == "1") e)
    | _ => "bad-op"
  | "tosmtp" :: rest =>
    match parseErr rest with
    | some (e, []) => showStored (toSMTPErr e) ++ " retry=" ++ (if queueRetries e then "1" else "0")
    | _ => "bad-op"
  | "helper" :: t :: p :: s :: d :: rest =>
    match parseErr rest, t.toNat?, p.toNat?, s.toNat?, d.toNat? with
    | some (e, []), some t, some p, some s, some d =>
      let en := smtpEnchCode e ⟨0, s, d⟩
      s!"{smtpCode e t p} {en.cls}.{en.subj}.{en.det}"
    | _, _, _, _, _ => "bad-op"
  | ["reject", variant, nargs, code, ench, msgEmpty, _rendering] =>
    match nargs.toNat? with
    | none => "bad-op"
    | some n =>
      let c := code.toNat?
      let e : Option Ench := match ench.splitOn "." with
        | [a, s, d] => do pure ⟨← a.toNat?, ← s.toNat?, ← d.toNat?⟩
        | _ => none
      match parseReject (variant == "c") ⟨n, c, e, msgEmpty == "1"⟩ with
      | none => "err"
      | some (c, e) => s!"{c} {e.cls}.{e.subj}.{e.det}"
  | ["milter", code] =>
    match code.toNat? with
    | some c => let r := milterReply c; s!"{r.1} {r.2.cls}.{r.2.subj}.{r.2.det}"
    | none => "bad-op"
  | _ => "bad-op"

end Driver.C16
