import MaddyVerif.Model.Errors
import MaddyVerif.Model.ErrorsNextHop
import MaddyVerif.Model.ErrorsQueueHist
import MaddyVerif.Model.ErrorsOwn
import MaddyVerif.Model.ErrorsChecks
import Driver.Util
namespace Driver.C16
open MaddyVerif.Errors Driver

partial def parseErr : List String → Option (Err × List String)
  | "P" :: r => some (.plain, r)
  | "D" :: r => some (.deadline, r)
  -- `C` = context.Canceled: an ordinary error value for every conversion (nothing looks for it);
  -- `Q t <cause>` = net.DNSError{IsTemporary: t, UnwrapErr: cause}: Temporary() and Unwrap()
  | "C" :: r => some (.plain, r)
  | "Q" :: b :: r => do
      let (i, r') ← parseErr r
      pure (.withTemp (b == "1") i, r')
  | "N" :: b :: r => some (.net (b == "1"), r)
  | "S" :: c :: a :: s :: d :: m :: r => do
      pure (.smtp (← c.toNat?) ⟨← a.toNat?, ← s.toNat?, ← d.toNat?⟩ (← unhexRunes? m), r)
  | "R" :: c :: a :: s :: d :: m :: r => do
      pure (.rawSmtp (← c.toNat?) ⟨← a.toNat?, ← s.toNat?, ← d.toNat?⟩ (← unhexRunes? m), r)
  | "W" :: c :: a :: s :: d :: m :: r => do
      let (i, r') ← parseErr r
      pure (.smtpWrap (← c.toNat?) ⟨← a.toNat?, ← s.toNat?, ← d.toNat?⟩ (← unhexRunes? m) i, r')
  | "T" :: b :: r => do
      let (i, r') ← parseErr r
      pure (.withTemp (b == "1") i, r')
  | "F" :: c :: e :: m :: r => do
      let code ← if c == "-" then pure none else some <$> c.toNat?
      let ench ← if e == "-" then pure none else
        match e.splitOn "." with
        | [a, s, d] => do pure (some (⟨← a.toNat?, ← s.toNat?, ← d.toNat?⟩ : Ench))
        | _ => none
      let msg ← if m == "_" then pure none else some <$> unhexRunes? m
      let (i, r') ← parseErr r
      pure (.withFields code ench msg i, r')
  | _ => none

def showReply (r : Reply) : String :=
  let e := match wireEnch r with
    | some en => s!"{en.cls}.{en.subj}.{en.det}"
    | none => "none"
  let m := match r.msg with
    | .generic => "generic"
    | .highLoad => "highload"
    | .text cps => "text:" ++ hexRunes cps
  s!"{r.code} {e} {m}"

def showStored (r : Reply) : String :=
  let e := match r.ench with
    | some en => s!"{en.cls}.{en.subj}.{en.det}"
    | none => "none"
  let m := match r.msg with
    | .generic => "generic"
    | .highLoad => "highload"
    | .text cps => "text:" ++ hexRunes cps
  s!"{r.code} {e} {m}"

/-! ### next-hop failures (wrapClientErr, newConn, multipleErrs) -/

def b01 (b : Bool) : String := if b then "1" else "0"

/-- prefix rendering of an error value, the format of the harness (`verr.Node.String`) -/
def showErr : Err → String
  | .plain => "P"
  | .deadline => "D"
  | .net t => "N " ++ b01 t
  | .smtp c e m => s!"S {c} {e.cls} {e.subj} {e.det} {hexRunes m}"
  | .rawSmtp c e m => s!"R {c} {e.cls} {e.subj} {e.det} {hexRunes m}"
  | .smtpWrap c e m i => s!"W {c} {e.cls} {e.subj} {e.det} {hexRunes m} " ++ showErr i
  | .withTemp t i => "T " ++ b01 t ++ " " ++ showErr i
  | .withFields c e m i =>
    let cs := match c with | some c => toString c | none => "-"
    let es := match e with | some e => s!"{e.cls}.{e.subj}.{e.det}" | none => "-"
    let ms := match m with | some m => hexRunes m | none => "_"
    s!"F {cs} {es} {ms} " ++ showErr i

/-- the menu of network errors the harness builds: key ↦ (Err is a DNSError, Temporary(), Unwrap()) -/
def opDesc : String → Option (Bool × Bool × Err)
  | "refused" => some (false, false, transparent (.net false))  -- SyscallError{ECONNREFUSED}
  | "reset"   => some (false, false, transparent (.net false))  -- SyscallError{ECONNRESET}
  | "timeout" => some (false, true, .net true)                  -- os.ErrDeadlineExceeded
  | "eof"     => some (false, false, .plain)                    -- io.ErrUnexpectedEOF
  | "ctx"     => some (false, true, .deadline)                  -- context.DeadlineExceeded
  | "dns0"    => some (true, false, .net false)                 -- DNSError{IsNotFound}
  | "dns1"    => some (true, true, .net true)                   -- DNSError{IsTemporary}
  | "dnsc"    => some (true, false, .withTemp false .plain)     -- DNSError{UnwrapErr: context.Canceled}
  | "cancel"  => some (false, false, .plain)                    -- context.Canceled
  | _ => none

def opErr (d : Bool × Bool × Err) : Err := .withTemp d.2.1 d.2.2

/-- `L <ce0>` TLSError, `O <key>` net.OpError, `V <tree>` any other value -/
def parseClientErr : List String → Option (ClientErr × List String)
  | "O" :: k :: r => do let d ← opDesc k; pure (.op d.1 d.2.1 d.2.2, r)
  | "V" :: r => do let (e, r') ← parseErr r; pure (.val e, r')
  | "L" :: "O" :: k :: r => do let d ← opDesc k; pure (.tls (opErr d), r)
  | "L" :: "V" :: r => do let (e, r') ← parseErr r; pure (.tls e, r')
  | _ => none

def showGood (e : Err) : String :=
  showErr e ++ " => " ++ showReply (wrapErr false e) ++ " | " ++ showReply (wrapErr true e) ++ " | " ++
    showStored (toSMTPErr e) ++ " retry=" ++ b01 (queueRetries e)

def mxHost (i : Nat) : List Nat := (s!"mx{i}.c16.invalid.").toList.map Char.toNat

/-- per-MX scripts: `U` usable, `P <tree>` refused by a policy with that error, `G|E <reply>` greeting
/ EHLO answered with that reply, `O <key>` dialling fails; separated by `;`, ended by `then`. -/
partial def parseMXs (i : Nat) : List String → Option (List (Option Err) × List String)
  | "then" :: r => some ([], r)
  | ";" :: r => parseMXs i r
  | "U" :: r => do let (l, r') ← parseMXs (i + 1) r; pure (none :: l, r')
  | "P" :: r => do
      let (e, r1) ← parseErr r
      let (l, r') ← parseMXs (i + 1) r1
      pure (some e :: l, r')
  | "O" :: k :: r => do
      let d ← opDesc k
      let (l, r') ← parseMXs (i + 1) r
      pure (some (wrapClientErr true (mxHost i) (.op d.1 d.2.1 d.2.2)) :: l, r')
  | k :: c :: a :: s :: d :: m :: r => do
      if k != "G" && k != "E" then none
      let x : ClientErr := .val (.rawSmtp (← c.toNat?) ⟨← a.toNat?, ← s.toNat?, ← d.toNat?⟩ (← unhexRunes? m))
      let (l, r') ← parseMXs (i + 1) r
      pure (some (wrapClientErr true (mxHost i) x) :: l, r')
  | _ => none

def firstUp (l : List (Option Err)) : Nat := (l.takeWhile Option.isSome).length

def parseReply? : List String → Option (Nat × Ench × List Nat)
  | [c, a, s, d, m] => do pure (← c.toNat?, ⟨← a.toNat?, ← s.toNat?, ← d.toNat?⟩, ← unhexRunes? m)
  | _ => none

/-- remote: MAIL / DATA / end-of-data failures are passed on as they are, RCPT through moduleError -/
def parseAfter (host : List Nat) : List String → Option After
  | ["ok"] => some .ok
  | k :: rest => do
      let (c, en, m) ← parseReply? rest
      let e := wrapClientErr true host (.val (.rawSmtp c en m))
      if k == "M" || k == "D" || k == "B" then pure (.asIs e) else if k == "R" then pure (.wrapped e) else none
  | _ => none

/-- downstream endpoints: `U` usable, `X` no such socket (dial error), `C` closed before the greeting
(EOF), `G|E <reply>` -/
partial def parseEPs : List String → Option (List (Option Err) × List String)
  | "then" :: r => some ([], r)
  | ";" :: r => parseEPs r
  | "U" :: r => do let (l, r') ← parseEPs r; pure (none :: l, r')
  | "X" :: r => do
      let (l, r') ← parseEPs r
      pure (some (wrapClientErr false [] (.op false false (transparent (.net false)))) :: l, r')
  | "C" :: r => do let (l, r') ← parseEPs r; pure (some (wrapClientErr false [] (.val .plain)) :: l, r')
  | k :: c :: a :: s :: d :: m :: r => do
      if k != "G" && k != "E" then none
      let x : ClientErr := .val (.rawSmtp (← c.toNat?) ⟨← a.toNat?, ← s.toNat?, ← d.toNat?⟩ (← unhexRunes? m))
      let (l, r') ← parseEPs r
      pure (some (wrapClientErr false [] x) :: l, r')
  | _ => none

/-- downstream: MAIL failures as they are, RCPT / DATA / end-of-data through moduleError -/
def parseDownAfter : List String → Option After
  | ["ok"] => some .ok
  | k :: rest => do
      let (c, en, m) ← parseReply? rest
      let e := wrapClientErr false [] (.val (.rawSmtp c en m))
      if k == "M" then pure (.asIs e) else if k == "R" || k == "D" || k == "B" then pure (.wrapped e) else none
  | _ => none

/-- LMTP statuses after the data: `ok` or a reply, separated by `;` -/
partial def parseStatuses : List String → Option (List After)
  | [] => some []
  | ";" :: r => parseStatuses r
  | "ok" :: r => do let l ← parseStatuses r; pure (.ok :: l)
  | c :: a :: s :: d :: m :: r => do
      let (c, en, m) ← parseReply? [c, a, s, d, m]
      let l ← parseStatuses r
      pure (.asIs (lmtpStatus c en m) :: l)
  | _ => none

def showOpt : Option Err → String
  | some e => showGood e
  | none => "ok"

partial def parseErrs : List String → Option (List Err)
  | [] => some []
  | ";" :: r => parseErrs r
  | r => do let (e, r') ← parseErr r; let l ← parseErrs r'; pure (e :: l)


/-! ### histories of attempts through the queue, failure reports (round 5) -/

def splitSemi (toks : List String) : List (List String) :=
  let (cur, acc) := toks.foldl (fun (p : List String × List (List String)) t =>
    if t == ";" then ([], p.1.reverse :: p.2) else (t :: p.1, p.2)) ([], [])
  (cur.reverse :: acc).reverse

def splitPlus (toks : List String) : List (List String) :=
  let (cur, acc) := toks.foldl (fun (p : List String × List (List String)) t =>
    if t == "+" then ([], p.1.reverse :: p.2) else (t :: p.1, p.2)) ([], [])
  (cur.reverse :: acc).reverse

/-- one planned attempt: `[K] ok` or `[K] <stage> <tree>`; `K` = the queue is restarted before the
attempt, `<stage>` ∈ s r b n c = where the transaction fails — both invisible to the model -/
def parseAttempt : List String → Option (Option Err)
  | "K" :: r => parseAttempt r
  | ["ok"] => some none
  | st :: r =>
    if st == "n" then
      -- the statuses a partial-delivery target reports for the recipient in this attempt, in order
      -- (`ok` = a success status), separated by `+`
      match (splitPlus r).mapM (fun seg =>
          match seg with
          | ["ok"] => some none
          | _ => match parseErr seg with
            | some (e, []) => some (some e)
            | _ => none) with
      | some sts => if sts.getLast?.join.isNone then none else some (lastStatus sts)
      | none => none
    else if st == "s" || st == "r" || st == "b" || st == "c" then
      match parseErr r with
      | some (e, []) => some (some e)
      | _ => none
    else none
  | [] => none

/-- one configured DNSBL: `ok` clean, `L <score>` lists the client, `E <tree>` the lookup fails -/
def parseListOut : List String → Option ListOut
  | ["ok"] => some .clean
  | ["L", s] => do pure (.listed (← s.toInt?))
  | "E" :: r => match parseErr r with
    | some (e, []) => some (.failed e)
    | _ => none
  | _ => none

/-- `M <utf8> ok|<tree>` MAIL, `R` RCPT, `Z` RSET -/
def parseSessCmd : List String → Option SessCmd
  | ["R"] => some .rcpt
  | ["Z"] => some .rset
  | ["M", u, "ok"] => some (.mail (u == "1") none)
  | "M" :: u :: r => match parseErr r with
    | some (e, []) => some (.mail (u == "1") (some e))
    | _ => none
  | _ => none

def showSessReply : SessReply → String
  | .ok => "250"
  | .noMail => "502 5.5.1 text:" ++ hexRunes ("Missing MAIL FROM command.".toList.map Char.toNat)
  | .nested => "503 5.5.1 text:" ++ hexRunes ("Nested MAIL command".toList.map Char.toNat)
  | .err r => showReply r

def showSessReplies (i : Nat) : List SessReply → List String
  | [] => []
  | r :: t => s!"{i}:{showSessReply r}" :: showSessReplies (i + 1) t

def showEnch (e : Ench) : String := s!"{e.cls}.{e.subj}.{e.det}"

def showLine (l : ReportLine) : String :=
  s!"status={showEnch l.status} diag={l.diagCode} {showEnch l.diagEnch} {hexRunes l.diagMsg} human={l.humanCode}"

def showObs (i : Nat) (o : Obs) : String :=
  match o.dec with
  | .delivered => s!"a{i}:delivered"
  | .retry =>
    let st := match o.state.stored with | some r => showStored r | none => "none"
    s!"a{i}:retry tries={o.state.tries} stored={st}"
  | .giveUp =>
    match o.report with
    | some l => s!"a{i}:giveup " ++ showLine l
    | none => s!"a{i}:giveup genfail"

def showHist (obs : List Obs) : String :=
  let rec go (i : Nat) : List Obs → List String
    | [] => []
    | o :: r => showObs i o :: go (i + 1) r
  " | ".intercalate (go 1 obs)

def parseStoredList : List (List String) → Option (List Reply)
  | [] => some []
  | seg :: r => do
      let (c, en, m) ← parseReply? seg
      let l ← parseStoredList r
      pure (⟨c, some en, .text m⟩ :: l)


/-! ### several recipients in one attempt; AUTH towards the downstream server (round 9) -/

def splitTok (sep : String) (toks : List String) : List (List String) :=
  let (cur, acc) := toks.foldl (fun (p : List String × List (List String)) t =>
    if t == sep then ([], p.1.reverse :: p.2) else (t :: p.1, p.2)) ([], [])
  (cur.reverse :: acc).reverse

def showRObs (k : Nat) (o : RcptObs) : String :=
  let p := s!"a{k}.r{o.rcpt}:"
  match o.dec with
  | .delivered => p ++ "delivered"
  | .retry =>
    let st := match o.state.stored with | some r => showStored r | none => "none"
    p ++ s!"retry tries={o.state.tries} stored={st}"
  | .giveUp =>
    match o.report with
    | some l => p ++ "giveup " ++ showLine l
    | none => p ++ "giveup genfail"

def showMulti (atts : List (List RcptObs)) : String :=
  let rec go (k : Nat) : List (List RcptObs) → List String
    | [] => []
    | a :: r => a.map (showRObs k) ++ go (k + 1) r
  " | ".intercalate (go 1 atts)

def parseAuthCfg : String → Option AuthCfg
  | "off" => some .off
  | "plain" => some .plain
  | "fwd" => some (.forward true)
  | "fwd0" => some (.forward false)
  | "ext" => some .external
  | _ => none

/-- `ok` (235), `A <reply>` any other reply, `drop` / `junk` / `chal`: the exchange breaks -/
def parseAuthAns : List String → Option (AuthAns × List String)
  | "ok" :: r => some (.ok, r)
  | "drop" :: r => some (.broken, r)
  | "junk" :: r => some (.broken, r)
  | "chal" :: r => some (.broken, r)
  | "A" :: c :: a :: s :: d :: m :: r => do
      let (c, en, m) ← parseReply? [c, a, s, d, m]
      pure (.reply c en m, r)
  | _ => none

/-- the line of a downstream op: `tx` = the transaction error for what happens after the connection -/
def showDown (_eps : List (Option Err)) (aft : List String) (tx : After → Option Err) : String :=
  match aft with
  | "S" :: sts =>
    match parseStatuses sts with
    | some afters =>
      -- no status at all when the transaction ended before the data
      match tx .ok with
      | none => " || ".intercalate (afters.map fun a => showOpt (tx a))
      | some e => showGood e
    | none => "bad-op"
  | _ =>
    match parseDownAfter aft with
    | some after => showOpt (tx after)
    | none => "bad-op"

/-! ### failures of maddy's own limits, SASL authentication (round 7) -/

/-- the harness prints the two constant texts by name wherever they come from -/
def canonConst (r : Reply) : Reply :=
  match r.msg with
  | .text m => if m == highLoadMsg then { r with msg := .highLoad } else if m == genericText then { r with msg := .generic } else r
  | _ => r

def showGoodC (e : Err) : String :=
  showErr e ++ " => " ++ showReply (canonConst (wrapErr false e)) ++ " | " ++ showReply (canonConst (wrapErr true e)) ++ " | " ++
    showStored (canonConst (toSMTPErr e)) ++ " retry=" ++ b01 (queueRetries e)

def parseLimVia : String → Option LimVia
  | "take" => some .raw
  | "rcpt" => some .raw
  | "start" => some .start
  | _ => none

def parseLimEnd : String → Option LimEnd
  | "T0" => some .timeout
  | "T1" => some .timeout
  | "C" => some .cancelled
  | "F" => some .tableFull
  | _ => none

def parseMech (mech id : String) : Option Mech :=
  match mech with
  | "plain" => some (.plain (id == "d"))
  | "login" => some .login
  | "login0" => some .loginDisabled
  | "other" => some .other
  | _ => none

def parseAuthPre : List String → Option (AuthPre × List String)
  | "-" :: r => some (.none, r)
  | "m" :: r => some (.mapHit, r)
  | "u" :: r => some (.mapMiss, r)
  | "M" :: r => do let (e, r') ← parseErr r; pure (.mapErr e, r')
  | "Z" :: r => do let (e, r') ← parseErr r; pure (.normErr e, r')
  | _ => none

def parseProv : List String → Option (Option Err)
  | ["ok"] => some none
  | toks =>
    match parseErr toks with
    | some (e, []) => some (some e)
    | _ => none

def showAuthReply (r : AuthReply) : String :=
  let t := match r.text with
    | .succeeded => "ok"
    | .invalidCred => "invalid"
    | .unsupportedMech => "unsupported"
  s!"{r.code} {r.ench.cls}.{r.ench.subj}.{r.ench.det} {t}"

/-! ### verdicts of checks: DMARC, fail actions (round 8) -/

def parsePolicy : Char → Option Policy
  | 'n' => some .none
  | 'q' => some .quarantine
  | 'r' => some .reject
  | _ => none

def parseRec (s : String) : Option RecLookup :=
  match s with
  | "nx" => some .noRecord
  | "multi" => some .noRecord
  | "tmp" => some .tempDNS
  | "tmpo" => some .tempDNS
  | "err" => some .otherErr
  | "bad" => some .otherErr
  | _ =>
    match s.toList with
    | [w, p, sp] => do
        let atOrg ← if w == 'd' then some false else if w == 'o' then some true else none
        let p ← parsePolicy p
        let sp ← if sp == '-' then some none else some <$> parsePolicy sp
        pure (.record atOrg p sp)
    | _ => none

def parseIdRes (s : String) : Option (Option IdRes) :=
  if s == "-" then some none else
  match s.toList with
  | [v, a] => do
      let v ← match v with
        | 'p' => some AuthVal.pass
        | 'f' => some .fail
        | 't' => some .tempError
        | 'n' => some .other
        | 'e' => some .other
        | _ => none
      let a ← if a == 'a' then some true else if a == 'x' then some false else none
      pure (some ⟨v, a⟩)
  | _ => none

def parseActKind : String → ActKind
  | "reject" => .reject
  | "quarantine" => .quarantine
  | "ignore" => .ignore
  | _ => .invalid

/-- the harness' line: the value handed to the endpoint through both conversions, then the reply on the wire -/
def showVerdict (utf8 : Bool) : Verdict → String
  | .accepted q => "ok q=" ++ b01 q ++ " || wire ok q=" ++ b01 q
  | .refused e =>
    let r := wrapErr (!utf8) e
    -- a basic code that is not 4yz / 5yz cannot be spoken on the wire as a failure: the harness does not try
    showGood e ++ " || wire " ++ (if r.code < 400 || r.code > 599 then "unspeakable" else showReply r)

def handleChk : List String → Option String
  | ["dmarc", utf8, _defer, lk, spf, dkim] => do
      let lk ← parseRec lk
      let spf ← parseIdRes spf
      let dkim ← parseIdRes dkim
      pure (showVerdict (utf8 == "1") (dmarcVerdict lk spf dkim))
  | "act" :: utf8 :: _defer :: _stage :: action :: nargs :: code :: ench :: msg :: ";" :: reason => do
      let n ← nargs.toNat?
      let m ← unhexRunes? msg
      let e : Option Ench := match ench.splitOn "." with
        | [a, s, d] => do pure ⟨← a.toNat?, ← s.toNat?, ← d.toNat?⟩
        | _ => none
      let r ← match reason with
        | ["ok"] => some none
        | toks => match parseErr toks with
          | some (e, []) => some (some e)
          | _ => none
      match parseAction (parseActKind action) ⟨n, code.toNat?, e, m.isEmpty⟩ m with
      | none => pure "cfgerr"
      | some fa => pure (showVerdict (utf8 == "1") (failActionVerdict fa r))
  | _ => none

def handle : List String → String
  | "dmarc" :: rest => (handleChk ("dmarc" :: rest)).getD "bad-op"
  | "act" :: rest => (handleChk ("act" :: rest)).getD "bad-op"
  | "wrap" :: mang :: rest =>
    match parseErr rest with
    | some (e, []) => showReply (wrapErr (mang == "1") e)
    | _ => "bad-op"
  | "tosmtp" :: rest =>
    match parseErr rest with
    | some (e, []) => showStored (toSMTPErr e) ++ " retry=" ++ (if queueRetries e then "1" else "0")
    | _ => "bad-op"
  | "helper" :: t :: p :: s :: d :: rest =>
    match parseErr rest, t.toNat?, p.toNat?, s.toNat?, d.toNat? with
    | some (e, []), some t, some p, some s, some d =>
      let en := smtpEnchCode e ⟨0, s, d⟩
      s!"{smtpCode e t p} {en.cls}.{en.subj}.{en.det}"
    | _, _, _, _, _ => "bad-op"
  | ["reject", variant, nargs, code, ench, msgEmpty, _rendering] =>
    match nargs.toNat? with
    | none => "bad-op"
    | some n =>
      let c := code.toNat?
      let e : Option Ench := match ench.splitOn "." with
        | [a, s, d] => do pure ⟨← a.toNat?, ← s.toNat?, ← d.toNat?⟩
        | _ => none
      match parseReject (variant == "c") ⟨n, c, e, msgEmpty == "1"⟩ with
      | none => "err"
      | some (c, e) => s!"{c} {e.cls}.{e.subj}.{e.det}"
  | "wce" :: addr :: server :: rest =>
    match parseClientErr rest, unhexRunes? server with
    | some (x, []), some srv => showGood (wrapClientErr (addr == "1") srv x)
    | _, _ => "bad-op"
  | "nomx" :: rest =>
    match parseMXs 0 rest with
    | some (mxs, aft) =>
      match parseAfter (mxHost (firstUp mxs)) aft with
      | some after =>
        match txErr (fun _ => []) mxs after with
        | some e => showGood e
        | none => "ok"
      | none => "bad-op"
    | none => "bad-op"
  | "down" :: _lmtp :: rest =>
    match parseEPs rest with
    | some (eps, aft) => showDown eps aft (downTxErr eps)
    | none => "bad-op"
  | "dauth" :: _lmtp :: cfg :: rest =>
    match parseAuthCfg cfg, parseAuthAns rest with
    | some cfg, some (ans, ";" :: r) =>
      match parseEPs r with
      | some (eps, aft) => showDown eps aft (downAuthTxErr eps cfg ans)
      | none => "bad-op"
    | _, _ => "bad-op"
  | "qmulti" :: mt :: u :: _restarts :: rest =>
    match mt.toNat?, (splitTok "/" rest).mapM (fun seg => (splitSemi seg).mapM parseAttempt) with
    | some m, some plans =>
      let fuel := plans.foldl (fun a p => max a p.length) 0 + 1
      let pf := fun r => (plans[r - 1]?).getD []
      showMulti (runMulti m (u == "1") pf fuel 0 (List.range' 1 plans.length) .init)
    | _, _ => "bad-op"
  | "dnsbl" :: rt :: qt :: _via :: ";" :: rest =>
    match rt.toInt?, qt.toInt?, (splitSemi rest).mapM parseListOut with
    | some rt, some qt, some outs =>
      match failedLookups outs with
      | [] =>
        match checkLists rt qt outs 0 with
        | .reject e => "reject " ++ showGood e
        | .quarantine => "quarantine"
        | .pass => "pass"
      | fs => "fail " ++ " || ".intercalate (fs.map (fun e => showGood (dnsblLookupErr e))) ++ " multi=one-of-them"
    | _, _, _ => "bad-op"
  | "sess" :: d :: ";" :: rest =>
    match (splitSemi rest).mapM parseSessCmd with
    | some cmds =>
      if cmds.any (fun c => match c with
          | .mail _ (some e) => (wrapErr true e).code < 400 || (wrapErr true e).code > 599
          | _ => false) then "wire-unspeakable" else
      " | ".intercalate (showSessReplies 0 (sessRun (d == "1") .init cmds))
    | none => "bad-op"
  | "dnschk" :: site :: rest =>
    match parseErr rest with
    | some (e, []) =>
      if site == "mx" then showGood (policyLookupErr 0 e)
      else if site == "rdns" then showGood (policyLookupErr 25 e) else "bad-op"
    | _ => "bad-op"
  | "mxlookup" :: rest =>
    match parseErr rest with
    | some (e, []) => showGood (lookupMXErr e)
    | _ => "bad-op"
  | "merr" :: rest =>
    match parseErrs rest with
    | some errs =>
      let e := multipleErrs errs
      showReply (wrapErr false e) ++ " | " ++ showReply (wrapErr true e)
    | none => "bad-op"
  | "qhist" :: mt :: u :: rest =>
    match mt.toNat?, (splitSemi rest).mapM parseAttempt with
    | some m, some plan =>
      -- an attempt the plan does not cover is accepted by the target
      showHist (runHist m (u == "1") .init (plan ++ [none]))
    | _, _ => "bad-op"
  | "rep" :: u :: _action :: rest =>
    match parseStoredList (splitSemi rest) with
    | some rs =>
      match reportLines (u == "1") rs with
      | some ls =>
        let rec go (i : Nat) : List ReportLine → List String
          | [] => []
          | l :: r => s!"r{i}:{showLine l}" :: go (i + 1) r
        " | ".intercalate (go 1 ls)
      | none => "generr:statusMissing"
    | none => "bad-op"
  | ["lim", _cfg, via, scope, mode] =>
    if scope == "none" then "ok" else
    match parseLimVia via, parseLimEnd mode with
    | some v, some e => showGoodC (limFailure v e)
    | _, _ => "bad-op"
  | ["epfull", _scope, utf8, _defer] => showReply (canonConst (wrapErr (utf8 != "1") (limErr .tableFull)))
  | "auth" :: mech :: _ir :: id :: rest =>
    match parseMech mech id, parseAuthPre rest with
    | some m, some (pre, r) =>
      match (splitSemi r).mapM parseProv with
      | some provs => if provs.isEmpty then "bad-op" else showAuthReply (authReply (createSASL m pre provs))
      | none => "bad-op"
    | _, _ => "bad-op"
  | ["milter", code] =>
    match code.toNat? with
    | some c => let r := milterReply c; s!"{r.1} {r.2.cls}.{r.2.subj}.{r.2.det}"
    | none => "bad-op"
  | _ => "bad-op"

end Driver.C16
