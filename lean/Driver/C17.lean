import MaddyVerif.Model.Address
import Driver.Util
namespace Driver.C17
open MaddyVerif.Address Driver

/-- marker returned for a primitive query that is not in the shipped table -/
def missing : Str := [0x10FFFF, 77, 73, 83, 83]

structure Tab where
  n : List (Str × Str) := []
  l : List (Str × Str) := []
  u : List (Str × (Str × Bool)) := []
  a : List (Str × (Str × Bool)) := []

def look {β} (t : List (Str × β)) (k : Str) (d : β) : β :=
  match t.find? (fun p => p.1 == k) with
  | some p => p.2
  | none => d

def Tab.prims (t : Tab) : Prims where
  nfc s := look t.n s missing
  lower s := look t.l s missing
  toUnicode s := look t.u s (missing, false)
  toASCII s := look t.a s (missing, false)

/-- split a token list at "|" tokens -/
def groups (toks : List String) : List (List String) :=
  let rec go (cur : List String) (acc : List (List String)) : List String → List (List String)
    | [] => (cur.reverse :: acc).reverse
    | "|" :: r => go [] (cur.reverse :: acc) r
    | t :: r => go (t :: cur) acc r
  go [] [] toks

def parseTab (gs : List (List String)) : Option Tab :=
  gs.foldlM (fun (t : Tab) g =>
    match g with
    | ["n", i, o] => do pure { t with n := (← unhexRunes? i, ← unhexRunes? o) :: t.n }
    | ["l", i, o] => do pure { t with l := (← unhexRunes? i, ← unhexRunes? o) :: t.l }
    | ["u", i, ok, o] => do pure { t with u := (← unhexRunes? i, (← unhexRunes? o, ok == "1")) :: t.u }
    | ["a", i, ok, o] => do pure { t with a := (← unhexRunes? i, (← unhexRunes? o, ok == "1")) :: t.a }
    | [] => some t
    | _ => none) {}

def showRes (r : Str × Bool) : String := (if r.2 then "ok " else "err ") ++ hexRunes r.1

/-- one call on code-point arguments -/
def handleCall (P : Prims) (call : List String) : String :=
  match call with
  | ["split", a] => match unhexRunes? a with
    | some a => match split a with
      | .ok (m, d) => s!"ok {hexRunes m} {hexRunes d}"
      | .error _ => "err"
    | none => "bad-op"
  | ["unquote", m] => match unhexRunes? m with
    | some m => match unquoteMbox m with
      | .ok r => "ok " ++ hexRunes r
      | .error _ => "err"
    | none => "bad-op"
  | ["quote", m] => match unhexRunes? m with
    | some m => hexRunes (quoteMbox m)
    | none => "bad-op"
  | ["isascii", s] => match unhexRunes? s with
    | some s => if isASCII s then "1" else "0"
    | none => "bad-op"
  | ["toascii", a] => (unhexRunes? a).elim "bad-op" (fun a => showRes (toASCII P a))
  | ["tounicode", a] => (unhexRunes? a).elim "bad-op" (fun a => showRes (toUnicode P a))
  | ["forlookup", a] => (unhexRunes? a).elim "bad-op" (fun a => showRes (forLookup P a))
  | ["cleandomain", a] => (unhexRunes? a).elim "bad-op" (fun a => showRes (cleanDomain P a))
  | ["dnsforlookup", a] => (unhexRunes? a).elim "bad-op" (fun a => showRes (dnsForLookup P a))
  | ["valid", a] => (unhexRunes? a).elim "bad-op" (fun a => if valid P a then "1" else "0")
  | ["equal", a, b] => match unhexRunes? a, unhexRunes? b with
    | some a, some b => if equal P a b then "1" else "0"
    | _, _ => "bad-op"
  | ["dnsequal", a, b] => match unhexRunes? a, unhexRunes? b with
    | some a, some b => if dnsEqual P a b then "1" else "0"
    | _, _ => "bad-op"
  | _ => "bad-op"

/-- `C17 <fn> <code points>… | table` or, for arguments that are arbitrary BYTE strings (invalid UTF-8
included), `C17 b <fn> <hex bytes>… | table`: the bytes are decoded the way Go's `range` does
(`decodeUtf8`) and the call runs on the resulting code points. -/
def handle (toks : List String) : String :=
  match groups toks with
  | [] => "bad-op"
  | call :: tabGroups =>
    match parseTab tabGroups with
    | none => "bad-op"
    | some tab =>
      let P := tab.prims
      match call with
      | "b" :: fn :: args =>
        match args.mapM unhexBytes? with
        | some bss => handleCall P (fn :: bss.map (fun bs => hexRunes (decodeUtf8 bs)))
        | none => "bad-op"
      | _ => handleCall P call

end Driver.C17
