import MaddyVerif.Model.Address
import Driver.Util
namespace Driver.C17
open MaddyVerif.Address Driver

/-- marker returned for a primitive query that is not in the shipped table -/
def missing : Str := [0x10FFFF, 77, 73, 83, 83]

structure Tab where
  n : List (Str × Str) := []
  l : List (Str × Str) := []
  u : List (Str × (Str × Bool)) := []
  a : List (Str × (Str × Bool)) := []

def look {β} (t : List (Str × β)) (k : Str) (d : β) : β :=
  match t.find? (fun p => p.1 == k) with
  | some p => p.2
  | none => d

def Tab.prims (t : Tab) : Prims where
  nfc s := look t.n s missing
  lower s := look t.l s missing
  toUnicode s := look t.u s (missing, false)
  toASCII s := look t.a s (missing, false)

/-- split a token list at "|" tokens -/
def groups (toks : List String) : List (List String) :=
  let rec go (cur : List String) (acc : List (List String)) : List String → List (List String)
    | [] => (cur.reverse :: acc).reverse
    | "|" :: r => go [] (cur.reverse :: acc) r
    | t :: r => go (t :: cur) acc r
  go [] [] toks

def parseTab (gs : List (List String)) : Option Tab :=
  gs.foldlM (fun (t : Tab) g =>
    match g with
    | ["n", i, o] => do pure { t with n := (← unhexRunes? i, ← unhexRunes? o) :: t.n }
    | ["l", i, o] => do pure { t with l := (← unhexRunes? i, ← unhexRunes? o) :: t.l }
    | ["u", i, ok, o] => do pure { t with u := (← unhexRunes? i, (← unhexRunes? o, ok == "1")) :: t.u }
    | ["a", i, ok, o] => do pure { t with a := (← unhexRunes? i, (← unhexRunes? o, ok == "1")) :: t.a }
    | [] => some t
    | _ => none) {}

def showRes (r : Str × Bool) : String := (if r.2 then "ok " else "err ") ++ hexRunes r.1

/-- the call an op spells (function name + code-point arguments) -/
def parseCall (call : List String) : Option Call :=
  match call with
  | [fn, a] => do
    let a ← unhexRunes? a
    match fn with
    | "split" => some (.split a) | "unquote" => some (.unquote a) | "quote" => some (.quote a)
    | "isascii" => some (.isascii a) | "validmbox" => some (.validmbox a) | "toascii" => some (.toascii a)
    | "tounicode" => some (.tounicode a) | "forlookup" => some (.forlookup a) | "cleandomain" => some (.cleandomain a)
    | "valid" => some (.valid a) | "dnsforlookup" => some (.dnsforlookup a) | "dnstounicode" => some (.dnstounicode a)
    | "validdomain" => some (.validdomain a)
    | _ => none
  | [fn, a, b] => do
    let a ← unhexRunes? a
    let b ← unhexRunes? b
    match fn with
    | "equal" => some (.equal a b) | "dnsequal" => some (.dnsequal a b)
    | _ => none
  | _ => none

/-- canonical observation of an outcome; the harness prints `panic` for a call of the real code that crashed -/
def showOutcome : Outcome → String
  | .str s => hexRunes s
  | .flag b => if b then "1" else "0"
  | .res s ok => showRes (s, ok)
  | .parts m d => s!"ok {hexRunes m} {hexRunes d}"
  | .err => "err"
  | .panic => "panic"

/-- one call on code-point arguments: the model's `run` (never `panic`: `C17_no_panic`) -/
def handleCall (P : Prims) (call : List String) : String :=
  match parseCall call with
  | some c => showOutcome (run P c)
  | none => "bad-op"

/-- split a token list at ";" tokens -/
def calls (toks : List String) : List (List String) :=
  let rec go (cur : List String) (acc : List (List String)) : List String → List (List String)
    | [] => (cur.reverse :: acc).reverse
    | ";" :: r => go [] (cur.reverse :: acc) r
    | t :: r => go (t :: cur) acc r
  go [] [] toks

/-- `C17 hist <call> ; <call> ; …` (one caller, one call after the other) and `C17 par <goroutines> <rounds> <call> ; …`
(the same calls made by several goroutines at once): the model's `runHist` — every call is answered by `run`,
whatever came before and whoever else is calling (`C17_hist_answer`, `C17_par_answer`). -/
def handleHist (P : Prims) (toks : List String) : String :=
  match (calls toks).mapM parseCall with
  | some cs => " ; ".intercalate ((runHist P cs).map showOutcome)
  | none => "bad-op"

/-- `C17 <fn> <code points>… | table` or, for arguments that are arbitrary BYTE strings (invalid UTF-8
included), `C17 b <fn> <hex bytes>… | table`: the bytes are decoded the way Go's `range` does
(`decodeUtf8`) and the call runs on the resulting code points. -/
def handle (toks : List String) : String :=
  match groups toks with
  | [] => "bad-op"
  | call :: tabGroups =>
    match parseTab tabGroups with
    | none => "bad-op"
    | some tab =>
      let P := tab.prims
      match call with
      | "b" :: fn :: args =>
        match args.mapM unhexBytes? with
        | some bss => handleCall P (fn :: bss.map (fun bs => hexRunes (decodeUtf8 bs)))
        | none => "bad-op"
      | "hist" :: rest => handleHist P rest
      | "par" :: _ :: _ :: rest => handleHist P rest
      | _ => handleCall P call

end Driver.C17
