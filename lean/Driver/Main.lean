import Driver.C01
import Driver.C09
import Driver.C14
import Driver.C15
import Driver.C13
import Driver.C07
import Driver.C04
import Driver.C18
import Driver.C19
import Driver.C05
import Driver.C02
import Driver.C06
import Driver.C12
import Driver.C20
import Driver.C08
import Driver.C03
import Driver.C10
import Driver.C11
import Driver.C16
import Driver.C17
/-! Line-protocol driver: one op per line on stdin (`<Cxx> <op> <args…>`), one answer per line. -/
open Driver

def dispatch (line : String) : String :=
  match tokens line with
  | "C01" :: rest => Driver.C01.handle rest
  | "C09" :: rest => Driver.C09.handle rest
  | "C14" :: rest => Driver.C14.handle rest
  | "C15" :: rest => Driver.C15.handle rest
  | "C13" :: rest => Driver.C13.handle rest
  | "C07" :: rest => Driver.C07.handle rest
  | "C04" :: rest => Driver.C04.handle rest
  | "C18" :: rest => Driver.C18.handle rest
  | "C19" :: rest => Driver.C19.handle rest
  | "C05" :: rest => Driver.C05.handle rest
  | "C02" :: rest => Driver.C02.handle rest
  | "C06" :: rest => Driver.C06.handle rest
  | "C12" :: rest => Driver.C12.handle rest
  | "C20" :: rest => Driver.C20.handle rest
  | "C08" :: rest => Driver.C08.handle rest
  | "C03" :: rest => Driver.C03.handle rest
  | "C10" :: rest => Driver.C10.handle rest
  | "C11" :: rest => Driver.C11.handle rest
  | "C16" :: rest => Driver.C16.handle rest
  | "C17" :: rest => Driver.C17.handle rest
  | _ => "bad-op"

partial def loop (h : IO.FS.Stream) (out : IO.FS.Stream) : IO Unit := do
  let line ← h.getLine
  if line.isEmpty then return ()
  let l := line.trimAsciiEnd.toString
  out.putStrLn (dispatch l)
  loop h out

def main : IO Unit := do
  let stdin ← IO.getStdin
  let stdout ← IO.getStdout
  loop stdin stdout
  stdout.flush
