import MaddyVerif.Model.Pool
import Driver.Util
/-! C19 driver: `run <maxKeys> <maxConns> <maxLife> <stale> <progs> <sched>` — replays one schedule on the
pool model and prints, for every step, the synchronisation point the stepped goroutine is parked at
afterwards, then the final state.  The Go harness prints the same from the real, instrumented pool. -/
namespace Driver.C19
open MaddyVerif.Pool Driver

def parseOp (s : String) : Option Op :=
  match s.toList with
  | ['r'] => some .ret
  | ['u'] => some .use
  | ['d'] => some .drop
  | ['c'] => some .cleanup
  | ['s'] => some .shutdown
  | ['k'] => some .sweep
  | 'g' :: rest => (String.ofList rest).toNat?.map Op.get
  | _ => none

def parseProg (s : String) : Option (List Op) :=
  if s == "-" then some [] else (s.splitOn ".").mapM parseOp

def parseWho (s : String) : Option Who :=
  match s.toList with
  | 't' :: rest => (String.ofList rest).toNat?.map Who.tick
  | 'b' :: rest => (String.ofList rest).toNat?.map Who.brk
  | 'x' :: rest => (String.ofList rest).toNat?.map Who.cancel
  | _ =>
    match s.splitOn ":" with
    | [a] => a.toNat?.map (fun i => Who.task i 0)
    | [a, b] => do
      let i ← a.toNat?
      let p ← b.toNat?
      pure (Who.task i p)
    | _ => none

def label : Pc → String
  | .idle => "idle" | .done => "done" | .panicked _ => "PANIC"
  | .wClose c | .kClose c | .rDrainClose _ _ _ _ c | .sDrainClose _ _ c => s!"cc:{c}"
  | .gLock _ => "g.lock"
  | .gDropClose _ h => s!"g.close:{h}"
  | .gDrain _ h => s!"g.drain:{h}"
  | .gSel _ h => s!"g.sel:{h}"
  | .gUsable _ _ c => s!"us:{c}"
  | .rLock _ _ => "r.lock"
  | .rIter _ _ h _ => s!"r.iter:{h}"
  | .rClose _ _ h _ => s!"r.close:{h}"
  | .rDrain _ _ h _ => s!"r.drain:{h}"
  | .rSel _ _ h => s!"r.sel:{h}"
  | .cLock => "c.lock"
  | .cIter h _ => s!"c.iter:{h}"
  | .cClose h _ => s!"c.close:{h}"
  | .cDrain h _ => s!"c.drain:{h}"
  | .sStop => "s.stop" | .sLock => "s.lock"
  | .sIter h _ => s!"s.iter:{h}"
  | .sClose h _ => s!"s.close:{h}"
  | .sDrain h _ => s!"s.drain:{h}"

def labelAfter (s : St) : Who → String
  | .task i _ => match s.tasks[i]? with
    | some t => label t.pc
    | none => "-"
  | .tick _ => "t"
  | .brk _ => "b"
  | .cancel _ => "x"

def runLabels (s : St) : List Who → List String → St × List String
  | [], acc => (s, acc.reverse)
  | w :: ws, acc =>
    let s' := next s w
    runLabels s' ws (labelAfter s' w :: acc)

def natList (l : List Nat) : String := if l.isEmpty then "-" else ",".intercalate (l.map toString)

def showChan (ix : Nat) (ch : Chan) : String :=
  s!"{ix}:{ch.key}:{if ch.closed then 1 else 0}:{natList ch.buf}"

def showChans (l : List Chan) : String :=
  if l.isEmpty then "-" else ";".intercalate ((List.range l.length).zip l |>.map (fun p => showChan p.1 p.2))

def insertSorted (x : Nat) : List Nat → List Nat
  | [] => [x]
  | y :: ys => if x ≤ y then x :: y :: ys else y :: insertSorted x ys

def sortNat (l : List Nat) : List Nat := l.foldr insertSorted []

def showHeld (ts : List Task) : String :=
  "/".intercalate (ts.map (fun t =>
    if t.held.isEmpty then "-" else ",".intercalate (t.held.map (fun p => s!"{p.1}@{p.2}"))))

def showHand (h : Hand) : String :=
  let rk := match h.retKey with
    | some k => toString k
    | none => "-"
  s!"{h.conn}@{h.lastUse}<{h.now}k{h.key}r{rk}@{h.retAt}"

def showState (s : St) (nw : Nat) : String :=
  s!"H={showHeld (s.tasks.take nw)} X={natList s.closed.reverse} L={natList s.leaked.reverse} " ++
  s!"CH={showChans s.chans} K={if s.keysNil then "nil" else natList (sortNat s.keys)} F={s.fresh} " ++
  s!"T={s.tasks.length} R={natList ((s.recvLog.reverse).map (·.1))} " ++
  s!"G={if s.handLog.isEmpty then "-" else ",".intercalate (s.handLog.reverse.map showHand)}"

/-! ### `mx`: sequential histories of the real remote target (real `mxConn` objects in the real pool)

`mx <maxKeys> <maxConns> <maxLife> <stale> <ops>`; ops: `o<k>` a delivery to domain `k` starts and sends its message
(`pool.Get`, then MAIL/RCPT/DATA stamp the connection), `c` the oldest open delivery ends (`remoteDelivery.Close`:
`pool.Return`), `t<d>` the clock moves, `b<c>` the server drops connection `c` (ignored while a delivery holds it),
`k` `pool.CleanUp`, `s` `pool.Close`; `a` the oldest open delivery is aborted (the same `remoteDelivery.Close`); `r<j>` a
`Target.Start` that the message limits refuse (no pool call at all; `j` = which limit / how the context ended); `x<k>` a delivery to domain `k` whose context is cancelled (or times out) while
`pool.Get` waits for the answer of the next hop to the RSET by which it probes a pooled connection — the first time
the worker is parked in `Usable()` with a connection the server has not dropped, the schedule takes `cancel`; when no
such connection is probed the context stays live and the delivery is an ordinary one.  A delivery that fails (`E`:
no pooled connection left and the dial under the dead context fails) holds nothing.  One model worker per delivery (`get k, use, ret`) plus one for the sweeps and
the shutdown; every call runs to completion, and the `go conn.Close()` goroutines run right away. -/

inductive MxOp
  | open_ (k : Nat) | openx (k : Nat) | commit | abort | refused (j : Nat) | tick (d : Nat) | brk (c : Nat) | sweep | shut

def parseMxOp (s : String) : Option MxOp :=
  match s.toList with
  | ['c'] => some .commit
  | ['a'] => some .abort
  | ['k'] => some .sweep
  | ['s'] => some .shut
  | 'o' :: rest => (String.ofList rest).toNat?.map MxOp.open_
  | 'x' :: rest => (String.ofList rest).toNat?.map MxOp.openx
  | 't' :: rest => (String.ofList rest).toNat?.map MxOp.tick
  | 'b' :: rest => (String.ofList rest).toNat?.map MxOp.brk
  | 'r' :: rest => (String.ofList rest).toNat?.map MxOp.refused
  | _ => none

/-- run goroutine `i` until it is back at `idle` (or finished, or cannot move) -/
def runCall (s : St) (i : Nat) : Nat → St
  | 0 => s
  | fuel + 1 =>
    match step s (.task i 0) with
    | none => s
    | some s' =>
      match s'.tasks[i]? with
      | some t => if t.pc = .idle ∨ t.pc = .done then s' else runCall s' i fuel
      | none => s'

/-- as `runCall`; the first time goroutine `i` is parked in `Usable()` with a connection that is not broken (the
server holds its answer to the RSET) its context is cancelled -/
def runCallCancel (s : St) (i : Nat) (fired : Bool) : Nat → St
  | 0 => s
  | fuel + 1 =>
    let hold : Bool := match s.tasks[i]? with
      | some t => match t.pc with
        | .gUsable _ _ c => !fired && !s.broken c
        | _ => false
      | none => false
    let s := if hold then next s (.cancel i) else s
    match step s (.task i 0) with
    | none => s
    | some s' =>
      match s'.tasks[i]? with
      | some t => if t.pc = .idle ∨ t.pc = .done then s' else runCallCancel s' i (fired || hold) fuel
      | none => s'

/-- run the spawned `conn.Close()` goroutines (indexes ≥ `n0`) to their end -/
def settle (s : St) (n0 : Nat) : St :=
  (List.range (s.tasks.length - n0)).foldl (fun s j => runCall s (n0 + j) 4) s

def heldBy (s : St) (c : Nat) : Bool := s.tasks.any (fun t => t.held.any (fun p => p.1 == c))

structure MxSt where
  s : St
  n0 : Nat            -- number of model workers (deliveries + 1)
  nextD : Nat := 0
  openQ : List Nat := []
  out : List String := []

def mxOpen (m : MxSt) (cancel : Bool) : MxSt :=
  let j := m.nextD
  let f0 := m.s.fresh
  let s1 := if cancel then runCallCancel m.s j false 200 else runCall m.s j 200
  let s2 := settle (runCall s1 j 200) m.n0
  let tok := match s2.tasks[j]? with
    | some t => match t.held with
      | (c, _) :: _ => (if s2.fresh > f0 then "n" else "p") ++ toString c
      | [] => "E"
    | none => "E"
  -- a failed delivery is aborted at once: it is not among the open ones
  { m with s := s2, nextD := j + 1, openQ := if tok == "E" then m.openQ else m.openQ ++ [j], out := tok :: m.out }

def mxStep (m : MxSt) : MxOp → MxSt
  | .open_ _ => mxOpen m false
  | .openx _ => mxOpen m true
  | .commit =>
    match m.openQ with
    | [] => { m with out := "-" :: m.out }
    | j :: rest => { m with s := settle (runCall m.s j 200) m.n0, openQ := rest, out := "c" :: m.out }
  | .abort =>
    -- `remoteDelivery.Abort` is `remoteDelivery.Close`, as `Commit` is: the connection goes back to the pool
    match m.openQ with
    | [] => { m with out := "-" :: m.out }
    | j :: rest => { m with s := settle (runCall m.s j 200) m.n0, openQ := rest, out := "a" :: m.out }
  -- a `Target.Start` refused by the message limits (limit not obtained before the caller's context ended): no delivery
  -- exists, no pool call is made — the pool state is what it was
  | .refused _ => { m with out := "R" :: m.out }
  | .tick d => { m with s := next m.s (.tick d), out := "t" :: m.out }
  | .brk c =>
    if c < m.s.fresh ∧ ¬ heldBy m.s c then { m with s := next m.s (.brk c), out := "b" :: m.out }
    else { m with out := "-" :: m.out }
  | .sweep => { m with s := settle (runCall m.s (m.n0 - 1) 400) m.n0, out := "k" :: m.out }
  | .shut => { m with s := settle (runCall m.s (m.n0 - 1) 400) m.n0, out := "s" :: m.out }

def mxProgs (ops : List MxOp) : List (List Op) :=
  let ds := ops.filterMap (fun o => match o with
    | .open_ k => some [Op.get k, Op.use, Op.ret]
    | .openx k => some [Op.get k, Op.use, Op.ret]
    | _ => none)
  let admin := ops.filterMap (fun o => match o with
    | .sweep => some Op.cleanup
    | .shut => some Op.shutdown
    | _ => none)
  ds ++ [admin]

def handleMx (cfg : Cfg) (ops : List MxOp) : String :=
  let ps := mxProgs ops
  let m := ops.foldl mxStep { s := init cfg ps, n0 := ps.length }
  " ".intercalate m.out.reverse ++ s!" | X={natList (sortNat m.s.closed)} F={m.s.fresh} L={natList (sortNat m.s.leaked)}"

def handle : List String → String
  | ["mx", mk, mc, ml, st, ops] =>
    match mk.toNat?, mc.toNat?, ml.toNat?, st.toNat?, (ops.splitOn ",").mapM parseMxOp with
    | some mk, some mc, some ml, some st, some ops =>
      handleMx { maxKeys := mk, maxConns := mc, maxLife := ml, staleLife := st } ops
    | _, _, _, _, _ => "bad-op"
  | ["run", mk, mc, ml, st, progs, sched] =>
    match mk.toNat?, mc.toNat?, ml.toNat?, st.toNat? with
    | some mk, some mc, some ml, some st =>
      match (progs.splitOn "|").mapM parseProg, (if sched == "-" then some [] else (sched.splitOn ",").mapM parseWho) with
      | some ps, some ws =>
        let s0 := init { maxKeys := mk, maxConns := mc, maxLife := ml, staleLife := st } ps
        let (s, labs) := runLabels s0 ws []
        " ".intercalate labs ++ " | " ++ showState s ps.length
      | _, _ => "bad-op"
    | _, _, _, _ => "bad-op"
  | _ => "bad-op"

end Driver.C19
