import MaddyVerif.Model.Pool
import Driver.Util
/-! C19 driver: `run <maxKeys> <maxConns> <maxLife> <stale> <progs> <sched>` — replays one schedule on the
pool model and prints, for every step, the synchronisation point the stepped goroutine is parked at
afterwards, then the final state.  The Go harness prints the same from the real, instrumented pool. -/
namespace Driver.C19
open MaddyVerif.Pool Driver

def parseOp (s : String) : Option Op :=
  match s.toList with
  | ['r'] => some .ret
  | ['u'] => some .use
  | ['d'] => some .drop
  | ['c'] => some .cleanup
  | ['s'] => some .shutdown
  | 'g' :: rest => (String.ofList rest).toNat?.map Op.get
  | _ => none

def parseProg (s : String) : Option (List Op) :=
  if s == "-" then some [] else (s.splitOn ".").mapM parseOp

def parseWho (s : String) : Option Who :=
  match s.toList with
  | 't' :: rest => (String.ofList rest).toNat?.map Who.tick
  | 'b' :: rest => (String.ofList rest).toNat?.map Who.brk
  | _ =>
    match s.splitOn ":" with
    | [a] => a.toNat?.map (fun i => Who.task i 0)
    | [a, b] => do
      let i ← a.toNat?
      let p ← b.toNat?
      pure (Who.task i p)
    | _ => none

def label : Pc → String
  | .idle => "idle" | .done => "done" | .panicked _ => "PANIC"
  | .wClose c | .kClose c | .rDrainClose _ _ _ _ c | .sDrainClose _ _ c => s!"cc:{c}"
  | .gLock _ => "g.lock"
  | .gDropClose _ h => s!"g.close:{h}"
  | .gDrain _ h => s!"g.drain:{h}"
  | .gSel _ h => s!"g.sel:{h}"
  | .gUsable _ _ c => s!"us:{c}"
  | .rLock _ _ => "r.lock"
  | .rIter _ _ h _ => s!"r.iter:{h}"
  | .rClose _ _ h _ => s!"r.close:{h}"
  | .rDrain _ _ h _ => s!"r.drain:{h}"
  | .rSel _ _ h => s!"r.sel:{h}"
  | .cLock => "c.lock"
  | .cIter h _ => s!"c.iter:{h}"
  | .cClose h _ => s!"c.close:{h}"
  | .cDrain h _ => s!"c.drain:{h}"
  | .sStop => "s.stop" | .sLock => "s.lock"
  | .sIter h _ => s!"s.iter:{h}"
  | .sClose h _ => s!"s.close:{h}"
  | .sDrain h _ => s!"s.drain:{h}"

def labelAfter (s : St) : Who → String
  | .task i _ => match s.tasks[i]? with
    | some t => label t.pc
    | none => "-"
  | .tick _ => "t"
  | .brk _ => "b"

def runLabels (s : St) : List Who → List String → St × List String
  | [], acc => (s, acc.reverse)
  | w :: ws, acc =>
    let s' := next s w
    runLabels s' ws (labelAfter s' w :: acc)

def natList (l : List Nat) : String := if l.isEmpty then "-" else ",".intercalate (l.map toString)

def showChan (ix : Nat) (ch : Chan) : String :=
  s!"{ix}:{ch.key}:{if ch.closed then 1 else 0}:{natList ch.buf}"

def showChans (l : List Chan) : String :=
  if l.isEmpty then "-" else ";".intercalate ((List.range l.length).zip l |>.map (fun p => showChan p.1 p.2))

def insertSorted (x : Nat) : List Nat → List Nat
  | [] => [x]
  | y :: ys => if x ≤ y then x :: y :: ys else y :: insertSorted x ys

def sortNat (l : List Nat) : List Nat := l.foldr insertSorted []

def showHeld (ts : List Task) : String :=
  "/".intercalate (ts.map (fun t =>
    if t.held.isEmpty then "-" else ",".intercalate (t.held.map (fun p => s!"{p.1}@{p.2}"))))

def showHand (h : Hand) : String := s!"{h.conn}@{h.lastUse}<{h.now}"

def showState (s : St) (nw : Nat) : String :=
  s!"H={showHeld (s.tasks.take nw)} X={natList s.closed.reverse} L={natList s.leaked.reverse} " ++
  s!"CH={showChans s.chans} K={if s.keysNil then "nil" else natList (sortNat s.keys)} F={s.fresh} " ++
  s!"T={s.tasks.length} R={natList ((s.recvLog.reverse).map (·.1))} " ++
  s!"G={if s.handLog.isEmpty then "-" else ",".intercalate (s.handLog.reverse.map showHand)}"

def handle : List String → String
  | ["run", mk, mc, ml, st, progs, sched] =>
    match mk.toNat?, mc.toNat?, ml.toNat?, st.toNat? with
    | some mk, some mc, some ml, some st =>
      match (progs.splitOn "|").mapM parseProg, (if sched == "-" then some [] else (sched.splitOn ",").mapM parseWho) with
      | some ps, some ws =>
        let s0 := init { maxKeys := mk, maxConns := mc, maxLife := ml, staleLife := st } ps
        let (s, labs) := runLabels s0 ws []
        " ".intercalate labs ++ " | " ++ showState s ps.length
      | _, _ => "bad-op"
    | _, _, _, _ => "bad-op"
  | _ => "bad-op"

end Driver.C19
