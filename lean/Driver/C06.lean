import MaddyVerif.Model.CheckRunner
import Driver.Util
/-! Line protocol of C06 (see harness/internal/msgpipeline/zz_verif_c06_test.go):

`run <mode> <dmarc> <global> <source> <blocks> <targets> <rcpts> <scripts> <delays> [Q] [m=<faults>]`
  mode     smtp | lmtp
  dmarc    off | pass | quar | rej
  global   check ids `0.2` or `-`;  source likewise
  blocks   `;`-separated `<checks>/<targets>` (index = block id)
  targets  `,`-separated `<a|p><n|r>`  (atomic/partial, normal/refuses quarantined)
  rcpts    `,`-separated `<id>:<block>` in command order
  scripts  `;`-separated per check `<conn><sender><body>/<id>:<v>,…|-`, a verdict `<v>` is two
           characters: raw result 0-5 and action i|q|r (FailAction applied to the raw result)
  delays   `;`-separated per check, four digits (conn, sender, rcpt, body): completion order
  Q        `MsgMetadata.Quarantine` is already set when `Start` is called (`Cfg.q0`)
  m=<sender>/<rcpt>/<body>   failures of the modifier groups (`Cfg.mf`), each part `-` or a `,`-list:
           sender `g:<k>` | `s:<k>` (RewriteSender of the global / source modifiers),
           rcpt `<id>:<g|s|b><k>` (RewriteRcpt of the global / source / the recipient's block's modifiers),
           body `g:<k>` | `s:<k>` | `<block>:<k>` (RewriteBody); `<k>` = t (temporary) | p (permanent) -
           the pipeline hands either back unchanged, the model does not distinguish them
`nest <mode> <dmarc> <global> <source> <blocks> <targets> <rcpts> <scripts> <delays> <Q|->
      // <dmarc> <global> <source> <blocks> <targets> <routes> <scripts> <delays>`
  a pipeline (after `//`) used as a delivery target of the first one: target kind `px` in the outer
  target list; `routes` = `<id>:<inner block>` for every recipient id.  The inner pipeline is the
  same model run on the recipients the outer pipeline hands over, with `q0` = the flag the outer
  pipeline leaves (`deliver_to &inner`).  Supported (otherwise `bad-op`): the outer pipeline's own
  targets do not refuse (kind `n`), no inner verdict is a reject, inner DMARC is not `rej` — so the
  inner pipeline never refuses MAIL/RCPT and only its targets can refuse the body.
`multi <dmarc> <global> <targets> <sources> <schedule> // <tx> // <tx> …`
  several transactions on ONE pipeline object (built by the real configuration parser), their
  commands interleaved: `sources` = `_`-separated source blocks `<checks>~<blocks>` (blocks as in `run`;
  the last one is `default_source`, source k < last is `source s<k>.example`), `schedule` = one digit
  per command: the transaction whose next command (MAIL, the next RCPT, DATA) is issued;
  `<tx>` = `<mode> <source index><sender form>[Q] <rcpts> <scripts> <delays>`: sender form n (plain
  address of the source's domain) | z (null reverse-path `<>`; only the default source can be meant) |
  i (IDN domain) | q (quoted local part) | u (upper-case spelling); scripts and delays are the
  verdicts / completion orders for THIS message (all checks of the pipeline).  The model runs
  `multi` (every command acts on its own transaction only): output = the observations of the
  transactions in order, ` || `-separated (`open` for one whose commands were not all issued).
  A `run` op may end in `f=<form>` (the sender form; the model does not look at the sender).
  Round 8: a block may be written `<checks>/<targets>/n` and a source of a multi op `<checks>~<blocks>~n`
  (no `modify` directive: the empty modifier group; a fault naming such a scope is `bad-op`), a `run` op
  may carry `nm=<g|s|gs>` (the global / source scope has none); a recipient `<id>:<block><d|m>` is
  written by the client with an upper-case / mixed-case domain (the endpoint normalises it: the model
  does not look at the spelling); `st=` lists what every accepted RCPT command is answered after
  DATA, in command order.  `d=<i>,<q>,<r>` (last token of a `run` op; before the first `//` of a
  `multi` op): how the three actions are written in the configuration of the checks - each a
  directive, arguments joined by `+`, `_` = space, `~` = empty argument, `!` = no argument; every
  directive goes through `parseAction`: one refused ⇒ output `load=refused`; an accepted directive
  whose action is not its slot's ⇒ `bad-op`.
  Round 9: target kind `q<n|r>` in a `run` op = a REAL queue in front of the recording target (see
  `parseTgtRun`); last token `w=<from>/<answer>/<answer>/<align>` = the DNS world of the DMARC part:
  the op's dmarc field has to be `discover` of that world (else `bad-op`).
`apply <raw> <act>` → the result of FailAction.Apply and what the runner does with it
`act <directive>` → `refused`, or `ok q= r= ovr=<code>/<enhanced>/<text>|- eff=<c>,<s>,<r>,<b>`: the parsed
  FailAction and what a check failing with it does at each of the four stages (one-check pipeline)
-/
namespace Driver.C06
open MaddyVerif.CheckRunner Driver

def ids? (s : String) : Option (List Nat) :=
  if s == "-" then some [] else (s.splitOn ".").mapM String.toNat?

def raw? (c : Char) : Option Res :=
  match c with
  | '0' => some ⟨false, false, false⟩
  | '1' => some ⟨true, false, false⟩
  | '2' => some ⟨true, true, false⟩
  | '3' => some ⟨false, true, false⟩
  | '4' => some ⟨false, false, true⟩
  | '5' => some ⟨true, false, true⟩
  | _ => none

def act? (c : Char) : Option Act :=
  match c with
  | 'i' => some .ignore | 'q' => some .quarantine | 'r' => some .reject | _ => none

def verdict? (a b : Char) : Option Eff := do
  let r ← raw? a
  let x ← act? b
  pure (x.apply r).eff

structure Script where
  conn : Eff
  sender : Eff
  body : Eff
  rcpt : List (Nat × Eff)

def parseRcptV (s : String) : Option (Nat × Eff) :=
  match s.splitOn ":" with
  | [i, v] => do
    let i ← i.toNat?
    match v.toList with
    | [a, b] => do let e ← verdict? a b; pure (i, e)
    | _ => none
  | _ => none

def parseScript (s : String) : Option Script :=
  match s.splitOn "/" with
  | [st, rc] =>
    match st.toList with
    | [a, b, c, d, e, f] => do
      let x ← verdict? a b
      let y ← verdict? c d
      let z ← verdict? e f
      let rs ← if rc == "-" then some [] else (rc.splitOn ",").mapM parseRcptV
      pure ⟨x, y, z, rs⟩
    | _ => none
  | _ => none

def verdictsOf (ss : List Script) : Verdicts := fun c st =>
  match ss[c]? with
  | none => .none
  | some s =>
    match st with
    | .conn => s.conn
    | .sender => s.sender
    | .body => s.body
    | .rcpt r => match s.rcpt.find? (fun p => p.1 == r) with
      | some p => p.2
      | none => .none

/-- A block and whether it has NO modifiers (`/n`). -/
def parseBlock (s : String) : Option (Block × Bool) :=
  match s.splitOn "/" with
  | [c, t] => do
    let c ← ids? c
    let t ← ids? t
    pure (⟨c, t⟩, false)
  | [c, t, fl] => do
    let c ← ids? c
    let t ← ids? t
    if fl == "n" || fl == "nf" then pure (⟨c, t⟩, true)
    else if fl == "f" then pure (⟨c, t⟩, false) else none
  | _ => none

/-- Round 10, block flag `f`: the block lists one more check, whose `CheckStateForMsg` fails for every
message (backend down); every check listed before it is a global / source check. -/
def blockDead (s : String) : Bool :=
  match s.splitOn "/" with
  | [_, _, fl] => fl == "f" || fl == "nf"
  | _ => false

def parseTgt (s : String) : Option Tgt :=
  match s.toList with
  | [a, b] =>
    if (a == 'a' || a == 'p') && (b == 'n' || b == 'r') then some ⟨a == 'p', b == 'r'⟩ else none
  | _ => none

/-- Target list of a `run` op: in addition `q<n|r>` = a REAL `target.queue` in front of the recording
target (which refuses quarantined messages: `r`).  To the pipeline a queue is an atomic target that
takes every message; it keeps the `*MsgMetadata` it was started with and shows it to its own target
when it makes the delivery attempt - after the pipeline's `applyResults` -, so the hand-over the
target behind the queue sees is the pipeline's hand-over to the queue, flag included (`del=` lists
it whatever the target behind the queue answers). -/
def parseTgtRun (s : String) : Option Tgt :=
  match s.toList with
  | ['q', b] => if b == 'n' || b == 'r' then some ⟨false, false⟩ else none
  | _ => parseTgt s

/-- Target list of a `nest` op: `px` is the nested pipeline (a `PartialDelivery` that accepts
every recipient), the outer pipeline's own targets must be of kind `n`. -/
def parseTgtN (s : String) : Option (Tgt × Bool) :=
  match s.toList with
  | [a, b] =>
    if a == 'p' && b == 'x' then some (⟨true, false⟩, true)
    else if (a == 'a' || a == 'p') && b == 'n' then some (⟨a == 'p', false⟩, false) else none
  | _ => none

def parseRcpt (s : String) : Option (Nat × Nat) :=
  match s.splitOn ":" with
  | [i, b] => do
    let i ← i.toNat?
    -- how the client spelled the domain (`d` upper case, `m` mixed case) is not an input of the model
    let b := if b.endsWith "d" || b.endsWith "m" then (b.dropEnd 1).toString else b
    let b ← b.toNat?
    pure (i, b)
  | _ => none

def parseDelay (s : String) : Option (List Nat) :=
  match s.toList with
  | [a, b, c, d] => [a, b, c, d].mapM (fun ch => if ch.isDigit then some (ch.toNat - '0'.toNat) else none)
  | _ => none

def dmarc? (s : String) : Option Dmarc :=
  match s with
  | "off" => some .off | "pass" => some .pass | "quar" => some .quar | "rej" => some .rej | _ => none

/-- Completion order induced by the scripted delays: stable insertion sort by delay. -/
def insByDelay (dl : CheckId → Nat) (x : CheckId × Eff) : List (CheckId × Eff) → List (CheckId × Eff)
  | [] => [x]
  | y :: r => if dl x.1 ≤ dl y.1 then x :: y :: r else y :: insByDelay dl x r

def ordOf (ds : List (List Nat)) : Ord := fun n l =>
  l.foldr (insByDelay (fun c => ((ds[c]?).getD []).getD (n % 4) 0)) []

def insNat (x : Nat) : List Nat → List Nat
  | [] => [x]
  | y :: r => if x ≤ y then x :: y :: r else y :: insNat x r
def sortNat (l : List Nat) : List Nat := l.foldr insNat []
def dedupNat (l : List Nat) : List Nat := l.foldr (fun x acc => if acc.contains x then acc else x :: acc) []

def insTgt (x : TgtId × List Rcpt × Bool) : List (TgtId × List Rcpt × Bool) → List (TgtId × List Rcpt × Bool)
  | [] => [x]
  | y :: r => if x.1 ≤ y.1 then x :: y :: r else y :: insTgt x r

def showStage : Stage → String
  | .conn => "c" | .sender => "s" | .rcpt r => s!"r{r}" | .body => "b"

def b01 (b : Bool) : String := if b then "1" else "0"

/-- Per check: the calls each of its state objects saw, state objects separated by `|`. -/
def showLog (nChecks : Nat) (keepBody : CheckId → Bool) (done : List Call) : String :=
  let per (c : Nat) : String :=
    let mine := done.filter (fun k => k.c == c && (k.s != .body || keepBody c))
    let maxG := mine.foldl (fun m k => max m k.g) 0
    let segs := (List.range (maxG + 1)).map (fun g =>
      ",".intercalate ((mine.filter (fun k => k.g == g)).map (fun k => showStage k.s)))
    s!"{c}:" ++ "|".intercalate segs
  ";".intercalate ((List.range nChecks).map per)

def showObs (m : Mode) (cfg : Cfg) (nChecks : Nat) (ob : Obs) : String :=
  let startS := if ob.startRefused then "r" else "o"
  let rcptS := ",".intercalate (ob.rcpts.map (fun p => s!"{p.1}:" ++ (if p.2 then "r" else "o")))
  let bodyS := match ob.body with
    | none => "none"
    | some b => match b.refused with
      | some .check => "chk"
      | some .dmarc => "dmarc"
      | some .modifier => "mod"
      | none => if m == Mode.lmtp || b.results.all (fun x => x.2.2) then "ok" else "tgt"
  -- every accepted RCPT command, in command order
  let acc := (ob.rcpts.filter (fun x => !x.2)).map (fun x => x.1)
  let dl := delivered m ob
  let stS := ",".intercalate (acc.map (fun r => s!"{r}:" ++ (if dl.contains r then "o" else "f")))
  let ho := (handedOver m ob).foldr insTgt []
  let delS := ";".intercalate (ho.map (fun x =>
    s!"{x.1}:" ++ "+".intercalate ((sortNat x.2.1).map toString) ++ ":" ++ b01 x.2.2))
  let refusedByCheck := match ob.body with
    | some b => b.refused == some .check
    | none => false
  let keep : CheckId → Bool := fun c => !refusedByCheck || cfg.global.contains c || cfg.source.contains c
  s!"start={startS} rcpt={rcptS} body={bodyS} st={stS} q={b01 ob.final.metaQ} del={delS} log=" ++
    showLog nChecks keep ob.final.cr.done

/-- One pipeline's tokens → configuration, number of checks, recipient table, completion order. -/
def parseKV (s : String) : Option (String × String) :=
  match s.splitOn ":" with
  | [a, b] => some (a, b)
  | _ => none

def kvList (s : String) : Option (List (String × String)) :=
  if s == "-" then some [] else (s.splitOn ",").mapM parseKV

def isKind (s : String) : Bool := s == "t" || s == "p"

/-- The `m=` token. -/
def parseMF (tok : String) : Option MFaults :=
  match tok.splitOn "=" with
  | ["m", spec] =>
    match spec.splitOn "/" with
    | [se, rc, bo] => do
      let ses ← kvList se
      let rcs ← kvList rc
      let bos ← kvList bo
      if !(ses.all (fun p => (p.1 == "g" || p.1 == "s") && isKind p.2)) then none else
      let rcs' ← rcs.mapM (fun p => do
        let id ← p.1.toNat?
        match p.2.toList with
        | [sc, k] => if (sc == 'g' || sc == 's' || sc == 'b') && (k == 't' || k == 'p') then some (id, sc) else none
        | _ => none)
      if !(bos.all (fun p => (p.1 == "g" || p.1 == "s" || p.1.toNat?.isSome) && isKind p.2)) then none else
      pure {
        senderG := ses.any (fun p => p.1 == "g")
        senderS := ses.any (fun p => p.1 == "s")
        rcptG := fun r => rcs'.any (fun p => p.1 == r && p.2 == 'g')
        rcptS := fun r => rcs'.any (fun p => p.1 == r && p.2 == 's')
        rcptB := fun r => rcs'.any (fun p => p.1 == r && p.2 == 'b')
        bodyG := bos.any (fun p => p.1 == "g")
        bodyS := bos.any (fun p => p.1 == "s")
        bodyB := fun b => bos.any (fun p => p.1.toNat? == some b) }
    | _ => none
  | _ => none

def parseCfg (dm g s blocks scripts delays rcpts : String) (ts : List Tgt) (q0 : Bool) (mf : MFaults := MFaults.none)
    (nmG nmS : Bool := false) :
    Option (Cfg × Nat × List (Nat × Nat) × Ord × List Script) := do
  let dm ← dmarc? dm
  let g ← ids? g
  let s ← ids? s
  let bsn ← (blocks.splitOn ";").mapM parseBlock
  let bs := bsn.map (fun p => p.1)
  let rs ← (rcpts.splitOn ",").mapM parseRcpt
  let ss ← (scripts.splitOn ";").mapM parseScript
  let ds ← (delays.splitOn ";").mapM parseDelay
  if ds.length != ss.length then none else
  -- a modifier group that does not exist cannot fail
  let noMod (b : Nat) : Bool := match bsn[b]? with
    | some p => p.2
    | none => false
  if nmG && (mf.senderG || mf.bodyG || rs.any (fun p => mf.rcptG p.1)) then none else
  if nmS && (mf.senderS || mf.bodyS || rs.any (fun p => mf.rcptS p.1)) then none else
  if rs.any (fun p => mf.rcptB p.1 && noMod p.2) then none else
  if (List.range bsn.length).any (fun b => mf.bodyB b && noMod b) then none else
  let route : Rcpt → Nat := fun r => match rs.find? (fun p => p.1 == r) with
      | some p => p.2
      | none => 0
  let dead := (blocks.splitOn ";").map blockDead
  let cfg : Cfg := {
    v := verdictsOf ss
    global := g
    source := s
    block := fun b => (bs[b]?).getD ⟨[], []⟩
    route := route
    tgt := fun t => (ts[t]?).getD ⟨false, false⟩
    dmarc := dm
    q0 := q0
    mf := mf.withDeadBlocks route (fun b => (dead[b]?).getD false) }
  pure (cfg, ss.length, rs, ordOf ds, ss)

def scriptRejects (s : Script) : Bool :=
  s.conn == .rej || s.sender == .rej || s.body == .rej || s.rcpt.any (fun p => p.2 == .rej)

/-- The nested transaction (see the header). -/
def showNest (m : Mode) (cfgO : Cfg) (nO : Nat) (ordO : Ord) (rsO : List Rcpt) (isNest : TgtId → Bool)
    (cfgI : Cfg) (nI : Nat) (ordI : Ord) : String :=
  let obO := run ordO cfgO m rsO
  let accO := (obO.rcpts.filter (fun x => !x.2)).map (fun x => x.1)
  -- every accepted RCPT of a block that lists the nested pipeline is one AddRcpt on it
  let rsI := accO.filter (fun r => (cfgO.block (cfgO.route r)).targets.any isNest)
  let passed := match obO.body with
    | some b => b.refused.isNone
    | none => false
  let innerRan := passed && !rsI.isEmpty
  let cfgI' : Cfg := { cfgI with q0 := obO.final.metaQ }
  let obI : Obs :=
    if innerRan then run ordI cfgI' m rsI
    else
      -- Start and the AddRcpt calls only: the outer pipeline refused DATA (or never got there)
      let s := start ordI cfgI'
      if s.2 then ⟨true, [], none, s.1⟩ else
      let a := addAll ordI cfgI' s.1 rsI
      ⟨false, a.2, none, a.1⟩
  let innerAccepts := match obI.body with
    | some b => b.results.all (fun x => x.2.2)
    | none => true
  let startS := if obO.startRefused then "r" else "o"
  let rcptS := ",".intercalate (obO.rcpts.map (fun p => s!"{p.1}:" ++ (if p.2 then "r" else "o")))
  let bodyS := match obO.body with
    | none => "none"
    | some b => match b.refused with
      | some .check => "chk"
      | some .dmarc => "dmarc"
      | some .modifier => "mod"
      | none => if m == Mode.smtp && innerRan && !innerAccepts then "tgt" else "ok"
  let acc := accO
  let dlI := delivered m obI
  let served (r : Rcpt) : Bool :=
    match m with
    | .smtp => bodyS == "ok"
    | .lmtp => passed && (!rsI.contains r || dlI.contains r)
  let stS := ",".intercalate (acc.map (fun r => s!"{r}:" ++ (if served r then "o" else "f")))
  -- the outer pipeline's own targets never refuse: over SMTP they count when the whole message was
  -- accepted, over LMTP whenever DATA got past the checks (the flag they saw is not compared: a
  -- quarantine of the inner pipeline's own checks may come before or after, map order)
  let direct : List (TgtId × List Rcpt × Bool) := match obO.body with
    | some b => if passed && (m == Mode.lmtp || bodyS == "ok") then b.results.filter (fun x => !isNest x.1) else []
    | none => []
  let delS := ";".intercalate ((direct.foldr insTgt []).map (fun (x : TgtId × List Rcpt × Bool) =>
    s!"{x.1}:" ++ "+".intercalate ((sortNat x.2.1).map toString)))
  let refusedByCheck := match obO.body with
    | some b => b.refused == some .check
    | none => false
  let keep : CheckId → Bool := fun c => !refusedByCheck || cfgO.global.contains c || cfgO.source.contains c
  let finalQ := if innerRan then obI.final.metaQ else obO.final.metaQ
  let innerS := if rsI.isEmpty then "-" else showObs m cfgI' nI obI
  s!"start={startS} rcpt={rcptS} body={bodyS} st={stS} q={b01 finalQ} del={delS} log=" ++
    showLog nO keep obO.final.cr.done ++ " || in: " ++ innerS


/-- Token list split at the `//` tokens. -/
def splitTx : List String → List (List String)
  | [] => [[]]
  | t :: rest =>
    match splitTx rest with
    | [] => [[t]]
    | g :: gs => if t == "//" then [] :: g :: gs else (t :: g) :: gs

/-- `<checks>~<blocks>[~n]` (`~n`: the source block has no modifiers - nothing the model looks at) -/
def parseSource (s : String) : Option (String × String) :=
  match s.splitOn "~" with
  | [c, b] => some (c, b)
  | [c, b, "n"] => some (c, b)
  | _ => none

/-- `<source index><form>[Q]` -/
def parseWho (s : String) (nSrc : Nat) : Option (Nat × Bool) :=
  match s.toList with
  | [k, f] => who k f false
  | [k, f, 'Q'] => who k f true
  | _ => none
where who (k f : Char) (q : Bool) : Option (Nat × Bool) :=
  if !k.isDigit then none else
  let i := k.toNat - '0'.toNat
  if i ≥ nSrc then none else
  if !("nziqu".toList.contains f) then none else
  -- `source` rules cannot match the null reverse-path: it is handled by the default source
  if f == 'z' && i + 1 != nSrc then none else some (i, q)

def parseTx (dm g : String) (ts : List Tgt) (srcs : List (String × String)) (toks : List String) :
    Option (TxIn × Nat) :=
  match toks with
  | [mode, who, rcpts, scripts, delays] => do
    let m ← if mode == "smtp" then some Mode.smtp else if mode == "lmtp" then some Mode.lmtp else none
    let (si, q0) ← parseWho who srcs.length
    let src ← srcs[si]?
    let (cfg, n, rs, ord, _) ← parseCfg dm g src.1 src.2 scripts delays rcpts ts q0
    pure (⟨ord, cfg, m, rs.map (fun p => p.1)⟩, n)
  | _ => none

def showTx (p : TxIn × Nat) (st : TxSt) : String :=
  match st with
  | .closed ob => showObs p.1.m p.1.cfg p.2 ob
  | _ => "open"

def showEff : Eff → String
  | .none => "none" | .quar => "quar" | .rej => "rej"

def decodeArg (s : String) : Option String :=
  if s == "~" then some "" else if s == "" then none else some (s.replace "_" " ")

/-- One directive: arguments joined by `+`; `!` = no argument at all. -/
def decodeDir (s : String) : Option (List String) :=
  if s == "!" then some [] else (s.splitOn "+").mapM decodeArg

/-- The `d=` token: `some true` = the configuration loads (every directive accepted, each meaning
the action of its slot), `some false` = refused at load, `none` = ill-formed. -/
def parseDirs (tok : String) : Option Bool :=
  if !tok.startsWith "d=" then none else
  match (tok.drop 2).toString.splitOn "," with
  | [a, b, c] => do
    let a ← decodeDir a
    let b ← decodeDir b
    let c ← decodeDir c
    let ps := [(parseAction a, Act.ignore), (parseAction b, Act.quarantine), (parseAction c, Act.reject)]
    -- an accepted directive sits in the slot of its action
    if ps.any (fun p => match p.1 with
      | some fa => fa.act != p.2
      | none => false) then none else
    pure (ps.all (fun p => p.1.isSome))
  | _ => none

def pol? : Char → Option Pol
  | 'n' => some .nothing | 'q' => some .quarantine | 'r' => some .reject | _ => none

def txt? (s : String) : Option Txt :=
  match s.toList with
  | ['x'] => some .stray
  | ['y'] => some .stray
  | [a, b] => do
    let p ← pol? a
    let sp ← if b == '-' then some none else (pol? b).map some
    pure (.policy p sp)
  | _ => none

def ans? (s : String) : Option Ans :=
  if s == "-" then some .nx else if s == "0" then some (.recs []) else if s == "T" then some .temp
  else ((s.splitOn ".").mapM txt?).map Ans.recs

/-- The `w=` token: `w=<o|s|d>/<answer at the From name|=>/<answer at the organizational name>/<f|m|a>`
(see the harness): the DNS world of the DMARC part. -/
def parseWorld (tok : String) : Option World :=
  if !tok.startsWith "w=" then none else
  match (tok.drop 2).toString.splitOn "/" with
  | [f, a, o, al] => do
    let fromIsOrg ← if f == "o" then some true else if f == "s" || f == "d" then some false else none
    let atFrom ← if fromIsOrg then (if a == "=" then some Ans.nx else none) else ans? a
    let atOrg ← ans? o
    let aligned ← if al == "a" then some true else if al == "f" || al == "m" then some false else none
    pure ⟨fromIsOrg, atFrom, atOrg, aligned⟩
  | _ => none

/-- The trailing tokens of a `run` op: `[Q] [m=…] [f=…] [nm=…] [d=…] [w=…]`. -/
structure RunFlags where
  q0 : Bool
  mf : MFaults
  nmG : Bool
  nmS : Bool
  loads : Bool
  world : Option World

def takeFlags (fl : List String) : Option RunFlags := do
  let (q0, fl) := match fl with
    | "Q" :: r => (true, r)
    | _ => (false, fl)
  let (mf, fl) ← match fl with
    | x :: r => if x.startsWith "m=" then (parseMF x).map (fun f => (f, r)) else some (MFaults.none, fl)
    | [] => some (MFaults.none, fl)
  let fl ← match fl with
    | x :: r => if x.startsWith "f=" then
        (if ["f=n", "f=z", "f=i", "f=q", "f=u"].contains x then some r else none) else some fl
    | [] => some fl
  let (nm, fl) ← match fl with
    | x :: r => if x.startsWith "nm=" then
        (if ["nm=g", "nm=s", "nm=gs"].contains x then some ((x.drop 3).toString, r) else none) else some ("", fl)
    | [] => some ("", fl)
  let (loads, fl) ← match fl with
    | x :: r => if x.startsWith "d=" then (parseDirs x).map (fun l => (l, r)) else some (true, fl)
    | [] => some (true, fl)
  let (world, fl) ← match fl with
    | x :: r => if x.startsWith "w=" then (parseWorld x).map (fun w => (some w, r)) else some (none, fl)
    | [] => some (none, fl)
  if !fl.isEmpty then none else
  pure ⟨q0, mf, nm.contains 'g', nm.contains 's', loads, world⟩

/-- What a check failing with the parsed action does at stage number `st` (0 connection, 1 sender,
2 recipient, 3 body): the model run on a one-check pipeline. -/
def actEff (fa : FailAction) (st : Nat) : String :=
  let stage : Stage := match st with
    | 0 => .conn | 1 => .sender | 2 => .rcpt 1 | _ => .body
  let cfg : Cfg := {
    v := fun c s => if c == 0 && s == stage then (fa.apply ⟨true, false, false⟩).eff else .none
    global := [0]
    source := []
    block := fun _ => ⟨[], [0]⟩
    route := fun _ => 0
    tgt := fun _ => ⟨true, false⟩
    dmarc := .off
    q0 := false
    mf := MFaults.none }
  let ob := run (fun _ l => l) cfg (if st % 2 == 0 then Mode.smtp else Mode.lmtp) [1]
  let chk := match ob.body with
    | some b => b.refused == some .check
    | none => false
  if ob.startRefused || ob.rcpts.any (fun x => x.2) || chk then "rej"
  else if ob.final.metaQ then "quar" else "none"

/-- `sl=<id>.<id>…`: strictly increasing check ids. -/
def slOk (tok : String) : Bool :=
  tok.startsWith "sl=" &&
  (match (((tok.drop 3).toString.splitOn ".").mapM String.toNat? : Option (List Nat)) with
   | none => false
   | some ids => !List.isEmpty ids && (List.zip ids (List.drop 1 ids)).all (fun p => p.1 < p.2))

def handleCore : List String → String
  | "run" :: mode :: dm :: g :: s :: blocks :: tgts :: rcpts :: scripts :: delays :: flag =>
    let r : Option String := do
      let m ← if mode == "smtp" then some Mode.smtp else if mode == "lmtp" then some Mode.lmtp else none
      -- the sender form (`f=…`) is not an input of the model
      let fl ← takeFlags flag
      let ts ← (tgts.splitOn ",").mapM parseTgtRun
      let (cfg, n, rs, ord, _) ← parseCfg dm g s blocks scripts delays rcpts ts fl.q0 fl.mf fl.nmG fl.nmS
      -- the DMARC outcome of the op is what policy discovery makes of the op's DNS world
      let okW := match fl.world with
        | some w => decide (discover w = cfg.dmarc)
        | none => true
      if !okW then none else
      if !fl.loads then pure "load=refused" else
      pure (showObs m cfg n (run ord cfg m (rs.map (fun p => p.1))))
    r.getD "bad-op"
  | ["nest", mode, dm, g, s, blocks, tgts, rcpts, scripts, delays, flag, "//",
      dmI, gI, sI, blocksI, tgtsI, routesI, scriptsI, delaysI] =>
    let r : Option String := do
      let m ← if mode == "smtp" then some Mode.smtp else if mode == "lmtp" then some Mode.lmtp else none
      let q0 ← if flag == "Q" then some true else if flag == "-" then some false else none
      let tsN ← (tgts.splitOn ",").mapM parseTgtN
      let (cfgO, nO, rsO, ordO, _) ← parseCfg dm g s blocks scripts delays rcpts (tsN.map (fun p => p.1)) q0
      let tsI ← (tgtsI.splitOn ",").mapM parseTgt
      let (cfgI, nI, _, ordI, ssI) ← parseCfg dmI gI sI blocksI scriptsI delaysI routesI tsI false
      if cfgI.dmarc == .rej || ssI.any scriptRejects then none else
      let isNest : TgtId → Bool := fun t => match tsN[t]? with
        | some p => p.2
        | none => false
      pure (showNest m cfgO nO ordO (rsO.map (fun p => p.1)) isNest cfgI nI ordI)
    r.getD "bad-op"
  | "multi" :: dm :: g :: tgts :: sources :: sched :: sl :: d :: "//" :: rest =>
    -- round 10: `sl=<ids>` names the checks that are real stateless checks (check.RegisterStatelessCheck);
    -- to the model a check is its verdicts, whatever implements it: the token is validated and dropped
    if slOk sl then handleCore ("multi" :: dm :: g :: tgts :: sources :: sched :: d :: "//" :: rest) else "bad-op"
  | "multi" :: dm :: g :: tgts :: sources :: sched :: d :: "//" :: rest =>
    if slOk d then handleCore ("multi" :: dm :: g :: tgts :: sources :: sched :: "//" :: rest) else
    let r : Option String := do
      let loads ← parseDirs d
      let out := handleCore ("multi" :: dm :: g :: tgts :: sources :: sched :: "//" :: rest)
      if out == "bad-op" then none else
      pure (if loads then out else "load=refused")
    r.getD "bad-op"
  | "multi" :: dm :: g :: tgts :: sources :: sched :: "//" :: rest =>
    let r : Option String := do
      let ts ← (tgts.splitOn ",").mapM parseTgt
      let srcs ← (sources.splitOn "_").mapM parseSource
      let txs ← (splitTx rest).mapM (parseTx dm g ts srcs)
      let sch ← sched.toList.mapM (fun ch => if ch.isDigit then some (ch.toNat - '0'.toNat) else none)
      if !(sch.all (fun i => i < txs.length)) then none else
      -- every transaction has the same number of checks (one pipeline)
      if !(txs.all (fun p => some p.2 == (txs.head?.map (fun q => q.2)))) then none else
      let sts := multi (txs.map (fun p => p.1)) sch
      pure (" || ".intercalate ((txs.zip sts).map (fun x => showTx x.1 x.2)))
    r.getD "bad-op"
  | ["remote", qr, qb, _path] =>
    if (qr != "0" && qr != "1") || (qb != "0" && qb != "1") then "bad-op" else
    let r := remoteTx (qr == "1") (qb == "1")
    let bodyS := match r.2.1 with
      | none => "-"
      | some true => "o"
      | some false => "r"
    s!"rcpt={if r.1 then "o" else "r"} body={bodyS} relayed={b01 r.2.2}"
  | ["act", d] =>
    match decodeDir d with
    | none => "bad-op"
    | some args =>
      match parseAction args with
      | none => "refused"
      | some fa =>
        let ovr := match fa.ovr with
          | none => "-"
          | some o => s!"{o.code}/{o.enh.1}.{o.enh.2.1}.{o.enh.2.2}/" ++ o.msg.replace " " "_"
        s!"ok q={b01 fa.quarantine} r={b01 fa.reject} ovr={ovr} eff=" ++
          ",".intercalate ((List.range 4).map (actEff fa))
  | ["apply", raw, act] =>
    match raw.toList, act.toList with
    | [a], [b] =>
      match raw? a, act? b with
      | some r, some x =>
        let y := x.apply r
        s!"reason={b01 y.reason} q={b01 y.q} r={b01 y.r} eff={showEff y.eff}"
      | _, _ => "bad-op"
    | _, _ => "bad-op"
  | _ => "bad-op"



/-- round 11: `g=<id>.<id>…` (multi ops) names the checks that the configuration text lists in a named
`checks` block which the scopes reference with `check &name`; to the model a scope is its list of checks,
however the configuration spells it: the token (distinct check ids) is validated and dropped. -/
def grpOk (tok : String) : Bool :=
  match (((tok.drop 2).toString.splitOn ".").mapM String.toNat? : Option (List Nat)) with
  | none => false
  | some ids => !List.isEmpty ids && ids.Nodup

def handle : List String → String
  | "multi" :: dm :: g :: tgts :: sources :: sched :: grp :: rest =>
    if grp.startsWith "g=" then
      (if grpOk grp then handleCore ("multi" :: dm :: g :: tgts :: sources :: sched :: rest) else "bad-op")
    else handleCore ("multi" :: dm :: g :: tgts :: sources :: sched :: grp :: rest)
  | toks => handleCore toks

end Driver.C06
