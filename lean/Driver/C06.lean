import MaddyVerif.Model.CheckRunner
import Driver.Util
/-! Line protocol of C06 (see harness/internal/msgpipeline/zz_verif_c06_test.go):

`run <mode> <dmarc> <global> <source> <blocks> <targets> <rcpts> <scripts> <delays>`
  mode     smtp | lmtp
  dmarc    off | pass | quar | rej
  global   check ids `0.2` or `-`;  source likewise
  blocks   `;`-separated `<checks>/<targets>` (index = block id)
  targets  `,`-separated `<a|p><n|r>`  (atomic/partial, normal/refuses quarantined)
  rcpts    `,`-separated `<id>:<block>` in command order
  scripts  `;`-separated per check `<conn><sender><body>/<id>:<v>,…|-`, a verdict `<v>` is two
           characters: raw result 0-5 and action i|q|r (FailAction applied to the raw result)
  delays   `;`-separated per check, four digits (conn, sender, rcpt, body): completion order
`apply <raw> <act>` → the result of FailAction.Apply and what the runner does with it
-/
namespace Driver.C06
open MaddyVerif.CheckRunner Driver

def ids? (s : String) : Option (List Nat) :=
  if s == "-" then some [] else (s.splitOn ".").mapM String.toNat?

def raw? (c : Char) : Option Res :=
  match c with
  | '0' => some ⟨false, false, false⟩
  | '1' => some ⟨true, false, false⟩
  | '2' => some ⟨true, true, false⟩
  | '3' => some ⟨false, true, false⟩
  | '4' => some ⟨false, false, true⟩
  | '5' => some ⟨true, false, true⟩
  | _ => none

def act? (c : Char) : Option Act :=
  match c with
  | 'i' => some .ignore | 'q' => some .quarantine | 'r' => some .reject | _ => none

def verdict? (a b : Char) : Option Eff := do
  let r ← raw? a
  let x ← act? b
  pure (x.apply r).eff

structure Script where
  conn : Eff
  sender : Eff
  body : Eff
  rcpt : List (Nat × Eff)

def parseRcptV (s : String) : Option (Nat × Eff) :=
  match s.splitOn ":" with
  | [i, v] => do
    let i ← i.toNat?
    match v.toList with
    | [a, b] => do let e ← verdict? a b; pure (i, e)
    | _ => none
  | _ => none

def parseScript (s : String) : Option Script :=
  match s.splitOn "/" with
  | [st, rc] =>
    match st.toList with
    | [a, b, c, d, e, f] => do
      let x ← verdict? a b
      let y ← verdict? c d
      let z ← verdict? e f
      let rs ← if rc == "-" then some [] else (rc.splitOn ",").mapM parseRcptV
      pure ⟨x, y, z, rs⟩
    | _ => none
  | _ => none

def verdictsOf (ss : List Script) : Verdicts := fun c st =>
  match ss[c]? with
  | none => .none
  | some s =>
    match st with
    | .conn => s.conn
    | .sender => s.sender
    | .body => s.body
    | .rcpt r => match s.rcpt.find? (fun p => p.1 == r) with
      | some p => p.2
      | none => .none

def parseBlock (s : String) : Option Block :=
  match s.splitOn "/" with
  | [c, t] => do
    let c ← ids? c
    let t ← ids? t
    pure ⟨c, t⟩
  | _ => none

def parseTgt (s : String) : Option Tgt :=
  match s.toList with
  | [a, b] =>
    if (a == 'a' || a == 'p') && (b == 'n' || b == 'r') then some ⟨a == 'p', b == 'r'⟩ else none
  | _ => none

def parseRcpt (s : String) : Option (Nat × Nat) :=
  match s.splitOn ":" with
  | [i, b] => do
    let i ← i.toNat?
    let b ← b.toNat?
    pure (i, b)
  | _ => none

def parseDelay (s : String) : Option (List Nat) :=
  match s.toList with
  | [a, b, c, d] => [a, b, c, d].mapM (fun ch => if ch.isDigit then some (ch.toNat - '0'.toNat) else none)
  | _ => none

def dmarc? (s : String) : Option Dmarc :=
  match s with
  | "off" => some .off | "pass" => some .pass | "quar" => some .quar | "rej" => some .rej | _ => none

/-- Completion order induced by the scripted delays: stable insertion sort by delay. -/
def insByDelay (dl : CheckId → Nat) (x : CheckId × Eff) : List (CheckId × Eff) → List (CheckId × Eff)
  | [] => [x]
  | y :: r => if dl x.1 ≤ dl y.1 then x :: y :: r else y :: insByDelay dl x r

def ordOf (ds : List (List Nat)) : Ord := fun n l =>
  l.foldr (insByDelay (fun c => ((ds[c]?).getD []).getD (n % 4) 0)) []

def insNat (x : Nat) : List Nat → List Nat
  | [] => [x]
  | y :: r => if x ≤ y then x :: y :: r else y :: insNat x r
def sortNat (l : List Nat) : List Nat := l.foldr insNat []
def dedupNat (l : List Nat) : List Nat := l.foldr (fun x acc => if acc.contains x then acc else x :: acc) []

def insTgt (x : TgtId × List Rcpt × Bool) : List (TgtId × List Rcpt × Bool) → List (TgtId × List Rcpt × Bool)
  | [] => [x]
  | y :: r => if x.1 ≤ y.1 then x :: y :: r else y :: insTgt x r

def showStage : Stage → String
  | .conn => "c" | .sender => "s" | .rcpt r => s!"r{r}" | .body => "b"

def b01 (b : Bool) : String := if b then "1" else "0"

/-- Per check: the calls each of its state objects saw, state objects separated by `|`. -/
def showLog (nChecks : Nat) (keepBody : CheckId → Bool) (done : List Call) : String :=
  let per (c : Nat) : String :=
    let mine := done.filter (fun k => k.c == c && (k.s != .body || keepBody c))
    let maxG := mine.foldl (fun m k => max m k.g) 0
    let segs := (List.range (maxG + 1)).map (fun g =>
      ",".intercalate ((mine.filter (fun k => k.g == g)).map (fun k => showStage k.s)))
    s!"{c}:" ++ "|".intercalate segs
  ";".intercalate ((List.range nChecks).map per)

def showObs (m : Mode) (cfg : Cfg) (nChecks : Nat) (ob : Obs) : String :=
  let startS := if ob.startRefused then "r" else "o"
  let rcptS := ",".intercalate (ob.rcpts.map (fun p => s!"{p.1}:" ++ (if p.2 then "r" else "o")))
  let bodyS := match ob.body with
    | none => "none"
    | some b => match b.refused with
      | some .check => "chk"
      | some .dmarc => "dmarc"
      | none => if m == Mode.lmtp || b.results.all (fun x => x.2.2) then "ok" else "tgt"
  let acc := sortNat (dedupNat ((ob.rcpts.filter (fun x => !x.2)).map (fun x => x.1)))
  let dl := delivered m ob
  let stS := ",".intercalate (acc.map (fun r => s!"{r}:" ++ (if dl.contains r then "o" else "f")))
  let ho := (handedOver m ob).foldr insTgt []
  let delS := ";".intercalate (ho.map (fun x =>
    s!"{x.1}:" ++ "+".intercalate ((sortNat x.2.1).map toString) ++ ":" ++ b01 x.2.2))
  let refusedByCheck := match ob.body with
    | some b => b.refused == some .check
    | none => false
  let keep : CheckId → Bool := fun c => !refusedByCheck || cfg.global.contains c || cfg.source.contains c
  s!"start={startS} rcpt={rcptS} body={bodyS} st={stS} q={b01 ob.final.metaQ} del={delS} log=" ++
    showLog nChecks keep ob.final.cr.done

def showEff : Eff → String
  | .none => "none" | .quar => "quar" | .rej => "rej"

def handle : List String → String
  | ["run", mode, dm, g, s, blocks, tgts, rcpts, scripts, delays] =>
    let r : Option String := do
      let m ← if mode == "smtp" then some Mode.smtp else if mode == "lmtp" then some Mode.lmtp else none
      let dm ← dmarc? dm
      let g ← ids? g
      let s ← ids? s
      let bs ← (blocks.splitOn ";").mapM parseBlock
      let ts ← (tgts.splitOn ",").mapM parseTgt
      let rs ← (rcpts.splitOn ",").mapM parseRcpt
      let ss ← (scripts.splitOn ";").mapM parseScript
      let ds ← (delays.splitOn ";").mapM parseDelay
      if ds.length != ss.length then none else
      let cfg : Cfg := {
        v := verdictsOf ss
        global := g
        source := s
        block := fun b => (bs[b]?).getD ⟨[], []⟩
        route := fun r => match rs.find? (fun p => p.1 == r) with
          | some p => p.2
          | none => 0
        tgt := fun t => (ts[t]?).getD ⟨false, false⟩
        dmarc := dm }
      pure (showObs m cfg ss.length (run (ordOf ds) cfg m (rs.map (fun p => p.1))))
    r.getD "bad-op"
  | ["remote", qr, qb, _path] =>
    if (qr != "0" && qr != "1") || (qb != "0" && qb != "1") then "bad-op" else
    let r := remoteTx (qr == "1") (qb == "1")
    let bodyS := match r.2.1 with
      | none => "-"
      | some true => "o"
      | some false => "r"
    s!"rcpt={if r.1 then "o" else "r"} body={bodyS} relayed={b01 r.2.2}"
  | ["apply", raw, act] =>
    match raw.toList, act.toList with
    | [a], [b] =>
      match raw? a, act? b with
      | some r, some x =>
        let y := x.apply r
        s!"reason={b01 y.reason} q={b01 y.q} r={b01 y.r} eff={showEff y.eff}"
      | _, _ => "bad-op"
    | _, _ => "bad-op"
  | _ => "bad-op"

end Driver.C06
