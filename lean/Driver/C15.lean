import MaddyVerif.Model.AuthzSender
import Driver.Util
/-!
Line protocol for C15 (sender authorisation).

```
C15 run <checkHeader> <unauthAct> <noMatchAct> <errAct> <conn> <user> <mailFrom>
   | P <kind> <err>      prepare_email table: kind I(dentity) T(single) S(static, multi) M(multi),
                         L (table.email_localpart) O (table.email_localpart_optional),
                         W (table.email_with_domain: the keys of its entries are the domains); err=1: every lookup fails
   | p <key> <val>*      one entry of it
   | U <kind> <err> , | u <key> <val>*     the same for user_to_email
   | fn <in> <ok> <out>  from_normalize(in)      (real function result)
   | an <in> <ok> <out>  auth_normalize(in)
   | F <empty> <ok> <addr>*   one From field: value empty?, mail.ParseAddressList ok?, addresses
   | S <empty> <ok> <addr>?   one Sender field: value empty?, mail.ParseAddress ok?, address
   | O <mask> <order>    directives NOT written in the configuration block (bits: 1 check_header, 2 unauth_action,
                         4 no_match_action, 8 err_action, 16 auth_normalize, 32 from_normalize, 64 user_to_email,
                         128 prepare_email): the model takes `Init`'s default for them
   | AU <arg>* | AN <arg>* | AE <arg>*   what follows the action word of unauth_action / no_match_action / err_action in the
                         configuration (`reject 553 5.7.1 "text"`: AU 553 5.7.1 <text>); with the action letter `x` the whole
                         argument list of the directive (a word that is no action, or nothing at all)
   | U C 0 | us <optional> <kind> <err> | u <key> <val>* … | us …     user_to_email is a table.chain: every `us` group opens a
                         step (`step` / `optional_step` with a table of kind I T S M L O), the `u` groups after it are its rows;
                         `P C 0 | ps … | p …` the same for prepare_email
   | N … | H … | G … | GF … | GS … | Z … | K …   replay material for the Go side (ignored here)
```
`C15 merge <verdict>*`: the verdicts (q quarantine, r reject, i a reason without action, - nothing) the checks of one
check group returned at one stage, in the order their goroutines finished (`mergeResults`) → `refused` / `passed` (does the command fail?).
`C15 placed <g|s|d> <R|L>+ <verdict>`: the check group declared globally / in the source block / in a destination block, the recipients
named in order (R of that block, L another), authorize_sender's verdict on the sender → per recipient `a` accepted / `x` refused (`placedRcpts`).
`C15 sasl <ok> <normalised login name> <authzid> <authcid> <account whose password is sent>`: one AUTH PLAIN exchange
(`saslPlain`; a password is the name of its account) → `auth-ok <AuthUser>` / `auth-failed`.
The action arguments go through `parseActionDirective`; a written directive that does not parse makes `Init` fail:
answer `config-refused`.  A refusal answered with a configured reply is `<reason>:<code>:<enh>><code>:<enh>:<text>/<flags>`.
Table kind F = the real `table.file`: `U F <err> <style>`, the `u` groups are the entry lines of the
file in file order (a key may repeat).

```
C15 file <head and groups of the base case, U F …, u = entry lines at initialisation>
   | I <present>         the check is initialised (file there?)
   | W <style> | l <key> <val>* …   the file is written with these entry lines
   | D                   deleted      | B   damaged (unparsable)      | R   reload
   | Q …                 a probe for the Go side (ignored here)
```
Answer: what the table holds at the end, `<key>=<val>,<val>;…` for the keys of all lines in order of first
appearance (`-` when there is none).
actions: r(eject) q(uarantine) i(gnore) b(oth).  Answer: `<sender-stage> <body-stage>`, each
`<reason|ok>/<reject><quarantine>`.
-/
namespace Driver.C15
open MaddyVerif.Address MaddyVerif.AuthzSender Driver

def groups (toks : List String) : List (List String) :=
  let rec go (cur : List String) (acc : List (List String)) : List String → List (List String)
    | [] => (cur.reverse :: acc).reverse
    | "|" :: r => go [] (cur.reverse :: acc) r
    | t :: r => go (t :: cur) acc r
  go [] [] toks

structure TabSpec where
  kind : String := "I"
  err : Bool := false
  rows : List (Str × List Str) := []      -- kind F: the entry lines of the file

structure Spec where
  prep : TabSpec := {}
  u2e : TabSpec := {}
  -- table kind C (table.chain): the steps (optional?, table), reversed while parsing; the `p` / `u` rows
  -- that follow a `ps` / `us` group belong to that step
  prepSteps : List (Bool × TabSpec) := []
  u2eSteps : List (Bool × TabSpec) := []
  fn : List (Str × Option Str) := []
  an : List (Str × Option Str) := []
  fromFields : List FromField := []      -- reversed while parsing
  senderFields : List SenderField := []
  omitted : Nat := 0
  actArgs : List (String × List Str) := []

def bool? : String → Option Bool
  | "0" => some false
  | "1" => some true
  | _ => none

/-- The argument list of an action directive: the word the letter stands for followed by the further
arguments; with `x` the arguments as they are. -/
def actionArgs? (letter : String) (args : List Str) : Option (List Str) :=
  match letter with
  | "r" => some (REJECT :: args)
  | "q" => some (QUARANTINE :: args)
  | "i" => some (IGNORE :: args)
  | "x" => some args
  | _ => none

def kindOk (k : String) : Bool :=
  k == "I" || k == "T" || k == "S" || k == "M" || k == "L" || k == "O" || k == "F" || k == "C" || k == "W"

def stepKindOk (k : String) : Bool :=
  k == "I" || k == "T" || k == "S" || k == "M" || k == "L" || k == "O" || k == "W"

def addRow (steps : List (Bool × TabSpec)) (row : Str × List Str) : Option (List (Bool × TabSpec)) :=
  match steps with
  | [] => none
  | (o, t) :: rest => some ((o, { t with rows := t.rows ++ [row] }) :: rest)

def parseGroup (s : Spec) (g : List String) : Option Spec :=
  match g with
  | [] => some s
  | ["P", k, e] => do
    if !kindOk k then none
    pure { s with prep := { s.prep with kind := k, err := (← bool? e) } }
  | ["U", k, e] => do
    if !kindOk k then none
    pure { s with u2e := { s.u2e with kind := k, err := (← bool? e) } }
  | ["P", k, e, _] => do
    if !kindOk k then none
    pure { s with prep := { s.prep with kind := k, err := (← bool? e) } }
  | ["U", k, e, _] => do
    if !kindOk k then none
    pure { s with u2e := { s.u2e with kind := k, err := (← bool? e) } }
  | ["O", m, _] => do
    pure { s with omitted := (← m.toNat?) }
  | "AU" :: as => do pure { s with actArgs := ("AU", ← as.mapM unhexRunes?) :: s.actArgs }
  | "AN" :: as => do pure { s with actArgs := ("AN", ← as.mapM unhexRunes?) :: s.actArgs }
  | "AE" :: as => do pure { s with actArgs := ("AE", ← as.mapM unhexRunes?) :: s.actArgs }
  | ["ps", o, k, e] => do
    if !stepKindOk k || s.prep.kind != "C" then none
    pure { s with prepSteps := ((← bool? o), { kind := k, err := (← bool? e) }) :: s.prepSteps }
  | ["us", o, k, e] => do
    if !stepKindOk k || s.u2e.kind != "C" then none
    pure { s with u2eSteps := ((← bool? o), { kind := k, err := (← bool? e) }) :: s.u2eSteps }
  | "p" :: k :: vs => do
    let row := (← unhexRunes? k, ← vs.mapM unhexRunes?)
    if s.prep.kind == "C" then pure { s with prepSteps := (← addRow s.prepSteps row) }
    else pure { s with prep := { s.prep with rows := s.prep.rows ++ [row] } }
  | "u" :: k :: vs => do
    let row := (← unhexRunes? k, ← vs.mapM unhexRunes?)
    if s.u2e.kind == "C" then pure { s with u2eSteps := (← addRow s.u2eSteps row) }
    else pure { s with u2e := { s.u2e with rows := s.u2e.rows ++ [row] } }
  | ["Z", _, _] => some s
  | ["K", _, _, _] => some s
  | ["fn", i, ok, o] => do
    let o ← unhexRunes? o
    let r := if (← bool? ok) then some o else none
    pure { s with fn := (← unhexRunes? i, r) :: s.fn }
  | ["an", i, ok, o] => do
    let o ← unhexRunes? o
    let r := if (← bool? ok) then some o else none
    pure { s with an := (← unhexRunes? i, r) :: s.an }
  | "F" :: e :: ok :: as => do
    let l ← as.mapM unhexRunes?
    let f : FromField := { empty := (← bool? e), parse := if (← bool? ok) then some l else none }
    pure { s with fromFields := f :: s.fromFields }
  | ["S", e, ok] => do
    if (← bool? ok) then none
    pure { s with senderFields := { empty := (← bool? e), parse := none } :: s.senderFields }
  | ["S", e, ok, a] => do
    let a ← unhexRunes? a
    let f : SenderField := { empty := (← bool? e), parse := if (← bool? ok) then some a else none }
    pure { s with senderFields := f :: s.senderFields }
  -- replay material (raw bytes, ground truth, names of the normalisers): not the model's business
  | "N" :: _ => some s
  | "H" :: _ => some s
  | "G" :: _ => some s
  | "GF" :: _ => some s
  | "GS" :: _ => some s
  | _ => none

def find (rows : List (Str × β)) (k : Str) : Option β :=
  (rows.find? (fun p => p.1 == k)).map (·.2)

def TabSpec.table (t : TabSpec) : Table :=
  if t.kind == "I" then .single (fun k => if t.err then .error () else .ok (some k))
  else if t.kind == "T" then
    .single (fun k => if t.err then .error () else
      match find t.rows k with
      | some (v :: _) => .ok (some v)
      | some [] => .ok (some [])
      | none => .ok none)
  else if t.kind == "L" || t.kind == "O" then
    -- table.EmailLocalpart.Lookup: the mailbox of `address.Split(key)`; a key that does not
    -- split has no mapping (`email_localpart`) or maps to itself (`email_localpart_optional`)
    .single (fun k => if t.err then .error () else
      match split k with
      | .ok (mbox, _) => .ok (some mbox)
      | .error _ => if t.kind == "O" then .ok (some k) else .ok none)
  else if t.kind == "W" then
    -- table.email_with_domain: the row keys are the domains, in order
    if t.err then .multi (fun _ => .error ()) else emailWithDomainTable (t.rows.map (·.1))
  else if t.kind == "F" then
    -- table.file: every line with the key contributes its values
    .multi (fun k => if t.err then .error () else .ok (fileLookup t.rows k))
  else
    .multi (fun k => if t.err then .error () else .ok ((find t.rows k).getD []))

/-- the table of a directive: a plain one, or (kind C) the chain of its steps -/
def tableOf (t : TabSpec) (stepsRev : List (Bool × TabSpec)) : Table :=
  if t.kind == "C" then chainTable (stepsRev.reverse.map fun p => (p.1, p.2.table)) else t.table

def reasonName : Reason → String
  | .authRequired => "authRequired"
  | .normFrom => "normFrom"
  | .normAuth => "normAuth"
  | .internal => "internal"
  | .noMatch => "noMatch"
  | .missingFrom => "missingFrom"
  | .malformedFrom => "malformedFrom"
  | .multipleFromAddrs => "multipleFromAddrs"
  | .repeatedFrom => "repeatedFrom"
  | .malformedSender => "malformedSender"
  | .repeatedSender => "repeatedSender"

def showSmtp (r : Reason) : String :=
  let (code, a, b, c) := r.smtp
  s!"{code}:{a}.{b}.{c}"

def showReply : Option Reply → String
  | none => ""
  | some o => s!">{o.code}:{o.enh.1}.{o.enh.2.1}.{o.enh.2.2}:{hexRunes o.msg}"

def showRes (r : Result) : String :=
  let why := match r.reason with
    | none => "ok"
    | some x => s!"{reasonName x}:{showSmtp x}{showReply r.reply}"
  s!"{why}/{if r.reject then 1 else 0}{if r.quarantine then 1 else 0}"

def strHex (x : String) : String := hexRunes (x.toList.map Char.toNat)

/-! ### facts read off the source by the harness (go/ast) and compared with what the model was written from

* `site <n> <message>`: one `s.c.<action>.Apply(module.CheckResult{Reason: &exterrors.SMTPError{…}})`
  call of authorize_sender.go → the action field and the codes; the model's answer comes from
  `actionFor` / `Reason.smtp` / `Reason.message`.
* `fact messages`: all distinct messages in source order = `Reason.all`.
* `fact entcond`: the condition of `AuthorizeEmailUse`'s inner `if` — `entMatches` mirrors it.
* `fact hdrcalls`: the `hdr.…` calls of `CheckBody` in source order — `checkBody` looks at the
  first From/Sender field (`Get`) and at the number of fields (`len(Values)`), nothing else. -/

def probeCfg : Cfg where
  checkHeader := true
  emailPrepare := .multi fun _ => .ok []
  userToEmail := .multi fun _ => .ok []
  unauthAction := { reject := true, quarantine := false }
  noMatchAction := { reject := false, quarantine := true }
  errAction := { reject := true, quarantine := true }
  fromNorm := some
  authNorm := some

def actionName (r : Reason) : String :=
  let a := actionFor probeCfg r
  if a.reject && !a.quarantine then "unauthAction"
  else if !a.reject && a.quarantine then "noMatchAction"
  else "errAction"

def expectEntCond : String := "ent == domain || ent == \"*\" || ent == addr"
def expectHdrCalls : String := "Get:From Values:From Values:Sender Get:Sender"

/-! ### histories of a table file -/

structure HState where
  st : Option FileState := none          -- none: before `I`
  initLines : Lines := []
  pending : Option Lines := none         -- the write being collected
  keys : List Str := []
  bad : Bool := false

def HState.flush (h : HState) : HState :=
  match h.pending, h.st with
  | some ls, some st => { h with st := some (st.step (.write ls)), pending := none }
  | _, _ => h

def HState.key (h : HState) (k : Str) : HState :=
  if h.keys.contains k then h else { h with keys := h.keys ++ [k] }

def HState.op (h : HState) (o : FileOp) : HState :=
  let h := h.flush
  match h.st with
  | some st => { h with st := some (st.step o) }
  | none => { h with bad := true }

def histGroup (h : HState) (g : List String) : HState :=
  match g with
  | "u" :: k :: vs =>
    match h.st, unhexRunes? k, vs.mapM unhexRunes? with
    | none, some k, some vs => { h.key k with initLines := h.initLines ++ [(k, vs)] }
    | _, _, _ => { h with bad := true }
  | ["I", p] =>
    match h.st, bool? p with
    | none, some p => { h with st := some (FileState.init (if p then some h.initLines else none)) }
    | _, _ => { h with bad := true }
  | "W" :: _ =>
    let h := h.flush
    if h.st.isNone then { h with bad := true } else { h with pending := some [] }
  | "l" :: k :: vs =>
    match h.pending, unhexRunes? k, vs.mapM unhexRunes? with
    | some ls, some k, some vs => { h.key k with pending := some (ls ++ [(k, vs)]) }
    | _, _, _ => { h with bad := true }
  | ["D"] => h.op .delete
  | ["B"] => h.op .damage
  | ["R"] => h.op .reload
  | _ => h     -- configuration and replay material of the base case, probes

def dumpTable (ls : Lines) (keys : List Str) : String :=
  if keys.isEmpty then "-" else
  ";".intercalate (keys.map fun k => hexRunes k ++ "=" ++ ",".intercalate ((fileLookup ls k).map hexRunes))

def handleFile (rest : List (List String)) : String :=
  let h := (rest.foldl histGroup ({} : HState)).flush
  match h.bad, h.st with
  | false, some st => dumpTable st.loaded h.keys
  | _, _ => "bad-op"

def handle (toks : List String) : String :=
  match groups toks with
  | ("file" :: _) :: rest => handleFile rest
  | ["run", ch, ua, na, ea, conn, user, mf] :: rest =>
    match bool? ch, bool? conn, unhexRunes? user, unhexRunes? mf, rest.foldlM parseGroup ({} : Spec) with
    | some ch, some conn, some user, some mf, some s =>
      let argsOf (tag letter : String) : Option (List Str) :=
        actionArgs? letter ((s.actArgs.find? (fun p => p.1 == tag)).map (·.2) |>.getD [])
      match argsOf "AU" ua, argsOf "AN" na, argsOf "AE" ea with
      | some uaArgs, some naArgs, some eaArgs =>
      let fromFields := s.fromFields.reverse
      let senderFields := s.senderFields.reverse
      -- every primitive query the model can make must be in the shipped tables
      let fnQueries := mf :: (fromFields.flatMap (fun f => f.parse.getD [])) ++
        (senderFields.filterMap (·.parse))
      if fnQueries.any (fun q => (find s.fn q).isNone) || (find s.an user).isNone then "bad-op missing-primitive" else
      -- the configuration block: a directive that is not written is `none` (Init's default applies)
      let written {α : Type} (bit : Nat) (v : α) : Option α := if s.omitted.testBit bit then none else some v
      -- the action directives that are written go through the real grammar; one that does not parse fails `Init`
      let ua := (written 1 uaArgs).map parseActionDirective
      let na := (written 2 naArgs).map parseActionDirective
      let ea := (written 3 eaArgs).map parseActionDirective
      if ua == some none || na == some none || ea == some none then "config-refused" else
      let dirs : Directives := {
        checkHeader := written 0 ch
        unauthAction := ua.join, noMatchAction := na.join, errAction := ea.join
        userToEmail := written 6 (tableOf s.u2e s.u2eSteps)
        emailPrepare := written 7 (tableOf s.prep s.prepSteps)
        fromNorm := fun a => (find s.fn a).join
        authNorm := fun a => (find s.an a).join }
      let cfg : Cfg := dirs.cfg
      let c := if conn then some user else none
      let hdr : Header := { fromFields := fromFields, senderFields := senderFields }
      s!"{showRes (checkSender cfg c mf)} {showRes (checkBody cfg c hdr)}"
      | _, _, _ => "bad-op"
    | _, _, _, _, _ => "bad-op"
  | [("merge" :: vs)] =>
    -- the verdicts of the checks of one group at one stage, in completion order (q r i -)
    let verdict? : String → Option Verdict
      | "q" => some .quarantine
      | "r" => some .reject
      | "i" => some .none
      | "-" => some .none
      | _ => none
    match vs.mapM verdict? with
    | some l => if (mergeResults l).1 then "refused" else "passed"
    | none => "bad-op"
  | [["placed", place, order, v]] =>
    -- one message: the check group declared at `place` (g s d), recipients in order (R: of the block that declares
    -- the group, L: another), `v` = authorize_sender's verdict on the sender → per recipient a accepted / x refused
    let place? : Option Place := match place with
      | "g" => some .global | "s" => some .source | "d" => some .dest | _ => none
    let verdict? : Option Verdict := match v with
      | "q" => some .quarantine | "r" => some .reject | "i" => some .none | "-" => some .none | _ => none
    match place?, verdict?, order.toList.all (fun ch => ch == 'R' || ch == 'L') with
    | some p, some vd, true =>
      let acc := placedRcpts p (mergeResults [Verdict.none, vd]).1 (order.toList.map (· == 'R'))
      String.ofList (acc.map fun a => if a then 'a' else 'x')
    | _, _, _ => "bad-op"
  | [["sasl", ok, nf, authzid, authcid, pwOwner]] =>
    -- one AUTH PLAIN exchange: `ok nf` = the normaliser's answer for the login name (ok = 0: refused);
    -- the client sends the password of the account `pwOwner`; a password is the name of its account
    match bool? ok, unhexRunes? nf, unhexRunes? authzid, unhexRunes? authcid, unhexRunes? pwOwner with
    | some ok, some nf, some z, some c, some o =>
      match saslPlain (fun _ => if ok then some nf else none) (fun name pw => name == pw) z c o with
      | some u => s!"auth-ok {hexRunes u}"
      | none => "auth-failed"
    | _, _, _, _, _ => "bad-op"
  | [["site", _, msg]] =>
    match Reason.all.find? (fun r => strHex r.message == msg) with
    | some r => s!"{actionName r} {showSmtp r}"
    | none => "unknown-site"
  | [["fact", "messages"]] => " ".intercalate (Reason.all.map (fun r => strHex r.message))
  | [["fact", "entcond"]] => strHex expectEntCond
  | [["fact", "hdrcalls"]] => strHex expectHdrCalls
  | [["fact", "submission-writes"]] => strHex (" ".intercalate submissionWrites)
  | _ => "bad-op"

end Driver.C15
