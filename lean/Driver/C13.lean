import MaddyVerif.Model.Dane
import Driver.Util
/-!
Driver for C13. Op lines (tokens after the `C13` tag):

```
verify <hs> <chain> | <rec>*                       -> ret <0|1> <nil|tls|nomatch> | panic | bad-pools
check  <hr> <fut> <hs> <chain> | <rec>*            -> ret <none|auth> <nil|temp|tls|nomatch> | panic
disc   <ck> <cn> <tr> <tm>                         -> ok <rec-keys> | err <nf|ot|na>
conn   <hr> <ck> <cn> <tr> <tm> <hs> <chain>       -> as check
cconn  <crashed> <ck> <cn> <tr> <tm> <hs> <chain>  -> as check (a panic was / was not raised inside the discovery)
res    <srv>*                                      -> <ck> <cn> <tr> <tm> (results as rec keys) | panic
rconn  <hs> <chain> <srv>*                         -> as check
attempt <base> <att> <att> <att> <hr> <ck> <cn> <tr> <tm> <chainN> [c<crashed>]
                                                   -> <connErr | refused <temp|tls|nomatch> | ok <none|enc|auth> | panic> st=<state>
```

* `<chain>` = `n:<cabits>:<vbits>`: n presented certificates (0 = leaf), `cabits[j]` = IsCA of
  certificate j, `vbits[mask]` = result of x509 verification of the leaf with roots = the
  certificates in `mask` (bit j = certificate j) and all other presented certificates as
  intermediates. Empty bit strings are written `-`.
* `<rec>` = `usage.selector.mtype.kind.tag[.owner[.dlen]]`: `tag` is the bit mask of presented
  certificates the association data matches (bit j = certificate j); `kind` is for the harness only;
  `owner` is the index of the RR's owner name in the harness' table (0 = `_25._tcp.<mx>`, the
  default); `dlen` the length in bytes of the association data (default 32).
* `attempt` (the real `attemptMX` with the DANE policy against a scripted STARTTLS server): the MX host
  is name 0. `<base>` = `-` (no TLS configuration) or `<name|->:<insecure>` = ServerName /
  InsecureSkipVerify of `rd.rt.tlsConfig`; `<att>` = `<connectOk><starttls><starttlsCmdOk><T|H>` for
  the 1st, 2nd, 3rd connection (`H`: the handshake breaks, not by verification); `<chainN>` =
  `n:<cabits>:<vHost>:<vNone>:<vOther>:<pkix>`: the X.509 table of `<chain>` for the reference
  identifiers "MX host", "" (no name check) and "another name", and `pkix[k]` = does the presented
  chain pass crypto/tls' own verification against the client's root pool for name k (0 = MX host,
  1 = the other name). A handshake under a configuration without server name and without
  InsecureSkipVerify is refused by crypto/tls itself (`otherErr`). `<state>` = `-` (connect failed)
  or `<hs>:<H|E|O>:<level>:<verified>` = HandshakeComplete, ServerName (MX host / empty / other),
  tlsLevel handed to `CheckConn`, VerifiedChains non-empty. A last token `c1` / `c0`: a panic was /
  was not raised inside the TLSA discovery `PrepareConn` started.
* `<srv>` = `<loopback>/<a>/<aaaa>/<cname>/<tlsaR>/<tlsaM>`, each question `<udp>~<tcp>`, each
  message `x` (no usable answer) or `<rcode>:<ad>:<tc>:<body>`; body = `E|S|O` (owner of the last
  address record: none / the MX name / another name) for a and aaaa, `-` for cname, `<rec>,…` or
  `-` for the TLSA questions. The model is run with the tree's transport (`udpOnly`).
* `<ck>` = `x/<addr>/<addr>` (the A answer and the AAAA answer of the scripted world, AD bit per answer;
  combined by the model's `checkAddr`) or one `<addr>` (the result of `CheckCNAMEAD` itself, older op
  lines); `<addr>` = `e:nf | e:ot | ok:<ad>:<E|S|O>`, `<cn>` = `e:nf | e:ot | ok:<0|1>`,
  `<tr>`/`<tm>` = `<-|nf|ot>:<ad>:<rec>,<rec>,…` (`-` for no record), `<fut>` = `ok | e:nf | e:ot | e:na`.
* tokens of the form `z=…` are harness-side replay information and are ignored.
-/
namespace Driver.C13
open MaddyVerif.Dane Driver

def bit? (c : Char) : Option Bool :=
  if c == '0' then some false else if c == '1' then some true else none

def bits? (s : String) : Option (List Bool) :=
  if s == "-" then some [] else s.toList.mapM bit?

def nat? (s : String) : Option Nat := s.toNat?

def parseRec (s : String) : Option Rec :=
  match s.splitOn "." with
  | [u, sl, m, _, t] => do pure ⟨← nat? u, ← nat? sl, ← nat? m, ← nat? t, 0, 32⟩
  | [u, sl, m, _, t, o] => do pure ⟨← nat? u, ← nat? sl, ← nat? m, ← nat? t, ← nat? o, 32⟩
  | [u, sl, m, _, t, o, d] => do pure ⟨← nat? u, ← nat? sl, ← nat? m, ← nat? t, ← nat? o, ← nat? d⟩
  | _ => none

structure Chain where
  n : Nat
  ca : List Bool
  v : List Bool

def parseChain (s : String) : Option Chain :=
  match s.splitOn ":" with
  | [n, ca, v] => do
    let n ← nat? n
    let ca ← bits? ca
    let v ← bits? v
    if ca.length == n && v.length == 2 ^ n then pure ⟨n, ca, v⟩ else none
  | _ => none

def maskOf (l : List Cert) : Nat :=
  ((List.range 64).filter (fun j => l.contains j)).foldl (fun acc j => acc + 2 ^ j) 0

def Chain.env (c : Chain) : Env where
  recMatches r j := r.tag.testBit j
  isCA j := c.ca.getD j false
  chainVerify roots _ _ := c.v.getD (maskOf roots) false

def Chain.certs (c : Chain) : List Cert := List.range c.n

/-- the pools the model hands to the X.509 primitive must be a partition of the presented chain
(that is what the shipped table is indexed by) -/
def poolsOk (c : Chain) (recs : List Rec) : Bool :=
  let E := c.env
  let ta := taRecs recs
  let roots := rootAdds E ta c.certs
  let inters := interAdds E ta c.certs
  c.certs.all (fun j => roots.contains j != inters.contains j) &&
    roots.all (· < c.n) && inters.all (· < c.n)

def showDErr : Option DErr → String
  | none => "nil"
  | some .tlsRequired => "tls"
  | some .noMatch => "nomatch"

def showRes : Res → String
  | .panic => "panic"
  | .ret o e => s!"ret {if o then 1 else 0} {showDErr e}"

def showCRes : CRes → String
  | .panic => "panic"
  | .ret l e =>
    let ls := match l with | .none => "none" | .authenticated => "auth"
    let es := match e with
      | none => "nil" | some .tempLookup => "temp" | some (.dane d) => showDErr (some d)
    s!"ret {ls} {es}"

def bool? (s : String) : Option Bool :=
  if s == "0" then some false else if s == "1" then some true else none

def parseRecs (toks : List String) : Option (List Rec) := toks.mapM parseRec

def parseLErr (s : String) : Option LErr :=
  if s == "nf" then some .notFound else if s == "ot" then some .other else none

def parseAddr (s : String) : Option AddrAns :=
  match s.splitOn ":" with
  | ["e", k] => do pure (.error (← parseLErr k))
  | ["ok", ad, rn] => do
    let ad ← bool? ad
    let rn ← (if rn == "E" then some RName.empty else if rn == "S" then some RName.same
              else if rn == "O" then some RName.other else none)
    pure (.ok (ad, rn))
  | _ => none

/-- `<ck>`: the result of `CheckCNAMEAD` as shipped (old form), or `x/<a>/<aaaa>` — the A and the AAAA
answer of the scripted world, each with its own AD bit; the model's `checkAddr` combines them -/
def parseCk (s : String) : Option (Except LErr (Bool × RName)) :=
  match s.splitOn "/" with
  | ["x", a, a6] => do pure (checkAddr (← parseAddr a) (← parseAddr a6))
  | [one] => parseAddr one
  | _ => none

def parseCn (s : String) : Option (Except LErr Bool) :=
  match s.splitOn ":" with
  | ["e", k] => do pure (.error (← parseLErr k))
  | ["ok", ad] => do pure (.ok (← bool? ad))
  | _ => none

def parseAns (s : String) : Option TLSAAns :=
  match s.splitOn ":" with
  | [e, ad, rs] => do
    let e ← (if e == "-" then some none else (parseLErr e).map some)
    let ad ← bool? ad
    let rs ← (if rs == "-" then some [] else (rs.splitOn ",").mapM parseRec)
    pure ⟨e, ad, rs⟩
  | _ => none

def parseFut (s : String) (recs : List Rec) : Option (Except DiscErr (List Rec)) :=
  if s == "ok" then some (.ok recs)
  else if s == "e:nf" then some (.error (.lookup .notFound))
  else if s == "e:ot" then some (.error (.lookup .other))
  else if s == "e:na" then some (.error .noAddress)
  else none

def recKey (r : Rec) : String := s!"{r.usage}.{r.selector}.{r.mtype}.{r.tag}.{r.owner}.{r.dlen}"

def parseRName (s : String) : Option RName :=
  if s == "E" then some .empty else if s == "S" then some .same else if s == "O" then some .other
  else none

/-- `kind`: 0 = address question, 1 = CNAME question, 2 = TLSA question -/
def parseMsg (kind : Nat) (s : String) : Option (Option Msg) :=
  if s == "x" then some none
  else match s.splitOn ":" with
  | [rc, ad, tc, body] => do
    let rc ← nat? rc
    let ad ← bool? ad
    let tc ← bool? tc
    match kind with
    | 0 => do pure (some ⟨rc, ad, tc, ← parseRName body, []⟩)
    | 1 => if body == "-" then pure (some ⟨rc, ad, tc, .empty, []⟩) else none
    | _ => do
      let rs ← (if body == "-" then some [] else (body.splitOn ",").mapM parseRec)
      pure (some ⟨rc, ad, tc, .empty, rs⟩)
  | _ => none

def parseQ (kind : Nat) (s : String) : Option SrvAns :=
  match s.splitOn "~" with
  | [u, t] => do pure ⟨← parseMsg kind u, ← parseMsg kind t⟩
  | _ => none

def parseSrv (s : String) : Option Srv :=
  match s.splitOn "/" with
  | [lb, a, a6, cn, tr, tm] => do
    pure ⟨← bool? lb, ← parseQ 0 a, ← parseQ 0 a6, ← parseQ 1 cn, ← parseQ 2 tr, ← parseQ 2 tm⟩
  | _ => none

def showCk : Except LErr (Bool × RName) → String
  | .error .notFound => "e:nf"
  | .error .other => "e:ot"
  | .ok (ad, rn) =>
    s!"ok:{if ad then 1 else 0}:{match rn with | .empty => "E" | .same => "S" | .other => "O"}"

def showCn : Except LErr Bool → String
  | .error .notFound => "e:nf"
  | .error .other => "e:ot"
  | .ok ad => s!"ok:{if ad then 1 else 0}"

def showAns (a : TLSAAns) : String :=
  let e := match a.err with | none => "-" | some .notFound => "nf" | some .other => "ot"
  s!"{e}:{if a.ad then 1 else 0}:{if a.recs.isEmpty then "-" else ",".intercalate (a.recs.map recKey)}"

/-- every TLSA record a server may deliver over either transport -/
def srvRecs (W : List Srv) : List (List Rec) :=
  W.flatMap (fun s => [s.tlsaR.udp, s.tlsaR.tcp, s.tlsaM.udp, s.tlsaM.tcp].filterMap (·.map (·.recs)))

def showDisc : Except DiscErr (List Rec) → String
  | .ok rs => "ok " ++ (if rs.isEmpty then "-" else ",".intercalate (rs.map recKey))
  | .error (.lookup .notFound) => "err nf"
  | .error (.lookup .other) => "err ot"
  | .error .noAddress => "err na"
  | .error .incomplete => "err incomplete"

/-! ### `attempt` -/

structure ChainN where
  c : Chain
  vNone : List Bool
  vOther : List Bool
  pkix : List Bool

def parseChainN (s : String) : Option ChainN :=
  match s.splitOn ":" with
  | [n, ca, vh, vn, vo, pk] => do
    let c ← parseChain s!"{n}:{ca}:{vh}"
    let vn ← bits? vn
    let vo ← bits? vo
    let pk ← bits? pk
    if vn.length == 2 ^ c.n && vo.length == 2 ^ c.n && pk.length == 2 then pure ⟨c, vn, vo, pk⟩ else none
  | _ => none

def ChainN.envN (c : ChainN) : EnvN where
  recMatches r j := r.tag.testBit j
  isCA j := c.c.ca.getD j false
  chainVerifyAt name roots _ _ :=
    (match name with
     | none => c.vNone
     | some 0 => c.c.v
     | some _ => c.vOther).getD (maskOf roots) false

/-- the handshake outcome as crypto/tls produces it: `H` = broken otherwise than by verification;
`InsecureSkipVerify` = no verification; no server name and no InsecureSkipVerify = refused by the
library; else its own X.509 verification for the configured name -/
def helloOf (mode : Char) (pkix : List Bool) (c : TlsCfg) : Hello :=
  if mode == 'H' then .otherErr
  else if c.insecure then .ok
  else match c.serverName with
    | none => .otherErr
    | some n => if pkix.getD n false then .ok else .verifyErr

def parseAttempt (c : ChainN) (s : String) : Option Attempt :=
  match s.toList with
  | [a, b, k, m] => do
    if m != 'T' && m != 'H' then none
    else pure ⟨← bit? a, ← bit? b, ← bit? k, helloOf m c.pkix, c.c.certs⟩
  | _ => none

def parseBase (s : String) : Option (Option TlsCfg) :=
  if s == "-" then some none
  else match s.splitOn ":" with
  | [n, i] => do
    let n ← (if n == "-" then some none else (nat? n).map some)
    pure (some ⟨n, ← bool? i⟩)
  | _ => none

def showLevel : TLSLevel → String
  | .none => "none" | .encrypted => "enc" | .authenticated => "auth"

def showMXRes : MXRes → String
  | .connErr => "connErr"
  | .panic => "panic"
  | .refused .tempLookup => "refused temp"
  | .refused (.dane d) => "refused " ++ showDErr (some d)
  | .ok l => "ok " ++ showLevel l

def showConnect : ConnectRes → String
  | .fail => "-"
  | .ok l st =>
    let n := match st.serverName with | none => "E" | some 0 => "H" | some _ => "O"
    s!"{if st.hs then 1 else 0}:{n}:{showLevel l}:{if st.verified then 1 else 0}"

/-- the optional last token of `attempt` -/
def parseCrashed : List String → Option Bool
  | [] => some false
  | ["c0"] => some false
  | ["c1"] => some true
  | _ => none

def splitBar (toks : List String) : List String × List String :=
  (toks.takeWhile (· ≠ "|"), (toks.dropWhile (· ≠ "|")).drop 1)

def handle (toks0 : List String) : String :=
  let toks := toks0.filter (fun t => !t.startsWith "z=")
  let (hd, tl) := splitBar toks
  match hd with
  | ["verify", hs, ch] =>
    match bool? hs, parseChain ch, parseRecs tl with
    | some hs, some c, some recs =>
      if !poolsOk c recs then "bad-pools" else showRes (verifyDANE c.env recs hs c.certs)
    | _, _, _ => "bad-op"
  | ["check", hr, fut, hs, ch] =>
    match bool? hr, bool? hs, parseChain ch, parseRecs tl with
    | some hr, some hs, some c, some recs =>
      match parseFut fut recs with
      | some f => if !poolsOk c recs then "bad-pools" else showCRes (checkConn c.env hr f hs c.certs)
      | none => "bad-op"
    | _, _, _, _ => "bad-op"
  | ["disc", ck, cn, tr, tm] =>
    match parseCk ck, parseCn cn, parseAns tr, parseAns tm with
    | some ck, some cn, some tr, some tm => if tl.isEmpty then showDisc (discoverTLSA ⟨ck, cn, tr, tm⟩) else "bad-op"
    | _, _, _, _ => "bad-op"
  | ["conn", hr, ck, cn, tr, tm, hs, ch] =>
    match bool? hr, parseCk ck, parseCn cn, parseAns tr, parseAns tm, bool? hs, parseChain ch with
    | some hr, some ck, some cn, some tr, some tm, some hs, some c =>
      if !tl.isEmpty then "bad-op"
      else if !(poolsOk c tr.recs && poolsOk c tm.recs) then "bad-pools"
      else showCRes (connDecision c.env hr ⟨ck, cn, tr, tm⟩ hs c.certs)
    | _, _, _, _, _, _, _ => "bad-op"
  | ["cconn", cr, ck, cn, tr, tm, hs, ch] =>
    match bool? cr, parseCk ck, parseCn cn, parseAns tr, parseAns tm, bool? hs, parseChain ch with
    | some cr, some ck, some cn, some tr, some tm, some hs, some c =>
      if !tl.isEmpty then "bad-op"
      else if !(poolsOk c tr.recs && poolsOk c tm.recs) then "bad-pools"
      else showCRes (connDecisionC c.env true cr ⟨ck, cn, tr, tm⟩ hs c.certs)
    | _, _, _, _, _, _, _ => "bad-op"
  | "res" :: srvs =>
    if !tl.isEmpty then "bad-op"
    else match srvs.mapM parseSrv with
    | some W =>
      match resolverDns udpOnly W with
      | none => "panic"
      | some D => s!"{showCk D.checkCNAMEAD} {showCn D.lookupCNAME} {showAns D.tlsaRname} {showAns D.tlsaMX}"
    | none => "bad-op"
  | "rconn" :: hs :: ch :: srvs =>
    match bool? hs, parseChain ch, srvs.mapM parseSrv with
    | some hs, some c, some W =>
      if !tl.isEmpty then "bad-op"
      else if !((srvRecs W).all (poolsOk c)) then "bad-pools"
      else showCRes (resolverConn c.env udpOnly W hs c.certs)
    | _, _, _ => "bad-op"
  | "attempt" :: base :: a0 :: a1 :: a2 :: hr :: ck :: cn :: tr :: tm :: ch :: opt =>
    match parseChainN ch, parseCrashed opt with
    | some c, some crashed =>
      match parseBase base, [a0, a1, a2].mapM (parseAttempt c), bool? hr, parseCk ck, parseCn cn,
          parseAns tr, parseAns tm with
      | some base, some atts, some hr, some ck, some cn, some tr, some tm =>
        if !tl.isEmpty then "bad-op"
        else if !(poolsOk c.c tr.recs && poolsOk c.c tm.recs) then "bad-pools"
        else
          let srv : Nat → Attempt := fun i => atts.getD i ⟨false, false, false, fun _ => .otherErr, []⟩
          let fut := prepareConn (if crashed then none else some (discoverTLSA ⟨ck, cn, tr, tm⟩))
          s!"{showMXRes (attemptMX c.envN 0 base srv hr fut)} st={showConnect (connect 0 base srv)}"
      | _, _, _, _, _, _, _ => "bad-op"
    | _, _ => "bad-op"
  | _ => "bad-op"

end Driver.C13
