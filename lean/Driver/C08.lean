import MaddyVerif.Model.DkimWire
import MaddyVerif.Model.DkimKeys
import MaddyVerif.Model.DkimTime
import Driver.Util
import Driver.C08Sha
namespace Driver.C08
open MaddyVerif.DkimWire Driver

/-- split a token list at "|" tokens -/
def c08groups (toks : List String) : List (List String) :=
  let rec go (cur : List String) (acc : List (List String)) : List String → List (List String)
    | [] => (cur.reverse :: acc).reverse
    | "|" :: r => go [] (cur.reverse :: acc) r
    | t :: r => go (t :: cur) acc r
  go [] [] toks

/-- prepend `k` copies of `b` -/
def repPre (b : Bytes) : Nat → Bytes → Bytes
  | 0, acc => acc
  | k + 1, acc => b ++ repPre b k acc

/-- Byte strings in op lines: "-" (empty), plain hex, or a run-length form — segments joined by
"_", a segment being hex or `hex*count` (the bytes repeated `count` times).  A pure encoding
(large generated messages would otherwise give op lines of several megabytes). -/
def unrle? (s : String) : Option Bytes :=
  if s == "-" then some [] else
  if !(s.contains '_') && !(s.contains '*') then unhexBytes? s else
  (s.splitOn "_").foldr (fun seg acc =>
    match acc, seg.splitOn "*" with
    | some a, [h] => (unhexBytes? h).map (· ++ a)
    | some a, [h, n] =>
      match unhexBytes? h, n.toNat? with
      | some b, some k => some (repPre b k a)
      | _, _ => none
    | _, _ => none) (some [])

def bytesList? (ts : List String) : Option (List Bytes) := ts.mapM unrle?

/-- fault modes of a chain case.  Through the queue: `b<k>` = the body reader of the first attempt
fails after `k` octets, `o` = the body cannot be opened at the first attempt; the message is then
delivered by a retry that re-reads the spool; `s<k>` = the body reader fails after `k` octets while
the queue is storing the message: `storeNewMessage` returns the error, the message is refused, no
attempt is ever made.  Directly on `smtpconn.Data`:
`x<p><kind><k>c<chunk>`, `p` = `s` (SMTP) | `l` (LMTP), kind `n` = undisturbed, `b` / `e` = the body
reader fails after `k` octets (error alone / together with the last octets), `w` = the connection
fails after `k` octets of DATA; `chunk` (octets per Read) does not matter to the model. -/
structure Fault where
  direct : Bool
  kind : String
  k : Nat

def faultOf (mode : String) : Option Fault :=
  match mode.toList with
  | ['o'] => some ⟨false, "o", 0⟩
  | 'b' :: ds => (String.ofList ds).toNat?.map (fun k => ⟨false, "b", k⟩)
  | 's' :: ds => (String.ofList ds).toNat?.map (fun k => ⟨false, "s", k⟩)
  | 'x' :: p :: kd :: rest =>
    if p != 's' && p != 'l' then none else
    if kd != 'n' && kd != 'b' && kd != 'e' && kd != 'w' then none else
    match (String.ofList rest).splitOn "c" with
    | [ks, cs] =>
      match ks.toNat?, cs.toNat? with
      | some k, some _ => some ⟨true, String.singleton kd, k⟩
      | _, _ => none
    | _ => none
  | _ => none

def sha (b : Bytes) : String := hexBytes (Driver.C08Sha.sha256 b)

def showList (l : List Bytes) : String :=
  if l.isEmpty then "none" else " ".intercalate (l.map hexBytes)

def canonName : Canon → String
  | .simple => "simple"
  | .relaxed => "relaxed"

def natBytes (n : Nat) : Bytes := (toString n).toList.map (·.toNat)

/-- length-prefixed concatenation (unambiguous encoding of a list of byte strings) -/
def frame (l : List Bytes) : Bytes := (l.map (fun f => natBytes f.length ++ 58 :: f)).flatten

def showHdrErr : HdrErr → String
  | .initialSpace => "initial-space"
  | .noColon => "no-colon"
  | .badKey => "bad-key"

def showVErr : VErr → String
  | .noHeaderEnd => "no-header-end"
  | .noSignature => "no-signature"
  | .badParams => "bad-params"
  | .badVersion => "bad-version"
  | .badCanon => "bad-canon"
  | .missingTag => "missing-tag"

/-- `chain <mode> … | <generated fields> | <added> | <body> # <signed header, top to bottom>`:
what reaches the next hop and what a verifier derives there. -/
def chain (mode : String) (h : List Bytes) (body : Bytes) : String :=
  let flt := faultOf mode
  -- what the next hop ends up with from the attempt maddy counts as successful (if there is one)
  let p? : Option Bytes :=
    match flt with
    | some ⟨true, kind, k⟩ =>
      if kind == "n" then receive (transmit h body)
      else if kind == "w" then receive ((transmit h body).take k)
      else receive (transmitCut h body k)
    | some ⟨false, "s", _⟩ => none
    | _ => if mode == "m" then some (writeHeader h ++ body) else nextHop (mode != "d") h body
  -- how many copies the next hop acknowledged, over all attempts
  let first := match flt with
    | some ⟨false, "b", k⟩ => acceptedCount h body [some k]
    | _ => 0
  let n := first + (if p?.isSome then 1 else 0)
  let acc := match flt with
    | some ⟨true, kind, _⟩ => s!" acc={n} sent={if kind == "n" then 1 else 0}"
    | _ => if mode == "m" then "" else s!" acc={n}"
  match p? with
  | none => s!"hdr={sha (spool h)} payload=none{acc}"
  | some p =>
    match verifierView p with
    | .ok v => s!"hdr={sha (spool h)} payload={p.length}:{sha p} c={canonName v.hc}/{canonName v.bc} h={v.hkeys.length} bh={sha v.bodyCanon} hh={sha v.digestInput}{acc}"
    | .error e => s!"hdr={sha (spool h)} payload={p.length}:{sha p} err {showVErr e}{acc}"

/-! ### `keys`: a history of `Init`s of modify.dkim on one (initially empty) key directory

`keys <template> <selector> | <domain>=<normal form> … | <step> …`; a step is `I<a><i>.<j>…` (an
instance configured with the template and the domains of these indices, `newkey_algo` `a`: `r` =
rsa2048, `e` = ed25519) or `L<a><i>` (an instance for domain `i` alone whose `key_path` is the
key path of that domain written out).  Per step: the files created (`k:` key, `r:` record; sorted)
and, per configured domain, the file in which the key it signs with was created and the key type. -/

open MaddyVerif.DkimKeys in
def algoOf : Char → Option Algo
  | 'r' => some .rsa
  | 'e' => some .ed25519
  | _ => none

open MaddyVerif.DkimKeys in
def algoName : Algo → String
  | .rsa => "rsa"
  | .ed25519 => "ed25519"

open MaddyVerif.DkimKeys in
structure KStep where
  kind : Char   -- I | L | X (a key is imported, no record) | D (the record file is deleted)
  algo : Algo
  idx : List Nat

def kstep? (s : String) : Option KStep :=
  match s.toList with
  | 'D' :: rest =>
    match (String.ofList rest).toNat? with
    | some i => some ⟨'D', .ed25519, [i]⟩
    | none => none
  | k :: a :: rest =>
    if k != 'L' && k != 'I' && k != 'X' then none else
    match algoOf a, ((String.ofList rest).splitOn ".").mapM String.toNat? with
    | some al, some ix => if k != 'I' && ix.length != 1 then none else some ⟨k, al, ix⟩
    | _, _ => none
  | _ => none

open MaddyVerif.DkimKeys in
def keyPathOf (fs : FS) (id : Nat) : String :=
  match fs.find? (fun e => match e.2 with | .key i _ => i == id | _ => false) with
  | some e => hexBytes e.1
  | none => "?"

open MaddyVerif.DkimKeys in
def showNew (fs : FS) : String :=
  let l := fs.map (fun e => (match e.2 with | .key _ _ => "k:" | .txt _ _ => "r:") ++ hexBytes e.1)
  if l.isEmpty then "-" else ",".intercalate (l.toArray.qsort (· < ·)).toList

open MaddyVerif.DkimKeys in
def keysRun (tmpl sel : Bytes) (doms : List (Bytes × Bytes)) : List KStep → FS → Nat → Option (List String)
  | [], _, _ => some []
  | st :: rest, fs, n =>
    match st.idx.mapM (fun i => doms[i]?) with
    | none => none
    | some ds =>
      let own := match ds with | d :: _ => expand d.1 sel tmpl | [] => tmpl
      if st.kind == 'X' then
        let line := if (fs.lookup own).isNone then "imp=" ++ hexBytes own else "imp=-"
        let s' := importKey fs n own st.algo
        (keysRun tmpl sel doms rest s'.1 s'.2).map (line :: ·)
      else if st.kind == 'D' then
        match fs.lookup (dnsPath own) with
        | some (.txt _ _) =>
          (keysRun tmpl sel doms rest (deleteFile fs (dnsPath own)) n).map (("del=" ++ hexBytes (dnsPath own)) :: ·)
        | _ => (keysRun tmpl sel doms rest fs n).map ("del=-" :: ·)
      else
      let t := if st.kind == 'L' then own else tmpl
      let r := init ⟨t, sel, st.algo, ds⟩ fs n
      let new := r.fs.take (r.fs.length - fs.length)
      let use := ds.map (fun d => match r.signers.lookup d.2 with
        | some (id, a) => keyPathOf r.fs id ++ ":" ++ algoName a
        | none => "none")
      let line := match r.err with
        | none => "ok new=" ++ showNew new ++ " use=" ++ (if use.isEmpty then "-" else ",".intercalate use)
        | some _ => "err:pem new=" ++ showNew new
      (keysRun tmpl sel doms rest r.fs r.next).map (line :: ·)

def domPair? (s : String) : Option (Bytes × Bytes) :=
  match s.splitOn "=" with
  | [a, b] =>
    match unhexBytes? a, unhexBytes? b with
    | some x, some y => some (x, y)
    | _, _ => none
  | _ => none

def keysOp (tmpl sel : String) (doms steps : List String) : String :=
  match unhexBytes? tmpl, unhexBytes? sel, doms.mapM domPair?, steps.mapM kstep? with
  | some t, some s, some ds, some sts =>
    match keysRun t s ds sts [] 0 with
    | some ls => " ; ".intercalate ls
    | none => "bad-op"
  | _, _, _, _ => "bad-op"

/-! ### `clock`: the life of one modifier instance on a manual clock

`clock <t0> <sig_expiry ms | default> <algo> <hc> <bc> <sender#> | <up>:<gap>:<d>,<d>… … | <fields> | <body>`:
`Init` at `t0`; per message the clock advances by `up`, `ModStateForMsg`, `gap` later the message is
signed; verification `d` ms after the signing.  Per message `t=… x=… exp=<one digit per d>`. -/

def natList? (s : String) : Option (List Nat) := (s.splitOn ",").mapM String.toNat?

open MaddyVerif.DkimTime in
def clockRun (t0 expiry : Nat) : Nat → List String → Option (List String)
  | _, [] => some []
  | now, m :: rest =>
    match m.splitOn ":" with
    | [u, g, ds] =>
      match u.toNat?, g.toNat?, natList? ds with
      | some up, some gap, some delays =>
        let l : Life := ⟨t0, now + up, now + up + gap⟩
        let x := tagX l expiry
        let xs := match x with | some v => toString v | none => "-"
        let bits := String.join (delays.map (fun d => if expired (l.signAt + d) x then "1" else "0"))
        (clockRun t0 expiry l.signAt rest).map (s!"t={tagT l} x={xs} exp={bits}" :: ·)
      | _, _, _ => none
    | _ => none

def clockOp (t0 e : String) (msgs : List String) : String :=
  let e? := if e == "default" then some MaddyVerif.DkimTime.defaultExpiry else e.toNat?
  match t0.toNat?, e? with
  | some t, some ex =>
    match clockRun t ex t msgs with
    | some ls => " ; ".intercalate ls
    | none => "bad-op"
  | _, _ => "bad-op"

/-! ### `select`: which key signs for which envelope sender, and in whose name (round 9)

`select <y|n> <selector> <r|e> | <domain>=<normal form> … | <name>=<normal form|!>=<A-label form|!> … | <u|a>:<from|->:<e|n|domain> …`:
one modifier instance (`sign_subdomains` on / off, the configured domains, default `key_path`
template on an empty directory) and a list of senders (`u` = message with SMTPUTF8; third part =
result of `address.Split`: error, no domain, the domain).  The table is the oracle (`dns.ForLookup`,
`idna.ToASCII`; `!` = error).  Per sender: `err` | `unsigned` | `signed d= s= i= key=<the entry of
signers whose key signed>`. -/

def optHex? (s : String) : Option (Option Bytes) :=
  if s == "!" then some none else if s == "-" then some (some []) else (unhexBytes? s).map some

def tabEntry? (s : String) : Option (Bytes × Option Bytes × Option Bytes) :=
  match s.splitOn "=" with
  | [n, a, b] =>
    match unhexBytes? n, optHex? a, optHex? b with
    | some n, some a, some b => some (n, a, b)
    | _, _, _ => none
  | _ => none

open MaddyVerif.DkimKeys in
def selSender? (s : String) : Option (Bool × From) :=
  match s.splitOn ":" with
  | [u, _, sp] =>
    if u != "u" && u != "a" then none else
    if sp == "e" then some (u == "u", .err) else
    if sp == "n" then some (u == "u", .none) else
    (unhexBytes? sp).map (fun d => (u == "u", .dom d))
  | _ => none

def hexOrDash (b : Bytes) : String := if b.isEmpty then "-" else hexBytes b

open MaddyVerif.DkimKeys in
def selectOp (sub sel : String) (doms tab snd : List String) : String :=
  if sub != "y" && sub != "n" then "bad-op" else
  match unhexBytes? sel, doms.mapM domPair?, tab.mapM tabEntry?, snd.mapM selSender? with
  | some s, some ds, some tb, some ss =>
    let O : Oracle := ⟨fun x => (tb.lookup x).bind (·.1), fun x => (tb.lookup x).bind (·.2)⟩
    let r := init ⟨phDomain ++ [95] ++ phSelector ++ dotKey, s, .ed25519, ds⟩ [] 0
    let line := fun (p : Bool × From) =>
      match selectKey O (ds.map (·.1)) (sub == "y") r.signers s p.1 p.2 with
      | .splitErr => "err"
      | .panic => "panic"
      | .unsigned _ => "unsigned"
      | .signed d s' id _ =>
        let key := match r.signers.find? (fun e => e.2.1 == id) with
          | some e => hexOrDash e.1
          | none => "?"
        s!"signed d={hexOrDash d} s={hexOrDash s'} i={hexOrDash (64 :: d)} key={key}"
    " ; ".intercalate (ss.map line)
  | _, _, _, _ => "bad-op"

def splitHash (toks : List String) : List String × List String :=
  (toks.takeWhile (· != "#"), (toks.dropWhile (· != "#")).drop 1)

def handle (toks : List String) : String :=
  match toks with
  | "chain" :: mode :: rest =>
    if mode != "m" && mode != "d" && mode != "r" && mode != "R" && (faultOf mode).isNone then "bad-op" else
    let (left, right) := splitHash rest
    match c08groups left, bytesList? right with
    | [_, _, _, [body]], some h =>
      match unrle? body with
      | some b => chain mode h b
      | none => "bad-op"
    | _, _ => "bad-op"
  | _ =>
  match c08groups toks with
  | [["keys", tmpl, sel], doms, steps] => keysOp tmpl sel doms steps
  | [["clock", t0, e, _, _, _, _], msgs, _, _] => clockOp t0 e msgs
  | [["select", sub, sel, _], doms, tab, snd] => selectOp sub sel doms tab snd
  | ["fts" :: ov, sg, fields] =>
    match bytesList? ov, bytesList? sg, bytesList? fields with
    | some ov, some sg, some fields => showList (fieldsToSign ov sg (fields.map gmKey))
    | _, _, _ => "bad-op"
  | [["transport", mode], fields, [body]] =>
    match bytesList? fields, unhexBytes? body with
    | some h, some body =>
      if mode != "d" && mode != "r" then "bad-op" else
      match nextHop (mode == "r") h body with
      | some p => s!"hdr={sha (spool h)} payload={p.length}:{sha p}"
      | none => "err"
    | _, _ => "bad-op"
  | [["verify", payload]] =>
    match unhexBytes? payload with
    | some p =>
      match verifierView p with
      | .ok v => s!"ok c={canonName v.hc}/{canonName v.bc} h={v.hkeys.length} bh={sha v.bodyCanon} hh={sha v.digestInput}"
      | .error e => "err " ++ showVErr e
    | none => "bad-op"
  | [["vdata", payload]] =>
    match unrle? payload with
    | some p =>
      match verifierView p with
      | .ok v => s!"ok {canonName v.hc} {canonName v.bc} {v.picked} {hexBytes v.bodyCanon} {hexBytes v.digestInput} {hexBytes v.b} {hexBytes v.bh}"
      | .error e => "err " ++ showVErr e
    | none => "bad-op"
  | [["sigparse", payload]] =>
    match unhexBytes? payload with
    | some p =>
      match verifierView p with
      | .ok _ => "view"
      | .error e => showVErr e
    | none => "bad-op"
  | [["gmread", input]] =>
    match unhexBytes? input with
    | some s =>
      match gmReadHeader s with
      | .ok (h, rest) => s!"ok n={h.length} f={sha (frame h)} k={sha (frame (h.map gmKey))} rest={rest.length}:{sha rest}"
      | .error e => "err " ++ showHdrErr e
    | none => "bad-op"
  | [["dot", input]] =>
    match unhexBytes? input with
    | some s =>
      let w := dotW .begin s
      let r := match receive w with
        | some p => s!"{p.length}:{sha p}"
        | none => "none"
      s!"wire={w.length}:{sha w} recv={r}"
    | none => "bad-op"
  | [["undot", input]] =>
    match unhexBytes? input with
    | some w =>
      match receive w with
      | some p => s!"{p.length}:{sha p}"
      | none => "none"
    | none => "bad-op"
  | [["canon", hc, field]] =>
    match unhexBytes? field with
    | some f =>
      if hc == "relaxed" then hexBytes (canonHeader .relaxed f)
      else if hc == "simple" then hexBytes (canonHeader .simple f) else "bad-op"
    | none => "bad-op"
  | [["sha", input]] =>
    match unhexBytes? input with
    | some s => sha s
    | none => "bad-op"
  | _ => "bad-op"

end Driver.C08
