import MaddyVerif.Model.RemoteSec
import Driver.Util
/-! Driver for C05: `hist <cfg> <dom0> <dom1> <msgs>` → per-message recipient results and DATA events
(the format is described in harness/internal/target/remote/zz_verif_c05_test.go). -/
namespace Driver.C05
open MaddyVerif.RemoteSec Driver

def bit? (c : Char) : Option Bool :=
  if c == '1' then some true else if c == '0' then some false else none

def bitS? (s : String) : Option Bool :=
  match s.toList with
  | [c] => bit? c
  | _ => none

def digit? (c : Char) : Option Nat :=
  if '0' ≤ c ∧ c ≤ '9' then some (c.toNat - '0'.toNat) else none

def parseStartTLS : String → Option StartTLS
  | "o" => some .offered | "s" => some .stripped | "h" => some .hsFail | "c" => some .cmdFail
  | _ => none

def parseCert1 : Char → Option Cert
  | 'v' => some .valid | 'u' => some .untrusted | 'w' => some .wrongName
  | _ => none

/-- `<v|u|w>[<chain shape 1..6>]`: the verdict on the end-entity certificate and the shape of the presented chain
(0 = end-entity certificate + its issuer; 1-3: a further end-entity certificate G — the genuine MX's — as
[leaf,G] / [leaf,issuer,G] / [leaf,G,issuer]; 4-6 the same with a foreign CA certificate F).  The shape has no
influence on the model beyond which record kinds can be expressed (see `kindOK`). -/
def parseCert (s : String) : Option (Cert × Nat) :=
  match s.toList with
  | [c] => (parseCert1 c).map (fun c => (c, 0))
  | [c, d] => do
    let c ← parseCert1 c
    let d ← digit? d
    if 1 ≤ d ∧ d ≤ 6 then pure (c, d) else none
  | _ => none

/-- `p`: DANE-EE record of the extra certificate; `i`: DANE-EE record of the presented issuer certificate;
`a`: DANE-TA record of the extra certificate -/
def parseTlsa : String → Option Tlsa
  | "n" => some .none | "e" => some .eeMatch | "t" => some .taMatch | "m" => some .mismatch
  | "u" => some .unusable
  -- the query is answered with an RCODE: f SERVFAIL (2), R REFUSED (5), N NOTIMP (4), F FORMERR (1)
  | "f" => some (Tlsa.none.under 2) | "R" => some (Tlsa.none.under 5)
  | "N" => some (Tlsa.none.under 4) | "F" => some (Tlsa.none.under 1)
  -- G: no readable answer at all (an I/O error of the exchange, no RCODE): the lookup error as such
  | "G" => some .servfail
  | "p" => some .eeOther | "i" => some .eeOther | "a" => some .taOther
  | _ => none

/-- a record kind needs the certificate it refers to in the presented chain: `p`/`a` an extra certificate
(shape ≠ 0), `t`/`i` the issuer (shapes 1 and 4 omit it) -/
def kindOK (kind : String) (shape : Nat) : Bool :=
  if kind == "p" || kind == "a" then shape != 0
  else if kind == "t" || kind == "i" then shape != 1 && shape != 4
  else true

def parseSTS : Char → Option STS
  | 'a' => some .absent | 'n' => some .none | 't' => some .testing | 'e' => some .enforce
  | _ => none

/-- alias suffix `<alias s|i><tlsa at the initial name><its AD bit><CNAME-type query fails>` -/
def parseAlias (s : String) : Option (Alias × Tlsa × Bool × Bool) :=
  match s.toList with
  | [a, t, ad, ce] => do
    let a ← if a == 's' then some Alias.secure else if a == 'i' then some Alias.insecure else none
    let t ← parseTlsa (String.singleton t)
    let ad ← bit? ad
    -- the CNAME-type query: 0 answered, 1 SERVFAIL, R REFUSED, N NOTIMP, F FORMERR
    let ce ← if ce == '0' then some false else if ce == '1' then some (cnameQueryFails 2)
      else if ce == 'R' then some (cnameQueryFails 5) else if ce == 'N' then some (cnameQueryFails 4)
      else if ce == 'F' then some (cnameQueryFails 1) else if ce == 'G' then some true else none
    pure (a, t, ad, ce)
  | _ => none

/-- `<up>[<fam 6|b|x>]`: does something listen at the address(es) of the host, and which address records the host
has (none = A only, `6` AAAA only, `b` both).  The family has no influence on the model: the AD bit `aAD` is that of
whichever address RRsets exist (`CheckCNAMEAD` asks for A, then for AAAA), the connection goes to the same server. -/
def parseUp (s : String) : Option Bool :=
  match s.toList with
  | [u] => bit? u
  | [u, f] => do
    let u ← bit? u
    if f == '6' || f == 'b' then pure u else none
  | _ => none

/-- `<slow>[<crash a|c|t>]`: latency of the TLSA answers (no influence on the model) and the stage at which the
lookups of TLSA discovery for this MX CRASH (a: address lookups, c: CNAME-type query, t: TLSA lookups); result: the
stage number of `MX.crashedAt` (0: no crash) -/
def parseSlow (s : String) : Option Nat :=
  match s.toList with
  | [b] => (bit? b).map (fun _ => 0)
  | [b, c] => do
    let _ ← bit? b
    if c == 'a' then pure 1 else if c == 'c' then pure 2 else if c == 't' then pure 3 else none
  | _ => none

/-- `<srv>.<up>.<starttls>.<cert>.<stsMatch>.<aAD>.<tlsaAD>.<tlsa>.<reqtls>.<slow>[.<alias>]`.  Without the alias field
the MX name is not a CNAME.  Result: the MX (a crash of its discovery applied: `MX.crashedAt`) and whether it crashes. -/
def parseMXc (s : String) : Option (MX × Bool) :=
  let core (srv up st ce sm aad tad tl rt slow : String) (al : Alias × Tlsa × Bool × Bool) (alKind : String) :
      Option (MX × Bool) := do
    let srv ← srv.toNat?
    let up ← parseUp up
    let st ← parseStartTLS st
    let (ce, shape) ← parseCert ce
    let sm ← bitS? sm
    -- `<aAD>`: the AD bit of the address answer, or how the address queries of discovery FAIL (f / R / N / F)
    let (aad, arc) ← (match aad with
      | "f" => some (true, 2) | "R" => some (true, 5) | "N" => some (true, 4) | "F" => some (true, 1)
      | "G" => some (true, 2)   -- unreadable answer: an error of the exchange, like any failure RCODE
      | b => (bitS? b).map (fun x => (x, 0)))
    let tad ← bitS? tad
    let tlv ← parseTlsa tl
    let rt ← bitS? rt
    let crash ← parseSlow slow
    if !(kindOK tl shape && kindOK alKind shape) then none else
    pure (((⟨srv, up, st, ce, sm, aad, tad, tlv, rt, al.1, al.2.1, al.2.2.1, al.2.2.2⟩ : MX).addrLookupAnswered arc).crashedAt crash,
      crash != 0)
  match s.splitOn "." with
  | [srv, up, st, ce, sm, aad, tad, tl, rt, slow] =>
    core srv up st ce sm aad tad tl rt slow (.none, .none, false, false) "n"
  | [srv, up, st, ce, sm, aad, tad, tl, rt, slow, al] => do
    let alv ← parseAlias al
    core srv up st ce sm aad tad tl rt slow alv (String.singleton (al.toList.getD 1 'n'))
  | _ => none

def parseDom (s : String) : Option Domain :=
  match s.splitOn ":" with
  | [hd, mxs] =>
    match hd.toList with
    | [a, m] => do
      let ad ← bit? a
      let sts ← parseSTS m
      let l ← (mxs.splitOn ";").mapM parseMXc
      -- a crashing discovery is only driven for the single candidate of a domain (see the harness)
      if l.any (·.2) && l.length != 1 then none else
      match l.map (·.1) with
      | [] => none
      | x :: r => pure ⟨ad, sts, x, r⟩
    | _ => none
  | _ => none

/-- a configuration word: `_` the directive is not written, else the bytes of the argument in hex -/
def parseWord (s : String) : Option (Option Word) :=
  if s == "_" then some none
  else if s == "-" then none
  else (unhexBytes? s).map some

/-- the `local` field: `-` no local_policy block; `<t><m>` the block with the documented words of these levels;
`<t><m>~<tls word>~<mx word>` the block with the arguments as the administrator wrote them (the two digits are then
the levels the words DOCUMENT — ground truth of the harness's monitor; the model does not read them).
Result: `none` ill-formed; `some none` the configuration is refused at start-up; else the policies of the block. -/
def parseLocal (loc : String) : Option (Option (List Policy)) :=
  if loc == "-" then some (some []) else
  match loc.splitOn "~" with
  | [lv] =>
    match lv.toList with
    | [t, m] => do
      let t ← digit? t
      let m ← digit? m
      pure (some [Policy.localP t m])
    | _ => none
  | [lv, tw, mw] =>
    match lv.toList with
    | [t, m] => do
      let _ ← digit? t
      let _ ← digit? m
      let tw ← parseWord tw
      let mw ← parseWord mw
      pure ((localInit tw mw).map (fun p => [p]))
    | _ => none
  | _ => none

/-- `<mtasts><preload><dane><dnssec>.<local>.<override><relaxed>.<reuse>`; the list is built in the
order of `PolicyGroup.Init`.  `some none`: the configuration is refused at start-up. -/
def parseCfg (s : String) : Option (Option Cfg) :=
  match s.splitOn "." with
  | [pol, loc, sw, reuse] =>
    match pol.toList, sw.toList with
    | [a, b, c, d], [o, r] => do
      let a ← bit? a
      let b ← bit? b
      let c ← bit? c
      let d ← bit? d
      let o ← bit? o
      let r ← bit? r
      let reuse ← reuse.toNat?
      let lp ← parseLocal loc
      match lp with
      | none => pure none
      | some lp =>
        let ps := (if a then [Policy.mtasts] else []) ++ (if b then [Policy.stsPreload] else []) ++
          (if c then [Policy.dane] else []) ++ (if d then [Policy.dnssec] else []) ++ lp
        pure (some ⟨ps, o, r, reuse⟩)
    | _, _ => none
  | _ => none

def parseMsg (s : String) : Option Msg :=
  match s.splitOn ":" with
  | [fl, rc] =>
    match fl.toList with
    | [a, b, q] => do
      let a ← bit? a
      let b ← bit? b
      let q ← digit? q
      let rs ← (rc.splitOn ",").mapM String.toNat?
      if rs.isEmpty || rs.any (· > 1) || q > 2 then none else
      pure ⟨a, b, q, rs⟩
    | _ => none
  | _ => none

def sortIns (x : String) : List String → List String
  | [] => [x]
  | y :: r => if x ≤ y then x :: y :: r else y :: sortIns x r

def sortS (l : List String) : List String := l.foldr sortIns []

def b2s (b : Bool) : String := if b then "1" else "0"

def showRes : RcptRes → String
  | .ok => "ok" | .err .temp => "temp" | .err .perm => "perm"

def showOut (o : MsgOut) : String :=
  let rs := ",".intercalate (o.rcpts.map (fun p => s!"{p.1}={showRes p.2}"))
  let ds := sortS (o.data.map (fun u =>
    s!"{u.conn.mx.srv}.{b2s u.conn.tls.tlsOn}.{b2s u.mailRT}.{b2s (decide (u.conn.transactions > 0))}"))
  let d := if ds.isEmpty then "-" else ",".intercalate ds
  s!"r:{rs} d:{d}"

/-- `<gate s|t|m><kind c|d><k><victim>`: which lookup is held back while the `k` deliveries start (MTA-STS
fetch / TLSA answers / MX answer of domain 0; `k` is 1-3), how the victim's context ends (cancel / deadline), the index of the
victim (`9`: nobody is cancelled). -/
def parseScript (s : String) : Option (Char × Nat × Nat) :=
  match s.toList with
  | [g, kd, k, v] => do
    let k ← digit? k
    let v ← digit? v
    if !(g == 's' || g == 't' || g == 'm') || !(kd == 'c' || kd == 'd') then none
    else if k < 1 || k > 3 || !(v < k || v == 9) then none
    else pure (g, k, v)
  | _ => none

/-- well-formed batch: at least `k` messages; every overlapping delivery starts with a recipient in domain 0 and is
not refused before it looks anything up; the victim is held at the gate for certain (gate `s`: MTA-STS applies
to it); later messages only where the victim's effect on the pool is determined (not with the TLSA gate) -/
def concOK (cfg : Cfg) (g : Char) (k v : Nat) (ms : List Msg) : Bool :=
  decide (k ≤ ms.length) &&
  (ms.take k).all (fun m => m.rcpts.head? == some 0 && m.quarantine != 1) &&
  (match ms[v]? with
   | some m => (g != 's' || (startPolicies cfg m).contains Policy.mtasts) &&
               (g != 't' || ms.length == k) && v < k
   | none => v == 9)

def showConc (o : Option MsgOut) : String :=
  match o with
  | some o => showOut o
  | none => "x"

/-- `<init>><final>[@<stage c|s|r|b>]:<rcpts>` with init / final = `<requireTLS><tlsRequiredNo><quarantine><smtputf8>`:
the content of the source's meta-data object at `Start` and when the body stage ends; `@<stage>` (front `p` only): the
stage at which the scripted check asks for quarantine.  The flag is never taken back; with front `p` it is raised by
the check or not at all. -/
def parseMeta : List Char → Option Meta
  | [a, b, c, d] => do
    let a ← bit? a
    let b ← bit? b
    let c ← bit? c
    let d ← bit? d
    pure ⟨a, b, c, d⟩
  | _ => none

def parseVMsg (front : String) (s : String) : Option QMsg :=
  match s.splitOn ":" with
  | [fl, rc] => do
    let (fl, stage) ← (match fl.splitOn "@" with
      | [f] => some (f, none)
      | [f, st] => if front == "p" && (st == "c" || st == "s" || st == "r" || st == "b") then some (f, some st) else none
      | _ => none)
    let (i, f) ← (match fl.splitOn ">" with
      | [i, f] => some (i, f)
      | _ => none)
    let i ← parseMeta i.toList
    let f ← parseMeta f.toList
    let rs ← (rc.splitOn ",").mapM String.toNat?
    if rs.isEmpty || rs.any (· > 1) then none
    else if i.quarantine && !f.quarantine then none
    else if front == "p" && f.quarantine != (i.quarantine || stage.isSome) then none
    else pure ⟨i, f, rs⟩
  | _ => none

def showOutU (p : QMsg × MsgOut) : String :=
  let o := p.2
  let rs := ",".intercalate (o.rcpts.map (fun p => s!"{p.1}={showRes p.2}"))
  let ds := sortS (o.data.map (fun u =>
    s!"{u.conn.mx.srv}.{b2s u.conn.tls.tlsOn}.{b2s u.mailRT}.{b2s (decide (u.conn.transactions > 0))}.{b2s p.1.mailUTF8}"))
  let d := if ds.isEmpty then "-" else ",".intercalate ds
  s!"r:{rs} d:{d}"

/-- second-round outputs put beside their messages: a message without recipients to retry has none -/
def alignRetry : List (QMsg × MsgOut) → List MsgOut → List (QMsg × MsgOut × Option MsgOut)
  | [], _ => []
  | (m, o) :: rest, o2 =>
    if (retryRcpts o).isEmpty then (m, o, none) :: alignRetry rest o2
    else match o2 with
      | x :: o2' => (m, o, some x) :: alignRetry rest o2'
      | [] => (m, o, none) :: alignRetry rest []

def showRetry (p : QMsg × MsgOut × Option MsgOut) : String :=
  showOutU (p.1, p.2.1) ++ " >> " ++ (match p.2.2 with | some o => showOutU (p.1, o) | none => "-")

def handle : List String → String
  | ["retry", fm, cfg, d0, d1, e0, e1, msgs] =>
    match fm.toList with
    | [f, mode] =>
      let front := String.singleton f
      if (front != "q" && front != "p") || !(mode == 'r' || mode == 's' || mode == 'b') then "bad-op" else
      match parseCfg cfg, parseDom d0, parseDom d1, parseDom e0, parseDom e1, (msgs.splitOn "/").mapM (parseVMsg front) with
      | some none, some _, some _, some _, some _, some _ => "refused"
      | some (some cfg), some d0, some d1, some e0, some e1, some ms =>
        let domsA : Nat → Domain := fun i => if i == 0 then d0 else d1
        let domsB : Nat → Domain := fun i => if i == 0 then e0 else e1
        if mode == 'b' then
          " | ".intercalate ((ms.zip (runFromSpool cfg domsB ms)).map (fun p => "- >> " ++ showOutU p))
        else
          let r := runRetry cfg domsA domsB ms
          " | ".intercalate ((alignRetry (ms.zip r.1) r.2).map showRetry)
      | _, _, _, _, _, _ => "bad-op"
    | _ => "bad-op"
  | ["via", front, cfg, d0, d1, msgs] =>
    if front != "q" && front != "p" then "bad-op" else
    match parseCfg cfg, parseDom d0, parseDom d1, (msgs.splitOn "/").mapM (parseVMsg front) with
    | some none, some _, some _, some _ => "refused"
    | some (some cfg), some d0, some d1, some ms =>
      let doms : Nat → Domain := fun i => if i == 0 then d0 else d1
      " | ".intercalate ((ms.zip (runVia cfg doms ms emptyPool)).map showOutU)
    | _, _, _, _ => "bad-op"
  | ["hist", cfg, d0, d1, msgs] =>
    match parseCfg cfg, parseDom d0, parseDom d1, (msgs.splitOn "/").mapM parseMsg with
    | some none, some _, some _, some _ => "refused"
    | some (some cfg), some d0, some d1, some ms =>
      let doms : Nat → Domain := fun i => if i == 0 then d0 else d1
      " | ".intercalate ((run cfg doms ms emptyPool).map showOut)
    | _, _, _, _ => "bad-op"
  | ["conc", cfg, d0, d1, script, msgs] =>
    match parseCfg cfg, parseDom d0, parseDom d1, parseScript script, (msgs.splitOn "/").mapM parseMsg with
    | some none, some _, some _, some _, some _ => "refused"
    | some (some cfg), some d0, some d1, some (g, k, v), some ms =>
      if !concOK cfg g k v ms then "bad-op" else
      let doms : Nat → Domain := fun i => if i == 0 then d0 else d1
      let b := runConc cfg doms k v (ms.take k) 0 emptyPool
      " | ".intercalate (b.1.map showConc ++ (run cfg doms (ms.drop k) b.2).map showOut)
    | _, _, _, _, _ => "bad-op"
  | _ => "bad-op"

end Driver.C05
