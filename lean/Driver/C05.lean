import MaddyVerif.Model.RemoteSec
import Driver.Util
/-! Driver for C05: `hist <cfg> <dom0> <dom1> <msgs>` → per-message recipient results and DATA events
(the format is described in harness/internal/target/remote/zz_verif_c05_test.go). -/
namespace Driver.C05
open MaddyVerif.RemoteSec Driver

def bit? (c : Char) : Option Bool :=
  if c == '1' then some true else if c == '0' then some false else none

def bitS? (s : String) : Option Bool :=
  match s.toList with
  | [c] => bit? c
  | _ => none

def digit? (c : Char) : Option Nat :=
  if '0' ≤ c ∧ c ≤ '9' then some (c.toNat - '0'.toNat) else none

def parseStartTLS : String → Option StartTLS
  | "o" => some .offered | "s" => some .stripped | "h" => some .hsFail | "c" => some .cmdFail
  | _ => none

def parseCert : String → Option Cert
  | "v" => some .valid | "u" => some .untrusted | "w" => some .wrongName
  | _ => none

def parseTlsa : String → Option Tlsa
  | "n" => some .none | "e" => some .eeMatch | "t" => some .taMatch | "m" => some .mismatch
  | "u" => some .unusable | "f" => some .servfail
  | _ => none

def parseSTS : Char → Option STS
  | 'a' => some .absent | 'n' => some .none | 't' => some .testing | 'e' => some .enforce
  | _ => none

/-- alias suffix `<alias s|i><tlsa at the initial name><its AD bit><CNAME-type query fails>` -/
def parseAlias (s : String) : Option (Alias × Tlsa × Bool × Bool) :=
  match s.toList with
  | [a, t, ad, ce] => do
    let a ← if a == 's' then some Alias.secure else if a == 'i' then some Alias.insecure else none
    let t ← parseTlsa (String.singleton t)
    let ad ← bit? ad
    let ce ← bit? ce
    pure (a, t, ad, ce)
  | _ => none

/-- `<srv>.<up>.<starttls>.<cert>.<stsMatch>.<aAD>.<tlsaAD>.<tlsa>.<reqtls>.<slow>[.<alias>]`; the `slow` field
(latency of the TLSA answers) has no influence on the model.  Without the alias field the MX name is not a CNAME. -/
def parseMX (s : String) : Option MX :=
  let core (srv up st ce sm aad tad tl rt slow : String) (al : Alias × Tlsa × Bool × Bool) : Option MX := do
    let srv ← srv.toNat?
    let up ← bitS? up
    let st ← parseStartTLS st
    let ce ← parseCert ce
    let sm ← bitS? sm
    let aad ← bitS? aad
    let tad ← bitS? tad
    let tl ← parseTlsa tl
    let rt ← bitS? rt
    let _ ← bitS? slow
    pure ⟨srv, up, st, ce, sm, aad, tad, tl, rt, al.1, al.2.1, al.2.2.1, al.2.2.2⟩
  match s.splitOn "." with
  | [srv, up, st, ce, sm, aad, tad, tl, rt, slow] =>
    core srv up st ce sm aad tad tl rt slow (.none, .none, false, false)
  | [srv, up, st, ce, sm, aad, tad, tl, rt, slow, al] => do
    let al ← parseAlias al
    core srv up st ce sm aad tad tl rt slow al
  | _ => none

def parseDom (s : String) : Option Domain :=
  match s.splitOn ":" with
  | [hd, mxs] =>
    match hd.toList with
    | [a, m] => do
      let ad ← bit? a
      let sts ← parseSTS m
      let l ← (mxs.splitOn ";").mapM parseMX
      match l with
      | [] => none
      | x :: r => pure ⟨ad, sts, x, r⟩
    | _ => none
  | _ => none

/-- `<mtasts><preload><dane><dnssec>.<local>.<override><relaxed>.<reuse>`; the list is built in the
order of `PolicyGroup.Init`. -/
def parseCfg (s : String) : Option Cfg :=
  match s.splitOn "." with
  | [pol, loc, sw, reuse] =>
    match pol.toList, sw.toList with
    | [a, b, c, d], [o, r] => do
      let a ← bit? a
      let b ← bit? b
      let c ← bit? c
      let d ← bit? d
      let o ← bit? o
      let r ← bit? r
      let reuse ← reuse.toNat?
      let lp : List Policy ←
        if loc == "-" then pure [] else
        match loc.toList with
        | [t, m] => do
          let t ← digit? t
          let m ← digit? m
          pure [Policy.localP t m]
        | _ => none
      let ps := (if a then [Policy.mtasts] else []) ++ (if b then [Policy.stsPreload] else []) ++
        (if c then [Policy.dane] else []) ++ (if d then [Policy.dnssec] else []) ++ lp
      pure ⟨ps, o, r, reuse⟩
    | _, _ => none
  | _ => none

def parseMsg (s : String) : Option Msg :=
  match s.splitOn ":" with
  | [fl, rc] =>
    match fl.toList with
    | [a, b, q] => do
      let a ← bit? a
      let b ← bit? b
      let q ← digit? q
      let rs ← (rc.splitOn ",").mapM String.toNat?
      if rs.isEmpty || rs.any (· > 1) || q > 2 then none else
      pure ⟨a, b, q, rs⟩
    | _ => none
  | _ => none

def sortIns (x : String) : List String → List String
  | [] => [x]
  | y :: r => if x ≤ y then x :: y :: r else y :: sortIns x r

def sortS (l : List String) : List String := l.foldr sortIns []

def b2s (b : Bool) : String := if b then "1" else "0"

def showRes : RcptRes → String
  | .ok => "ok" | .err .temp => "temp" | .err .perm => "perm"

def showOut (o : MsgOut) : String :=
  let rs := ",".intercalate (o.rcpts.map (fun p => s!"{p.1}={showRes p.2}"))
  let ds := sortS (o.data.map (fun u =>
    s!"{u.conn.mx.srv}.{b2s u.conn.tls.tlsOn}.{b2s u.mailRT}.{b2s (decide (u.conn.transactions > 0))}"))
  let d := if ds.isEmpty then "-" else ",".intercalate ds
  s!"r:{rs} d:{d}"

def handle : List String → String
  | ["hist", cfg, d0, d1, msgs] =>
    match parseCfg cfg, parseDom d0, parseDom d1, (msgs.splitOn "/").mapM parseMsg with
    | some cfg, some d0, some d1, some ms =>
      let doms : Nat → Domain := fun i => if i == 0 then d0 else d1
      " | ".intercalate ((run cfg doms ms emptyPool).map showOut)
    | _, _, _, _ => "bad-op"
  | _ => "bad-op"

end Driver.C05
