import MaddyVerif.Model.Limits
import Driver.Util
/-! C11 driver.  Op lines (see the harnesses `zz_verif_c11_test.go`):
* `grp <cfg> <ops…>`  ops `T.ip.dom` `D.d` `R.ip.dom` `E.d` executed one at a time on the Group model;
  answer: per op `<res>@<snapshot>` (or `panic`, which ends the line).
* `bs <cfg> <ops…>`   ops `t.k` `r.k` `a.n` on one bucket set (constructors = the `ip` field of cfg).
* `sess <cfg> <ops…>` SMTP sessions: `o.sid.ip.def` `m.sid.raw.clean.so` `c.sid.so` `d.sid.x` `z.sid` `q.sid[.drop]`;
  answer: per op `-@<snapshot>`.
* `rem <cfg> <ops…>`  remote deliveries: `p.n` (pool reuse limit of the target, no Group call) `s.id.ip.dom[.so|.rt]`
  (so: security override, rt: REQUIRETLS — no effect on the Group calls) `a.id.dd.co.mo[.note]` (note: what the next hop does — `rcptrej` RCPT refused; `rcpt421 rcpt421c rcptdrop
  rcpttmo` RCPT fails with the connection lost; `mail421 mail421c maildrop mailtmo` with mo = 0 (`omail…`: only a
  REUSED session is ended, MAIL on a new connection is accepted), `conndrop
  conntmo` with co = 0: the kind of failure; co = a NEW connection can be made at this moment; a last field `P` =
  observed: the pool handed out a usable connection of an earlier delivery) `w.kind` (the MX world for new
  connections from now on: ok | nomx | noa | nullmx | refuse | greetdrop | greettmo | policy | mxpolicy; no Group call)
  `x.id.how[.end]` (how = abort: Close; otherwise Body, then Close).
cfg = `<all>/<ip>/<source>/<destination>/<reap>/<maxB>`, each scope `-` or a comma list of `s<N>` / `r<N>`.
Tokens `k.<addr>.<take>.<undo>.<rel>` (anywhere after cfg; `grp`, `sess`, `rem`): the key of the per-IP bucket set
the code was observed to derive from address `<addr>` in `TakeMsg`, in its roll-back and in `ReleaseMsg`
(`IpKeys`); addresses without a token are their own key.  The `ip` field of every op is an ADDRESS id.
Tokens `j.<spelling>.<conn>.<take>.<undo>.<close>.<src>.<srcRel>` (`rem`): the keys the remote target was observed
to derive from domain spelling `<spelling>` (`RemKeys`: key of `rd.connections`, of `TakeDest`, of `ReleaseDest`
after a failed MAIL, of `ReleaseDest` in `Close`, of `TakeMsg` in `Start`, of `ReleaseMsg` in `Close`); spellings
without a token are their own key everywhere.  The `dom` / `dd` fields of `rem` ops are SPELLING ids. -/
namespace Driver.C11
open MaddyVerif.Limits Driver

def parseLim (s : String) : Option Lim :=
  match s.toList with
  | 's' :: rest => (String.ofList rest).toInt?.map (fun n => { kind := .sem, n := n })
  | 'r' :: rest => (String.ofList rest).toInt?.map (fun n => { kind := .rate, n := n })
  | _ => none

def parseScope (s : String) : Option (List Lim) :=
  if s == "-" then some [] else (s.splitOn ",").mapM parseLim

def parseCfg (s : String) : Option Cfg :=
  match s.splitOn "/" with
  | [a, i, sr, d, reap, mb] => do
    let a ← parseScope a
    let i ← parseScope i
    let sr ← parseScope sr
    let d ← parseScope d
    let reap ← reap.toInt?
    let mb ← mb.toNat?
    pure { all := a, ip := i, src := sr, dst := d, reap := reap, maxB := mb }
  | _ => none

/-- The `k.` tokens of an op line → the key functions; `none`: ill-formed token. -/
def parseKeys (ops : List String) : Option IpKeys := do
  let tab ← (ops.filter (fun t => t.startsWith "k.")).mapM (fun t =>
    match ((t.splitOn ".").drop 1).mapM String.toNat? with
    | some [a, tk, u, r] => some (a, tk, u, r)
    | _ => none)
  let look := fun (sel : Nat × Nat × Nat × Nat → Nat) (a : Nat) =>
    match tab.find? (fun e => e.1 == a) with
    | some e => sel e
    | none => a
  pure { take := look (fun e => e.2.1), undo := look (fun e => e.2.2.1), rel := look (fun e => e.2.2.2) }

def dropKeys (ops : List String) : List String := ops.filter (fun t => !(t.startsWith "k." || t.startsWith "j."))

/-- The `j.` tokens of a `rem` line → the key derivation of the remote target; `none`: ill-formed token. -/
def parseRemKeys (ops : List String) : Option RemKeys := do
  let tab ← (ops.filter (fun t => t.startsWith "j.")).mapM (fun t =>
    match ((t.splitOn ".").drop 1).mapM String.toNat? with
    | some [d, cn, tk, u, cl, sr, srr] => some (d, [cn, tk, u, cl, sr, srr])
    | _ => none)
  let look := fun (i : Nat) (d : Nat) =>
    match tab.find? (fun e => e.1 == d) with
    | some e => e.2.getD i d
    | none => d
  pure { conn := look 0, take := look 1, undo := look 2, close := look 3, src := look 4, srcRel := look 5 }

/-- cfg token + the `k.` tokens among the ops. -/
def parseCfgK (cfg : String) (ops : List String) : Option Cfg := do
  let c ← parseCfg cfg
  let k ← parseKeys ops
  pure { c with keys := k }

def showLims (l : List LimSt) : String := ",".intercalate (l.map (fun x => toString x.len))

def insertB (b : Bucket) : List Bucket → List Bucket
  | [] => [b]
  | y :: ys => if b.key ≤ y.key then b :: y :: ys else y :: insertB b ys

def sortB (l : List Bucket) : List Bucket := l.foldr insertB []

def showSet (m : List Bucket) : String :=
  ";".intercalate ((sortB m).map (fun b => s!"{b.key}:{b.users}:{showLims b.lims}"))

def showScope (c : Cfg) (g : Group) (sc : Sc) : String :=
  if c.on sc then showSet (g.bk sc) else "off"

def snapshot (c : Cfg) (g : Group) : String :=
  s!"A={showLims g.glob}|I={showScope c g .ip}|S={showScope c g .src}|D={showScope c g .dst}"

def showRes : Res → String
  | .ok => "ok" | .timeout => "timeout" | .full => "full" | .none => "none"

def isPanicked (s : St) : Bool :=
  match s.tasks[0]? with
  | some t => t.pc == .panicked
  | none => true

def resOf (s : St) : Res :=
  match s.tasks[0]? with
  | some t => t.res
  | none => .none

def start (c : Cfg) : St := step c (St.init c) .spawn

def nats (s : String) : Option (List Nat) := ((s.splitOn ".").drop 1).mapM String.toNat?

/-- Runs the calls in order on task 0; stops at a panic.  Returns the state and whether it panicked. -/
def runCalls (c : Cfg) (s : St) : List Call → St × Bool
  | [] => (s, false)
  | cl :: rest =>
    let s' := call c 0 s cl
    if isPanicked s' then (s', true) else runCalls c s' rest

/-! ### grp -/

def parseGrpOp (s : String) : Option Call :=
  match s.splitOn ".", nats s with
  | "T" :: _, some [a, b] => some (.takeMsg a b)
  | "D" :: _, some [a] => some (.takeDest a)
  | "R" :: _, some [a, b] => some (.relMsg a b)
  | "E" :: _, some [a] => some (.relDest a)
  | _, _ => none

def runGrp (c : Cfg) : St → List Call → List String → List String
  | _, [], acc => acc.reverse
  | s, cl :: rest, acc =>
    let s' := call c 0 s cl
    if isPanicked s' then ("panic" :: acc).reverse
    else runGrp c s' rest (s!"{showRes (resOf s')}@{snapshot c s'.g}" :: acc)

/-! ### bs -/

inductive BsOp | t (k : Nat) | r (k : Nat) | a (n : Nat)

def parseBsOp (s : String) : Option BsOp :=
  match s.splitOn ".", nats s with
  | "t" :: _, some [a] => some (.t a)
  | "r" :: _, some [a] => some (.r a)
  | "a" :: _, some [a] => some (.a a)
  | _, _ => none

def runBs (c : Cfg) : St → List BsOp → List String → List String
  | _, [], acc => acc.reverse
  | s, .a n :: rest, acc =>
    let s' := step c s (.adv n)
    runBs c s' rest (s!"adv@{showSet s'.g.dst}" :: acc)
  | s, .t k :: rest, acc =>
    let s' := call c 0 s (.takeDest k)
    if isPanicked s' then ("panic" :: acc).reverse
    else runBs c s' rest (s!"{showRes (resOf s')}@{showSet s'.g.dst}" :: acc)
  | s, .r k :: rest, acc =>
    let s' := call c 0 s (.relDest k)
    if isPanicked s' then ("panic" :: acc).reverse
    else runBs c s' rest (s!"ok@{showSet s'.g.dst}" :: acc)

/-! ### lifecycles: a command's calls; the first one, if it is a take, decides `takeOk` -/

def isTake : Call → Bool
  | .takeMsg _ _ => true
  | .takeDest _ => true
  | _ => false

/-- Executes a lifecycle command given as `f takeOk = (state', calls)`. -/
def runCmd {σ : Type} (c : Cfg) (s : St) (f : Bool → σ × List Call) : σ × St × Bool :=
  match (f true).2 with
  | cl :: _ =>
    if isTake cl then
      let s1 := call c 0 s cl
      if isPanicked s1 then ((f true).1, s1, true)
      else
        let ok := resOf s1 == .ok
        let r := f ok
        let r2 := runCalls c s1 (r.2.drop 1)
        (r.1, r2.1, r2.2)
    else
      let r := f true
      let r2 := runCalls c s r.2
      (r.1, r2.1, r2.2)
  | [] => ((f true).1, s, false)

def lookup {σ : Type} (m : List (Nat × σ)) (k : Nat) : Option σ := (m.find? (fun p => p.1 == k)).map (·.2)

def store {σ : Type} (m : List (Nat × σ)) (k : Nat) (v : σ) : List (Nat × σ) :=
  (k, v) :: m.filter (fun p => p.1 != k)

/-! ### sess -/

def parseClean (s : String) : Option (Option Nat) :=
  if s == "x" then some none else s.toNat?.map some

def runSess (c : Cfg) : St → List (Nat × Sess) → List String → List String → Option (List String)
  | _, _, [], acc => some acc.reverse
  | s, m, op :: rest, acc =>
    let f := op.splitOn "."
    let obs := fun (s' : St) => s!"-@{snapshot c s'.g}"
    match f with
    | ["o", sid, ip, d] =>
      match sid.toNat?, ip.toNat? with
      | some sid, some ip => runSess c s (store m sid { ip := ip, deferred := d == "1" }) rest (obs s :: acc)
      | _, _ => none
    | "m" :: sid :: raw :: clean :: so :: [] =>
      match sid.toNat?, raw.toNat?, parseClean clean with
      | some sid, some raw, some clean =>
        match lookup m sid with
        | none => none
        | some ss =>
          let r := runCmd c s (fun ok => ss.op ok (.mail raw clean (so == "1")))
          if r.2.2 then some ("panic" :: acc).reverse
          else runSess c r.2.1 (store m sid r.1) rest (obs r.2.1 :: acc)
      | _, _, _ => none
    | ["c", sid, so] =>
      match sid.toNat? with
      | some sid =>
        match lookup m sid with
        | none => none
        | some ss =>
          let r := runCmd c s (fun ok => ss.op ok (.rcpt (so == "1")))
          if r.2.2 then some ("panic" :: acc).reverse
          else runSess c r.2.1 (store m sid r.1) rest (obs r.2.1 :: acc)
      | none => none
    | "d" :: sid :: _ =>
      match sid.toNat? with
      | some sid =>
        match lookup m sid with
        | none => none
        | some ss =>
          let r := runCmd c s (fun ok => ss.op ok .data)
          if r.2.2 then some ("panic" :: acc).reverse
          else runSess c r.2.1 (store m sid r.1) rest (obs r.2.1 :: acc)
      | none => none
    | ["z", sid] =>
      match sid.toNat? with
      | some sid =>
        match lookup m sid with
        | none => none
        | some ss =>
          let r := runCmd c s (fun ok => ss.op ok .rset)
          if r.2.2 then some ("panic" :: acc).reverse
          else runSess c r.2.1 (store m sid r.1) rest (obs r.2.1 :: acc)
      | none => none
    | "q" :: sid :: _ =>
      match sid.toNat? with
      | some sid =>
        match lookup m sid with
        | none => none
        | some ss =>
          let r := runCmd c s (fun ok => ss.op ok .logout)
          if r.2.2 then some ("panic" :: acc).reverse
          else runSess c r.2.1 (m.filter (fun p => p.1 != sid)) rest (obs r.2.1 :: acc)
      | none => none
    | _ => none

/-! ### rem -/

/-- What the script note of an `a` op says. -/
structure Note where
  rc : RcptRes := .accepted
  /-- MAIL fails by the session being lost (421 / drop / time-out), not by a refusal -/
  mailLost : Bool := false
  /-- `omail…`: the next hop ends REUSED sessions only (MAIL on a new connection is accepted) -/
  oldOnly : Bool := false

/-- The notes of an `a` op (after `co.mo`): at most one script note — what the next hop did with RCPT / MAIL /
the connection before the greeting — and, last, the observation `P` (the pool handed out a usable connection of
an earlier delivery).  `none`: unknown note. -/
def parseNote1 (n : String) : Option Note :=
  if n == "rcptrej" then some { rc := .refused }
  else if ["rcpt421", "rcpt421c", "rcptdrop", "rcpttmo"].contains n then some { rc := .lost }
  else if ["mail421", "mail421c", "maildrop", "mailtmo"].contains n then some { mailLost := true }
  else if ["omail421", "omail421c", "omaildrop", "omailtmo"].contains n then some { mailLost := true, oldOnly := true }
  else if ["conndrop", "conntmo"].contains n then some {}
  else none

def parseNote : List String → Option (Note × Bool)
  | [] => some ({}, false)
  | ["P"] => some ({}, true)
  | [n] => (parseNote1 n).map (fun p => (p, false))
  | [n, "P"] => (parseNote1 n).map (fun p => (p, true))
  | _ => none

/-- The states of the MX world a `w` op may set (for NEW connections, from now on). -/
def worlds : List String :=
  ["ok", "nomx", "noa", "nullmx", "refuse", "greetdrop", "greettmo", "policy", "mxpolicy"]

def runRem (c : Cfg) (k : RemKeys) : St → List (Nat × Rem) → List String → List String → Option (List String)
  | _, _, [], acc => some acc.reverse
  | s, m, op :: rest, acc =>
    let f := op.splitOn "."
    let obs := fun (s' : St) => s!"-@{snapshot c s'.g}"
    match f with
    | "s" :: id :: ip :: dom :: flag =>
      match id.toNat?, ip.toNat?, dom.toNat?, flag == [] || flag == ["so"] || flag == ["rt"] with
      | some id, some ip, some dom, true =>
        let r0 : Rem := { ip := ip, dom := dom }
        let r := runCmd c s (fun ok => r0.op k ok .start)
        if r.2.2 then some ("panic" :: acc).reverse
        else runRem c k r.2.1 (if r.1.started then store m id r.1 else m) rest (obs r.2.1 :: acc)
      | _, _, _, _ => none
    | ["p", n] =>
      match n.toNat? with
      | some _ => runRem c k s m rest (obs s :: acc)
      | none => none
    | ["w", kind] =>
      -- the MX world changes: no Group call; what it means for later commands is on their own op (`co`)
      if worlds.contains kind then runRem c k s m rest (obs s :: acc) else none
    | "a" :: id :: dd :: co :: mo :: note =>
      match id.toNat?, dd.toNat?, parseNote note with
      | some id, some dd, some (nt, pooled) =>
        match lookup m id with
        | none => none
        | some rr =>
          -- MAIL is accepted on the connection that is used: `mo`, or — `omail…` — the connection is a new one
          let mailOk := mo == "1" || (nt.oldOnly && !pooled)
          let r := runCmd c s (fun ok => rr.op k ok (.addRcpt dd (co == "1") mailOk nt.rc pooled nt.mailLost))
          if r.2.2 then some ("panic" :: acc).reverse
          else runRem c k r.2.1 (store m id r.1) rest (obs r.2.1 :: acc)
      | _, _, _ => none
    | "x" :: id :: how =>
      match id.toNat? with
      | some id =>
        match lookup m id with
        | none => none
        | some rr =>
          -- Body (when the harness calls it) makes no Group call and keeps the state; then Close
          let rb := if how.head? == some "abort" || how.isEmpty then rr else (rr.op k true .body).1
          let r := runCmd c s (fun ok => rb.op k ok .close)
          if r.2.2 then some ("panic" :: acc).reverse
          else runRem c k r.2.1 (m.filter (fun p => p.1 != id)) rest (obs r.2.1 :: acc)
      | none => none
    | _ => none

def handle : List String → String
  | "grp" :: cfg :: ops =>
    match parseCfgK cfg ops, (dropKeys ops).mapM parseGrpOp with
    | some c, some calls => " ".intercalate (runGrp c (start c) calls [])
    | _, _ => "bad-op"
  | "bs" :: cfg :: ops =>
    match parseCfg cfg, ops.mapM parseBsOp with
    | some c, some bops =>
      let c' : Cfg := { all := [], ip := [], src := [], dst := c.ip, reap := c.reap, maxB := c.maxB }
      " ".intercalate (runBs c' (start c') bops [])
    | _, _ => "bad-op"
  | "sess" :: cfg :: ops =>
    match parseCfgK cfg ops with
    | some c =>
      match runSess c (start c) [] (dropKeys ops) [] with
      | some l => " ".intercalate l
      | none => "bad-op"
    | none => "bad-op"
  | "rem" :: cfg :: ops =>
    match parseCfgK cfg ops, parseRemKeys ops with
    | some c, some k =>
      match runRem c k (start c) [] (dropKeys ops) [] with
      | some l => " ".intercalate l
      | none => "bad-op"
    | _, _ => "bad-op"
  | _ => "bad-op"

end Driver.C11
