/-! Shared parsing helpers of the line-protocol driver (core Lean only). -/
namespace Driver

def hexDigit? (c : Char) : Option Nat :=
  if '0' ≤ c ∧ c ≤ '9' then some (c.toNat - '0'.toNat)
  else if 'a' ≤ c ∧ c ≤ 'f' then some (c.toNat - 'a'.toNat + 10)
  else if 'A' ≤ c ∧ c ≤ 'F' then some (c.toNat - 'A'.toNat + 10)
  else none

def hexNat? (s : String) : Option Nat :=
  if s.isEmpty then none else
  s.foldl (fun acc c => match acc, hexDigit? c with
    | some a, some d => some (a * 16 + d)
    | _, _ => none) (some 0)

/-- "-" or dot-separated hex code points. -/
def unhexRunes? (s : String) : Option (List Nat) :=
  if s == "-" then some [] else
  (s.splitOn ".").mapM hexNat?

def hexOfNat (n : Nat) : String :=
  String.ofList (Nat.toDigits 16 n)

def hexRunes (l : List Nat) : String :=
  if l.isEmpty then "-" else ".".intercalate (l.map hexOfNat)

/-- "-" or lowercase hex bytes. -/
def unhexBytes? (s : String) : Option (List Nat) :=
  if s == "-" then some [] else
  let cs := s.toList
  let rec go : List Char → Option (List Nat)
    | [] => some []
    | [_] => none
    | a :: b :: rest => do
      let x ← hexDigit? a
      let y ← hexDigit? b
      let r ← go rest
      pure ((x * 16 + y) :: r)
  go cs

def hexByte (n : Nat) : String :=
  let d := Nat.toDigits 16 (n % 256)
  String.ofList (if d.length < 2 then '0' :: d else d)

def hexBytes (l : List Nat) : String :=
  if l.isEmpty then "-" else String.join (l.map hexByte)

def tokens (line : String) : List String :=
  (line.splitOn " ").filter (· ≠ "")

end Driver
