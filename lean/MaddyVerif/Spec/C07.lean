import MaddyVerif.Model.Dmarc
/-!
# C07 — specification, written from the property text (not from the code)

The specification speaks about domains through a *domain theory* `T` (which names denote the same
domain; what the organizational domain of a name is).  It never mentions the public-suffix
library.  `Laws` states what must hold between the library primitives the code uses (`Prims`) and
the domain theory, on the set `WF` of domain names under consideration ("domains drawn from a
fixed set with known organizational domains").  `lawFailure` is the executable form of `Laws`
that the correspondence harness evaluates on the answers of the real libraries against a
hand-written list of organizational domains.

Only the data types (`Str`, `Mode`, `Policy`, `Record`, `Val`, `AuthRes`, `FieldParse`, `Txt`,
`Lookup`, `Reply`) are shared with the model.
-/
namespace MaddyVerif.C07
open MaddyVerif.Dmarc

/-- What is known about domain names. -/
structure DomainTheory where
  same : Str → Str → Bool          -- the two spellings denote the same domain name
  org : Str → Str                  -- the organizational domain (a public suffix is its own)

/-! ## Alignment (property: "identical in strict mode, same organizational domain in relaxed mode") -/

def specAligned (T : DomainTheory) (m : Mode) (fromD authD : Str) : Bool :=
  match m with
  | .strict => T.same fromD authD
  | .relaxed => T.same (T.org fromD) (T.org authD)

/-- The identity SPF authenticates: the MAIL FROM domain, HELO for the null reverse-path. -/
def specSpfIdentity (mailFrom helo : Str) : Str := if mailFrom = [] then helo else mailFrom

/-- "a passing DKIM signature or the passing SPF identity is aligned with the From-header domain" -/
def hasAlignedPass (T : DomainTheory) (r : Record) (fromD : Str) (results : List AuthRes) : Bool :=
  results.any fun
    | .dkim v d _ => v == .pass && specAligned T r.adkim fromD d
    | .spf v f h => v == .pass && specAligned T r.aspf fromD (specSpfIdentity f h)
    | .other => false

/-- "a temporary authentication error that leaves alignment undecided": a result with a temporary
error whose identifier is aligned (it would make the message pass if it were a pass). -/
def hasAlignedTempError (T : DomainTheory) (r : Record) (fromD : Str) (results : List AuthRes) : Bool :=
  results.any fun
    | .dkim v d _ => v == .temperror && specAligned T r.adkim fromD d
    | .spf v f h => v == .temperror && specAligned T r.aspf fromD (specSpfIdentity f h)
    | .other => false

/-- "both SPF and DKIM have been evaluated" -/
def bothEvaluated (results : List AuthRes) : Bool :=
  (results.any fun | .dkim _ _ _ => true | _ => false) &&
  (results.any fun | .spf v _ _ => v != .empty | _ => false)

/-! ## Author (property: "a header with no or several author addresses never obtains a pass") -/

/-- The author domain: defined only for exactly one From field holding exactly one address
with a domain. -/
def specAuthor : List FieldParse → Option Str
  | [.addrs [some d]] => some d
  | _ => none

/-! ## Policy discovery (RFC 7489 §6.6.3; property: lookup outcomes) -/

/-- What one DNS name publishes. -/
inductive PublishedAt
  | one (r : Record)      -- exactly one DMARC record, valid
  | invalid               -- exactly one DMARC record, not valid (e.g. no `p`)
  | multiple              -- several DMARC records
  | nothing               -- no DMARC record (no TXT, only other TXT strings, NXDOMAIN)
  | tempFail              -- temporary DNS failure
  | failed                -- any other lookup failure
deriving DecidableEq, Repr

def isDmarcTxt : Txt → Option (Option Record)
  | .junk => none
  | .dmarc r => some r

def publishedAt (dns : Str → Lookup) (name : Str) : PublishedAt :=
  match dns name with
  | .temp => .tempFail
  | .other => .failed
  | .notFound => .nothing
  | .ok txts =>
    match txts.filterMap isDmarcTxt with
    | [] => .nothing
    | [some r] => .one r
    | [none] => .invalid
    | _ => .multiple

inductive Discovery
  | found (r : Record) (forSubdomain : Bool)   -- the record that applies; is the author domain a subdomain of its publisher
  | noPolicy
  | tempFail
deriving DecidableEq, Repr

/-- The record at the author domain applies; without one there, the record of the organizational
domain applies (to a subdomain, unless the author domain is the organizational domain itself). -/
def discover (T : DomainTheory) (dns : Str → Lookup) (fromD : Str) : Discovery :=
  match publishedAt dns fromD with
  | .one r => .found r false
  | .tempFail => .tempFail
  | .nothing =>
    match publishedAt dns (T.org fromD) with
    | .one r => .found r (!T.same fromD (T.org fromD))
    | .tempFail => .tempFail
    | _ => .noPolicy
  | _ => .noPolicy

/-- "the published action for that domain (the subdomain policy for subdomains)" -/
def publishedAction (r : Record) (forSubdomain : Bool) : Policy :=
  if forSubdomain then (match r.sp with | some sp => sp | none => r.p) else r.p

/-! ## Expected outcome -/

/-- What happens to the message. -/
inductive Fate
  | refusedPermanently
  | refusedTemporarily
  | accepted (quarantined : Bool)
deriving DecidableEq, Repr

structure Expect where
  pass : Bool
  fate : Fate
deriving DecidableEq, Repr

/-- The property, as a function of the inputs (`priorQ`: the message was already flagged by an
earlier check).  Outside what the property speaks about (no single author; no usable policy; SPF
or DKIM not evaluated) nothing is applied: no pass, message accepted.  `pct` is taken to be absent
or 100. -/
def expect (T : DomainTheory) (dns : Str → Lookup) (hdr : List FieldParse) (results : List AuthRes)
    (priorQ : Bool) : Expect :=
  match specAuthor hdr with
  | none => ⟨false, .accepted priorQ⟩
  | some fromD =>
    match discover T dns fromD with
    | .tempFail => ⟨false, .refusedTemporarily⟩
    | .noPolicy => ⟨false, .accepted priorQ⟩
    | .found r sub =>
      if !bothEvaluated results then ⟨false, .accepted priorQ⟩
      else if hasAlignedPass T r fromD results then ⟨true, .accepted priorQ⟩
      else match publishedAction r sub with
        | .none => ⟨false, .accepted priorQ⟩
        | .quarantine => ⟨false, .accepted true⟩
        | .reject =>
          if hasAlignedTempError T r fromD results then ⟨false, .refusedTemporarily⟩
          else ⟨false, .refusedPermanently⟩

/-- Reading an SMTP outcome: a refusal counts only with a coherent class (basic 4xx/5xx together
with enhanced class 4/5). -/
def fateOf : Reply → Option Fate
  | .accept q => some (.accepted q)
  | .refuse code c _ _ =>
    if 400 ≤ code ∧ code < 500 ∧ c = 4 then some .refusedTemporarily
    else if 500 ≤ code ∧ code < 600 ∧ c = 5 then some .refusedPermanently
    else none

/-! ## Laws tying the library primitives to the domain theory -/

structure Laws (P : Prims) (T : DomainTheory) (WF : Str → Prop) : Prop where
  /-- EqualFold decides "same name". -/
  same_eqFold : ∀ x y, T.same x y = P.eqFold x y
  same_refl : ∀ x, T.same x x = true
  same_symm : ∀ x y, T.same x y = true → T.same y x = true
  same_trans : ∀ x y z, T.same x y = true → T.same y z = true → T.same x z = true
  /-- lower-casing does not change the name -/
  lower_same : ∀ x, WF x → T.same (P.lower x) x = true
  /-- the library reports "is a public suffix" consistently -/
  suffix_iff : ∀ x, WF x → (P.eqFold (P.lower x) (P.publicSuffix (P.lower x)) = true ↔ P.etld1 (P.lower x) = none)
  /-- eTLD+1 is the organizational domain -/
  org_etld1 : ∀ x o, WF x → P.etld1 (P.lower x) = some o → T.same (T.org x) o = true
  /-- a name without eTLD+1 (a public suffix) is its own organizational domain -/
  org_suffix : ∀ x, WF x → P.etld1 (P.lower x) = none → T.same (T.org x) x = true
  /-- a public suffix is nobody's eTLD+1 -/
  suffix_not_org : ∀ x y o, WF x → WF y → P.etld1 (P.lower x) = none → P.etld1 (P.lower y) = some o →
    T.same x o = false
  /-- a public suffix and a name that has an eTLD+1 are different names -/
  suffix_not_same : ∀ x y o, WF x → WF y → P.etld1 (P.lower x) = none → P.etld1 (P.lower y) = some o →
    T.same x y = false

def checkOne (ds : List Str) (name : String) (f : Str → Bool) : Option (String × List Str) :=
  (ds.find? fun x => !f x).map fun x => (name, [x])

def checkTwo (ds : List Str) (name : String) (f : Str → Str → Bool) : Option (String × List Str) :=
  ((ds.flatMap fun x => ds.map fun y => (x, y)).find? fun p => !f p.1 p.2).map fun p => (name, [p.1, p.2])

/-- Executable check of the laws over a finite list of names (the universal ones restricted to
the listed names): the first law that fails, with its witnesses.  `Props/C07.lean` proves that
`none` means that every law holds on the list (`C07_lawFailure_sound`). -/
def lawFailure (P : Prims) (T : DomainTheory) (ds : List Str) : Option (String × List Str) :=
  (checkTwo ds "same_eqFold" fun x y => T.same x y == P.eqFold x y)
  <|> (checkOne ds "same_refl" fun x => T.same x x)
  <|> (checkTwo ds "same_symm" fun x y => !T.same x y || T.same y x)
  <|> (checkTwo ds "same_trans" fun x y => ds.all fun z => !(T.same x y && T.same y z) || T.same x z)
  <|> (checkOne ds "lower_same" fun x => T.same (P.lower x) x)
  <|> (checkOne ds "suffix_iff" fun x =>
        P.eqFold (P.lower x) (P.publicSuffix (P.lower x)) == (P.etld1 (P.lower x)).isNone)
  <|> (checkOne ds "org_etld1" fun x => match P.etld1 (P.lower x) with | some o => T.same (T.org x) o | none => true)
  <|> (checkOne ds "org_suffix" fun x => match P.etld1 (P.lower x) with | some _ => true | none => T.same (T.org x) x)
  <|> (checkTwo ds "suffix_not_org" fun x y => match P.etld1 (P.lower x), P.etld1 (P.lower y) with
        | none, some o => !T.same x o | _, _ => true)
  <|> (checkTwo ds "suffix_not_same" fun x y => match P.etld1 (P.lower x), P.etld1 (P.lower y) with
        | none, some _ => !T.same x y | _, _ => true)

end MaddyVerif.C07
