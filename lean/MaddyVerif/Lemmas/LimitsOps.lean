import MaddyVerif.Lemmas.LimitsTok
/-! C11: effect of every limiter operation on the group state, in terms of `lenOf`. -/
namespace MaddyVerif.Limits

/-! ### single limiters -/

def LimSt.real (l : LimSt) : Prop := l.kind = .sem ∧ 0 < l.cap

theorem take_spec (l l' : LimSt) (hle : l.len ≤ l.cap) (h : l.take = some l') :
    l'.kind = l.kind ∧ l'.cap = l.cap ∧ l'.len ≤ l'.cap ∧ (l.real → l'.len = l.len + 1) := by
  unfold LimSt.take at h
  by_cases hc : l.cap = 0
  · simp [hc] at h; subst h; simp [LimSt.real, hc]; omega
  · simp [hc] at h
    cases hk : l.kind <;> simp [hk] at h
    · obtain ⟨hlt, rfl⟩ := h
      simp [LimSt.real, hk]; omega
    · obtain ⟨hlt, rfl⟩ := h
      simp [LimSt.real, hk]; omega

theorem release_spec (l l' : LimSt) (hle : l.len ≤ l.cap) (h : l.release = some l') :
    l'.kind = l.kind ∧ l'.cap = l.cap ∧ l'.len ≤ l'.cap ∧ (l.real → l'.len + 1 = l.len) := by
  unfold LimSt.release at h
  by_cases hc : l.cap = 0
  · simp [hc] at h; subst h; simp [LimSt.real, hc]; omega
  · simp [hc] at h
    cases hk : l.kind <;> simp [hk] at h
    · obtain ⟨hlt, rfl⟩ := h
      simp [LimSt.real, hk]; omega
    · subst h; simp [LimSt.real, hk, hle]

theorem release_some (l : LimSt) (h : l.real → 0 < l.len) : ∃ l', l.release = some l' := by
  unfold LimSt.release
  by_cases hc : l.cap = 0
  · simp [hc]
  · simp [hc]
    cases hk : l.kind <;> simp
    exact h ⟨hk, by omega⟩

theorem refill_spec (l : LimSt) :
    l.refill.kind = l.kind ∧ l.refill.cap = l.cap ∧ (l.len ≤ l.cap → l.refill.len ≤ l.refill.cap) ∧
      (l.real → l.refill.len = l.len) := by
  unfold LimSt.refill
  cases hk : l.kind <;> simp [LimSt.real, hk]

/-! ### shape of a MultiLimit -/

/-- The limiter objects are those built from the directive list, and no channel is over-full. -/
def shaped (ctors : List Lim) (lims : List LimSt) : Prop :=
  lims.length = ctors.length ∧
  ∀ (i : Nat) (l : LimSt), lims[i]? = some l → ∃ ct : Lim, ctors[i]? = some ct ∧ l.kind = ct.kind ∧ l.cap = ct.n.toNat ∧ l.len ≤ l.cap

theorem shaped_new (ctors : List Lim) : shaped ctors (ctors.map Lim.new) := by
  refine ⟨by simp, ?_⟩
  intro i l h
  simp at h
  obtain ⟨ct, hct, rfl⟩ := h
  refine ⟨ct, hct, ?_⟩
  unfold Lim.new
  cases ct.kind <;> simp

theorem shaped_set (ctors : List Lim) (lims : List LimSt) (i : Nat) (l l' : LimSt)
    (hs : shaped ctors lims) (hl : lims[i]? = some l)
    (hk : l'.kind = l.kind) (hc : l'.cap = l.cap) (hle : l'.len ≤ l'.cap) :
    shaped ctors (lims.set i l') := by
  refine ⟨by simp [hs.1], ?_⟩
  intro j x hx
  rw [List.getElem?_set] at hx
  by_cases hij : i = j
  · subst hij
    simp at hx
    obtain ⟨_, rfl⟩ := hx
    obtain ⟨ct, h1, h2, h3, _⟩ := hs.2 i l hl
    exact ⟨ct, h1, by rw [hk, h2], by rw [hc, h3], hle⟩
  · simp [hij] at hx
    exact hs.2 j x hx

theorem realSem_iff (ctors : List Lim) (lims : List LimSt) (i : Nat) (l : LimSt)
    (hs : shaped ctors lims) (hl : lims[i]? = some l) : realSem ctors[i]? = true ↔ l.real := by
  obtain ⟨ct, h1, h2, h3, _⟩ := hs.2 i l hl
  simp [h1, realSem, LimSt.real, h2, h3]

theorem shaped_lt (ctors : List Lim) (lims : List LimSt) (i : Nat) (hs : shaped ctors lims)
    (hi : i < ctors.length) : ∃ l, lims[i]? = some l := by
  have : i < lims.length := by rw [hs.1]; exact hi
  exact ⟨lims[i], by simp [this]⟩

/-! ### bucket maps -/

theorem find?_congr' {α : Type} (p q : α → Bool) (l : List α) (h : ∀ a ∈ l, p a = q a) :
    l.find? p = l.find? q := by
  induction l with
  | nil => rfl
  | cons a l ih =>
    simp [List.find?_cons, h a (by simp)]
    rw [ih (fun x hx => h x (by simp [hx]))]

theorem bk_setBk (g : Group) (sc sc' : Sc) (m : List Bucket) :
    (g.setBk sc m).bk sc' = if sc' = sc then m else g.bk sc' := by
  cases sc <;> cases sc' <;> simp [Group.setBk, Group.bk]

@[simp] theorem glob_setBk (g : Group) (sc : Sc) (m : List Bucket) : (g.setBk sc m).glob = g.glob := by
  cases sc <;> rfl

theorem findB_updB (m : List Bucket) (k k' : Nat) (f : Bucket → Bucket) (hf : ∀ b, (f b).key = b.key) :
    findB (updB m k f) k' = (findB m k').map (fun b => if b.key == k then f b else b) := by
  unfold findB updB
  rw [List.find?_map]
  congr 1
  apply find?_congr'
  intro b _
  simp only [Function.comp]
  split <;> simp [hf]

theorem keys_updB (m : List Bucket) (k : Nat) (f : Bucket → Bucket) (hf : ∀ b, (f b).key = b.key) :
    (updB m k f).map (·.key) = m.map (·.key) := by
  unfold updB
  rw [List.map_map]
  apply List.map_congr_left
  intro b _
  simp only [Function.comp]
  split <;> simp [hf]

theorem findB_some (m : List Bucket) (k : Nat) (b : Bucket) (h : findB m k = some b) : b ∈ m ∧ b.key = k := by
  unfold findB at h
  have h1 := List.mem_of_find?_eq_some h
  have h2 := List.find?_some h
  simp at h2
  exact ⟨h1, h2⟩

theorem findB_of_mem (m : List Bucket) (b : Bucket) (hn : (m.map (·.key)).Nodup) (hb : b ∈ m) :
    findB m b.key = some b := by
  induction m with
  | nil => simp at hb
  | cons a m ih =>
    simp [List.nodup_cons] at hn
    simp at hb
    unfold findB
    rcases hb with rfl | hb
    · simp
    · have hne : a.key ≠ b.key := by
        intro h
        exact hn.1 b hb h.symm
      simp [hne]
      exact ih hn.2 hb

theorem findB_none (m : List Bucket) (k : Nat) (h : findB m k = none) : ∀ b ∈ m, b.key ≠ k := by
  unfold findB at h
  simp at h
  exact h


theorem findB_updB_same (m : List Bucket) (k : Nat) (f : Bucket → Bucket) (bk : Bucket)
    (hf : ∀ b, (f b).key = b.key) (h : findB m k = some bk) : findB (updB m k f) k = some (f bk) := by
  rw [findB_updB m k k f hf, h]
  simp [(findB_some m k bk h).2]

theorem findB_updB_none (m : List Bucket) (k k' : Nat) (f : Bucket → Bucket)
    (hf : ∀ b, (f b).key = b.key) (h : findB m k' = none) : findB (updB m k f) k' = none := by
  rw [findB_updB m k k' f hf, h]; rfl

theorem findB_updB_ne (m : List Bucket) (k k' : Nat) (f : Bucket → Bucket)
    (hf : ∀ b, (f b).key = b.key) (h : k' ≠ k) : findB (updB m k f) k' = findB m k' := by
  rw [findB_updB m k k' f hf]
  cases hb : findB m k' with
  | none => rfl
  | some b =>
    have := (findB_some m k' b hb).2
    simp [this, h]

theorem mem_updB (m : List Bucket) (k : Nat) (f : Bucket → Bucket) (b : Bucket) (h : b ∈ updB m k f) :
    ∃ b0 ∈ m, b = b0 ∨ b = f b0 := by
  unfold updB at h
  simp at h
  obtain ⟨b0, hb0, rfl⟩ := h
  refine ⟨b0, hb0, ?_⟩
  split <;> simp

/-! ### group invariant -/

structure GInv (c : Cfg) (g : Group) : Prop where
  glob : shaped c.all g.glob
  bk : ∀ sc, ∀ b ∈ g.bk sc, shaped (c.ctors sc) b.lims
  nodup : ∀ sc, ((g.bk sc).map (·.key)).Nodup

theorem GInv.init (c : Cfg) : GInv c (Group.init c) := by
  refine ⟨shaped_new _, ?_, ?_⟩
  · intro sc b hb; cases sc <;> simp [Group.init, Group.bk] at hb
  · intro sc; cases sc <;> simp [Group.init, Group.bk]

theorem lenOf_glob (g : Group) (gl : List LimSt) (tok : Tok) :
    lenOf { g with glob := gl } tok = match tok with
      | .g j => limLen gl[j]?
      | t => lenOf g t := by
  cases tok with
  | g j => rfl
  | b sc k i => cases sc <;> rfl
  | use sc k => cases sc <;> rfl

/-- `GInv` after replacing the bucket map of one scope. -/
theorem GInv.setBk (c : Cfg) (g : Group) (sc : Sc) (m : List Bucket) (h : GInv c g)
    (hs : ∀ b ∈ m, shaped (c.ctors sc) b.lims) (hn : (m.map (·.key)).Nodup) : GInv c (g.setBk sc m) := by
  refine ⟨by simpa using h.glob, ?_, ?_⟩
  · intro sc' b hb
    rw [bk_setBk] at hb
    by_cases e : sc' = sc
    · subst e; simp at hb; exact hs b hb
    · simp [e] at hb; exact h.bk sc' b hb
  · intro sc'
    rw [bk_setBk]
    by_cases e : sc' = sc
    · subst e; simpa using hn
    · simp [e]; exact h.nodup sc'

/-- `lenOf` after replacing the bucket map of one scope, in terms of the look-ups. -/
theorem lenOf_setBk (g : Group) (sc : Sc) (m : List Bucket) (tok : Tok) :
    lenOf (g.setBk sc m) tok = match tok with
      | .g j => lenOf g (.g j)
      | .b sc' k i => if sc' = sc then bLen (findB m k) i else lenOf g (.b sc' k i)
      | .use sc' k => if sc' = sc then bUsers (findB m k) else lenOf g (.use sc' k) := by
  cases tok with
  | g j => simp [lenOf]
  | b sc' k i => simp only [lenOf, bk_setBk]; split <;> rfl
  | use sc' k => simp only [lenOf, bk_setBk]; split <;> rfl

end MaddyVerif.Limits
