import MaddyVerif.Lemmas.PoolInv
/-! Helper lemmas for C19: every step of every goroutine preserves the structural invariant `SInv`. -/
namespace MaddyVerif.C19
open MaddyVerif.Pool

theorem sinv_gLock {s s' : St} {i p : Nat} {k prog held} (hinv : SInv s) (ht : s.tasks[i]? = some ⟨.gLock k, prog, held⟩)
    (hstep : stepTask s i ⟨.gLock k, prog, held⟩ p = some s') : SInv s' := by
  simp only [stepTask] at hstep
  split at hstep
  · simp at hstep
  · rename_i hlk
    have hln := lock_none_of hlk
    split at hstep
    · split at hstep <;> (simp only [Option.some.injEq] at hstep; subst hstep)
      · exact SInv_frame hinv ht rfl (Or.inl rfl) ⟨rfl, rfl, fun _ => rfl⟩ rfl (by simp) trivial
      · exact SInv_frame hinv ht rfl (Or.inl rfl) (frame_miss ..) rfl (by simp) trivial
    · rename_i h hlook
      have hmem := lookup_mem hlook
      have hopen := hinv.keysOpen h hmem
      split at hstep
      · rename_i hnone
        obtain ⟨ch, hch, _⟩ := hopen
        rw [hch] at hnone; simp at hnone
      · rename_i ch hch
        split at hstep
        · simp only [Option.some.injEq] at hstep; subst hstep
          refine SInv_lock hinv ht (Or.inl hln) (Nat.le_refl _) (Or.inl rfl) (Or.inr ⟨rfl, rfl⟩) (by simp) ?_ ?_ ?_
          · simp only [PcOK, setTask]
            exact ⟨open_same rfl hopen, fun hh => ((List.Nodup.mem_erase_iff hinv.keysNodup).mp hh).1 rfl⟩
          · intro x hx
            exact open_same rfl (hinv.keysOpen x (List.mem_of_mem_erase hx))
          · exact hinv.keysNodup.erase _
        · simp only [Option.some.injEq] at hstep; subst hstep
          exact SInv_frame hinv ht rfl (Or.inl rfl) ⟨rfl, rfl, fun _ => rfl⟩ rfl (by simp) (open_lt hopen)


theorem sinv_gDropClose {s s' : St} {i p : Nat} {k h prog held} (hinv : SInv s) (ht : s.tasks[i]? = some ⟨.gDropClose k h, prog, held⟩)
    (hstep : stepTask s i ⟨.gDropClose k h, prog, held⟩ p = some s') : SInv s' := by
  have hpc := (hinv.tasks i _ ht).2.2
  simp only [PcOK] at hpc
  obtain ⟨hopen, hnk⟩ := hpc
  have hl := holder_of_locked hinv ht rfl
  simp only [stepTask] at hstep
  split at hstep
  · rename_i hcl
    exfalso
    obtain ⟨ch, hch, hop⟩ := hopen
    simp [closeChan, hch, hop] at hcl
  · rename_i s1 hcl
    obtain ⟨ch, hch, hop, rfl⟩ := closeChan_some hcl
    simp only [Option.some.injEq] at hstep; subst hstep
    refine SInv_lock hinv ht hl (by simp [setTask]) (Or.inl rfl) (Or.inr ⟨(hinv.tasks i _ ht).1 rfl, rfl⟩) (by simp) ?_ ?_ hinv.keysNodup
    · simp only [PcOK, setTask]
      exact closed_set_same rfl hch rfl
    · intro x hx
      have hne : x ≠ h := fun e => hnk (e ▸ hx)
      exact open_set_other rfl hne (hinv.keysOpen x hx)

theorem recv_closed_not_block {s : St} {h : Nat} (hc : chanClosed s h) : recv s h ≠ .wouldBlock ∧ recv s h ≠ .noChan := by
  obtain ⟨ch, hch, hcl⟩ := hc
  unfold recv
  rw [hch]
  constructor <;> (dsimp only; split <;> simp [hcl])

theorem set_self {α} {l : List α} {i : Nat} {a : α} (h : l[i]? = some a) : l.set i a = l := by
  apply List.ext_getElem?
  intro j
  rw [List.getElem?_set]
  split
  · rename_i e; subst e
    have hl := lt_of_getElem? h
    simp [hl]
    have := List.getElem?_eq_getElem hl
    rw [h] at this; simp at this; exact this
  · rfl

theorem sinv_gDrain {s s' : St} {i p : Nat} {k h prog held} (hinv : SInv s) (ht : s.tasks[i]? = some ⟨.gDrain k h, prog, held⟩)
    (hstep : stepTask s i ⟨.gDrain k h, prog, held⟩ p = some s') : SInv s' := by
  have hpc := (hinv.tasks i _ ht).2.2
  simp only [PcOK] at hpc
  have hl := holder_of_locked hinv ht rfl
  have hlk := (hinv.tasks i _ ht).1 rfl
  have hnb := recv_closed_not_block hpc
  have hi := lt_of_getElem? ht
  simp only [stepTask] at hstep
  split at hstep
  · rename_i c s1 hr
    obtain ⟨ch, rest, hch, hbuf, rfl⟩ := recv_conn hr
    simp only [Option.some.injEq] at hstep; subst hstep
    refine SInv_lock (t' := ⟨.gDrain k h, prog, held⟩) hinv ht hl (by simp [spawnCloser]) (Or.inr ⟨c, ?_⟩) (Or.inr ⟨hlk, rfl⟩) (by simp) ?_ ?_ hinv.keysNodup
    · simp only [spawnCloser]
      congr 1
      exact (set_self ht).symm
    · simp only [PcOK, spawnCloser]
      obtain ⟨ch0, hch0, hcl0⟩ := hpc
      rw [hch] at hch0; simp at hch0; subst hch0
      exact closed_set_same rfl hch hcl0
    · intro x hx
      obtain ⟨cx, hcx, hox⟩ := hinv.keysOpen x hx
      by_cases hxe : x = h
      · subst hxe
        exact open_set_same rfl hch (by rw [hch] at hcx; simp at hcx; subst hcx; exact hox)
      · exact open_set_other rfl hxe ⟨cx, hcx, hox⟩
  · split at hstep <;> (simp only [Option.some.injEq] at hstep; subst hstep)
    · refine SInv_lock hinv ht hl (by simp [setTask]) (Or.inl rfl) (Or.inl ⟨rfl, rfl⟩) (by simp) trivial ?_ hinv.keysNodup
      intro x hx
      exact open_same rfl (hinv.keysOpen x hx)
    · refine SInv_lock hinv ht hl (by simp [miss, setTask]) (Or.inl rfl) (Or.inl ⟨rfl, rfl⟩) (by simp) trivial ?_ hinv.keysNodup
      intro x hx
      exact open_same rfl (hinv.keysOpen x hx)
  · rename_i hr; exact absurd hr hnb.1
  · rename_i hr; exact absurd hr hnb.2


theorem sinv_mkBucket {s : St} {i : Nat} {t : Task} (hinv : SInv s) (ht : s.tasks[i]? = some t)
    (hl : s.lock = none ∨ s.lock = some i) (k c : Nat) : SInv (mkBucket s i t k c) := by
  refine SInv_lock hinv ht hl (by simp [mkBucket, setTask]) (Or.inl rfl) (Or.inr ⟨rfl, rfl⟩) (by simp) ?_ ?_ ?_
  · simp [PcOK, mkBucket, setTask]
  · intro x hx
    simp only [mkBucket, setTask, List.mem_append, List.mem_singleton] at hx
    rcases hx with hx | rfl
    · exact open_append (n := { key := k, cap := s.cfg.maxConns, born := s.now, buf := [], closed := false }) rfl (hinv.keysOpen x hx)
    · exact ⟨{ key := k, cap := s.cfg.maxConns, born := s.now, buf := [], closed := false }, by simp [mkBucket, setTask], rfl⟩
  · simp only [mkBucket, setTask]
    refine List.nodup_append.mpr ⟨hinv.keysNodup, by simp, ?_⟩
    intro a ha b hb
    simp at hb; subst hb
    have := open_lt (hinv.keysOpen a ha)
    omega

theorem sinv_rLock {s s' : St} {i p : Nat} {k c prog held} (hinv : SInv s) (ht : s.tasks[i]? = some ⟨.rLock k c, prog, held⟩)
    (hstep : stepTask s i ⟨.rLock k c, prog, held⟩ p = some s') : SInv s' := by
  simp only [stepTask] at hstep
  split at hstep
  · simp at hstep
  · rename_i hlk
    have hln := lock_none_of hlk
    split at hstep
    · simp only [Option.some.injEq] at hstep; subst hstep
      exact SInv_frame hinv ht rfl (Or.inl rfl) ⟨rfl, rfl, fun _ => rfl⟩ rfl (by simp) trivial
    · split at hstep
      · rename_i h hlook
        simp only [Option.some.injEq] at hstep; subst hstep
        refine SInv_lock hinv ht (Or.inl hln) (Nat.le_refl _) (Or.inl rfl) (Or.inr ⟨rfl, rfl⟩) (by simp) ?_ hinv.keysOpen hinv.keysNodup
        simp only [PcOK, setTask]; exact lookup_mem hlook
      · split at hstep
        · split at hstep
          · rename_i h td hp
            simp only [Option.some.injEq] at hstep; subst hstep
            obtain ⟨h1, h2, h3, h4, _⟩ := pickOf_some hp hinv.keysNodup
            refine SInv_lock hinv ht (Or.inl hln) (Nat.le_refl _) (Or.inl rfl) (Or.inr ⟨rfl, rfl⟩) (by simp) ?_ hinv.keysOpen hinv.keysNodup
            simp only [PcOK, setTask, TdOK]; exact ⟨h1, h2, h3, h4⟩
          · simp only [Option.some.injEq] at hstep; subst hstep
            exact sinv_mkBucket hinv ht (Or.inl hln) k c
        · simp only [Option.some.injEq] at hstep; subst hstep
          exact sinv_mkBucket hinv ht (Or.inl hln) k c


theorem open_set_buf {s s' : St} {h x : Nat} {ch : Chan} {r : List Nat} (hc : s'.chans = s.chans.set h { ch with buf := r })
    (hch : s.chans[h]? = some ch) (ho : chanOpen s x) : chanOpen s' x := by
  by_cases hxe : x = h
  · subst hxe
    obtain ⟨c0, hc0, ho0⟩ := ho
    rw [hch] at hc0; simp at hc0; subst hc0
    exact open_set_same hc hch ho0
  · exact open_set_other hc hxe ho

theorem closed_set_buf' {s s' : St} {h x : Nat} {ch : Chan} {r : List Nat} (hc : s'.chans = s.chans.set h { ch with buf := r })
    (hch : s.chans[h]? = some ch) (ho : chanClosed s x) : chanClosed s' x := by
  by_cases hxe : x = h
  · subst hxe
    obtain ⟨c0, hc0, ho0⟩ := ho
    rw [hch] at hc0; simp at hc0; subst hc0
    exact closed_set_same hc hch ho0
  · exact closed_set_other hc hxe ho

theorem not_mem_erase_self {l : List Nat} {h : Nat} (hnd : l.Nodup) : h ∉ l.erase h :=
  fun hh => ((List.Nodup.mem_erase_iff hnd).mp hh).1 rfl

theorem TdOK_erase {s s' : St} {td : List Nat} {h : Nat} (hk : s'.keys = s.keys.erase h) (hnot : h ∉ td) (htd : TdOK s td) : TdOK s' td := by
  refine ⟨htd.1, fun x hx => ?_⟩
  rw [hk]
  exact (List.mem_erase_of_ne (fun e => hnot (by rw [← e]; exact hx))).mpr (htd.2 x hx)

theorem TdOK_sub {s s' : St} {td td' : List Nat} (hk : s'.keys = s.keys) (hnd : td'.Nodup) (hsub : ∀ x ∈ td', x ∈ td)
    (htd : TdOK s td) : TdOK s' td' :=
  ⟨hnd, fun x hx => by rw [hk]; exact htd.2 x (hsub x hx)⟩

theorem sinv_rIter {s s' : St} {i p : Nat} {k c h td prog held} (hinv : SInv s) (ht : s.tasks[i]? = some ⟨.rIter k c h td, prog, held⟩)
    (hstep : stepTask s i ⟨.rIter k c h td, prog, held⟩ p = some s') : SInv s' := by
  have hpc := (hinv.tasks i _ ht).2.2
  simp only [PcOK] at hpc
  obtain ⟨hk, hntd, htd⟩ := hpc
  have hl := holder_of_locked hinv ht rfl
  have hlk := (hinv.tasks i _ ht).1 rfl
  have hopen := hinv.keysOpen h hk
  simp only [stepTask] at hstep
  split at hstep
  · rename_i hnone
    obtain ⟨ch, hch, _⟩ := hopen
    rw [hch] at hnone; simp at hnone
  · split at hstep
    · simp only [Option.some.injEq] at hstep; subst hstep
      refine SInv_lock hinv ht hl (Nat.le_refl _) (Or.inl rfl) (Or.inr ⟨hlk, rfl⟩) (by simp) ?_ ?_ (hinv.keysNodup.erase _)
      · simp only [PcOK, setTask]
        exact ⟨open_same rfl hopen, not_mem_erase_self hinv.keysNodup, TdOK_erase rfl hntd htd⟩
      · intro x hx
        exact open_same rfl (hinv.keysOpen x (List.mem_of_mem_erase hx))
    · split at hstep
      · rename_i h' td' hp
        simp only [Option.some.injEq] at hstep; subst hstep
        obtain ⟨h1, h2, h3, h4, _⟩ := pickOf_some hp htd.1
        refine SInv_lock hinv ht hl (Nat.le_refl _) (Or.inl rfl) (Or.inr ⟨hlk, rfl⟩) (by simp) ?_ hinv.keysOpen hinv.keysNodup
        simp only [PcOK, setTask]
        exact ⟨htd.2 h' h1, h2, TdOK_sub rfl h3 h4 htd⟩
      · simp only [Option.some.injEq] at hstep; subst hstep
        exact sinv_mkBucket hinv ht hl k c

theorem closeChan_open {s : St} {h : Nat} (ho : chanOpen s h) : closeChan s h ≠ none := by
  obtain ⟨ch, hch, hop⟩ := ho
  simp [closeChan, hch, hop]

theorem sinv_rClose {s s' : St} {i p : Nat} {k c h td prog held} (hinv : SInv s) (ht : s.tasks[i]? = some ⟨.rClose k c h td, prog, held⟩)
    (hstep : stepTask s i ⟨.rClose k c h td, prog, held⟩ p = some s') : SInv s' := by
  have hpc := (hinv.tasks i _ ht).2.2
  simp only [PcOK] at hpc
  obtain ⟨hopen, hnk, htd⟩ := hpc
  have hl := holder_of_locked hinv ht rfl
  have hlk := (hinv.tasks i _ ht).1 rfl
  simp only [stepTask] at hstep
  split at hstep
  · rename_i hcl; exact absurd hcl (closeChan_open hopen)
  · rename_i s1 hcl
    obtain ⟨ch, hch, hop, rfl⟩ := closeChan_some hcl
    simp only [Option.some.injEq] at hstep; subst hstep
    refine SInv_lock hinv ht hl (by simp [setTask]) (Or.inl rfl) (Or.inr ⟨hlk, rfl⟩) (by simp) ?_ ?_ hinv.keysNodup
    · simp only [PcOK, setTask]
      exact ⟨closed_set_same rfl hch rfl, TdOK_sub rfl htd.1 (fun _ hx => hx) htd⟩
    · intro x hx
      have hne : x ≠ h := fun e => hnk (e ▸ hx)
      exact open_set_other rfl hne (hinv.keysOpen x hx)

theorem sinv_rDrain {s s' : St} {i p : Nat} {k c h td prog held} (hinv : SInv s) (ht : s.tasks[i]? = some ⟨.rDrain k c h td, prog, held⟩)
    (hstep : stepTask s i ⟨.rDrain k c h td, prog, held⟩ p = some s') : SInv s' := by
  have hpc := (hinv.tasks i _ ht).2.2
  simp only [PcOK] at hpc
  obtain ⟨hclosed, htd⟩ := hpc
  have hl := holder_of_locked hinv ht rfl
  have hlk := (hinv.tasks i _ ht).1 rfl
  have hnb := recv_closed_not_block hclosed
  simp only [stepTask] at hstep
  split at hstep
  · rename_i c' s1 hr
    obtain ⟨ch, rest, hch, hbuf, rfl⟩ := recv_conn hr
    simp only [Option.some.injEq] at hstep; subst hstep
    refine SInv_lock hinv ht hl (by simp [setTask]) (Or.inl rfl) (Or.inr ⟨hlk, rfl⟩) (by simp) ?_ ?_ hinv.keysNodup
    · simp only [PcOK, setTask]
      exact ⟨closed_set_buf' rfl hch hclosed, TdOK_sub rfl htd.1 (fun _ hx => hx) htd⟩
    · intro x hx
      exact open_set_buf rfl hch (hinv.keysOpen x hx)
  · split at hstep
    · rename_i h' td' hp
      simp only [Option.some.injEq] at hstep; subst hstep
      obtain ⟨h1, h2, h3, h4, _⟩ := pickOf_some hp htd.1
      refine SInv_lock hinv ht hl (Nat.le_refl _) (Or.inl rfl) (Or.inr ⟨hlk, rfl⟩) (by simp) ?_ hinv.keysOpen hinv.keysNodup
      simp only [PcOK, setTask]
      exact ⟨htd.2 h' h1, h2, TdOK_sub rfl h3 h4 htd⟩
    · simp only [Option.some.injEq] at hstep; subst hstep
      exact sinv_mkBucket hinv ht hl k c
  · rename_i hr; exact absurd hr hnb.1
  · rename_i hr; exact absurd hr hnb.2

theorem sinv_rDrainClose {s s' : St} {i p : Nat} {k c h td c' prog held} (hinv : SInv s)
    (ht : s.tasks[i]? = some ⟨.rDrainClose k c h td c', prog, held⟩)
    (hstep : stepTask s i ⟨.rDrainClose k c h td c', prog, held⟩ p = some s') : SInv s' := by
  have hpc := (hinv.tasks i _ ht).2.2
  simp only [PcOK] at hpc
  have hl := holder_of_locked hinv ht rfl
  have hlk := (hinv.tasks i _ ht).1 rfl
  simp only [stepTask, Option.some.injEq] at hstep; subst hstep
  exact SInv_lock hinv ht hl (Nat.le_refl _) (Or.inl rfl) (Or.inr ⟨hlk, rfl⟩) (by simp) hpc hinv.keysOpen hinv.keysNodup

theorem sinv_rSel {s s' : St} {i p : Nat} {k c h prog held} (hinv : SInv s) (ht : s.tasks[i]? = some ⟨.rSel k c h, prog, held⟩)
    (hstep : stepTask s i ⟨.rSel k c h, prog, held⟩ p = some s') : SInv s' := by
  have hpc := (hinv.tasks i _ ht).2.2
  simp only [PcOK] at hpc
  have hl := holder_of_locked hinv ht rfl
  obtain ⟨ch, hch, hop⟩ := hinv.keysOpen h hpc
  simp only [stepTask, hch] at hstep
  split at hstep
  · rename_i hc; rw [hop] at hc; simp at hc
  split at hstep
  · simp only [Option.some.injEq] at hstep; subst hstep
    refine SInv_lock hinv ht hl (by simp [setTask]) (Or.inl rfl) (Or.inl ⟨rfl, rfl⟩) (by simp) trivial ?_ hinv.keysNodup
    intro x hx
    exact open_set_buf rfl hch (hinv.keysOpen x hx)
  · simp only [Option.some.injEq] at hstep; subst hstep
    exact SInv_lock hinv ht hl (Nat.le_refl _) (Or.inr ⟨c, rfl⟩) (Or.inl ⟨rfl, rfl⟩) (by simp) trivial hinv.keysOpen hinv.keysNodup


theorem sinv_cLock {s s' : St} {i p : Nat} {prog held} (hinv : SInv s) (ht : s.tasks[i]? = some ⟨.cLock, prog, held⟩)
    (hstep : stepTask s i ⟨.cLock, prog, held⟩ p = some s') : SInv s' := by
  simp only [stepTask] at hstep
  split at hstep
  · simp at hstep
  · rename_i hlk
    have hln := lock_none_of hlk
    split at hstep
    · rename_i h td hp
      simp only [Option.some.injEq] at hstep; subst hstep
      obtain ⟨h1, h2, h3, h4, _⟩ := pickOf_some hp hinv.keysNodup
      refine SInv_lock hinv ht (Or.inl hln) (Nat.le_refl _) (Or.inl rfl) (Or.inr ⟨rfl, rfl⟩) (by simp) ?_ hinv.keysOpen hinv.keysNodup
      simp only [PcOK, setTask, TdOK]; exact ⟨h1, h2, h3, h4⟩
    · simp only [Option.some.injEq] at hstep; subst hstep
      exact SInv_frame hinv ht rfl (Or.inl rfl) ⟨rfl, rfl, fun _ => rfl⟩ rfl (by simp) trivial

theorem sinv_cIter {s s' : St} {i p : Nat} {h td prog held} (hinv : SInv s) (ht : s.tasks[i]? = some ⟨.cIter h td, prog, held⟩)
    (hstep : stepTask s i ⟨.cIter h td, prog, held⟩ p = some s') : SInv s' := by
  have hpc := (hinv.tasks i _ ht).2.2
  simp only [PcOK] at hpc
  obtain ⟨hk, hntd, htd⟩ := hpc
  have hl := holder_of_locked hinv ht rfl
  have hlk := (hinv.tasks i _ ht).1 rfl
  have hopen := hinv.keysOpen h hk
  simp only [stepTask] at hstep
  split at hstep
  · rename_i hnone
    obtain ⟨ch, hch, _⟩ := hopen
    rw [hch] at hnone; simp at hnone
  · split at hstep
    · simp only [Option.some.injEq] at hstep; subst hstep
      refine SInv_lock hinv ht hl (Nat.le_refl _) (Or.inl rfl) (Or.inr ⟨hlk, rfl⟩) (by simp) ?_ hinv.keysOpen hinv.keysNodup
      simp only [PcOK, setTask]; exact ⟨hk, hntd, htd⟩
    · split at hstep
      · rename_i h' td' hp
        simp only [Option.some.injEq] at hstep; subst hstep
        obtain ⟨h1, h2, h3, h4, _⟩ := pickOf_some hp htd.1
        refine SInv_lock hinv ht hl (Nat.le_refl _) (Or.inl rfl) (Or.inr ⟨hlk, rfl⟩) (by simp) ?_ hinv.keysOpen hinv.keysNodup
        simp only [PcOK, setTask]
        exact ⟨htd.2 h' h1, h2, TdOK_sub rfl h3 h4 htd⟩
      · simp only [Option.some.injEq] at hstep; subst hstep
        exact SInv_lock hinv ht hl (Nat.le_refl _) (Or.inl rfl) (Or.inl ⟨rfl, rfl⟩) (by simp) trivial hinv.keysOpen hinv.keysNodup

theorem keysOpen_close_erase {s : St} (hinv : SInv s) {h : Nat} {ch : Chan} {s' : St}
    (hc : s'.chans = s.chans.set h { ch with closed := true }) (hk : s'.keys = s.keys.erase h) :
    ∀ x ∈ s'.keys, chanOpen s' x := by
  intro x hx
  rw [hk] at hx
  have hne : x ≠ h := fun e => not_mem_erase_self hinv.keysNodup (e ▸ hx)
  exact open_set_other hc hne (hinv.keysOpen x (List.mem_of_mem_erase hx))

theorem sinv_cClose {s s' : St} {i p : Nat} {h td prog held} (hinv : SInv s) (ht : s.tasks[i]? = some ⟨.cClose h td, prog, held⟩)
    (hstep : stepTask s i ⟨.cClose h td, prog, held⟩ p = some s') : SInv s' := by
  have hpc := (hinv.tasks i _ ht).2.2
  simp only [PcOK] at hpc
  obtain ⟨hk, hntd, htd⟩ := hpc
  have hl := holder_of_locked hinv ht rfl
  have hlk := (hinv.tasks i _ ht).1 rfl
  have hopen := hinv.keysOpen h hk
  simp only [stepTask] at hstep
  split at hstep
  · rename_i hcl; exact absurd hcl (closeChan_open hopen)
  · rename_i s1 hcl
    obtain ⟨ch, hch, hop, rfl⟩ := closeChan_some hcl
    simp only [Option.some.injEq] at hstep; subst hstep
    refine SInv_lock hinv ht hl (by simp [setTask]) (Or.inl rfl) (Or.inr ⟨hlk, rfl⟩) (by simp) ?_
      (keysOpen_close_erase hinv rfl rfl) (hinv.keysNodup.erase _)
    simp only [PcOK, setTask]
    exact ⟨closed_set_same rfl hch rfl, TdOK_erase rfl hntd htd⟩

theorem sinv_cDrain {s s' : St} {i p : Nat} {h td prog held} (hinv : SInv s) (ht : s.tasks[i]? = some ⟨.cDrain h td, prog, held⟩)
    (hstep : stepTask s i ⟨.cDrain h td, prog, held⟩ p = some s') : SInv s' := by
  have hpc := (hinv.tasks i _ ht).2.2
  simp only [PcOK] at hpc
  obtain ⟨hclosed, htd⟩ := hpc
  have hl := holder_of_locked hinv ht rfl
  have hlk := (hinv.tasks i _ ht).1 rfl
  have hnb := recv_closed_not_block hclosed
  simp only [stepTask] at hstep
  split at hstep
  · rename_i c s1 hr
    obtain ⟨ch, rest, hch, hbuf, rfl⟩ := recv_conn hr
    simp only [Option.some.injEq] at hstep; subst hstep
    refine SInv_lock (t' := ⟨.cDrain h td, prog, held⟩) hinv ht hl (by simp [spawnCloser]) (Or.inr ⟨c, ?_⟩) (Or.inr ⟨hlk, rfl⟩) (by simp) ?_ ?_ hinv.keysNodup
    · simp only [spawnCloser]
      congr 1
      exact (set_self ht).symm
    · simp only [PcOK, spawnCloser]
      exact ⟨closed_set_buf' rfl hch hclosed, TdOK_sub rfl htd.1 (fun _ hx => hx) htd⟩
    · intro x hx
      exact open_set_buf rfl hch (hinv.keysOpen x hx)
  · split at hstep
    · rename_i h' td' hp
      simp only [Option.some.injEq] at hstep; subst hstep
      obtain ⟨h1, h2, h3, h4, _⟩ := pickOf_some hp htd.1
      refine SInv_lock hinv ht hl (Nat.le_refl _) (Or.inl rfl) (Or.inr ⟨hlk, rfl⟩) (by simp) ?_ hinv.keysOpen hinv.keysNodup
      simp only [PcOK, setTask]
      exact ⟨htd.2 h' h1, h2, TdOK_sub rfl h3 h4 htd⟩
    · simp only [Option.some.injEq] at hstep; subst hstep
      exact SInv_lock hinv ht hl (Nat.le_refl _) (Or.inl rfl) (Or.inl ⟨rfl, rfl⟩) (by simp) trivial hinv.keysOpen hinv.keysNodup
  · rename_i hr; exact absurd hr hnb.1
  · rename_i hr; exact absurd hr hnb.2


theorem sinv_sLock {s s' : St} {i p : Nat} {prog held} (hinv : SInv s) (ht : s.tasks[i]? = some ⟨.sLock, prog, held⟩)
    (hstep : stepTask s i ⟨.sLock, prog, held⟩ p = some s') : SInv s' := by
  simp only [stepTask] at hstep
  split at hstep
  · simp at hstep
  · rename_i hlk
    have hln := lock_none_of hlk
    split at hstep
    · rename_i h td hp
      simp only [Option.some.injEq] at hstep; subst hstep
      obtain ⟨h1, h2, h3, h4, h5⟩ := pickOf_some hp hinv.keysNodup
      refine SInv_lock hinv ht (Or.inl hln) (Nat.le_refl _) (Or.inl rfl) (Or.inr ⟨rfl, rfl⟩) (by simp) ?_ hinv.keysOpen hinv.keysNodup
      simp only [PcOK, setTask, TdOK]; exact ⟨h1, h2, ⟨h3, h4⟩, h5⟩
    · rename_i hp
      simp only [Option.some.injEq] at hstep; subst hstep
      exact SInv_frame hinv ht rfl (Or.inl rfl) ⟨(pickOf_none hp).symm, rfl, fun _ => rfl⟩ rfl (by simp) trivial

theorem sinv_sIter {s s' : St} {i p : Nat} {h td prog held} (hinv : SInv s) (ht : s.tasks[i]? = some ⟨.sIter h td, prog, held⟩)
    (hstep : stepTask s i ⟨.sIter h td, prog, held⟩ p = some s') : SInv s' := by
  have hpc := (hinv.tasks i _ ht).2.2
  simp only [PcOK] at hpc
  have hl := holder_of_locked hinv ht rfl
  have hlk := (hinv.tasks i _ ht).1 rfl
  simp only [stepTask, Option.some.injEq] at hstep; subst hstep
  exact SInv_lock hinv ht hl (Nat.le_refl _) (Or.inl rfl) (Or.inr ⟨hlk, rfl⟩) (by simp) hpc hinv.keysOpen hinv.keysNodup

theorem sinv_sClose {s s' : St} {i p : Nat} {h td prog held} (hinv : SInv s) (ht : s.tasks[i]? = some ⟨.sClose h td, prog, held⟩)
    (hstep : stepTask s i ⟨.sClose h td, prog, held⟩ p = some s') : SInv s' := by
  have hpc := (hinv.tasks i _ ht).2.2
  simp only [PcOK] at hpc
  obtain ⟨hk, hntd, htd, hall⟩ := hpc
  have hl := holder_of_locked hinv ht rfl
  have hlk := (hinv.tasks i _ ht).1 rfl
  have hopen := hinv.keysOpen h hk
  simp only [stepTask] at hstep
  split at hstep
  · rename_i hcl; exact absurd hcl (closeChan_open hopen)
  · rename_i s1 hcl
    obtain ⟨ch, hch, hop, rfl⟩ := closeChan_some hcl
    simp only [Option.some.injEq] at hstep; subst hstep
    refine SInv_lock hinv ht hl (by simp [setTask]) (Or.inl rfl) (Or.inr ⟨hlk, rfl⟩) (by simp) ?_
      (keysOpen_close_erase hinv rfl rfl) (hinv.keysNodup.erase _)
    simp only [PcOK, setTask]
    refine ⟨closed_set_same rfl hch rfl, TdOK_erase rfl hntd htd, ?_⟩
    intro x hx
    have hne : x ≠ h := fun e => not_mem_erase_self hinv.keysNodup (e ▸ hx)
    rcases hall x (List.mem_of_mem_erase hx) with e | hm
    · exact absurd e hne
    · exact hm

theorem sinv_sDrain {s s' : St} {i p : Nat} {h td prog held} (hinv : SInv s) (ht : s.tasks[i]? = some ⟨.sDrain h td, prog, held⟩)
    (hstep : stepTask s i ⟨.sDrain h td, prog, held⟩ p = some s') : SInv s' := by
  have hpc := (hinv.tasks i _ ht).2.2
  simp only [PcOK] at hpc
  obtain ⟨hclosed, htd, hall⟩ := hpc
  have hl := holder_of_locked hinv ht rfl
  have hlk := (hinv.tasks i _ ht).1 rfl
  have hnb := recv_closed_not_block hclosed
  simp only [stepTask] at hstep
  split at hstep
  · rename_i c s1 hr
    obtain ⟨ch, rest, hch, hbuf, rfl⟩ := recv_conn hr
    simp only [Option.some.injEq] at hstep; subst hstep
    refine SInv_lock hinv ht hl (by simp [setTask]) (Or.inl rfl) (Or.inr ⟨hlk, rfl⟩) (by simp) ?_ ?_ hinv.keysNodup
    · simp only [PcOK, setTask]
      exact ⟨closed_set_buf' rfl hch hclosed, TdOK_sub rfl htd.1 (fun _ hx => hx) htd, hall⟩
    · intro x hx
      exact open_set_buf rfl hch (hinv.keysOpen x hx)
  · split at hstep
    · rename_i h' td' hp
      simp only [Option.some.injEq] at hstep; subst hstep
      obtain ⟨h1, h2, h3, h4, h5⟩ := pickOf_some hp htd.1
      refine SInv_lock hinv ht hl (Nat.le_refl _) (Or.inl rfl) (Or.inr ⟨hlk, rfl⟩) (by simp) ?_ hinv.keysOpen hinv.keysNodup
      simp only [PcOK, setTask]
      exact ⟨htd.2 h' h1, h2, TdOK_sub rfl h3 h4 htd, fun x hx => h5 x (hall x hx)⟩
    · simp only [Option.some.injEq] at hstep; subst hstep
      refine SInv_lock hinv ht hl (Nat.le_refl _) (Or.inl rfl) (Or.inl ⟨rfl, rfl⟩) (by simp) trivial ?_ ?_
      · intro x hx; simp [setTask] at hx
      · simp [setTask]
  · rename_i hr; exact absurd hr hnb.1
  · rename_i hr; exact absurd hr hnb.2

theorem sinv_sDrainClose {s s' : St} {i p : Nat} {h td c prog held} (hinv : SInv s)
    (ht : s.tasks[i]? = some ⟨.sDrainClose h td c, prog, held⟩)
    (hstep : stepTask s i ⟨.sDrainClose h td c, prog, held⟩ p = some s') : SInv s' := by
  have hpc := (hinv.tasks i _ ht).2.2
  simp only [PcOK] at hpc
  have hl := holder_of_locked hinv ht rfl
  have hlk := (hinv.tasks i _ ht).1 rfl
  simp only [stepTask, Option.some.injEq] at hstep; subst hstep
  exact SInv_lock hinv ht hl (Nat.le_refl _) (Or.inl rfl) (Or.inr ⟨hlk, rfl⟩) (by simp) hpc hinv.keysOpen hinv.keysNodup

/-- the structural invariant is preserved by every step of every goroutine -/
theorem sinv_stepTask {s s' : St} {i p : Nat} {t : Task} (hinv : SInv s) (ht : s.tasks[i]? = some t)
    (hstep : stepTask s i t p = some s') : SInv s' := by
  obtain ⟨pc, prog, held⟩ := t
  cases pc
  case idle => exact sinv_idle hinv ht hstep
  case done => simp [stepTask] at hstep
  case panicked => simp [stepTask] at hstep
  case wClose => exact sinv_wClose hinv ht hstep
  case kClose => exact sinv_kClose hinv ht hstep
  case gLock => exact sinv_gLock hinv ht hstep
  case gDropClose => exact sinv_gDropClose hinv ht hstep
  case gDrain => exact sinv_gDrain hinv ht hstep
  case gSel => exact sinv_gSel hinv ht hstep
  case gUsable => exact sinv_gUsable hinv ht hstep
  case rLock => exact sinv_rLock hinv ht hstep
  case rIter => exact sinv_rIter hinv ht hstep
  case rClose => exact sinv_rClose hinv ht hstep
  case rDrain => exact sinv_rDrain hinv ht hstep
  case rDrainClose => exact sinv_rDrainClose hinv ht hstep
  case rSel => exact sinv_rSel hinv ht hstep
  case cLock => exact sinv_cLock hinv ht hstep
  case cIter => exact sinv_cIter hinv ht hstep
  case cClose => exact sinv_cClose hinv ht hstep
  case cDrain => exact sinv_cDrain hinv ht hstep
  case sStop => exact sinv_sStop hinv ht hstep
  case sLock => exact sinv_sLock hinv ht hstep
  case sIter => exact sinv_sIter hinv ht hstep
  case sClose => exact sinv_sClose hinv ht hstep
  case sDrain => exact sinv_sDrain hinv ht hstep
  case sDrainClose => exact sinv_sDrainClose hinv ht hstep

end MaddyVerif.C19
