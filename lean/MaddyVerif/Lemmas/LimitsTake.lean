import MaddyVerif.Lemmas.LimitsExec
/-! C11: specification of `BucketSet.take` (reaping, creation, `users`). -/
namespace MaddyVerif.Limits

theorem setBk_setBk (g : Group) (sc : Sc) (m m' : List Bucket) : (g.setBk sc m).setBk sc m' = g.setBk sc m' := by
  cases sc <;> rfl

theorem bk_setBk_same (g : Group) (sc : Sc) (m : List Bucket) : (g.setBk sc m).bk sc = m := by
  cases sc <;> rfl

/-- Removing buckets: a look-up either still finds the same bucket or finds nothing because that bucket
was removed. -/
theorem findB_filter (m : List Bucket) (p : Bucket → Bool) (k : Nat) (hn : (m.map (·.key)).Nodup) :
    findB (m.filter p) k = (findB m k).filter p := by
  have hsub : ((m.filter p).map (·.key)).Nodup :=
    List.Nodup.sublist (List.Sublist.map _ List.filter_sublist) hn
  cases hb : findB m k with
  | none =>
    simp only [Option.filter]
    unfold findB
    rw [List.find?_eq_none]
    intro b hb'
    have := findB_none m k hb b (List.mem_filter.1 hb').1
    simpa using this
  | some b =>
    obtain ⟨hm, hk⟩ := findB_some m k b hb
    by_cases hp : p b = true
    · have : b ∈ m.filter p := List.mem_filter.2 ⟨hm, hp⟩
      have := findB_of_mem _ b hsub this
      rw [hk] at this
      simp [Option.filter, hp, this]
    · have hp' : p b = false := by simpa using hp
      simp only [Option.filter, hp', Bool.false_eq_true, if_false]
      unfold findB
      rw [List.find?_eq_none]
      intro b' hb'
      obtain ⟨hm', hp'⟩ := List.mem_filter.1 hb'
      intro hk'
      simp at hk'
      have h1 := findB_of_mem m b' hn hm'
      rw [hk', hb] at h1
      simp at h1
      subst h1
      exact hp hp'

def reap (c : Cfg) (m : List Bucket) : List Bucket :=
  if m.length > c.maxB then m.filter (fun b => !b.stale c.reap) else m

theorem reap_spec (c : Cfg) (g : Group) (sc : Sc) (h : GInv c g)
    (hZ : ∀ k' i, lenOf g (.use sc k') = 0 → counted c (.b sc k' i) = true → lenOf g (.b sc k' i) = 0) :
    GInv c (g.setBk sc (reap c (g.bk sc))) ∧
      ∀ tok, counted c tok = true → lenOf (g.setBk sc (reap c (g.bk sc))) tok = lenOf g tok := by
  unfold reap
  split
  · constructor
    · apply GInv.setBk c g sc _ h
      · intro b hb; exact h.bk sc b (List.mem_filter.1 hb).1
      · exact List.Nodup.sublist (List.Sublist.map _ List.filter_sublist) (h.nodup sc)
    · intro tok hct
      rw [lenOf_setBk]
      cases tok with
      | g j => rfl
      | use sc' k' =>
        by_cases e : sc' = sc
        · subst e
          simp only [if_true, findB_filter _ _ k' (h.nodup sc'), lenOf]
          cases hb : findB (g.bk sc') k' with
          | none => rfl
          | some b =>
            by_cases hs : b.stale c.reap = true
            · have : b.users = 0 := by simp [Bucket.stale] at hs; exact hs.1
              simp [Option.filter, hs, bUsers, this]
            · simp [Option.filter, hs]
        · simp [e]
      | b sc' k' i =>
        by_cases e : sc' = sc
        · subst e
          simp only [if_true, findB_filter _ _ k' (h.nodup sc')]
          cases hb : findB (g.bk sc') k' with
          | none => simp [lenOf, hb, Option.filter]
          | some b =>
            by_cases hs : b.stale c.reap = true
            · have hu : b.users = 0 := by simp [Bucket.stale] at hs; exact hs.1
              have := hZ k' i (by simp [lenOf, hb, bUsers, hu]) hct
              simp [Option.filter, hs, bLen, this]
            · simp [Option.filter, hs, lenOf, hb]
        · simp [e]
  · rw [show g.setBk sc (g.bk sc) = g by cases sc <;> rfl]
    exact ⟨h, fun _ _ => rfl⟩

theorem bsTake_eq (c : Cfg) (sc : Sc) (m : List Bucket) (k : Nat) :
    bsTake c sc m k =
      if (reap c m).length > c.maxB then (reap c m, false) else
      (updB (if (findB (reap c m) k).isSome then reap c m
             else reap c m ++ [{ key := k, lims := (c.ctors sc).map Lim.new, users := 0, age := 0 }]) k
          (fun b => { b with users := b.users + 1, age := 0 }), true) := by
  rfl

/-- A fresh bucket appended for a key that has none. -/
theorem append_spec (c : Cfg) (g : Group) (sc : Sc) (k : Nat) (h : GInv c g) (hk : findB (g.bk sc) k = none) :
    let nb : Bucket := { key := k, lims := (c.ctors sc).map Lim.new, users := 0, age := 0 }
    GInv c (g.setBk sc (g.bk sc ++ [nb])) ∧ findB (g.bk sc ++ [nb]) k = some nb ∧
      ∀ tok, counted c tok = true → lenOf (g.setBk sc (g.bk sc ++ [nb])) tok = lenOf g tok := by
  intro nb
  have hfind : ∀ k', findB (g.bk sc ++ [nb]) k' = if k' = k then some nb else findB (g.bk sc) k' := by
    intro k'
    unfold findB
    rw [List.find?_append]
    by_cases e : k' = k
    · subst e
      unfold findB at hk
      simp [hk, nb]
    · have : ¬ k = k' := fun hh => e hh.symm
      simp [e, nb, this]
  refine ⟨?_, by simpa using hfind k, ?_⟩
  · apply GInv.setBk c g sc _ h
    · intro b hb
      simp at hb
      rcases hb with hb | rfl
      · exact h.bk sc b hb
      · exact shaped_new _
    · rw [List.map_append, List.nodup_append]
      refine ⟨h.nodup sc, by simp, ?_⟩
      intro a ha b' hb'
      simp at hb'
      subst hb'
      simp at ha
      obtain ⟨b0, hb0, rfl⟩ := ha
      exact findB_none _ _ hk b0 hb0
  · intro tok hct
    rw [lenOf_setBk]
    cases tok with
    | g j => rfl
    | use sc' k' =>
      by_cases e : sc' = sc
      · subst e
        simp only [if_true, hfind, lenOf]
        by_cases e' : k' = k
        · subst e'; simp [hk, bUsers, nb]
        · simp [e']
      · simp [e]
    | b sc' k' i =>
      by_cases e : sc' = sc
      · subst e
        simp only [if_true, hfind, lenOf]
        by_cases e' : k' = k
        · subst e'
          simp only [if_true, hk, bLen, nb]
          simp only [counted] at hct
          cases hct' : (c.ctors sc')[i]? with
          | none => simp [hct', realSem] at hct
          | some ct =>
            simp [hct', realSem] at hct
            simp [hct', limLen, Lim.new, hct.1]
        · simp [e']
      · simp [e]

theorem bsTake_spec (c : Cfg) (g : Group) (sc : Sc) (k : Nat) (h : GInv c g)
    (hZ : ∀ k' i, lenOf g (.use sc k') = 0 → counted c (.b sc k' i) = true → lenOf g (.b sc k' i) = 0) :
    AcqSpec c g (.bsTake sc k) (execAcq c g (.bsTake sc k)) := by
  obtain ⟨hg1, hl1⟩ := reap_spec c g sc h hZ
  simp only [execAcq, bsTake_eq]
  split
  · simp only [Bool.false_eq_true, if_false]
    exact .full _ hg1 hl1
  · simp only [if_true]
    -- continue from g1 = g with the reaped map
    have hbk1 : (g.setBk sc (reap c (g.bk sc))).bk sc = reap c (g.bk sc) := bk_setBk_same _ _ _
    cases hb : findB (reap c (g.bk sc)) k with
    | some bk =>
      simp only [Option.isSome_some, if_true]
      have hbs := hg1.bk sc bk (by rw [hbk1]; exact (findB_some _ _ _ hb).1)
      obtain ⟨hg, hlen'⟩ := upd_spec c (g.setBk sc (reap c (g.bk sc))) sc k
        (fun b => { b with users := b.users + 1, age := 0 }) bk hg1 (by rw [hbk1]; exact hb) (fun _ => rfl) hbs
      rw [hbk1, setBk_setBk] at hg hlen'
      refine .ok _ hg ?_
      intro tok hct
      rw [hlen', ← hl1 tok hct]
      have hu := lenOf_use_of_find (g.setBk sc (reap c (g.bk sc))) sc k bk (by rw [hbk1]; exact hb)
      cases tok with
      | g j => simp [MOp.toks, count_singleton]
      | b sc' k' i =>
        simp only [MOp.toks, count_singleton]
        by_cases e : sc' = sc ∧ k' = k
        · obtain ⟨rfl, rfl⟩ := e
          simp [lenOf_b_of_find _ _ _ i bk (by rw [hbk1]; exact hb)]
        · simp [e]
      | use sc' k' =>
        simp only [MOp.toks, count_singleton]
        by_cases e : sc' = sc ∧ k' = k
        · obtain ⟨rfl, rfl⟩ := e; simp [hu]
        · have : ¬ Tok.use sc k = Tok.use sc' k' := by
            intro hh; injection hh with a b; exact e ⟨a.symm, b.symm⟩
          simp [e, this]
    | none =>
      simp only [Option.isSome_none, Bool.false_eq_true, if_false]
      obtain ⟨hg2, hf2, hl2⟩ := append_spec c (g.setBk sc (reap c (g.bk sc))) sc k hg1 (by rw [hbk1]; exact hb)
      rw [hbk1, setBk_setBk] at hg2 hl2
      rw [hbk1] at hf2
      have hbk2 : ∀ m, (g.setBk sc m).bk sc = m := fun m => bk_setBk_same _ _ _
      obtain ⟨hg, hlen'⟩ := upd_spec c (g.setBk sc _) sc k
        (fun b => { b with users := b.users + 1, age := 0 }) _ hg2 (by rw [hbk2]; exact hf2) (fun _ => rfl)
        (shaped_new _)
      rw [hbk2, setBk_setBk] at hg hlen'
      refine .ok _ hg ?_
      intro tok hct
      rw [hlen', ← hl1 tok hct, ← hl2 tok hct]
      cases tok with
      | g j => simp [MOp.toks, count_singleton]
      | b sc' k' i =>
        simp only [MOp.toks, count_singleton]
        by_cases e : sc' = sc ∧ k' = k
        · obtain ⟨rfl, rfl⟩ := e
          simp [lenOf_b_of_find _ _ _ i _ (by rw [hbk2]; exact hf2)]
        · simp [e]
      | use sc' k' =>
        simp only [MOp.toks, count_singleton]
        by_cases e : sc' = sc ∧ k' = k
        · obtain ⟨rfl, rfl⟩ := e
          simp [lenOf_use_of_find _ _ _ _ (by rw [hbk2]; exact hf2)]
        · have : ¬ Tok.use sc k = Tok.use sc' k' := by
            intro hh; injection hh with a b; exact e ⟨a.symm, b.symm⟩
          simp [e, this]

end MaddyVerif.Limits
