import MaddyVerif.Lemmas.PoolCount
/-! Helper lemmas for C19: the structural invariant of the pool model. -/
namespace MaddyVerif.C19
open MaddyVerif.Pool

/-! ## Structural invariant: lock discipline, the map only holds open buckets, no panic -/

def chanOpen (s : St) (h : ChanId) : Prop := ∃ ch, s.chans[h]? = some ch ∧ ch.closed = false
def chanClosed (s : St) (h : ChanId) : Prop := ∃ ch, s.chans[h]? = some ch ∧ ch.closed = true

/-- the rest of a `range p.keys` loop: distinct buckets that are still in the map -/
def TdOK (s : St) (td : List ChanId) : Prop := td.Nodup ∧ ∀ h ∈ td, h ∈ s.keys

def PcOK (s : St) : Pc → Prop
  | .gDropClose _ h => chanOpen s h ∧ h ∉ s.keys
  | .gDrain _ h => chanClosed s h
  | .gSel _ h => (h : Nat) < s.chans.length
  | .gUsable _ h _ => (h : Nat) < s.chans.length
  | .rIter _ _ h td => h ∈ s.keys ∧ h ∉ td ∧ TdOK s td
  | .rClose _ _ h td => chanOpen s h ∧ h ∉ s.keys ∧ TdOK s td
  | .rDrain _ _ h td => chanClosed s h ∧ TdOK s td
  | .rDrainClose _ _ h td _ => chanClosed s h ∧ TdOK s td
  | .rSel _ _ h => h ∈ s.keys
  | .cIter h td => h ∈ s.keys ∧ h ∉ td ∧ TdOK s td
  | .cClose h td => h ∈ s.keys ∧ h ∉ td ∧ TdOK s td
  | .cDrain h td => chanClosed s h ∧ TdOK s td
  | .sIter h td => h ∈ s.keys ∧ h ∉ td ∧ TdOK s td ∧ (∀ x ∈ s.keys, x = h ∨ x ∈ td)
  | .sClose h td => h ∈ s.keys ∧ h ∉ td ∧ TdOK s td ∧ (∀ x ∈ s.keys, x = h ∨ x ∈ td)
  | .sDrain h td => chanClosed s h ∧ TdOK s td ∧ (∀ x ∈ s.keys, x ∈ td)
  | .sDrainClose h td _ => chanClosed s h ∧ TdOK s td ∧ (∀ x ∈ s.keys, x ∈ td)
  | _ => True

/-- the bucket a lock holder has taken out of the map and is closing / draining -/
def Pc.chan : Pc → Option ChanId
  | .gDropClose _ h | .gDrain _ h => some h
  | .rClose _ _ h _ | .rDrain _ _ h _ | .rDrainClose _ _ h _ _ => some h
  | .cDrain h _ | .sDrain h _ | .sDrainClose h _ _ => some h
  | _ => none

def TaskOK (s : St) (i : Nat) (t : Task) : Prop :=
  (t.pc.locked = true → s.lock = some i) ∧ (∀ cs, t.pc ≠ .panicked cs) ∧ PcOK s t.pc

structure SInv (s : St) : Prop where
  tasks : ∀ i t, s.tasks[i]? = some t → TaskOK s i t
  holder : ∀ i, s.lock = some i → ∃ t, s.tasks[i]? = some t ∧ t.pc.locked = true
  keysOpen : ∀ h ∈ s.keys, chanOpen s h
  keysNodup : s.keys.Nodup

/-- steps of goroutines outside the critical section leave all this alone -/
structure Frame (s s' : St) : Prop where
  keys : s'.keys = s.keys
  lock : s'.lock = s.lock
  closed : ∀ h : Nat, (s'.chans[h]?).map Chan.closed = (s.chans[h]?).map Chan.closed

theorem Frame.len {s s' : St} (f : Frame s s') : s'.chans.length = s.chans.length := by
  have h1 := f.closed s.chans.length
  have h2 := f.closed s'.chans.length
  rw [List.getElem?_eq_none (Nat.le_refl _)] at h1
  rw [List.getElem?_eq_none (Nat.le_refl _)] at h2
  have h2 := h2.symm
  simp at h1 h2
  omega

theorem Frame.open_iff {s s' : St} (f : Frame s s') (h : ChanId) : chanOpen s' h ↔ chanOpen s h := by
  have := f.closed h
  unfold chanOpen
  cases h1 : s'.chans[h]? <;> cases h2 : s.chans[h]? <;> simp [h1, h2] at this ⊢
  simp [this]

theorem Frame.closed_iff {s s' : St} (f : Frame s s') (h : ChanId) : chanClosed s' h ↔ chanClosed s h := by
  have := f.closed h
  unfold chanClosed
  cases h1 : s'.chans[h]? <;> cases h2 : s.chans[h]? <;> simp [h1, h2] at this ⊢
  simp [this]

theorem PcOK_frame {s s' : St} (f : Frame s s') (pc : Pc) (h : PcOK s pc) : PcOK s' pc := by
  cases pc <;> simp only [PcOK, TdOK, f.keys, f.open_iff, f.closed_iff, f.len] at h ⊢ <;> exact h

theorem PcOK_mono {s s' : St} (hl : s.chans.length ≤ s'.chans.length) (pc : Pc) (hu : pc.locked = false)
    (h : PcOK s pc) : PcOK s' pc := by
  cases pc <;> simp [Pc.locked] at hu <;> simp only [PcOK] at h ⊢ <;> exact Nat.lt_of_lt_of_le h hl

theorem TaskOK_frame {s s' : St} (f : Frame s s') {j : Nat} {t : Task} (h : TaskOK s j t) : TaskOK s' j t :=
  ⟨fun hl => by rw [f.lock]; exact h.1 hl, h.2.1, PcOK_frame f _ h.2.2⟩

theorem TaskOK_mono {s s' : St} (hl : s.chans.length ≤ s'.chans.length) {j : Nat} {t : Task}
    (hu : t.pc.locked = false) (h : TaskOK s j t) : TaskOK s' j t :=
  ⟨fun hl' => by simp [hu] at hl', h.2.1, PcOK_mono hl _ hu h.2.2⟩

/-- when nobody or goroutine `i` holds the lock, everybody else is outside the critical section -/
theorem others_unlocked {s : St} (hinv : SInv s) {i : Nat} (hl : s.lock = none ∨ s.lock = some i)
    {j : Nat} {tj : Task} (hne : j ≠ i) (hj : s.tasks[j]? = some tj) : tj.pc.locked = false := by
  cases hb : tj.pc.locked with
  | false => rfl
  | true =>
    have := (hinv.tasks j tj hj).1 hb
    rcases hl with hl | hl <;> simp [hl] at this
    exact absurd this.symm hne

theorem set_cases {α} {l : List α} {i j : Nat} {a b : α} (h : (l.set i a)[j]? = some b) :
    (j = i ∧ b = a) ∨ (j ≠ i ∧ l[j]? = some b) := by
  rw [List.getElem?_set] at h
  split at h
  · rename_i heq
    split at h
    · simp at h; exact Or.inl ⟨heq.symm, h.symm⟩
    · simp at h
  · rename_i hne
    exact Or.inr ⟨fun e => hne e.symm, h⟩

theorem set_append_cases {α} {l : List α} {i j : Nat} {a b x : α} (h : (l.set i a ++ [x])[j]? = some b) :
    (j = i ∧ b = a) ∨ (j ≠ i ∧ l[j]? = some b) ∨ (b = x) := by
  rw [List.getElem?_append] at h
  split at h
  · rcases set_cases h with h | h
    · exact Or.inl h
    · exact Or.inr (Or.inl h)
  · rename_i hge
    right; right
    simp only [List.length_set] at h hge
    cases hh : j - l.length with
    | zero => rw [hh] at h; simp at h; exact h.symm
    | succ n => rw [hh] at h; simp at h

theorem pickOf_none {td : List ChanId} {p : Nat} (h : pickOf td p = none) : td = [] := by
  cases td <;> simp [pickOf] at h ⊢

theorem pickOf_some {td td' : List ChanId} {p : Nat} {h : ChanId} (hp : pickOf td p = some (h, td'))
    (hnd : td.Nodup) :
    h ∈ td ∧ h ∉ td' ∧ td'.Nodup ∧ (∀ x ∈ td', x ∈ td) ∧ (∀ x ∈ td, x = h ∨ x ∈ td') := by
  cases td with
  | nil => simp [pickOf] at hp
  | cons a l =>
    simp only [pickOf, Option.some.injEq, Prod.mk.injEq] at hp
    obtain ⟨h1, h2⟩ := hp
    have hmem : h ∈ a :: l := by
      rw [← h1]; split
      · assumption
      · simp
    rw [h1] at h2
    subst h2
    refine ⟨hmem, ?_, hnd.erase _, fun x hx => List.mem_of_mem_erase hx, ?_⟩
    · exact fun hh => (List.Nodup.mem_erase_iff hnd).mp hh |>.1 rfl
    · intro x hx
      by_cases hxe : x = h
      · exact Or.inl hxe
      · exact Or.inr ((List.mem_erase_of_ne hxe).mpr hx)

/-- assembling the invariant after a step of goroutine `i` -/
theorem SInv_of {s s' : St} {i : Nat} {t t' : Task} (hinv : SInv s) (ht : s.tasks[i]? = some t)
    (htasks : s'.tasks = s.tasks.set i t' ∨ ∃ c, s'.tasks = s.tasks.set i t' ++ [⟨.kClose c, [], []⟩])
    (hnew : TaskOK s' i t')
    (hothers : ∀ j tj, j ≠ i → s.tasks[j]? = some tj → TaskOK s' j tj)
    (hholder : ∀ j, s'.lock = some j → (j = i ∧ t'.pc.locked = true) ∨ (j ≠ i ∧ s.lock = some j))
    (hkeysOpen : ∀ h ∈ s'.keys, chanOpen s' h) (hkeysNodup : s'.keys.Nodup) : SInv s' := by
  have hi := lt_of_getElem? ht
  refine ⟨?_, ?_, hkeysOpen, hkeysNodup⟩
  · intro j tj hj
    rcases htasks with h | ⟨c, h⟩
    · rw [h] at hj
      rcases set_cases hj with ⟨rfl, rfl⟩ | ⟨hne, hj⟩
      · exact hnew
      · exact hothers j tj hne hj
    · rw [h] at hj
      rcases set_append_cases hj with ⟨rfl, rfl⟩ | ⟨hne, hj⟩ | rfl
      · exact hnew
      · exact hothers j tj hne hj
      · exact ⟨by simp [Pc.locked], by simp, by simp [PcOK]⟩
  · intro j hj
    rcases hholder j hj with ⟨rfl, hl⟩ | ⟨hne, hl⟩
    · refine ⟨t', ?_, hl⟩
      rcases htasks with h | ⟨c, h⟩ <;> rw [h]
      · simp [hi]
      · rw [List.getElem?_append_left (by simp [hi])]; simp [hi]
    · obtain ⟨tj, htj, hlk⟩ := hinv.holder j hl
      refine ⟨tj, ?_, hlk⟩
      rcases htasks with h | ⟨c, h⟩ <;> rw [h]
      · rw [List.getElem?_set_ne (Ne.symm hne)]; exact htj
      · rw [List.getElem?_append_left (by simp; exact lt_of_getElem? htj), List.getElem?_set_ne (Ne.symm hne)]; exact htj


theorem closed_set_buf {chans : List Chan} {h : Nat} {ch : Chan} (hch : chans[h]? = some ch) (r : List ConnId) (x : Nat) :
    ((chans.set h { ch with buf := r })[x]?).map Chan.closed = (chans[x]?).map Chan.closed := by
  rw [List.getElem?_set]
  split
  · rename_i heq; subst heq
    have hl := lt_of_getElem? hch
    have := List.getElem?_eq_getElem hl
    rw [hch] at this
    simp at this
    simp [hl, ← this]
  · rfl

/-- the new state of the stepping goroutine when the step is outside the critical section and takes no lock -/
theorem SInv_frame {s s' : St} {i : Nat} {t t' : Task} (hinv : SInv s) (ht : s.tasks[i]? = some t)
    (hu : t.pc.locked = false)
    (htasks : s'.tasks = s.tasks.set i t' ∨ ∃ c, s'.tasks = s.tasks.set i t' ++ [⟨.kClose c, [], []⟩])
    (f : Frame s s') (hu' : t'.pc.locked = false) (hnp : ∀ cs, t'.pc ≠ .panicked cs) (hpc : PcOK s' t'.pc) : SInv s' := by
  refine SInv_of hinv ht htasks ⟨by simp [hu'], hnp, hpc⟩
    (fun j tj _ hj => TaskOK_frame f (hinv.tasks j tj hj)) ?_ ?_ ?_
  · intro j hj
    rw [f.lock] at hj
    right
    refine ⟨?_, hj⟩
    rintro rfl
    obtain ⟨tj, htj, hl⟩ := hinv.holder j hj
    rw [ht] at htj
    simp at htj; subst htj
    simp [hu] at hl
  · intro h hh
    rw [f.keys] at hh
    exact (f.open_iff h).mpr (hinv.keysOpen h hh)
  · rw [f.keys]; exact hinv.keysNodup

theorem sinv_idle {s s' : St} {i p : Nat} {prog held} (hinv : SInv s) (ht : s.tasks[i]? = some ⟨.idle, prog, held⟩)
    (hstep : stepTask s i ⟨.idle, prog, held⟩ p = some s') : SInv s' := by
  simp only [stepTask] at hstep
  split at hstep
  · simp only [Option.some.injEq] at hstep; subst hstep
    exact SInv_frame hinv ht rfl (Or.inl rfl) ⟨rfl, rfl, fun _ => rfl⟩ rfl (by simp) trivial
  cases prog with
  | nil =>
    simp at hstep; subst hstep
    exact SInv_frame hinv ht rfl (Or.inl rfl) ⟨rfl, rfl, fun _ => rfl⟩ rfl (by simp) trivial
  | cons op rest =>
    cases op <;> cases held <;> simp at hstep <;> (try split at hstep) <;> (try simp at hstep) <;> subst hstep <;>
      exact SInv_frame hinv ht rfl (Or.inl rfl) ⟨rfl, rfl, fun _ => rfl⟩ rfl (by simp) trivial


theorem sinv_wClose {s s' : St} {i p : Nat} {c prog held} (hinv : SInv s) (ht : s.tasks[i]? = some ⟨.wClose c, prog, held⟩)
    (hstep : stepTask s i ⟨.wClose c, prog, held⟩ p = some s') : SInv s' := by
  simp only [stepTask, Option.some.injEq] at hstep; subst hstep
  exact SInv_frame hinv ht rfl (Or.inl rfl) ⟨rfl, rfl, fun _ => rfl⟩ rfl (by simp) trivial

theorem sinv_kClose {s s' : St} {i p : Nat} {c prog held} (hinv : SInv s) (ht : s.tasks[i]? = some ⟨.kClose c, prog, held⟩)
    (hstep : stepTask s i ⟨.kClose c, prog, held⟩ p = some s') : SInv s' := by
  simp only [stepTask, Option.some.injEq] at hstep; subst hstep
  exact SInv_frame hinv ht rfl (Or.inl rfl) ⟨rfl, rfl, fun _ => rfl⟩ rfl (by simp) trivial

theorem sinv_sStop {s s' : St} {i p : Nat} {prog held} (hinv : SInv s) (ht : s.tasks[i]? = some ⟨.sStop, prog, held⟩)
    (hstep : stepTask s i ⟨.sStop, prog, held⟩ p = some s') : SInv s' := by
  simp only [stepTask] at hstep
  split at hstep
  · simp only [Option.some.injEq] at hstep; subst hstep
    exact SInv_frame hinv ht rfl (Or.inl rfl) ⟨rfl, rfl, fun _ => rfl⟩ rfl (by simp) trivial
  · simp at hstep

theorem sinv_gUsable {s s' : St} {i p : Nat} {k h c prog held} (hinv : SInv s) (ht : s.tasks[i]? = some ⟨.gUsable k h c, prog, held⟩)
    (hstep : stepTask s i ⟨.gUsable k h c, prog, held⟩ p = some s') : SInv s' := by
  have hpc := (hinv.tasks i _ ht).2.2
  simp only [PcOK] at hpc
  simp only [stepTask] at hstep
  split at hstep
  · simp only [Option.some.injEq] at hstep; subst hstep
    exact SInv_frame hinv ht rfl (Or.inr ⟨c, rfl⟩) ⟨rfl, rfl, fun _ => rfl⟩ rfl (by simp) hpc
  · split at hstep
    · simp only [Option.some.injEq] at hstep; subst hstep
      exact SInv_frame hinv ht rfl (Or.inr ⟨c, rfl⟩) ⟨rfl, rfl, fun _ => rfl⟩ rfl (by simp) hpc
    · simp only [Option.some.injEq] at hstep; subst hstep
      exact SInv_frame hinv ht rfl (Or.inl rfl) ⟨rfl, rfl, fun _ => rfl⟩ rfl (by simp) trivial

theorem frame_miss (s : St) (i : Nat) (t : Task) (k : Key) : Frame s (miss s i t k) :=
  ⟨rfl, rfl, fun _ => rfl⟩

theorem sinv_gSel {s s' : St} {i p : Nat} {k h prog held} (hinv : SInv s) (ht : s.tasks[i]? = some ⟨.gSel k h, prog, held⟩)
    (hstep : stepTask s i ⟨.gSel k h, prog, held⟩ p = some s') : SInv s' := by
  have hpc := (hinv.tasks i _ ht).2.2
  simp only [PcOK] at hpc
  simp only [stepTask] at hstep
  split at hstep
  · rename_i c s1 hr
    obtain ⟨ch, rest, hch, hbuf, rfl⟩ := recv_conn hr
    simp only [Option.some.injEq] at hstep; subst hstep
    refine SInv_frame hinv ht rfl (Or.inl rfl) ⟨rfl, rfl, fun x => closed_set_buf hch rest x⟩ rfl (by simp) ?_
    simp only [PcOK, setTask, List.length_set]; exact hpc
  · split at hstep <;> (simp only [Option.some.injEq] at hstep; subst hstep)
    · exact SInv_frame hinv ht rfl (Or.inl rfl) ⟨rfl, rfl, fun _ => rfl⟩ rfl (by simp) trivial
    · exact SInv_frame hinv ht rfl (Or.inl rfl) (frame_miss ..) rfl (by simp) trivial
  · split at hstep <;> (simp only [Option.some.injEq] at hstep; subst hstep)
    · exact SInv_frame hinv ht rfl (Or.inl rfl) ⟨rfl, rfl, fun _ => rfl⟩ rfl (by simp) trivial
    · exact SInv_frame hinv ht rfl (Or.inl rfl) (frame_miss ..) rfl (by simp) trivial
  · rename_i hr
    exfalso
    unfold recv at hr
    have : s.chans[h]? ≠ none := by
      intro hn
      have := List.getElem?_eq_none_iff.mp hn
      omega
    split at hr
    · contradiction
    · split at hr
      · simp at hr
      · split at hr <;> simp at hr


/-! ### channels under the model's updates -/

theorem open_set_other {s s' : St} {h x : Nat} {ch' : Chan} (hc : s'.chans = s.chans.set h ch') (hne : x ≠ h)
    (ho : chanOpen s x) : chanOpen s' x := by
  unfold chanOpen at *; rw [hc, List.getElem?_set_ne (Ne.symm hne)]; exact ho

theorem closed_set_other {s s' : St} {h x : Nat} {ch' : Chan} (hc : s'.chans = s.chans.set h ch') (hne : x ≠ h)
    (ho : chanClosed s x) : chanClosed s' x := by
  unfold chanClosed at *; rw [hc, List.getElem?_set_ne (Ne.symm hne)]; exact ho

theorem open_set_same {s s' : St} {h : Nat} {ch ch' : Chan} (hc : s'.chans = s.chans.set h ch')
    (hch : s.chans[h]? = some ch) (hcl : ch'.closed = false) : chanOpen s' h := by
  unfold chanOpen; rw [hc]; exact ⟨ch', by simp [lt_of_getElem? hch], hcl⟩

theorem closed_set_same {s s' : St} {h : Nat} {ch ch' : Chan} (hc : s'.chans = s.chans.set h ch')
    (hch : s.chans[h]? = some ch) (hcl : ch'.closed = true) : chanClosed s' h := by
  unfold chanClosed; rw [hc]; exact ⟨ch', by simp [lt_of_getElem? hch], hcl⟩

theorem open_append {s s' : St} {x : Nat} {n : Chan} (hc : s'.chans = s.chans ++ [n]) (ho : chanOpen s x) : chanOpen s' x := by
  unfold chanOpen at *
  obtain ⟨ch, hch, hcl⟩ := ho
  exact ⟨ch, by rw [hc, List.getElem?_append_left (lt_of_getElem? hch)]; exact hch, hcl⟩

theorem open_same {s s' : St} {x : Nat} (hc : s'.chans = s.chans) (ho : chanOpen s x) : chanOpen s' x := by
  unfold chanOpen at *; rw [hc]; exact ho

theorem closed_same {s s' : St} {x : Nat} (hc : s'.chans = s.chans) (ho : chanClosed s x) : chanClosed s' x := by
  unfold chanClosed at *; rw [hc]; exact ho

theorem TdOK_keys {s s' : St} {td : List Nat} (h : TdOK s td) (hk : ∀ x ∈ td, x ∈ s.keys → x ∈ s'.keys) : TdOK s' td :=
  ⟨h.1, fun x hx => hk x hx (h.2 x hx)⟩

theorem open_lt {s : St} {h : Nat} (ho : chanOpen s h) : h < s.chans.length := by
  obtain ⟨ch, hch, _⟩ := ho; exact lt_of_getElem? hch

/-- assembling the invariant after a step of the lock holder, or of a goroutine that found the lock free -/
theorem SInv_lock {s s' : St} {i : Nat} {t t' : Task} (hinv : SInv s) (ht : s.tasks[i]? = some t)
    (hl : s.lock = none ∨ s.lock = some i) (hlen : s.chans.length ≤ s'.chans.length)
    (htasks : s'.tasks = s.tasks.set i t' ∨ ∃ c, s'.tasks = s.tasks.set i t' ++ [⟨.kClose c, [], []⟩])
    (hl' : (s'.lock = none ∧ t'.pc.locked = false) ∨ (s'.lock = some i ∧ t'.pc.locked = true))
    (hnp : ∀ cs, t'.pc ≠ .panicked cs) (hpc : PcOK s' t'.pc)
    (hkeysOpen : ∀ h ∈ s'.keys, chanOpen s' h) (hkeysNodup : s'.keys.Nodup) : SInv s' := by
  refine SInv_of hinv ht htasks ⟨?_, hnp, hpc⟩
    (fun j tj hne hj => TaskOK_mono hlen (others_unlocked hinv hl hne hj) (hinv.tasks j tj hj)) ?_ hkeysOpen hkeysNodup
  · intro hlk
    rcases hl' with ⟨_, h2⟩ | ⟨h1, _⟩
    · simp [h2] at hlk
    · exact h1
  · intro j hj
    rcases hl' with ⟨h1, _⟩ | ⟨h1, h2⟩
    · simp [h1] at hj
    · rw [h1] at hj; simp at hj; exact Or.inl ⟨hj.symm, h2⟩

theorem lock_none_of {s : St} (h : ¬s.lock.isSome = true) : s.lock = none := by
  cases hh : s.lock <;> simp [hh] at h ⊢

theorem holder_of_locked {s : St} (hinv : SInv s) {i : Nat} {t : Task} (ht : s.tasks[i]? = some t)
    (hlk : t.pc.locked = true) : s.lock = none ∨ s.lock = some i := Or.inr ((hinv.tasks i t ht).1 hlk)

theorem lookup_mem {s : St} {k h : Nat} (hl : lookup s k = some h) : h ∈ s.keys := by
  unfold lookup at hl
  exact List.mem_of_find?_eq_some hl

end MaddyVerif.C19
