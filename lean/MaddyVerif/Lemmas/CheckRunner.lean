import MaddyVerif.Model.CheckRunner
/-!
Helper lemmas about the check-runner model (`Model/CheckRunner.lean`): what every function leaves
alone (frame facts), what a `runAndMergeResults` returns in terms of the verdicts of its group, and
independence of the completion order.  Used by `Props/C06.lean`.
-/
namespace MaddyVerif.CheckRunner

/-- A completion-order oracle is admissible when it only permutes the finished goroutines. -/
def Ord.fair (o : Ord) : Prop := ∀ n l, (o n l).Perm l

def idOrd : Ord := fun _ l => l

theorem idOrd_fair : idOrd.fair := fun _ _ => List.Perm.refl _

/-! ## `call` and `runAll` -/

theorem call_frame (v : Verdicts) (d : Dedupe) (s : Stage) (cr : CR) (c : CheckId) :
    (call v d s cr c).1.states = cr.states ∧ (call v d s cr c).1.gens = cr.gens ∧
    (call v d s cr c).1.checkedRcpts = cr.checkedRcpts ∧ (call v d s cr c).1.mergedQ = cr.mergedQ ∧
    (call v d s cr c).1.tick = cr.tick := by
  unfold call; split <;> simp

theorem call_gen (v : Verdicts) (d : Dedupe) (s : Stage) (cr : CR) (c x : CheckId) :
    (call v d s cr c).1.gen x = cr.gen x := by
  simp [CR.gen, (call_frame v d s cr c).2.1]

/-- `call` either leaves the log alone (the state had seen the stage) or appends exactly the call. -/
theorem call_done (v : Verdicts) (d : Dedupe) (s : Stage) (cr : CR) (c : CheckId) :
    (call v d s cr c).1.done =
      if d ≠ .never ∧ (⟨c, cr.gen c, s⟩ : Call) ∈ cr.done then cr.done else cr.done ++ [⟨c, cr.gen c, s⟩] := by
  unfold call; split <;> simp

theorem call_eff_of_ne_skip (v : Verdicts) (d : Dedupe) (s : Stage) (cr : CR) (c : CheckId) (hd : d ≠ .skip) :
    (call v d s cr c).2 = v c s := by
  unfold call
  cases d
  · simp
  · simp at hd
  · simp only [ne_eq, reduceCtorEq, not_false_eq_true, true_and, ↓reduceIte]
    split <;> rfl

theorem call_eff_skip_ne_rej (v : Verdicts) (s : Stage) (cr : CR) (c : CheckId) :
    (call v .skip s cr c).2 ≠ .rej := by
  unfold call
  split
  · simp
  · split <;> simp_all

theorem runAll_frame (v : Verdicts) (d : Dedupe) (s : Stage) (g : List CheckId) : ∀ cr : CR,
    (runAll v d s cr g).1.states = cr.states ∧ (runAll v d s cr g).1.gens = cr.gens ∧
    (runAll v d s cr g).1.checkedRcpts = cr.checkedRcpts ∧ (runAll v d s cr g).1.mergedQ = cr.mergedQ ∧
    (runAll v d s cr g).1.tick = cr.tick := by
  induction g with
  | nil => intro cr; simp [runAll]
  | cons c rest ih =>
    intro cr
    have h1 := call_frame v d s cr c
    have h2 := ih (call v d s cr c).1
    simp only [runAll]
    refine ⟨h2.1.trans h1.1, h2.2.1.trans h1.2.1, h2.2.2.1.trans h1.2.2.1, h2.2.2.2.1.trans h1.2.2.2.1,
      h2.2.2.2.2.trans h1.2.2.2.2⟩

theorem runAll_gen (v : Verdicts) (d : Dedupe) (s : Stage) (g : List CheckId) (cr : CR) (x : CheckId) :
    (runAll v d s cr g).1.gen x = cr.gen x := by
  simp [CR.gen, (runAll_frame v d s g cr).2.1]

/-- The results of a group whose closure repeats remembered verdicts: one per member, the script's. -/
theorem runAll_results (v : Verdicts) (d : Dedupe) (s : Stage) (hd : d ≠ .skip) (g : List CheckId) : ∀ cr : CR,
    (runAll v d s cr g).2 = g.map (fun c => (c, v c s)) := by
  induction g with
  | nil => intro cr; simp [runAll]
  | cons c rest ih => intro cr; simp [runAll, ih, call_eff_of_ne_skip v d s cr c hd]

theorem runAll_results_skip (v : Verdicts) (s : Stage) (g : List CheckId) : ∀ cr : CR,
    ∀ x ∈ (runAll v .skip s cr g).2, x.2 ≠ .rej := by
  induction g with
  | nil => intro cr x hx; simp [runAll] at hx
  | cons c rest ih =>
    intro cr x hx
    simp only [runAll, List.mem_cons] at hx
    rcases hx with rfl | hx
    · exact call_eff_skip_ne_rej v s cr c
    · exact ih _ x hx

theorem runAll_results_fst (v : Verdicts) (d : Dedupe) (s : Stage) (g : List CheckId) : ∀ cr : CR,
    (runAll v d s cr g).2.map (fun x => x.1) = g := by
  induction g with
  | nil => intro cr; simp [runAll]
  | cons c rest ih => intro cr; simp [runAll, ih]

/-- The log only grows. -/
theorem call_done_prefix (v : Verdicts) (d : Dedupe) (s : Stage) (cr : CR) (c : CheckId) :
    ∃ l, (call v d s cr c).1.done = cr.done ++ l := by
  rw [call_done]; split
  · exact ⟨[], by simp⟩
  · exact ⟨_, rfl⟩

theorem runAll_done_prefix (v : Verdicts) (d : Dedupe) (s : Stage) (g : List CheckId) : ∀ cr : CR,
    ∃ l, (runAll v d s cr g).1.done = cr.done ++ l := by
  induction g with
  | nil => intro cr; exact ⟨[], by simp [runAll]⟩
  | cons c rest ih =>
    intro cr
    obtain ⟨l1, h1⟩ := call_done_prefix v d s cr c
    obtain ⟨l2, h2⟩ := ih (call v d s cr c).1
    exact ⟨l1 ++ l2, by simp [runAll, h2, h1]⟩

/-- After the group ran, every member's live state object has the stage in its log. -/
theorem runAll_mem_done (v : Verdicts) (d : Dedupe) (s : Stage) (g : List CheckId) : ∀ cr : CR,
    ∀ c ∈ g, (⟨c, cr.gen c, s⟩ : Call) ∈ (runAll v d s cr g).1.done := by
  induction g with
  | nil => intro cr c hc; simp at hc
  | cons a rest ih =>
    intro cr c hc
    simp only [runAll]
    rcases List.mem_cons.mp hc with rfl | hc
    · obtain ⟨l, hl⟩ := runAll_done_prefix v d s rest (call v d s cr c).1
      rw [hl]
      apply List.mem_append_left
      rw [call_done]; split
      · rename_i h; exact h.2
      · simp
    · have := ih (call v d s cr a).1 c hc
      rwa [call_gen] at this

/-- With bookkeeping (`skip` / `cached`) a duplicate-free log stays duplicate-free. -/
theorem runAll_nodup_dedupe (v : Verdicts) (d : Dedupe) (s : Stage) (hd : d ≠ .never) (g : List CheckId) : ∀ cr : CR,
    cr.done.Nodup → (runAll v d s cr g).1.done.Nodup := by
  induction g with
  | nil => intro cr h; simpa [runAll] using h
  | cons c rest ih =>
    intro cr h
    simp only [runAll]
    apply ih
    rw [call_done]; split
    · exact h
    · rename_i hn
      have : (⟨c, cr.gen c, s⟩ : Call) ∉ cr.done := fun hm => hn ⟨hd, hm⟩
      simp [List.nodup_append, h]
      intro a ha hEq; exact this (hEq ▸ ha)

/-- Without bookkeeping (connection / sender stage) every member is called. -/
theorem runAll_done_never (v : Verdicts) (s : Stage) (g : List CheckId) : ∀ cr : CR,
    (runAll v .never s cr g).1.done = cr.done ++ g.map (fun c => (⟨c, cr.gen c, s⟩ : Call)) := by
  induction g with
  | nil => intro cr; simp [runAll]
  | cons c rest ih =>
    intro cr
    simp only [runAll]
    rw [ih]
    simp [call_done, call_gen]

/-- Every entry the group adds to the log is a call of a member at this stage. -/
theorem runAll_done_new (v : Verdicts) (d : Dedupe) (s : Stage) (g : List CheckId) : ∀ cr : CR,
    ∀ k ∈ (runAll v d s cr g).1.done, k ∈ cr.done ∨ (k.c ∈ g ∧ k.g = cr.gen k.c ∧ k.s = s) := by
  induction g with
  | nil => intro cr k hk; left; simpa [runAll] using hk
  | cons c rest ih =>
    intro cr k hk
    simp only [runAll] at hk
    rcases ih _ k hk with h | ⟨h1, h2, h3⟩
    · rw [call_done] at h; split at h
      · exact Or.inl h
      · rcases List.mem_append.mp h with h | h
        · exact Or.inl h
        · simp at h; subst h; right; simp
    · right; rw [call_gen] at h2; exact ⟨List.mem_cons_of_mem _ h1, h2, h3⟩

/-! ## the two `sync.Once` and the completion order -/

theorem foldl_once_rErr (l : List (CheckId × Eff)) : ∀ a : Once,
    (l.foldl onceStep a).rErr.isSome = (a.rErr.isSome || l.any (fun x => x.2 == .rej)) := by
  induction l with
  | nil => intro a; simp
  | cons x rest ih =>
    intro a
    simp only [List.foldl_cons, ih, List.any_cons]
    obtain ⟨c, e⟩ := x
    cases e <;> cases h : a.rErr <;> simp [onceStep, h]

theorem foldl_once_qErr (l : List (CheckId × Eff)) : ∀ a : Once,
    (l.foldl onceStep a).qErr.isSome = (a.qErr.isSome || l.any (fun x => x.2 == .quar)) := by
  induction l with
  | nil => intro a; simp
  | cons x rest ih =>
    intro a
    simp only [List.foldl_cons, ih, List.any_cons]
    obtain ⟨c, e⟩ := x
    cases e <;> cases h : a.qErr <;> simp [onceStep, h]

theorem finish_rErr (l : List (CheckId × Eff)) : (finish l).rErr.isSome = l.any (fun x => x.2 == .rej) := by
  simp [finish, foldl_once_rErr]

theorem finish_qErr (l : List (CheckId × Eff)) : (finish l).qErr.isSome = l.any (fun x => x.2 == .quar) := by
  simp [finish, foldl_once_qErr]

/-- Whether the merge ends with a reject / a quarantine does not depend on who finished first. -/
theorem finish_perm {l₁ l₂ : List (CheckId × Eff)} (h : l₁.Perm l₂) :
    (finish l₁).rErr.isSome = (finish l₂).rErr.isSome ∧ (finish l₁).qErr.isSome = (finish l₂).qErr.isSome := by
  simp [finish_rErr, finish_qErr, h.any_eq]

/-! ## `runAndMerge` -/

/-- `runAndMergeResults` in closed form (for an admissible completion order). -/
theorem runAndMerge_eq (o : Ord) (ho : o.fair) (v : Verdicts) (d : Dedupe) (s : Stage) (cr : CR) (g : List CheckId) :
    runAndMerge o v d s cr g =
      let p := runAll v d s cr g
      if p.2.any (fun x => x.2 == .rej) then ({ p.1 with tick := p.1.tick + 1 }, true)
      else ({ p.1 with tick := p.1.tick + 1, mergedQ := p.1.mergedQ || p.2.any (fun x => x.2 == .quar) }, false) := by
  have hp := finish_perm (ho (runAll v d s cr g).1.tick (runAll v d s cr g).2)
  simp only [runAndMerge, hp.1, hp.2, finish_rErr, finish_qErr]

theorem runAndMerge_ord (o : Ord) (ho : o.fair) : runAndMerge o = runAndMerge idOrd := by
  funext v d s cr g
  rw [runAndMerge_eq o ho, runAndMerge_eq idOrd idOrd_fair]

theorem any_map_eff (v : Verdicts) (s : Stage) (e : Eff) (g : List CheckId) :
    (g.map (fun c => (c, v c s))).any (fun x => x.2 == e) = g.any (fun c => v c s == e) := by
  induction g with
  | nil => rfl
  | cons c rest ih => simp [ih]

theorem runAll_results_sub (v : Verdicts) (d : Dedupe) (s : Stage) (g : List CheckId) : ∀ cr : CR,
    ∀ x ∈ (runAll v d s cr g).2, x.2 = .none ∨ (x.1 ∈ g ∧ x.2 = v x.1 s) := by
  induction g with
  | nil => intro cr x hx; simp [runAll] at hx
  | cons c rest ih =>
    intro cr x hx
    simp only [runAll, List.mem_cons] at hx
    rcases hx with rfl | hx
    · simp only [call]
      split
      · split <;> simp
      · split <;> simp
    · rcases ih _ x hx with h | h
      · exact Or.inl h
      · exact Or.inr ⟨List.mem_cons_of_mem _ h.1, h.2⟩

theorem rm_frame (v : Verdicts) (d : Dedupe) (s : Stage) (cr : CR) (g : List CheckId) :
    (runAndMerge idOrd v d s cr g).1.states = cr.states ∧ (runAndMerge idOrd v d s cr g).1.gens = cr.gens ∧
    (runAndMerge idOrd v d s cr g).1.checkedRcpts = cr.checkedRcpts ∧
    (runAndMerge idOrd v d s cr g).1.done = (runAll v d s cr g).1.done := by
  have h := runAll_frame v d s g cr
  rw [runAndMerge_eq idOrd idOrd_fair]
  simp only
  split <;> simp [h.1, h.2.1, h.2.2.1]

theorem rm_gen (v : Verdicts) (d : Dedupe) (s : Stage) (cr : CR) (g : List CheckId) (x : CheckId) :
    (runAndMerge idOrd v d s cr g).1.gen x = cr.gen x := by
  simp [CR.gen, (rm_frame v d s cr g).2.1]

theorem rm_snd (v : Verdicts) (d : Dedupe) (s : Stage) (hd : d ≠ .skip) (cr : CR) (g : List CheckId) :
    (runAndMerge idOrd v d s cr g).2 = g.any (fun c => v c s == .rej) := by
  rw [runAndMerge_eq idOrd idOrd_fair]
  simp only [runAll_results v d s hd g cr, any_map_eff]
  split <;> simp_all

theorem rm_snd_skip (v : Verdicts) (s : Stage) (cr : CR) (g : List CheckId) :
    (runAndMerge idOrd v .skip s cr g).2 = false := by
  rw [runAndMerge_eq idOrd idOrd_fair]
  have h := runAll_results_skip v s g cr
  have : (runAll v .skip s cr g).2.any (fun x => x.2 == .rej) = false := by
    rw [List.any_eq_false]; intro x hx; simpa using h x hx
  simp [this]

theorem rm_mergedQ (v : Verdicts) (d : Dedupe) (s : Stage) (hd : d ≠ .skip) (cr : CR) (g : List CheckId)
    (h : (runAndMerge idOrd v d s cr g).2 = false) :
    (runAndMerge idOrd v d s cr g).1.mergedQ = (cr.mergedQ || g.any (fun c => v c s == .quar)) := by
  have hf := runAll_frame v d s g cr
  rw [runAndMerge_eq idOrd idOrd_fair] at h ⊢
  simp only [runAll_results v d s hd g cr, any_map_eff] at h ⊢
  split
  · rename_i h'; simp [h'] at h
  · simp [hf.2.2.2.1]

theorem rm_mergedQ_mono (v : Verdicts) (d : Dedupe) (s : Stage) (cr : CR) (g : List CheckId)
    (h : cr.mergedQ = true) : (runAndMerge idOrd v d s cr g).1.mergedQ = true := by
  have hf := runAll_frame v d s g cr
  rw [runAndMerge_eq idOrd idOrd_fair]
  simp only
  split <;> simp [hf.2.2.2.1, h]

theorem rm_mergedQ_src (v : Verdicts) (d : Dedupe) (s : Stage) (cr : CR) (g : List CheckId)
    (h : (runAndMerge idOrd v d s cr g).1.mergedQ = true) : cr.mergedQ = true ∨ ∃ c ∈ g, v c s = .quar := by
  have hf := runAll_frame v d s g cr
  rw [runAndMerge_eq idOrd idOrd_fair] at h
  simp only at h
  split at h
  · left; simpa [hf.2.2.2.1] using h
  · simp only [hf.2.2.2.1, Bool.or_eq_true, List.any_eq_true, beq_iff_eq] at h
    rcases h with h | ⟨x, hx, he⟩
    · exact Or.inl h
    · rcases runAll_results_sub v d s g cr x hx with hn | ⟨hm, hv⟩
      · rw [hn] at he; cases he
      · exact Or.inr ⟨x.1, hm, hv ▸ he⟩

/-! ## `replayRcpts` and `checkStates` -/

theorem replay_frame (v : Verdicts) (checks : List CheckId) (rs : List Rcpt) : ∀ cr : CR,
    (replayRcpts idOrd v checks cr rs).1.states = cr.states ∧ (replayRcpts idOrd v checks cr rs).1.gens = cr.gens ∧
    (replayRcpts idOrd v checks cr rs).1.checkedRcpts = cr.checkedRcpts := by
  induction rs with
  | nil => intro cr; simp [replayRcpts]
  | cons r rest ih =>
    intro cr
    have h1 := rm_frame v .skip (.rcpt r) cr checks
    simp only [replayRcpts]
    split
    · exact ⟨h1.1, h1.2.1, h1.2.2.1⟩
    · have h2 := ih (runAndMerge idOrd v .skip (.rcpt r) cr checks).1
      exact ⟨h2.1.trans h1.1, h2.2.1.trans h1.2.1, h2.2.2.trans h1.2.2.1⟩

theorem replay_snd (v : Verdicts) (checks : List CheckId) (rs : List Rcpt) : ∀ cr : CR,
    (replayRcpts idOrd v checks cr rs).2 = false := by
  induction rs with
  | nil => intro cr; simp [replayRcpts]
  | cons r rest ih =>
    intro cr
    simp only [replayRcpts, rm_snd_skip]
    simpa using ih _

theorem replay_gen (v : Verdicts) (checks : List CheckId) (rs : List Rcpt) (cr : CR) (x : CheckId) :
    (replayRcpts idOrd v checks cr rs).1.gen x = cr.gen x := by
  simp [CR.gen, (replay_frame v checks rs cr).2.1]

theorem replay_mergedQ_mono (v : Verdicts) (checks : List CheckId) (rs : List Rcpt) : ∀ cr : CR,
    cr.mergedQ = true → (replayRcpts idOrd v checks cr rs).1.mergedQ = true := by
  induction rs with
  | nil => intro cr h; simpa [replayRcpts] using h
  | cons r rest ih =>
    intro cr h
    simp only [replayRcpts, rm_snd_skip]
    exact ih _ (rm_mergedQ_mono v .skip (.rcpt r) cr checks h)

theorem replay_mergedQ_src (v : Verdicts) (checks : List CheckId) (rs : List Rcpt) : ∀ cr : CR,
    (replayRcpts idOrd v checks cr rs).1.mergedQ = true → cr.mergedQ = true ∨ ∃ c s, v c s = .quar := by
  induction rs with
  | nil => intro cr h; left; simpa [replayRcpts] using h
  | cons r rest ih =>
    intro cr h
    simp only [replayRcpts, rm_snd_skip] at h
    rcases ih _ h with h | h
    · rcases rm_mergedQ_src v .skip (.rcpt r) cr checks h with h | ⟨c, _, hc⟩
      · exact Or.inl h
      · exact Or.inr ⟨c, _, hc⟩
    · exact Or.inr h

theorem rm_done_prefix (v : Verdicts) (d : Dedupe) (s : Stage) (cr : CR) (g : List CheckId) :
    ∃ l, (runAndMerge idOrd v d s cr g).1.done = cr.done ++ l := by
  rw [(rm_frame v d s cr g).2.2.2]; exact runAll_done_prefix v d s g cr

theorem replay_done_prefix (v : Verdicts) (checks : List CheckId) (rs : List Rcpt) : ∀ cr : CR,
    ∃ l, (replayRcpts idOrd v checks cr rs).1.done = cr.done ++ l := by
  induction rs with
  | nil => intro cr; exact ⟨[], by simp [replayRcpts]⟩
  | cons r rest ih =>
    intro cr
    simp only [replayRcpts, rm_snd_skip]
    obtain ⟨l1, h1⟩ := rm_done_prefix v .skip (.rcpt r) cr checks
    obtain ⟨l2, h2⟩ := ih (runAndMerge idOrd v .skip (.rcpt r) cr checks).1
    exact ⟨l1 ++ l2, by simp [h2, h1]⟩

theorem replay_nodup (v : Verdicts) (checks : List CheckId) (rs : List Rcpt) : ∀ cr : CR,
    cr.done.Nodup → (replayRcpts idOrd v checks cr rs).1.done.Nodup := by
  induction rs with
  | nil => intro cr h; simpa [replayRcpts] using h
  | cons r rest ih =>
    intro cr h
    simp only [replayRcpts, rm_snd_skip]
    apply ih
    rw [(rm_frame v .skip (.rcpt r) cr checks).2.2.2]
    exact runAll_nodup_dedupe v .skip (.rcpt r) (by simp) checks cr h

/-- Every call the replay adds is a recipient-stage call of a member of the group on its live state. -/
theorem replay_done_new (v : Verdicts) (checks : List CheckId) (rs : List Rcpt) : ∀ cr : CR,
    ∀ k ∈ (replayRcpts idOrd v checks cr rs).1.done,
      k ∈ cr.done ∨ (k.c ∈ checks ∧ k.g = cr.gen k.c ∧ ∃ r, k.s = .rcpt r) := by
  induction rs with
  | nil => intro cr k hk; left; simpa [replayRcpts] using hk
  | cons r rest ih =>
    intro cr k hk
    simp only [replayRcpts, rm_snd_skip] at hk
    rcases ih _ k hk with h | ⟨h1, h2, h3⟩
    · rw [(rm_frame v .skip (.rcpt r) cr checks).2.2.2] at h
      rcases runAll_done_new v .skip (.rcpt r) checks cr k h with h | ⟨h1, h2, h3⟩
      · exact Or.inl h
      · exact Or.inr ⟨h1, h2, r, h3⟩
    · rw [rm_gen] at h2; exact Or.inr ⟨h1, h2, h3⟩

/-- The checks of a group that have no state object yet. -/
def newOf (cr : CR) (checks : List CheckId) : List CheckId := checks.filter (fun c => !cr.states.contains c)

theorem mem_newOf {cr : CR} {checks : List CheckId} {c : CheckId} :
    c ∈ newOf cr checks ↔ c ∈ checks ∧ c ∉ cr.states := by
  simp [newOf, List.mem_filter]

/-- `checkStates` fails exactly when a check that has no state yet rejects the connection or the sender. -/
theorem cs_snd (v : Verdicts) (cr : CR) (g : List CheckId) :
    (checkStates idOrd v cr g).2 =
      (newOf cr g).any (fun c => v c .conn == .rej || v c .sender == .rej) := by
  simp only [checkStates]
  rw [show g.filter (fun c => !cr.states.contains c) = newOf cr g from rfl]
  by_cases hn : (newOf cr g).isEmpty = true
  · simp only [hn, ↓reduceIte]
    rw [List.isEmpty_iff] at hn; simp [hn]
  · simp only [hn, Bool.false_eq_true, ↓reduceIte, rm_snd v .never _ (by simp), replay_snd]
    by_cases h1 : (newOf cr g).any (fun c => v c .conn == .rej) = true
    · simp only [h1, ↓reduceIte]
      rw [List.any_eq_true] at h1; obtain ⟨c, hc, hv⟩ := h1
      symm; rw [List.any_eq_true]; exact ⟨c, hc, by simp [hv]⟩
    · simp only [h1, Bool.false_eq_true, ↓reduceIte]
      by_cases h2 : (newOf cr g).any (fun c => v c .sender == .rej) = true
      · simp only [h2, ↓reduceIte]
        rw [List.any_eq_true] at h2; obtain ⟨c, hc, hv⟩ := h2
        symm; rw [List.any_eq_true]; exact ⟨c, hc, by simp [hv]⟩
      · simp only [h2, Bool.false_eq_true, ↓reduceIte]
        symm; rw [List.any_eq_false]
        intro c hc
        simp only [Bool.not_eq_true, List.any_eq_false] at h1 h2
        have a := h1 c hc; have b := h2 c hc
        simp_all

theorem cs_snd_iff (v : Verdicts) (cr : CR) (g : List CheckId) :
    (checkStates idOrd v cr g).2 = true ↔
      ∃ c ∈ g, c ∉ cr.states ∧ (v c .conn = .rej ∨ v c .sender = .rej) := by
  rw [cs_snd, List.any_eq_true]
  constructor
  · rintro ⟨c, hc, hv⟩
    rw [mem_newOf] at hc
    exact ⟨c, hc.1, hc.2, by simpa using hv⟩
  · rintro ⟨c, hc, hs, hv⟩
    exact ⟨c, mem_newOf.mpr ⟨hc, hs⟩, by simpa using hv⟩

/-- What `checkStates` leaves alone, and what it does to the state map: on success the new state
objects are stored, on failure they are dropped (their generation is used up). -/
theorem cs_frame (v : Verdicts) (cr : CR) (g : List CheckId) :
    (checkStates idOrd v cr g).1.checkedRcpts = cr.checkedRcpts ∧
    ((checkStates idOrd v cr g).2 = false →
      (checkStates idOrd v cr g).1.states = cr.states ++ newOf cr g ∧ (checkStates idOrd v cr g).1.gens = cr.gens) ∧
    ((checkStates idOrd v cr g).2 = true →
      (checkStates idOrd v cr g).1.states = cr.states ∧ (checkStates idOrd v cr g).1.gens = cr.gens ++ newOf cr g) := by
  simp only [checkStates]
  rw [show g.filter (fun c => !cr.states.contains c) = newOf cr g from rfl]
  by_cases hn : (newOf cr g).isEmpty = true
  · simp only [hn, ↓reduceIte]
    rw [List.isEmpty_iff] at hn; simp [hn]
  · simp only [hn, Bool.false_eq_true, ↓reduceIte]
    have f1 := rm_frame v .never .conn cr (newOf cr g)
    generalize runAndMerge idOrd v .never .conn cr (newOf cr g) = p1 at f1 ⊢
    by_cases h1 : p1.2 = true
    · simp [h1, discard, f1.1, f1.2.1, f1.2.2.1]
    · simp only [h1, Bool.false_eq_true, ↓reduceIte]
      have f2 := rm_frame v .never .sender p1.1 (newOf cr g)
      generalize runAndMerge idOrd v .never .sender p1.1 (newOf cr g) = p2 at f2 ⊢
      by_cases h2 : p2.2 = true
      · simp [h2, discard, f1.1, f1.2.1, f1.2.2.1, f2.1, f2.2.1, f2.2.2.1]
      · simp only [h2, Bool.false_eq_true, ↓reduceIte]
        have f3 := replay_frame v g p2.1.checkedRcpts p2.1
        have s3 := replay_snd v g p2.1.checkedRcpts p2.1
        generalize replayRcpts idOrd v g p2.1 p2.1.checkedRcpts = p3 at f3 s3 ⊢
        simp [s3, f1.1, f1.2.1, f1.2.2.1, f2.1, f2.2.1, f2.2.2.1, f3.1, f3.2.1, f3.2.2]

/-! ## the bookkeeping invariant -/

/-- What holds of the runner between two of its operations: the call log has no duplicates (no
state object is asked twice about the same stage); log entries of checks without a live state
object belong to dropped state objects; every live state object has seen connection and sender. -/
structure Inv (cr : CR) : Prop where
  nodup : cr.done.Nodup
  old : ∀ k ∈ cr.done, k.c ∉ cr.states → k.g < cr.gen k.c
  le : ∀ k ∈ cr.done, k.g ≤ cr.gen k.c
  seen : ∀ c ∈ cr.states, (⟨c, cr.gen c, .conn⟩ : Call) ∈ cr.done ∧ (⟨c, cr.gen c, .sender⟩ : Call) ∈ cr.done

theorem Inv.init : Inv CR.init := by
  constructor <;> simp [CR.init]

theorem nodup_append_map_fresh (done : List Call) (new : List CheckId) (gen : CheckId → Nat) (s : Stage)
    (hd : done.Nodup) (hn : new.Nodup) (hf : ∀ c ∈ new, (⟨c, gen c, s⟩ : Call) ∉ done) :
    (done ++ new.map (fun c => (⟨c, gen c, s⟩ : Call))).Nodup := by
  induction new generalizing done with
  | nil => simpa using hd
  | cons c rest ih =>
    have hc : c ∉ rest := (List.nodup_cons.mp hn).1
    have hr : rest.Nodup := (List.nodup_cons.mp hn).2
    have := ih (done ++ [⟨c, gen c, s⟩]) (by
        simp only [List.nodup_append, hd, true_and]
        refine ⟨by simp, ?_⟩
        intro a ha b hb; simp at hb; subst hb
        intro h; exact hf c (by simp) (h ▸ ha)) hr (by
        intro x hx hm
        rcases List.mem_append.mp hm with hm | hm
        · exact hf x (List.mem_cons_of_mem _ hx) hm
        · simp at hm; exact hc (hm.1 ▸ hx))
    simpa using this

theorem discard_gen (cr : CR) (new : List CheckId) (c : CheckId) :
    (discard cr new).gen c = cr.gen c + new.count c := by
  simp [discard, CR.gen, List.count_append]

theorem newOf_nodup {cr : CR} {g : List CheckId} (h : g.Nodup) : (newOf cr g).Nodup := h.filter _

/-- The log after the connection (or sender) group of newly created states. -/
theorem rm_never_done (v : Verdicts) (s : Stage) (cr : CR) (g : List CheckId) :
    (runAndMerge idOrd v .never s cr g).1.done = cr.done ++ g.map (fun c => (⟨c, cr.gen c, s⟩ : Call)) := by
  rw [(rm_frame v .never s cr g).2.2.2, runAll_done_never]

/-- `checkStates` preserves the invariant (for a group without repeated members). -/
theorem cs_inv (v : Verdicts) (cr : CR) (g : List CheckId) (hI : Inv cr) (hg : g.Nodup) :
    Inv (checkStates idOrd v cr g).1 := by
  have hnew : (newOf cr g).Nodup := newOf_nodup hg
  have hns : ∀ c ∈ newOf cr g, c ∉ cr.states := fun c hc => (mem_newOf.mp hc).2
  simp only [checkStates]
  rw [show g.filter (fun c => !cr.states.contains c) = newOf cr g from rfl]
  by_cases hn : (newOf cr g).isEmpty = true
  · simpa [hn] using hI
  · simp only [hn, Bool.false_eq_true, ↓reduceIte]
    -- connection group
    have f1 := rm_frame v .never .conn cr (newOf cr g)
    have d1 := rm_never_done v .conn cr (newOf cr g)
    have g1 : ∀ x, (runAndMerge idOrd v .never .conn cr (newOf cr g)).1.gen x = cr.gen x := rm_gen v .never .conn cr _
    generalize runAndMerge idOrd v .never .conn cr (newOf cr g) = p1 at f1 d1 g1 ⊢
    have fresh1 : ∀ c ∈ newOf cr g, ∀ s, (⟨c, cr.gen c, s⟩ : Call) ∉ cr.done := by
      intro c hc s hm
      have := hI.old _ hm (hns c hc); simp at this
    have nd1 : p1.1.done.Nodup := by
      rw [d1]; exact nodup_append_map_fresh _ _ _ _ hI.nodup hnew (fun c hc => fresh1 c hc _)
    have mem1 : ∀ k ∈ p1.1.done, k ∈ cr.done ∨ (k.c ∈ newOf cr g ∧ k.g = cr.gen k.c ∧ k.s = .conn) := by
      intro k hk; rw [d1] at hk
      rcases List.mem_append.mp hk with h | h
      · exact Or.inl h
      · simp only [List.mem_map] at h; obtain ⟨c, hc, rfl⟩ := h; exact Or.inr ⟨hc, rfl, rfl⟩
    -- the invariant after dropping the new states, given what the log may contain
    have drop : ∀ (q : CR), q.states = cr.states → q.gens = cr.gens → q.done.Nodup →
        (∀ k ∈ q.done, k ∈ cr.done ∨ (k.c ∈ newOf cr g ∧ k.g = cr.gen k.c)) →
        (∀ k ∈ cr.done, k ∈ q.done) → Inv (discard q (newOf cr g)) := by
      intro q hs hgn hnd hmem hsub
      have gq : ∀ x, q.gen x = cr.gen x := by intro x; simp [CR.gen, hgn]
      constructor
      · simpa [discard] using hnd
      · intro k hk hks
        simp only [discard] at hk hks
        rw [discard_gen, gq]
        rcases hmem k hk with h | ⟨h1, h2⟩
        · have := hI.old k h (hs ▸ hks); omega
        · have : 0 < (newOf cr g).count k.c := List.count_pos_iff.mpr h1
          omega
      · intro k hk
        simp only [discard] at hk
        rw [discard_gen, gq]
        rcases hmem k hk with h | ⟨_, h2⟩
        · have := hI.le k h; omega
        · omega
      · intro c hc
        simp only [discard] at hc
        rw [hs] at hc
        have hcn : c ∉ newOf cr g := fun h => hns c h hc
        have : (discard q (newOf cr g)).gen c = cr.gen c := by
          rw [discard_gen, gq, List.count_eq_zero_of_not_mem hcn]; rfl
        rw [this]
        exact ⟨hsub _ (hI.seen c hc).1, hsub _ (hI.seen c hc).2⟩
    by_cases h1 : p1.2 = true
    · simp only [h1, ↓reduceIte]
      exact drop p1.1 f1.1 f1.2.1 nd1 (fun k hk => (mem1 k hk).imp id (fun h => ⟨h.1, h.2.1⟩))
        (fun k hk => by rw [d1]; exact List.mem_append_left _ hk)
    · simp only [h1, Bool.false_eq_true, ↓reduceIte]
      -- sender group
      have f2 := rm_frame v .never .sender p1.1 (newOf cr g)
      have d2 := rm_never_done v .sender p1.1 (newOf cr g)
      have g2 : ∀ x, (runAndMerge idOrd v .never .sender p1.1 (newOf cr g)).1.gen x = p1.1.gen x := rm_gen v .never .sender p1.1 _
      generalize runAndMerge idOrd v .never .sender p1.1 (newOf cr g) = p2 at f2 d2 g2 ⊢
      have nd2 : p2.1.done.Nodup := by
        rw [d2]
        apply nodup_append_map_fresh _ _ _ _ nd1 hnew
        intro c hc hm
        rw [g1] at hm
        rcases mem1 _ hm with h | ⟨_, _, h3⟩
        · exact fresh1 c hc _ h
        · cases h3
      have mem2 : ∀ k ∈ p2.1.done, k ∈ cr.done ∨ (k.c ∈ newOf cr g ∧ k.g = cr.gen k.c) := by
        intro k hk; rw [d2] at hk
        rcases List.mem_append.mp hk with h | h
        · exact (mem1 k h).imp id (fun h => ⟨h.1, h.2.1⟩)
        · simp only [List.mem_map] at h; obtain ⟨c, hc, rfl⟩ := h; exact Or.inr ⟨hc, g1 c⟩
      have sub2 : ∀ k ∈ cr.done, k ∈ p2.1.done := by
        intro k hk; rw [d2, d1]; simp [hk]
      have st2 : p2.1.states = cr.states := f2.1.trans f1.1
      have gn2 : p2.1.gens = cr.gens := f2.2.1.trans f1.2.1
      by_cases h2 : p2.2 = true
      · simp only [h2, ↓reduceIte]
        exact drop p2.1 st2 gn2 nd2 mem2 sub2
      · simp only [h2, Bool.false_eq_true, ↓reduceIte]
        -- replay of the recipients
        have f3 := replay_frame v g p2.1.checkedRcpts p2.1
        have s3 := replay_snd v g p2.1.checkedRcpts p2.1
        have nd3 := replay_nodup v g p2.1.checkedRcpts p2.1 nd2
        have new3 := replay_done_new v g p2.1.checkedRcpts p2.1
        obtain ⟨l3, pre3⟩ := replay_done_prefix v g p2.1.checkedRcpts p2.1
        generalize replayRcpts idOrd v g p2.1 p2.1.checkedRcpts = p3 at f3 s3 nd3 new3 pre3 ⊢
        have gq2 : ∀ x, p2.1.gen x = cr.gen x := by intro x; simp [CR.gen, gn2]
        have mem3 : ∀ k ∈ p3.1.done, k ∈ cr.done ∨ ((k.c ∈ newOf cr g ∨ k.c ∈ cr.states) ∧ k.g = cr.gen k.c) := by
          intro k hk
          rcases new3 k hk with h | ⟨h1, h2, _⟩
          · exact (mem2 k h).imp id (fun h => ⟨Or.inl h.1, h.2⟩)
          · right; rw [gq2] at h2
            refine ⟨?_, h2⟩
            by_cases hs : k.c ∈ cr.states
            · exact Or.inr hs
            · exact Or.inl (mem_newOf.mpr ⟨h1, hs⟩)
        have st3 : p3.1.states = cr.states := f3.1.trans st2
        have gn3 : p3.1.gens = cr.gens := f3.2.1.trans gn2
        have gq3 : ∀ x, CR.gen { p3.1 with states := p3.1.states ++ newOf cr g } x = cr.gen x := by
          intro x; simp [CR.gen, gn3]
        simp only [s3, Bool.false_eq_true, ↓reduceIte]
        constructor
        · exact nd3
        · intro k hk hks
          simp only [st3, List.mem_append, not_or] at hk hks
          rw [gq3]
          rcases mem3 k hk with h | ⟨h1, _⟩
          · exact hI.old k h hks.1
          · rcases h1 with h1 | h1
            · exact absurd h1 hks.2
            · exact absurd h1 hks.1
        · intro k hk
          rw [gq3]
          rcases mem3 k hk with h | ⟨_, h2⟩
          · exact hI.le k h
          · omega
        · intro c hc
          simp only [st3, List.mem_append] at hc
          rw [gq3]
          have sub3 : ∀ k ∈ p2.1.done, k ∈ p3.1.done := by
            intro k hk; show k ∈ p3.1.done; rw [pre3]; exact List.mem_append_left _ hk
          rcases hc with hc | hc
          · exact ⟨sub3 _ (sub2 _ (hI.seen c hc).1), sub3 _ (sub2 _ (hI.seen c hc).2)⟩
          · constructor
            · apply sub3; rw [d2, d1]
              exact List.mem_append_left _ (List.mem_append_right _ (List.mem_map.mpr ⟨c, hc, rfl⟩))
            · apply sub3; rw [d2]
              exact List.mem_append_right _ (List.mem_map.mpr ⟨c, hc, by rw [g1]⟩)

/-! ## more about `checkStates` -/

theorem cs_done_prefix (v : Verdicts) (cr : CR) (g : List CheckId) :
    ∃ l, (checkStates idOrd v cr g).1.done = cr.done ++ l := by
  simp only [checkStates]
  split
  · exact ⟨[], by simp⟩
  · obtain ⟨l1, h1⟩ := rm_done_prefix v .never .conn cr (newOf cr g)
    rw [show g.filter (fun c => !cr.states.contains c) = newOf cr g from rfl]
    generalize runAndMerge idOrd v .never .conn cr (newOf cr g) = p1 at h1 ⊢
    split
    · exact ⟨l1, by simpa [discard] using h1⟩
    · obtain ⟨l2, h2⟩ := rm_done_prefix v .never .sender p1.1 (newOf cr g)
      generalize runAndMerge idOrd v .never .sender p1.1 (newOf cr g) = p2 at h2 ⊢
      split
      · exact ⟨l1 ++ l2, by simp [discard, h2, h1]⟩
      · obtain ⟨l3, h3⟩ := replay_done_prefix v g p2.1.checkedRcpts p2.1
        generalize replayRcpts idOrd v g p2.1 p2.1.checkedRcpts = p3 at h3 ⊢
        split
        · exact ⟨l1 ++ l2 ++ l3, by simp [discard, h3, h2, h1]⟩
        · exact ⟨l1 ++ l2 ++ l3, by simp [h3, h2, h1]⟩

theorem cs_mergedQ_mono (v : Verdicts) (cr : CR) (g : List CheckId) (h : cr.mergedQ = true) :
    (checkStates idOrd v cr g).1.mergedQ = true := by
  simp only [checkStates]
  split
  · exact h
  · have m1 := rm_mergedQ_mono v .never .conn cr (g.filter (fun c => !cr.states.contains c)) h
    generalize runAndMerge idOrd v .never .conn cr _ = p1 at m1 ⊢
    split
    · simpa [discard] using m1
    · have m2 := rm_mergedQ_mono v .never .sender p1.1 (g.filter (fun c => !cr.states.contains c)) m1
      generalize runAndMerge idOrd v .never .sender p1.1 _ = p2 at m2 ⊢
      split
      · simpa [discard] using m2
      · have m3 := replay_mergedQ_mono v g p2.1.checkedRcpts p2.1 m2
        generalize replayRcpts idOrd v g p2.1 p2.1.checkedRcpts = p3 at m3 ⊢
        split
        · simpa [discard] using m3
        · simpa using m3

theorem cs_mergedQ_src (v : Verdicts) (cr : CR) (g : List CheckId)
    (h : (checkStates idOrd v cr g).1.mergedQ = true) : cr.mergedQ = true ∨ ∃ c s, v c s = .quar := by
  simp only [checkStates] at h
  split at h
  · exact Or.inl h
  · have m1 := rm_mergedQ_src v .never .conn cr (g.filter (fun c => !cr.states.contains c))
    generalize runAndMerge idOrd v .never .conn cr _ = p1 at m1 h
    have e1 : p1.1.mergedQ = true → cr.mergedQ = true ∨ ∃ c s, v c s = .quar := fun hq =>
      (m1 hq).imp id (fun ⟨c, _, hc⟩ => ⟨c, _, hc⟩)
    split at h
    · exact e1 (by simpa [discard] using h)
    · have m2 := rm_mergedQ_src v .never .sender p1.1 (g.filter (fun c => !cr.states.contains c))
      generalize runAndMerge idOrd v .never .sender p1.1 _ = p2 at m2 h
      have e2 : p2.1.mergedQ = true → cr.mergedQ = true ∨ ∃ c s, v c s = .quar := fun hq => by
        rcases m2 hq with hq | ⟨c, _, hc⟩
        · exact e1 hq
        · exact Or.inr ⟨c, _, hc⟩
      split at h
      · exact e2 (by simpa [discard] using h)
      · have m3 := replay_mergedQ_src v g p2.1.checkedRcpts p2.1
        generalize replayRcpts idOrd v g p2.1 p2.1.checkedRcpts = p3 at m3 h
        have e3 : p3.1.mergedQ = true → cr.mergedQ = true ∨ ∃ c s, v c s = .quar := fun hq => by
          rcases m3 hq with hq | hq
          · exact e2 hq
          · exact Or.inr hq
        split at h
        · exact e3 (by simpa [discard] using h)
        · exact e3 (by simpa using h)

/-- When `checkStates` succeeds, a quarantine verdict of a newly created state at the connection
or sender stage is recorded. -/
theorem cs_mergedQ_new (v : Verdicts) (cr : CR) (g : List CheckId)
    (hok : (checkStates idOrd v cr g).2 = false) (c : CheckId) (hc : c ∈ newOf cr g)
    (hq : v c .conn = .quar ∨ v c .sender = .quar) : (checkStates idOrd v cr g).1.mergedQ = true := by
  simp only [checkStates] at hok ⊢
  rw [show g.filter (fun c => !cr.states.contains c) = newOf cr g from rfl] at hok ⊢
  have hne : (newOf cr g).isEmpty = false := by
    cases h : newOf cr g with
    | nil => rw [h] at hc; cases hc
    | cons a b => rfl
  simp only [hne, Bool.false_eq_true, ↓reduceIte] at hok ⊢
  have q1 := rm_mergedQ v .never .conn (by simp) cr (newOf cr g)
  generalize runAndMerge idOrd v .never .conn cr (newOf cr g) = p1 at q1 hok ⊢
  by_cases h1 : p1.2 = true
  · simp [h1] at hok
  · simp only [h1, Bool.false_eq_true, ↓reduceIte] at hok ⊢
    have q1' := q1 (by simpa using h1)
    have q2 := rm_mergedQ v .never .sender (by simp) p1.1 (newOf cr g)
    have mono2 := rm_mergedQ_mono v .never .sender p1.1 (newOf cr g)
    generalize runAndMerge idOrd v .never .sender p1.1 (newOf cr g) = p2 at q2 mono2 hok ⊢
    by_cases h2 : p2.2 = true
    · simp [h2] at hok
    · simp only [h2, Bool.false_eq_true, ↓reduceIte] at hok ⊢
      have q2' := q2 (by simpa using h2)
      have hm2 : p2.1.mergedQ = true := by
        rcases hq with hq | hq
        · apply mono2; rw [q1']
          simp only [Bool.or_eq_true, List.any_eq_true, beq_iff_eq]; exact Or.inr ⟨c, hc, hq⟩
        · rw [q2']
          simp only [Bool.or_eq_true, List.any_eq_true, beq_iff_eq]; exact Or.inr ⟨c, hc, hq⟩
      have m3 := replay_mergedQ_mono v g p2.1.checkedRcpts p2.1 hm2
      have s3 := replay_snd v g p2.1.checkedRcpts p2.1
      generalize replayRcpts idOrd v g p2.1 p2.1.checkedRcpts = p3 at m3 s3 hok ⊢
      simpa [s3] using m3

theorem cs_gen_stable (v : Verdicts) (cr : CR) (g : List CheckId) (c : CheckId) (hc : c ∈ cr.states) :
    (checkStates idOrd v cr g).1.gen c = cr.gen c := by
  have f := cs_frame v cr g
  cases h : (checkStates idOrd v cr g).2
  · simp [CR.gen, (f.2.1 h).2]
  · have hn : c ∉ newOf cr g := fun hm => (mem_newOf.mp hm).2 hc
    simp [CR.gen, (f.2.2 h).2, List.count_append, List.count_eq_zero_of_not_mem hn]

/-! ## one stage for a group: `checkStates`, then the group's closures with bookkeeping
(`checkRcpt` and `checkBody` are this, up to the list of replayable recipients) -/

def stageRun (v : Verdicts) (cr : CR) (g : List CheckId) (s : Stage) : CR × Bool :=
  let p := checkStates idOrd v cr g
  if p.2 then p else runAndMerge idOrd v .cached s p.1 g

theorem checkBody_eq (v : Verdicts) (cr : CR) (g : List CheckId) :
    checkBody idOrd v cr g = stageRun v cr g .body := rfl

theorem checkRcpt_eq (v : Verdicts) (cr : CR) (g : List CheckId) (r : Rcpt) :
    (checkRcpt idOrd v cr g r).2 = (stageRun v cr g (.rcpt r)).2 ∧
    (checkRcpt idOrd v cr g r).1.states = (stageRun v cr g (.rcpt r)).1.states ∧
    (checkRcpt idOrd v cr g r).1.gens = (stageRun v cr g (.rcpt r)).1.gens ∧
    (checkRcpt idOrd v cr g r).1.done = (stageRun v cr g (.rcpt r)).1.done ∧
    (checkRcpt idOrd v cr g r).1.mergedQ = (stageRun v cr g (.rcpt r)).1.mergedQ := by
  simp only [checkRcpt, stageRun]
  split <;> simp

theorem Inv.congr {a b : CR} (hd : a.done = b.done) (hs : a.states = b.states) (hg : a.gens = b.gens)
    (h : Inv a) : Inv b := by
  have gg : ∀ x, b.gen x = a.gen x := by intro x; simp [CR.gen, hg]
  constructor
  · rw [← hd]; exact h.nodup
  · intro k hk hks; rw [gg]; exact h.old k (hd ▸ hk) (hs ▸ hks)
  · intro k hk; rw [gg]; exact h.le k (hd ▸ hk)
  · intro c hc; rw [gg, ← hd]; exact h.seen c (hs ▸ hc)

theorem sr_snd_iff (v : Verdicts) (cr : CR) (g : List CheckId) (s : Stage) :
    (stageRun v cr g s).2 = true ↔
      (∃ c ∈ g, c ∉ cr.states ∧ (v c .conn = .rej ∨ v c .sender = .rej)) ∨ ∃ c ∈ g, v c s = .rej := by
  simp only [stageRun]
  by_cases h : (checkStates idOrd v cr g).2 = true
  · simp only [h, ↓reduceIte, true_iff]
    exact Or.inl ((cs_snd_iff v cr g).mp h)
  · simp only [h, Bool.false_eq_true, ↓reduceIte, rm_snd v .cached s (by simp), List.any_eq_true, beq_iff_eq]
    constructor
    · intro hx; exact Or.inr hx
    · rintro (hx | hx)
      · exact absurd ((cs_snd_iff v cr g).mpr hx) h
      · exact hx

theorem sr_states (v : Verdicts) (cr : CR) (g : List CheckId) (s : Stage) :
    (∀ c ∈ cr.states, c ∈ (stageRun v cr g s).1.states) ∧
    (∀ c ∈ (stageRun v cr g s).1.states, c ∈ cr.states ∨ c ∈ g) ∧
    ((stageRun v cr g s).2 = false → ∀ c ∈ g, c ∈ (stageRun v cr g s).1.states) := by
  have f := cs_frame v cr g
  simp only [stageRun]
  by_cases h : (checkStates idOrd v cr g).2 = true
  · simp only [h, ↓reduceIte, (f.2.2 h).1]
    exact ⟨fun c hc => hc, fun c hc => Or.inl hc, fun hx => by simp at hx⟩
  · have h' : (checkStates idOrd v cr g).2 = false := by simpa using h
    have fs := (f.2.1 h').1
    simp only [h, Bool.false_eq_true, ↓reduceIte, (rm_frame v .cached s _ g).1, fs]
    refine ⟨fun c hc => List.mem_append_left _ hc, ?_, ?_⟩
    · intro c hc
      rcases List.mem_append.mp hc with hc | hc
      · exact Or.inl hc
      · exact Or.inr (mem_newOf.mp hc).1
    · intro _ c hc
      by_cases hs : c ∈ cr.states
      · exact List.mem_append_left _ hs
      · exact List.mem_append_right _ (mem_newOf.mpr ⟨hc, hs⟩)

theorem sr_gen_stable (v : Verdicts) (cr : CR) (g : List CheckId) (s : Stage) (c : CheckId) (hc : c ∈ cr.states) :
    (stageRun v cr g s).1.gen c = cr.gen c := by
  simp only [stageRun]
  split
  · exact cs_gen_stable v cr g c hc
  · rw [rm_gen]; exact cs_gen_stable v cr g c hc

theorem sr_done_prefix (v : Verdicts) (cr : CR) (g : List CheckId) (s : Stage) :
    ∃ l, (stageRun v cr g s).1.done = cr.done ++ l := by
  simp only [stageRun]
  obtain ⟨l1, h1⟩ := cs_done_prefix v cr g
  split
  · exact ⟨l1, h1⟩
  · obtain ⟨l2, h2⟩ := rm_done_prefix v .cached s (checkStates idOrd v cr g).1 g
    exact ⟨l1 ++ l2, by simp [h2, h1]⟩

theorem sr_mergedQ_mono (v : Verdicts) (cr : CR) (g : List CheckId) (s : Stage) (h : cr.mergedQ = true) :
    (stageRun v cr g s).1.mergedQ = true := by
  simp only [stageRun]
  split
  · exact cs_mergedQ_mono v cr g h
  · exact rm_mergedQ_mono v .cached s _ g (cs_mergedQ_mono v cr g h)

theorem sr_mergedQ_src (v : Verdicts) (cr : CR) (g : List CheckId) (s : Stage)
    (h : (stageRun v cr g s).1.mergedQ = true) : cr.mergedQ = true ∨ ∃ c s, v c s = .quar := by
  simp only [stageRun] at h
  split at h
  · exact cs_mergedQ_src v cr g h
  · rcases rm_mergedQ_src v .cached s _ g h with h | ⟨c, _, hc⟩
    · exact cs_mergedQ_src v cr g h
    · exact Or.inr ⟨c, _, hc⟩

/-- A stage that passes records every quarantine verdict given in it: by a member of the group
at this stage, or by a member created for it at the connection or sender stage. -/
theorem sr_mergedQ_ok (v : Verdicts) (cr : CR) (g : List CheckId) (s : Stage)
    (hok : (stageRun v cr g s).2 = false) (c : CheckId) (hc : c ∈ g)
    (hq : v c s = .quar ∨ (c ∉ cr.states ∧ (v c .conn = .quar ∨ v c .sender = .quar))) :
    (stageRun v cr g s).1.mergedQ = true := by
  simp only [stageRun] at hok ⊢
  by_cases h : (checkStates idOrd v cr g).2 = true
  · simp [h] at hok
  · have h' : (checkStates idOrd v cr g).2 = false := by simpa using h
    simp only [h, Bool.false_eq_true, ↓reduceIte] at hok ⊢
    rcases hq with hq | ⟨hs, hq⟩
    · rw [rm_mergedQ v .cached s (by simp) _ g hok]
      simp only [Bool.or_eq_true, List.any_eq_true, beq_iff_eq]; exact Or.inr ⟨c, hc, hq⟩
    · exact rm_mergedQ_mono v .cached s _ g (cs_mergedQ_new v cr g h' c (mem_newOf.mpr ⟨hc, hs⟩) hq)

theorem sr_inv (v : Verdicts) (cr : CR) (g : List CheckId) (s : Stage) (hI : Inv cr) (hg : g.Nodup) :
    Inv (stageRun v cr g s).1 := by
  have I1 := cs_inv v cr g hI hg
  have f := cs_frame v cr g
  simp only [stageRun]
  by_cases h : (checkStates idOrd v cr g).2 = true
  · simpa [h] using I1
  · have h' : (checkStates idOrd v cr g).2 = false := by simpa using h
    simp only [h, Bool.false_eq_true, ↓reduceIte]
    have hin : ∀ c ∈ g, c ∈ (checkStates idOrd v cr g).1.states := by
      intro c hc; rw [(f.2.1 h').1]
      by_cases hs : c ∈ cr.states
      · exact List.mem_append_left _ hs
      · exact List.mem_append_right _ (mem_newOf.mpr ⟨hc, hs⟩)
    generalize (checkStates idOrd v cr g).1 = q at I1 hin ⊢
    have fr := rm_frame v .cached s q g
    have gq : ∀ x, (runAndMerge idOrd v .cached s q g).1.gen x = q.gen x := rm_gen v .cached s q g
    have new := runAll_done_new v .cached s g q
    obtain ⟨l, pre⟩ := runAll_done_prefix v .cached s g q
    constructor
    · rw [fr.2.2.2]; exact runAll_nodup_dedupe v .cached s (by simp) g q I1.nodup
    · intro k hk hks
      rw [fr.2.2.2] at hk; rw [fr.1] at hks; rw [gq]
      rcases new k hk with hk | ⟨h1, _, _⟩
      · exact I1.old k hk hks
      · exact absurd (hin _ h1) hks
    · intro k hk
      rw [fr.2.2.2] at hk; rw [gq]
      rcases new k hk with hk | ⟨_, h2, _⟩
      · exact I1.le k hk
      · omega
    · intro c hc
      rw [fr.1] at hc; rw [gq, fr.2.2.2, pre]
      exact ⟨List.mem_append_left _ (I1.seen c hc).1, List.mem_append_left _ (I1.seen c hc).2⟩

/-- A stage that passes has been seen by the live state object of every member of the group. -/
theorem sr_done_ok (v : Verdicts) (cr : CR) (g : List CheckId) (s : Stage)
    (hok : (stageRun v cr g s).2 = false) (c : CheckId) (hc : c ∈ g) :
    (⟨c, (stageRun v cr g s).1.gen c, s⟩ : Call) ∈ (stageRun v cr g s).1.done := by
  simp only [stageRun] at hok ⊢
  by_cases h : (checkStates idOrd v cr g).2 = true
  · simp [h] at hok
  · simp only [h, Bool.false_eq_true, ↓reduceIte]
    rw [rm_gen, (rm_frame v .cached s _ g).2.2.2]
    exact runAll_mem_done v .cached s g _ c hc

/-! ## who is called at all -/

theorem rm_done_src (v : Verdicts) (d : Dedupe) (s : Stage) (cr : CR) (g : List CheckId) :
    ∀ k ∈ (runAndMerge idOrd v d s cr g).1.done, k ∈ cr.done ∨ k.c ∈ g := by
  intro k hk
  rw [(rm_frame v d s cr g).2.2.2] at hk
  exact (runAll_done_new v d s g cr k hk).imp id (fun h => h.1)

theorem replay_done_src (v : Verdicts) (checks : List CheckId) (rs : List Rcpt) (cr : CR) :
    ∀ k ∈ (replayRcpts idOrd v checks cr rs).1.done, k ∈ cr.done ∨ k.c ∈ checks := by
  intro k hk
  exact (replay_done_new v checks rs cr k hk).imp id (fun h => h.1)

/-- `checkStates` only calls members of the group. -/
theorem cs_done_src (v : Verdicts) (cr : CR) (g : List CheckId) :
    ∀ k ∈ (checkStates idOrd v cr g).1.done, k ∈ cr.done ∨ k.c ∈ g := by
  have sub : ∀ c ∈ newOf cr g, c ∈ g := fun c hc => (mem_newOf.mp hc).1
  simp only [checkStates]
  rw [show g.filter (fun c => !cr.states.contains c) = newOf cr g from rfl]
  split
  · intro k hk; exact Or.inl hk
  · have s1 := rm_done_src v .never .conn cr (newOf cr g)
    generalize runAndMerge idOrd v .never .conn cr (newOf cr g) = p1 at s1 ⊢
    have e1 : ∀ k ∈ p1.1.done, k ∈ cr.done ∨ k.c ∈ g := fun k hk => (s1 k hk).imp id (sub _)
    split
    · simpa [discard] using e1
    · have s2 := rm_done_src v .never .sender p1.1 (newOf cr g)
      generalize runAndMerge idOrd v .never .sender p1.1 (newOf cr g) = p2 at s2 ⊢
      have e2 : ∀ k ∈ p2.1.done, k ∈ cr.done ∨ k.c ∈ g := by
        intro k hk
        rcases s2 k hk with h | h
        · exact e1 k h
        · exact Or.inr (sub _ h)
      split
      · simpa [discard] using e2
      · have s3 := replay_done_src v g p2.1.checkedRcpts p2.1
        generalize replayRcpts idOrd v g p2.1 p2.1.checkedRcpts = p3 at s3 ⊢
        have e3 : ∀ k ∈ p3.1.done, k ∈ cr.done ∨ k.c ∈ g := by
          intro k hk
          rcases s3 k hk with h | h
          · exact e2 k h
          · exact Or.inr h
        split
        · simpa [discard] using e3
        · simpa using e3

theorem sr_done_src (v : Verdicts) (cr : CR) (g : List CheckId) (s : Stage) :
    ∀ k ∈ (stageRun v cr g s).1.done, k ∈ cr.done ∨ k.c ∈ g := by
  simp only [stageRun]
  split
  · exact cs_done_src v cr g
  · intro k hk
    rcases rm_done_src v .cached s _ g k hk with h | h
    · exact cs_done_src v cr g k h
    · exact Or.inr h

/-! ## the specification of one stage for one group, and of a sequence of groups -/

/-- Every live state object whose check quarantines at the connection or sender stage has had
that verdict recorded. -/
def QInv (v : Verdicts) (cr : CR) : Prop :=
  ∀ c ∈ cr.states, (v c .conn = .quar ∨ v c .sender = .quar) → cr.mergedQ = true

theorem QInv.init (v : Verdicts) : QInv v CR.init := by intro c hc; simp [CR.init] at hc

/-- A state object is only kept when its check did not reject the connection or the sender. -/
def RInv (v : Verdicts) (cr : CR) : Prop :=
  ∀ c ∈ cr.states, v c .conn ≠ .rej ∧ v c .sender ≠ .rej

theorem RInv.init (v : Verdicts) : RInv v CR.init := by intro c hc; simp [CR.init] at hc

theorem cs_rinv (v : Verdicts) (cr : CR) (g : List CheckId) (h : RInv v cr) :
    RInv v (checkStates idOrd v cr g).1 := by
  have f := cs_frame v cr g
  intro c hc
  cases hr : (checkStates idOrd v cr g).2
  · rw [(f.2.1 hr).1] at hc
    rcases List.mem_append.mp hc with hc | hc
    · exact h c hc
    · have hn : ¬ ((checkStates idOrd v cr g).2 = true) := by simp [hr]
      rw [cs_snd_iff] at hn
      have hm := mem_newOf.mp hc
      constructor
      · intro hv; exact hn ⟨c, hm.1, hm.2, Or.inl hv⟩
      · intro hv; exact hn ⟨c, hm.1, hm.2, Or.inr hv⟩
  · rw [(f.2.2 hr).1] at hc
    exact h c hc

/-- What `checkRcpt` / `checkBody` for group `g` at stage `s` does, as far as the properties need. -/
structure StepSpec (v : Verdicts) (g : List CheckId) (s : Stage) (cr cr' : CR) (res : Bool) : Prop where
  snd_iff : res = true ↔
    (∃ c ∈ g, c ∉ cr.states ∧ (v c .conn = .rej ∨ v c .sender = .rej)) ∨ ∃ c ∈ g, v c s = .rej
  lower : ∀ c ∈ cr.states, c ∈ cr'.states
  upper : ∀ c ∈ cr'.states, c ∈ cr.states ∨ c ∈ g
  ok_states : res = false → ∀ c ∈ g, c ∈ cr'.states
  gen_stable : ∀ c ∈ cr.states, cr'.gen c = cr.gen c
  pre : ∃ l, cr'.done = cr.done ++ l
  q_mono : cr.mergedQ = true → cr'.mergedQ = true
  q_src : cr'.mergedQ = true → cr.mergedQ = true ∨ ∃ c s, v c s = .quar
  q_ok : res = false → ∀ c ∈ g, v c s = .quar → cr'.mergedQ = true
  qinv : QInv v cr → QInv v cr'
  rinv : RInv v cr → RInv v cr'
  inv : Inv cr → g.Nodup → Inv cr'
  done_ok : res = false → ∀ c ∈ g, (⟨c, cr'.gen c, s⟩ : Call) ∈ cr'.done
  gens_ok : res = false → cr'.gens = cr.gens
  gens_keep : (∀ c, v c .conn ≠ .rej ∧ v c .sender ≠ .rej) → cr'.gens = cr.gens
  done_src : ∀ k ∈ cr'.done, k ∈ cr.done ∨ k.c ∈ g

theorem cs_qinv (v : Verdicts) (cr : CR) (g : List CheckId) (h : QInv v cr) :
    QInv v (checkStates idOrd v cr g).1 := by
  have f := cs_frame v cr g
  intro c hc hq
  cases hr : (checkStates idOrd v cr g).2
  · rw [(f.2.1 hr).1] at hc
    rcases List.mem_append.mp hc with hc | hc
    · exact cs_mergedQ_mono v cr g (h c hc hq)
    · exact cs_mergedQ_new v cr g hr c hc hq
  · rw [(f.2.2 hr).1] at hc
    exact cs_mergedQ_mono v cr g (h c hc hq)

theorem sr_spec (v : Verdicts) (cr : CR) (g : List CheckId) (s : Stage) :
    StepSpec v g s cr (stageRun v cr g s).1 (stageRun v cr g s).2 where
  snd_iff := sr_snd_iff v cr g s
  lower := (sr_states v cr g s).1
  upper := (sr_states v cr g s).2.1
  ok_states := (sr_states v cr g s).2.2
  gen_stable := fun c hc => sr_gen_stable v cr g s c hc
  pre := sr_done_prefix v cr g s
  q_mono := sr_mergedQ_mono v cr g s
  q_src := sr_mergedQ_src v cr g s
  q_ok := fun hok c hc hq => sr_mergedQ_ok v cr g s hok c hc (Or.inl hq)
  qinv := by
    intro h
    have h1 := cs_qinv v cr g h
    simp only [stageRun]
    split
    · exact h1
    · intro c hc hq
      rw [(rm_frame v .cached s _ g).1] at hc
      exact rm_mergedQ_mono v .cached s _ g (h1 c hc hq)
  rinv := by
    intro h
    have h1 := cs_rinv v cr g h
    simp only [stageRun]
    split
    · exact h1
    · intro c hc
      rw [(rm_frame v .cached s _ g).1] at hc
      exact h1 c hc
  inv := sr_inv v cr g s
  done_ok := sr_done_ok v cr g s
  gens_ok := by
    intro hok
    simp only [stageRun] at hok ⊢
    by_cases h : (checkStates idOrd v cr g).2 = true
    · simp [h] at hok
    · have h' : (checkStates idOrd v cr g).2 = false := by simpa using h
      simp only [h, Bool.false_eq_true, ↓reduceIte]
      rw [(rm_frame v .cached s _ g).2.1]
      exact ((cs_frame v cr g).2.1 h').2
  gens_keep := by
    intro hno
    have h' : (checkStates idOrd v cr g).2 = false := by
      cases h : (checkStates idOrd v cr g).2
      · rfl
      · obtain ⟨c, _, _, hv⟩ := (cs_snd_iff v cr g).mp h
        rcases hv with hv | hv
        · exact absurd hv (hno c).1
        · exact absurd hv (hno c).2
    simp only [stageRun, h', Bool.false_eq_true, ↓reduceIte]
    rw [(rm_frame v .cached s _ g).2.1]
    exact ((cs_frame v cr g).2.1 h').2
  done_src := sr_done_src v cr g s

theorem StepSpec.congr {v : Verdicts} {g : List CheckId} {s : Stage} {cr a b : CR} {res : Bool}
    (h : StepSpec v g s cr a res) (hs : b.states = a.states) (hg : b.gens = a.gens) (hd : b.done = a.done)
    (hq : b.mergedQ = a.mergedQ) : StepSpec v g s cr b res := by
  have gg : ∀ x, b.gen x = a.gen x := by intro x; simp [CR.gen, hg]
  constructor
  · exact h.snd_iff
  · rw [hs]; exact h.lower
  · rw [hs]; exact h.upper
  · rw [hs]; exact h.ok_states
  · intro c hc; rw [gg]; exact h.gen_stable c hc
  · rw [hd]; exact h.pre
  · rw [hq]; exact h.q_mono
  · rw [hq]; exact h.q_src
  · rw [hq]; exact h.q_ok
  · intro hi c hc; rw [hq]; rw [hs] at hc; exact h.qinv hi c hc
  · intro hi c hc; rw [hs] at hc; exact h.rinv hi c hc
  · intro hi hn; exact (h.inv hi hn).congr hd.symm hs.symm hg.symm
  · intro hok c hc; rw [gg, hd]; exact h.done_ok hok c hc
  · intro hok; rw [hg]; exact h.gens_ok hok
  · intro hno; rw [hg]; exact h.gens_keep hno
  · rw [hd]; exact h.done_src

theorem checkBody_spec (v : Verdicts) (cr : CR) (g : List CheckId) :
    StepSpec v g .body cr (checkBody idOrd v cr g).1 (checkBody idOrd v cr g).2 := by
  rw [checkBody_eq]; exact sr_spec v cr g .body

theorem checkRcpt_spec (v : Verdicts) (cr : CR) (g : List CheckId) (r : Rcpt) :
    StepSpec v g (.rcpt r) cr (checkRcpt idOrd v cr g r).1 (checkRcpt idOrd v cr g r).2 := by
  have e := checkRcpt_eq v cr g r
  rw [e.1]
  exact (sr_spec v cr g (.rcpt r)).congr e.2.1 e.2.2.1 e.2.2.2.1 e.2.2.2.2

/-- Groups handled one after the other at the same stage, stopping at the first refusal. -/
inductive Chain (v : Verdicts) (s : Stage) : List (List CheckId) → CR → CR → Bool → Prop
  | nil (cr : CR) : Chain v s [] cr cr false
  | stop {g gs cr cr'} : StepSpec v g s cr cr' true → Chain v s (g :: gs) cr cr' true
  | cons {g gs cr cr1 cr' res} : StepSpec v g s cr cr1 false → Chain v s gs cr1 cr' res →
      Chain v s (g :: gs) cr cr' res

theorem Chain.lower {v s gs cr cr' res} (h : Chain v s gs cr cr' res) : ∀ c ∈ cr.states, c ∈ cr'.states := by
  induction h with
  | nil => intro c hc; exact hc
  | stop h => exact h.lower
  | cons h _ ih => intro c hc; exact ih c (h.lower c hc)

theorem Chain.gen_stable {v s gs cr cr' res} (h : Chain v s gs cr cr' res) :
    ∀ c ∈ cr.states, cr'.gen c = cr.gen c := by
  induction h with
  | nil => intro c _; rfl
  | stop h => exact h.gen_stable
  | cons h _ ih => intro c hc; rw [ih c (h.lower c hc), h.gen_stable c hc]

theorem Chain.pre {v s gs cr cr' res} (h : Chain v s gs cr cr' res) : ∃ l, cr'.done = cr.done ++ l := by
  induction h with
  | nil => exact ⟨[], by simp⟩
  | stop h => exact h.pre
  | cons h _ ih =>
    obtain ⟨l1, h1⟩ := h.pre; obtain ⟨l2, h2⟩ := ih
    exact ⟨l1 ++ l2, by simp [h2, h1]⟩

theorem Chain.q_mono {v s gs cr cr' res} (h : Chain v s gs cr cr' res) : cr.mergedQ = true → cr'.mergedQ = true := by
  induction h with
  | nil => exact id
  | stop h => exact h.q_mono
  | cons h _ ih => intro hq; exact ih (h.q_mono hq)

theorem Chain.q_src {v s gs cr cr' res} (h : Chain v s gs cr cr' res) :
    cr'.mergedQ = true → cr.mergedQ = true ∨ ∃ c s, v c s = .quar := by
  induction h with
  | nil => exact Or.inl
  | stop h => exact h.q_src
  | cons h _ ih =>
    intro hq
    rcases ih hq with hq | hq
    · exact h.q_src hq
    · exact Or.inr hq

theorem Chain.qinv {v s gs cr cr' res} (h : Chain v s gs cr cr' res) : QInv v cr → QInv v cr' := by
  induction h with
  | nil => exact id
  | stop h => exact h.qinv
  | cons h _ ih => intro hq; exact ih (h.qinv hq)

theorem Chain.gens_ok {v s gs cr cr' res} (h : Chain v s gs cr cr' res) : res = false → cr'.gens = cr.gens := by
  induction h with
  | nil => intro _; rfl
  | stop _ => intro h; cases h
  | cons h _ ih => intro hok; rw [ih hok, h.gens_ok rfl]

theorem Chain.gens_keep {v s gs cr cr' res} (h : Chain v s gs cr cr' res)
    (hno : ∀ c, v c .conn ≠ .rej ∧ v c .sender ≠ .rej) : cr'.gens = cr.gens := by
  induction h with
  | nil => rfl
  | stop h => exact h.gens_keep hno
  | cons h _ ih => rw [ih, h.gens_keep hno]

theorem Chain.done_src {v s gs cr cr' res} (h : Chain v s gs cr cr' res) :
    ∀ k ∈ cr'.done, k ∈ cr.done ∨ ∃ g ∈ gs, k.c ∈ g := by
  induction h with
  | nil => intro k hk; exact Or.inl hk
  | stop h => intro k hk; exact (h.done_src k hk).imp id (fun hc => ⟨_, List.mem_cons_self, hc⟩)
  | cons h _ ih =>
    intro k hk
    rcases ih k hk with hk | ⟨g, hg, hc⟩
    · exact (h.done_src k hk).imp id (fun hc => ⟨_, List.mem_cons_self, hc⟩)
    · exact Or.inr ⟨g, List.mem_cons_of_mem _ hg, hc⟩

theorem Chain.rinv {v s gs cr cr' res} (h : Chain v s gs cr cr' res) : RInv v cr → RInv v cr' := by
  induction h with
  | nil => exact id
  | stop h => exact h.rinv
  | cons h _ ih => intro hq; exact ih (h.rinv hq)

theorem Chain.inv {v s gs cr cr' res} (h : Chain v s gs cr cr' res) (hn : ∀ g ∈ gs, g.Nodup) :
    Inv cr → Inv cr' := by
  induction h with
  | nil => exact id
  | stop h => exact fun hi => h.inv hi (hn _ (by simp))
  | cons h _ ih =>
    intro hi
    exact ih (fun g hg => hn g (List.mem_cons_of_mem _ hg)) (h.inv hi (hn _ (by simp)))

/-- A reject verdict of any member of any group at this stage refuses. -/
theorem Chain.refused_of_reject {v s gs cr cr' res} (h : Chain v s gs cr cr' res) :
    (∃ g ∈ gs, ∃ c ∈ g, v c s = .rej) → res = true := by
  induction h with
  | nil => rintro ⟨g, hg, _⟩; cases hg
  | stop _ => intro _; rfl
  | @cons g gs cr cr1 cr' res h _ ih =>
    rintro ⟨g', hg', c, hc, hv⟩
    rcases List.mem_cons.mp hg' with rfl | hg'
    · have : false = true := h.snd_iff.mpr (Or.inr ⟨c, hc, hv⟩)
      cases this
    · exact ih ⟨g', hg', c, hc, hv⟩

/-- A refusal is always due to a reject verdict: of a member at this stage, or of a member that
had no state object yet at the connection or sender stage. -/
theorem Chain.reject_of_refused {v s gs cr cr' res} (h : Chain v s gs cr cr' res) :
    res = true → ∃ g ∈ gs, ∃ c ∈ g, v c s = .rej ∨ (c ∉ cr.states ∧ (v c .conn = .rej ∨ v c .sender = .rej)) := by
  induction h with
  | nil => intro h; cases h
  | @stop g gs cr cr' h =>
    intro _
    rcases h.snd_iff.mp rfl with ⟨c, hc, hs, hv⟩ | ⟨c, hc, hv⟩
    · exact ⟨g, by simp, c, hc, Or.inr ⟨hs, hv⟩⟩
    · exact ⟨g, by simp, c, hc, Or.inl hv⟩
  | @cons g gs cr cr1 cr' res h _ ih =>
    intro hr
    obtain ⟨g', hg', c, hc, hv⟩ := ih hr
    refine ⟨g', List.mem_cons_of_mem _ hg', c, hc, ?_⟩
    rcases hv with hv | ⟨hs, hv⟩
    · exact Or.inl hv
    · exact Or.inr ⟨fun hm => hs (h.lower c hm), hv⟩

/-- When all groups pass: every member has a live state object that has seen the stage, and every
quarantine verdict given at the stage is recorded. -/
theorem Chain.ok {v s gs cr cr' res} (h : Chain v s gs cr cr' res) (hok : res = false) :
    ∀ g ∈ gs, ∀ c ∈ g, c ∈ cr'.states ∧ (⟨c, cr'.gen c, s⟩ : Call) ∈ cr'.done ∧
      (v c s = .quar → cr'.mergedQ = true) := by
  induction h with
  | nil => intro g hg; cases hg
  | stop _ => cases hok
  | @cons g gs cr cr1 cr' res h hc ih =>
    intro g' hg' c hcg
    rcases List.mem_cons.mp hg' with rfl | hg'
    · have hs1 : c ∈ cr1.states := h.ok_states rfl c hcg
      refine ⟨hc.lower c hs1, ?_, ?_⟩
      · obtain ⟨l, hl⟩ := hc.pre
        rw [hc.gen_stable c hs1, hl]
        exact List.mem_append_left _ (h.done_ok rfl c hcg)
      · intro hq; exact hc.q_mono (h.q_ok rfl c hcg hq)
    · exact ih hok g' hg' c hcg

/-! ## the pipeline delivery: MAIL, RCPT, DATA -/

/-- The runner only moves forward: live state objects stay (with their generation), the log and
the recorded quarantine only grow. -/
structure Ext (cr cr' : CR) : Prop where
  st : ∀ c ∈ cr.states, c ∈ cr'.states ∧ cr'.gen c = cr.gen c
  pre : ∃ l, cr'.done = cr.done ++ l
  q : cr.mergedQ = true → cr'.mergedQ = true

theorem Ext.refl (cr : CR) : Ext cr cr := ⟨fun _ h => ⟨h, rfl⟩, ⟨[], by simp⟩, id⟩

theorem Ext.trans {a b c : CR} (h1 : Ext a b) (h2 : Ext b c) : Ext a c := by
  refine ⟨?_, ?_, fun h => h2.q (h1.q h)⟩
  · intro x hx
    have a1 := h1.st x hx
    have a2 := h2.st x a1.1
    exact ⟨a2.1, a2.2.trans a1.2⟩
  · obtain ⟨l1, e1⟩ := h1.pre; obtain ⟨l2, e2⟩ := h2.pre
    exact ⟨l1 ++ l2, by simp [e2, e1]⟩

theorem Ext.mem {a b : CR} (h : Ext a b) {c : CheckId} {s : Stage} (hc : c ∈ a.states)
    (hm : (⟨c, a.gen c, s⟩ : Call) ∈ a.done) : c ∈ b.states ∧ (⟨c, b.gen c, s⟩ : Call) ∈ b.done := by
  obtain ⟨l, hl⟩ := h.pre
  have := h.st c hc
  exact ⟨this.1, by rw [this.2, hl]; exact List.mem_append_left _ hm⟩

theorem Chain.ext {v s gs cr cr' res} (h : Chain v s gs cr cr' res) : Ext cr cr' :=
  ⟨fun c hc => ⟨h.lower c hc, h.gen_stable c hc⟩, h.pre, h.q_mono⟩

/-- The groups whose checks apply to a recipient: global, source block, its destination block. -/
def appGroups (cfg : Cfg) (r : Rcpt) : List (List CheckId) :=
  [cfg.global, cfg.source, (cfg.block (cfg.route r)).checks]

/-- The condition under which the property demands (and allows) RCPT to be refused. -/
def MustRefuseRcpt (cfg : Cfg) (r : Rcpt) : Prop :=
  ∃ g ∈ appGroups cfg r, ∃ c ∈ g, cfg.v c (.rcpt r) = .rej ∨ cfg.v c .conn = .rej ∨ cfg.v c .sender = .rej

/-- Some modifier group fails in `RewriteRcpt` for this recipient. -/
def MFaults.rcptAny (m : MFaults) (r : Rcpt) : Bool := m.rcptG r || m.rcptS r || m.rcptB r

/-- The recipient passes every check that applies to it and the `RewriteRcpt` of the global and of
the source modifiers: `AddRcpt` gets as far as `getRcptModifiers` of the destination block.  Such a
recipient was *handled in the scope* of the block's checks (they were asked about it and let it
pass) and its block takes part in the body stage - also when the block's own `RewriteRcpt` then
fails for it. -/
def ReachesBlock (cfg : Cfg) (r : Rcpt) : Prop :=
  ¬ MustRefuseRcpt cfg r ∧ cfg.mf.rcptG r = false ∧ cfg.mf.rcptS r = false

theorem chain_rcpt_refused_iff {cfg : Cfg} {r : Rcpt} {cr cr' : CR} {res : Bool}
    (ch : Chain cfg.v (.rcpt r) (appGroups cfg r) cr cr' res) (hr : RInv cfg.v cr) :
    res = true ↔ MustRefuseRcpt cfg r := by
  constructor
  · intro h
    obtain ⟨g, hg, c, hc, hv⟩ := ch.reject_of_refused h
    refine ⟨g, hg, c, hc, ?_⟩
    rcases hv with hv | ⟨_, hv⟩
    · exact Or.inl hv
    · exact Or.inr hv
  · rintro ⟨g, hg, c, hc, hv⟩
    cases hres : res
    · exfalso
      rw [hres] at ch
      rcases hv with hv | hv
      · have := ch.refused_of_reject ⟨g, hg, c, hc, hv⟩; cases this
      · have hs := (ch.ok rfl g hg c hc).1
        have := ch.rinv hr c hs
        rcases hv with hv | hv
        · exact this.1 hv
        · exact this.2 hv
    · rfl

/-- `AddRcpt`, case by case: either all three check groups were gone through (stopping at the first
refusal; `res`), the command fails iff a check refused or the destination block's `RewriteRcpt`
fails, and the block is entered into `rcptModifiersState` iff its checks passed; or the global /
source `RewriteRcpt` failed after the global and source checks had passed. -/
theorem addRcpt_cases (cfg : Cfg) (d : Dlv) (r : Rcpt) :
    (∃ res, Chain cfg.v (.rcpt r) (appGroups cfg r) d.cr (addRcpt idOrd cfg d r).1.cr res ∧
        (addRcpt idOrd cfg d r).2 = (res || cfg.mf.rcptB r) ∧
        (res = false → cfg.mf.rcptG r = false ∧ cfg.mf.rcptS r = false) ∧
        (addRcpt idOrd cfg d r).1.used = (if res then d.used else useBlock d.used (cfg.route r))) ∨
    (Chain cfg.v (.rcpt r) [cfg.global, cfg.source] d.cr (addRcpt idOrd cfg d r).1.cr false ∧
        (addRcpt idOrd cfg d r).2 = true ∧ (cfg.mf.rcptG r || cfg.mf.rcptS r) = true ∧
        (addRcpt idOrd cfg d r).1.used = d.used) := by
  have s1 := checkRcpt_spec cfg.v d.cr cfg.global r
  simp only [addRcpt, appGroups]
  generalize checkRcpt idOrd cfg.v d.cr cfg.global r = p1 at s1 ⊢
  obtain ⟨c1, b1⟩ := p1
  cases b1
  · have s2 := checkRcpt_spec cfg.v c1 cfg.source r
    simp only [Bool.false_eq_true, ↓reduceIte]
    generalize checkRcpt idOrd cfg.v c1 cfg.source r = p2 at s2 ⊢
    obtain ⟨c2, b2⟩ := p2
    cases b2
    · simp only [Bool.false_eq_true, ↓reduceIte]
      by_cases hm : (cfg.mf.rcptG r || cfg.mf.rcptS r) = true
      · right
        simp only [hm, ↓reduceIte]
        exact ⟨Chain.cons s1 (Chain.cons s2 (Chain.nil _)), by simp, by simp, by simp⟩
      · left
        have hm' : cfg.mf.rcptG r = false ∧ cfg.mf.rcptS r = false := by
          simpa using hm
        simp only [hm, Bool.false_eq_true, ↓reduceIte]
        have s3 := checkRcpt_spec cfg.v c2 (cfg.block (cfg.route r)).checks r
        generalize checkRcpt idOrd cfg.v c2 (cfg.block (cfg.route r)).checks r = p3 at s3 ⊢
        obtain ⟨c3, b3⟩ := p3
        cases b3
        · refine ⟨false, ?_⟩
          simp only [Bool.false_eq_true, ↓reduceIte]
          cases hb : cfg.mf.rcptB r
          · exact ⟨Chain.cons s1 (Chain.cons s2 (Chain.cons s3 (Chain.nil _))), by simp, fun _ => hm', by simp⟩
          · exact ⟨Chain.cons s1 (Chain.cons s2 (Chain.cons s3 (Chain.nil _))), by simp, fun _ => hm', by simp⟩
        · exact ⟨true, Chain.cons s1 (Chain.cons s2 (Chain.stop s3)), by simp, by simp, by simp⟩
    · exact Or.inl ⟨true, Chain.cons s1 (Chain.stop s2), by simp, by simp, by simp⟩
  · exact Or.inl ⟨true, Chain.stop s1, by simp, by simp, by simp⟩

theorem mem_useBlock {us : List Nat} {b x : Nat} : x ∈ useBlock us b ↔ x ∈ us ∨ x = b := by
  unfold useBlock
  split
  · rename_i h
    constructor
    · exact Or.inl
    · rintro (h' | rfl)
      · exact h'
      · exact h
  · simp

/-- Well-formed configuration: no block lists the same check twice. -/
structure Cfg.WF (cfg : Cfg) : Prop where
  global : cfg.global.Nodup
  source : cfg.source.Nodup
  block : ∀ b, (cfg.block b).checks.Nodup

theorem appGroups_nodup {cfg : Cfg} (hw : cfg.WF) (r : Rcpt) : ∀ g ∈ appGroups cfg r, g.Nodup := by
  intro g hg
  simp only [appGroups, List.mem_cons, List.not_mem_nil, or_false] at hg
  rcases hg with rfl | rfl | rfl
  · exact hw.global
  · exact hw.source
  · exact hw.block _

/-- What one RCPT command does to the delivery, as far as the properties need. -/
structure RcptStep (cfg : Cfg) (r : Rcpt) (d d' : Dlv) (refused : Bool) : Prop where
  ext : Ext d.cr d'.cr
  inv : cfg.WF → Inv d.cr → Inv d'.cr
  qinv : QInv cfg.v d.cr → QInv cfg.v d'.cr
  rinv : RInv cfg.v d.cr → RInv cfg.v d'.cr
  q_src : d'.cr.mergedQ = true → d.cr.mergedQ = true ∨ ∃ c s, cfg.v c s = .quar
  gens_keep : (∀ c, cfg.v c .conn ≠ .rej ∧ cfg.v c .sender ≠ .rej) → d'.cr.gens = d.cr.gens
  done_src : ∀ k ∈ d'.cr.done, k ∈ d.cr.done ∨ ∃ g ∈ appGroups cfg r, k.c ∈ g
  /-- refused exactly when an applicable check rejects or a modifier group fails for the recipient -/
  refused_iff : RInv cfg.v d.cr → (refused = true ↔ MustRefuseRcpt cfg r ∨ cfg.mf.rcptAny r = true)
  /-- a recipient that got as far as the block's modifiers was seen by every applicable check -/
  reached : RInv cfg.v d.cr → ReachesBlock cfg r → ∀ g ∈ appGroups cfg r, ∀ c ∈ g,
    c ∈ d'.cr.states ∧ (⟨c, d'.cr.gen c, .rcpt r⟩ : Call) ∈ d'.cr.done ∧
    (cfg.v c (.rcpt r) = .quar → d'.cr.mergedQ = true)
  /-- the blocks taking part in the body stage: never fewer, one more iff the recipient reached it -/
  used : RInv cfg.v d.cr → ∀ b, b ∈ d'.used ↔ b ∈ d.used ∨ (ReachesBlock cfg r ∧ b = cfg.route r)

theorem RcptStep.lower {cfg r d d' b} (h : RcptStep cfg r d d' b) : ∀ c ∈ d.cr.states, c ∈ d'.cr.states :=
  fun c hc => (h.ext.st c hc).1

/-- An accepted recipient reached its block. -/
theorem RcptStep.accepted {cfg r d d'} (h : RcptStep cfg r d d' false) (hr : RInv cfg.v d.cr) :
    ReachesBlock cfg r := by
  have hn : ¬ (MustRefuseRcpt cfg r ∨ cfg.mf.rcptAny r = true) := by
    intro hc
    have := (h.refused_iff hr).mpr hc
    cases this
  refine ⟨fun hm => hn (Or.inl hm), ?_, ?_⟩
  · cases hg : cfg.mf.rcptG r
    · rfl
    · exact absurd (Or.inr (by simp [MFaults.rcptAny, hg])) hn
  · cases hg : cfg.mf.rcptS r
    · rfl
    · exact absurd (Or.inr (by simp [MFaults.rcptAny, hg])) hn

theorem addRcpt_step (cfg : Cfg) (d : Dlv) (r : Rcpt) :
    RcptStep cfg r d (addRcpt idOrd cfg d r).1 (addRcpt idOrd cfg d r).2 := by
  rcases addRcpt_cases cfg d r with ⟨res, ch, h2, hmf, hu⟩ | ⟨ch, h2, hmf, hu⟩
  · refine ⟨ch.ext, fun hw hi => ch.inv (appGroups_nodup hw r) hi, ch.qinv, ch.rinv, ch.q_src, ch.gens_keep,
      ch.done_src, ?_, ?_, ?_⟩
    · intro hr
      have hri := chain_rcpt_refused_iff ch hr
      rw [h2]
      constructor
      · intro h
        cases hres : res
        · rw [hres] at h
          exact Or.inr (by simpa [MFaults.rcptAny] using Or.inr h)
        · exact Or.inl (hri.mp hres)
      · rintro (h | h)
        · rw [hri.mpr h]; rfl
        · cases hres : res
          · have := hmf hres
            simp only [MFaults.rcptAny, this.1, this.2, Bool.false_or] at h
            simp [h]
          · rfl
    · intro hr hre g hg c hc
      have hres : res = false := by
        cases hres : res
        · rfl
        · exact absurd ((chain_rcpt_refused_iff ch hr).mp hres) hre.1
      rw [hres] at ch
      exact ch.ok rfl g hg c hc
    · intro hr b
      have hri := chain_rcpt_refused_iff ch hr
      rw [hu]
      cases hres : res
      · simp only [Bool.false_eq_true, ↓reduceIte, mem_useBlock]
        have hre : ReachesBlock cfg r := ⟨fun hm => (by rw [hri.mpr hm] at hres; cases hres), hmf hres⟩
        constructor
        · rintro (h | h)
          · exact Or.inl h
          · exact Or.inr ⟨hre, h⟩
        · rintro (h | ⟨_, h⟩)
          · exact Or.inl h
          · exact Or.inr h
      · simp only [↓reduceIte]
        constructor
        · exact Or.inl
        · rintro (h | ⟨hre, _⟩)
          · exact h
          · exact absurd (hri.mp hres) hre.1
  · have hn2 : ∀ g ∈ [cfg.global, cfg.source], g ∈ appGroups cfg r := by
      intro g hg
      simp only [List.mem_cons, List.not_mem_nil, or_false] at hg
      rcases hg with rfl | rfl <;> simp [appGroups]
    refine ⟨ch.ext, fun hw hi => ch.inv (fun g hg => appGroups_nodup hw r g (hn2 g hg)) hi, ch.qinv, ch.rinv,
      ch.q_src, ch.gens_keep, ?_, ?_, ?_, ?_⟩
    · intro k hk
      rcases ch.done_src k hk with h | ⟨g, hg, hc⟩
      · exact Or.inl h
      · exact Or.inr ⟨g, hn2 g hg, hc⟩
    · intro _
      rw [h2]
      simp only [true_iff]
      right
      simp only [Bool.or_eq_true] at hmf
      rcases hmf with h | h <;> simp [MFaults.rcptAny, h]
    · intro _ hre
      exfalso
      simp only [Bool.or_eq_true] at hmf
      rcases hmf with h | h
      · rw [hre.2.1] at h; cases h
      · rw [hre.2.2] at h; cases h
    · intro _ b
      rw [hu]
      constructor
      · exact Or.inl
      · rintro (h | ⟨hre, _⟩)
        · exact h
        · exfalso
          simp only [Bool.or_eq_true] at hmf
          rcases hmf with h | h
          · rw [hre.2.1] at h; cases h
          · rw [hre.2.2] at h; cases h

/-- A refused recipient leaves the deliveries alone. -/
theorem addRcpt_refused_frame (o : Ord) (cfg : Cfg) (d : Dlv) (r : Rcpt) (h : (addRcpt o cfg d r).2 = true) :
    (addRcpt o cfg d r).1.deliveries = d.deliveries ∧ (addRcpt o cfg d r).1.metaQ = d.metaQ := by
  simp only [addRcpt] at h ⊢
  split
  · simp
  · split
    · simp
    · split
      · simp
      · split
        · simp
        · split
          · simp
          · rename_i h1 h2 h3 h4 h5; simp [h1, h2, h3, h4, h5] at h

theorem addRcpt_metaQ (o : Ord) (cfg : Cfg) (d : Dlv) (r : Rcpt) : (addRcpt o cfg d r).1.metaQ = d.metaQ := by
  simp only [addRcpt]
  split
  · rfl
  · split
    · rfl
    · split
      · rfl
      · split
        · rfl
        · split <;> rfl

theorem mem_addToDeliveries {ds : List (TgtId × List Rcpt)} {t : TgtId} {r : Rcpt} {x : TgtId × List Rcpt}
    (hx : x ∈ addToDeliveries ds t r) : ∀ y ∈ x.2, y = r ∨ ∃ x0 ∈ ds, x0.1 = x.1 ∧ y ∈ x0.2 := by
  intro y hy
  simp only [addToDeliveries] at hx
  split at hx
  · simp only [List.mem_map] at hx
    obtain ⟨x0, hx0, rfl⟩ := hx
    by_cases he : (x0.1 == t) = true
    · simp only [he, ↓reduceIte, List.mem_append, List.mem_singleton] at hy ⊢
      rcases hy with hy | hy
      · exact Or.inr ⟨x0, hx0, rfl, hy⟩
      · exact Or.inl hy
    · simp only [he, Bool.false_eq_true, ↓reduceIte] at hy ⊢
      exact Or.inr ⟨x0, hx0, rfl, hy⟩
  · rcases List.mem_append.mp hx with hx | hx
    · exact Or.inr ⟨x, hx, rfl, hy⟩
    · simp at hx; subst hx; simp at hy; exact Or.inl hy

theorem mem_foldl_addToDeliveries (ts : List TgtId) (r : Rcpt) : ∀ (ds : List (TgtId × List Rcpt)),
    ∀ x ∈ ts.foldl (fun ds t => addToDeliveries ds t r) ds, ∀ y ∈ x.2, y = r ∨ ∃ x0 ∈ ds, x0.1 = x.1 ∧ y ∈ x0.2 := by
  induction ts with
  | nil => intro ds x hx y hy; exact Or.inr ⟨x, hx, rfl, hy⟩
  | cons t rest ih =>
    intro ds x hx y hy
    simp only [List.foldl_cons] at hx
    rcases ih _ x hx y hy with h | ⟨x1, hx1, e1, hy1⟩
    · exact Or.inl h
    · rcases mem_addToDeliveries hx1 y hy1 with h | ⟨x0, hx0, e0, hy0⟩
      · exact Or.inl h
      · exact Or.inr ⟨x0, hx0, e0.trans e1, hy0⟩

/-- Recipients reach a delivery only through an accepted RCPT. -/
theorem addRcpt_deliveries (o : Ord) (cfg : Cfg) (d : Dlv) (r : Rcpt) :
    ∀ x ∈ (addRcpt o cfg d r).1.deliveries, ∀ y ∈ x.2,
      (y = r ∧ (addRcpt o cfg d r).2 = false) ∨ ∃ x0 ∈ d.deliveries, x0.1 = x.1 ∧ y ∈ x0.2 := by
  intro x hx y hy
  cases hres : (addRcpt o cfg d r).2
  · simp only [addRcpt] at hx hres
    split at hx
    · rename_i h; simp [h] at hres
    · split at hx
      · rename_i h1 h2; simp [h1, h2] at hres
      · split at hx
        · rename_i h1 h2 h3; simp [h1, h2, h3] at hres
        · split at hx
          · rename_i h1 h2 h3 h4; simp [h1, h2, h3, h4] at hres
          · split at hx
            · rename_i h1 h2 h3 h4 h5; simp [h1, h2, h3, h4, h5] at hres
            · simp only at hx
              rcases mem_foldl_addToDeliveries _ r _ x hx y hy with h | h
              · exact Or.inl ⟨h, rfl⟩
              · exact Or.inr h
  · rw [(addRcpt_refused_frame o cfg d r hres).1] at hx
    exact Or.inr ⟨x, hx, rfl, hy⟩

/-- Invariant of a pipeline delivery between two commands. -/
structure DInv (cfg : Cfg) (d : Dlv) : Prop where
  inv : Inv d.cr
  qinv : QInv cfg.v d.cr
  rinv : RInv cfg.v d.cr
  gs : ∀ c, c ∈ cfg.global ∨ c ∈ cfg.source → c ∈ d.cr.states
  used : ∀ b ∈ d.used, ∀ c ∈ (cfg.block b).checks, c ∈ d.cr.states

theorem addRcpt_dinv (cfg : Cfg) (hw : cfg.WF) (d : Dlv) (r : Rcpt) (h : DInv cfg d) :
    DInv cfg (addRcpt idOrd cfg d r).1 := by
  have st := addRcpt_step cfg d r
  refine ⟨st.inv hw h.inv, st.qinv h.qinv, st.rinv h.rinv, fun c hc => st.lower c (h.gs c hc), ?_⟩
  intro b hb c hc
  rcases (st.used h.rinv b).mp hb with hb | ⟨hre, rfl⟩
  · exact st.lower c (h.used b hb c hc)
  · exact (st.reached h.rinv hre _ (by simp [appGroups]) c hc).1

/-! ### MAIL -/

theorem newOf_init (g : List CheckId) : newOf CR.init g = g := by
  simp [newOf, CR.init]

/-- MAIL is refused exactly when a global or source check rejects the connection or the sender, or
the `RewriteSender` of the global or of the source modifiers fails. -/
theorem start_refused_iff (cfg : Cfg) :
    (start idOrd cfg).2 = true ↔
      (∃ c, (c ∈ cfg.global ∨ c ∈ cfg.source) ∧ (cfg.v c .conn = .rej ∨ cfg.v c .sender = .rej)) ∨
      cfg.mf.senderG = true ∨ cfg.mf.senderS = true := by
  have f1 := cs_frame cfg.v CR.init cfg.global
  simp only [start]
  by_cases h1 : (checkStates idOrd cfg.v CR.init cfg.global).2 = true
  · simp only [h1, ↓reduceIte, true_iff]
    obtain ⟨c, hc, _, hv⟩ := (cs_snd_iff _ _ _).mp h1
    exact Or.inl ⟨c, Or.inl hc, hv⟩
  · have h1' : (checkStates idOrd cfg.v CR.init cfg.global).2 = false := by simpa using h1
    simp only [h1, Bool.false_eq_true, ↓reduceIte]
    cases hg : cfg.mf.senderG
    · simp only [Bool.false_eq_true, ↓reduceIte, false_or]
      by_cases h2 : (checkStates idOrd cfg.v (checkStates idOrd cfg.v CR.init cfg.global).1 cfg.source).2 = true
      · simp only [h2, ↓reduceIte, true_iff]
        obtain ⟨c, hc, _, hv⟩ := (cs_snd_iff _ _ _).mp h2
        exact Or.inl ⟨c, Or.inr hc, hv⟩
      · simp only [h2, Bool.false_eq_true, ↓reduceIte]
        constructor
        · exact Or.inr
        · rintro (⟨c, hc, hv⟩ | h)
          · exfalso
            have hgl : c ∉ cfg.global := fun hc' => h1 ((cs_snd_iff _ _ _).mpr ⟨c, hc', by simp [CR.init], hv⟩)
            rcases hc with hc | hc
            · exact hgl hc
            · apply h2
              rw [cs_snd_iff, (f1.2.1 h1').1, newOf_init]
              exact ⟨c, hc, by simpa [CR.init] using hgl, hv⟩
          · exact h
    · simp

theorem start_frame (o : Ord) (cfg : Cfg) :
    (start o cfg).1.used = [] ∧ (start o cfg).1.deliveries = [] ∧ (start o cfg).1.metaQ = cfg.q0 := by
  simp only [start]
  split
  · simp
  · split
    · simp
    · split <;> simp

/-- An accepted MAIL: both check groups passed, no `RewriteSender` failed. -/
theorem start_ok_eq (cfg : Cfg) (hok : (start idOrd cfg).2 = false) :
    (checkStates idOrd cfg.v CR.init cfg.global).2 = false ∧
    (checkStates idOrd cfg.v (checkStates idOrd cfg.v CR.init cfg.global).1 cfg.source).2 = false ∧
    cfg.mf.senderG = false ∧ cfg.mf.senderS = false ∧
    (start idOrd cfg).1.cr =
      (checkStates idOrd cfg.v (checkStates idOrd cfg.v CR.init cfg.global).1 cfg.source).1 := by
  have h1 : (checkStates idOrd cfg.v CR.init cfg.global).2 = false := by
    cases h : (checkStates idOrd cfg.v CR.init cfg.global).2
    · rfl
    · simp [start, h] at hok
  have hg : cfg.mf.senderG = false := by
    cases h : cfg.mf.senderG
    · rfl
    · simp [start, h1, h] at hok
  have h2 : (checkStates idOrd cfg.v (checkStates idOrd cfg.v CR.init cfg.global).1 cfg.source).2 = false := by
    cases h : (checkStates idOrd cfg.v (checkStates idOrd cfg.v CR.init cfg.global).1 cfg.source).2
    · rfl
    · simp [start, h1, hg, h] at hok
  refine ⟨h1, h2, hg, ?_, ?_⟩
  · simpa [start, h1, h2, hg] using hok
  · simp [start, h1, h2, hg]

/-- After an accepted MAIL: no live state object rejected connection or sender, their quarantine
verdicts are recorded, and every global and source check has a state object. -/
theorem start_ok (cfg : Cfg) (hok : (start idOrd cfg).2 = false) :
    RInv cfg.v (start idOrd cfg).1.cr ∧ QInv cfg.v (start idOrd cfg).1.cr ∧
    (∀ c, c ∈ cfg.global ∨ c ∈ cfg.source → c ∈ (start idOrd cfg).1.cr.states) := by
  obtain ⟨h1, h2, _, _, e⟩ := start_ok_eq cfg hok
  have f1 := cs_frame cfg.v CR.init cfg.global
  have st1 := (f1.2.1 h1).1
  rw [newOf_init] at st1
  have f2 := cs_frame cfg.v (checkStates idOrd cfg.v CR.init cfg.global).1 cfg.source
  have st2 := (f2.2.1 h2).1
  rw [e]
  refine ⟨cs_rinv _ _ _ (cs_rinv _ _ _ (RInv.init _)), cs_qinv _ _ _ (cs_qinv _ _ _ (QInv.init _)), ?_⟩
  intro c hc
  rw [st2]
  rcases hc with hc | hc
  · exact List.mem_append_left _ (by rw [st1]; simpa [CR.init] using hc)
  · by_cases hg : c ∈ cfg.global
    · exact List.mem_append_left _ (by rw [st1]; simpa [CR.init] using hg)
    · exact List.mem_append_right _ (mem_newOf.mpr ⟨hc, by rw [st1]; simpa [CR.init] using hg⟩)

theorem start_inv (cfg : Cfg) (hw : cfg.WF) : Inv (start idOrd cfg).1.cr := by
  simp only [start]
  split
  · exact cs_inv _ _ _ Inv.init hw.global
  · split
    · exact cs_inv _ _ _ Inv.init hw.global
    · split <;> exact cs_inv _ _ _ (cs_inv _ _ _ Inv.init hw.global) hw.source

theorem start_dinv (cfg : Cfg) (hw : cfg.WF) (hok : (start idOrd cfg).2 = false) :
    DInv cfg (start idOrd cfg).1 := by
  have k := start_ok cfg hok
  refine ⟨start_inv cfg hw, k.2.1, k.1, k.2.2, ?_⟩
  intro b hb
  rw [(start_frame idOrd cfg).1] at hb
  cases hb

theorem start_gens (cfg : Cfg) (hok : (start idOrd cfg).2 = false) : (start idOrd cfg).1.cr.gens = [] := by
  obtain ⟨h1, h2, _, _, e⟩ := start_ok_eq cfg hok
  rw [e, ((cs_frame _ _ _).2.1 h2).2, ((cs_frame _ _ _).2.1 h1).2]; rfl

theorem addAll_inv (cfg : Cfg) (hw : cfg.WF) (rs : List Rcpt) : ∀ d : Dlv,
    Inv d.cr → Inv (addAll idOrd cfg d rs).1.cr := by
  induction rs with
  | nil => intro d h; simpa [addAll] using h
  | cons r rest ih =>
    intro d h; simp only [addAll]
    exact ih _ ((addRcpt_step cfg d r).inv hw h)

theorem addAll_gens_keep (cfg : Cfg) (hno : ∀ c, cfg.v c .conn ≠ .rej ∧ cfg.v c .sender ≠ .rej) (rs : List Rcpt) :
    ∀ d : Dlv, (addAll idOrd cfg d rs).1.cr.gens = d.cr.gens := by
  induction rs with
  | nil => intro d; simp [addAll]
  | cons r rest ih => intro d; simp only [addAll]; rw [ih, (addRcpt_step cfg d r).gens_keep hno]

theorem start_q_src (cfg : Cfg) (h : (start idOrd cfg).1.cr.mergedQ = true) : ∃ c s, cfg.v c s = .quar := by
  have one : ∀ {cr : CR}, cr = (checkStates idOrd cfg.v CR.init cfg.global).1 → cr.mergedQ = true →
      ∃ c s, cfg.v c s = .quar := by
    intro cr e h
    subst e
    rcases cs_mergedQ_src _ _ _ h with h | h
    · simp [CR.init] at h
    · exact h
  have two : (checkStates idOrd cfg.v (checkStates idOrd cfg.v CR.init cfg.global).1 cfg.source).1.mergedQ = true →
      ∃ c s, cfg.v c s = .quar := by
    intro h
    rcases cs_mergedQ_src _ _ _ h with h | h
    · exact one rfl h
    · exact h
  simp only [start] at h
  split at h
  · exact one rfl h
  · split at h
    · exact one rfl h
    · split at h <;> exact two h

/-! ### the RCPT commands -/

theorem addAll_map_fst (o : Ord) (cfg : Cfg) (rs : List Rcpt) : ∀ d : Dlv,
    (addAll o cfg d rs).2.map (fun x => x.1) = rs := by
  induction rs with
  | nil => intro d; simp [addAll]
  | cons r rest ih => intro d; simp [addAll, ih]

theorem addAll_dinv (cfg : Cfg) (hw : cfg.WF) (rs : List Rcpt) : ∀ d : Dlv,
    DInv cfg d → DInv cfg (addAll idOrd cfg d rs).1 := by
  induction rs with
  | nil => intro d h; simpa [addAll] using h
  | cons r rest ih => intro d h; simp only [addAll]; exact ih _ (addRcpt_dinv cfg hw d r h)

theorem addAll_ext (cfg : Cfg) (rs : List Rcpt) : ∀ d : Dlv, Ext d.cr (addAll idOrd cfg d rs).1.cr := by
  induction rs with
  | nil => intro d; simpa [addAll] using Ext.refl _
  | cons r rest ih => intro d; simp only [addAll]; exact (addRcpt_step cfg d r).ext.trans (ih _)

theorem addAll_rinv (cfg : Cfg) (rs : List Rcpt) : ∀ d : Dlv, RInv cfg.v d.cr →
    RInv cfg.v (addAll idOrd cfg d rs).1.cr := by
  induction rs with
  | nil => intro d h; simpa [addAll] using h
  | cons r rest ih => intro d h; simp only [addAll]; exact ih _ ((addRcpt_step cfg d r).rinv h)

theorem addAll_qinv (cfg : Cfg) (rs : List Rcpt) : ∀ d : Dlv, QInv cfg.v d.cr →
    QInv cfg.v (addAll idOrd cfg d rs).1.cr := by
  induction rs with
  | nil => intro d h; simpa [addAll] using h
  | cons r rest ih => intro d h; simp only [addAll]; exact ih _ ((addRcpt_step cfg d r).qinv h)

theorem addAll_metaQ (o : Ord) (cfg : Cfg) (rs : List Rcpt) : ∀ d : Dlv, (addAll o cfg d rs).1.metaQ = d.metaQ := by
  induction rs with
  | nil => intro d; simp [addAll]
  | cons r rest ih => intro d; simp only [addAll]; rw [ih, addRcpt_metaQ]

/-- Every RCPT command is refused exactly when the property says it must be, or a modifier group
fails for its recipient. -/
theorem addAll_refused_iff (cfg : Cfg) (rs : List Rcpt) : ∀ d : Dlv, RInv cfg.v d.cr →
    ∀ x ∈ (addAll idOrd cfg d rs).2, x.2 = true ↔ MustRefuseRcpt cfg x.1 ∨ cfg.mf.rcptAny x.1 = true := by
  induction rs with
  | nil => intro d _ x hx; simp [addAll] at hx
  | cons r rest ih =>
    intro d hr x hx
    simp only [addAll, List.mem_cons] at hx
    rcases hx with rfl | hx
    · exact (addRcpt_step cfg d r).refused_iff hr
    · exact ih _ ((addRcpt_step cfg d r).rinv hr) x hx

/-- An accepted recipient reached its block. -/
theorem addAll_accepted_reaches (cfg : Cfg) (rs : List Rcpt) (d : Dlv) (hr : RInv cfg.v d.cr) :
    ∀ x ∈ (addAll idOrd cfg d rs).2, x.2 = false → ReachesBlock cfg x.1 := by
  intro x hx hxa
  have hn : ¬ (MustRefuseRcpt cfg x.1 ∨ cfg.mf.rcptAny x.1 = true) := by
    intro hc
    have := (addAll_refused_iff cfg rs d hr x hx).mpr hc
    rw [hxa] at this; cases this
  refine ⟨fun hm => hn (Or.inl hm), ?_, ?_⟩
  · cases hg : cfg.mf.rcptG x.1
    · rfl
    · exact absurd (Or.inr (by simp [MFaults.rcptAny, hg])) hn
  · cases hg : cfg.mf.rcptS x.1
    · rfl
    · exact absurd (Or.inr (by simp [MFaults.rcptAny, hg])) hn

/-- The key set of `rcptModifiersState` after the RCPT commands: the blocks of all recipients that
got as far as their block's modifiers - whatever happened to later recipients of the same block. -/
theorem addAll_used (cfg : Cfg) (rs : List Rcpt) : ∀ (d : Dlv), RInv cfg.v d.cr → ∀ (b : Nat),
    b ∈ (addAll idOrd cfg d rs).1.used ↔
      b ∈ d.used ∨ ∃ x ∈ (addAll idOrd cfg d rs).2, ReachesBlock cfg x.1 ∧ cfg.route x.1 = b := by
  induction rs with
  | nil => intro d _ b; simp [addAll]
  | cons r rest ih =>
    intro d hr b
    have st := addRcpt_step cfg d r
    simp only [addAll]
    rw [ih _ (st.rinv hr), st.used hr]
    constructor
    · rintro ((h | ⟨h1, h2⟩) | ⟨x, hx, h⟩)
      · exact Or.inl h
      · exact Or.inr ⟨_, List.mem_cons_self, h1, h2.symm⟩
      · exact Or.inr ⟨x, List.mem_cons_of_mem _ hx, h⟩
    · rintro (h | ⟨x, hx, h⟩)
      · exact Or.inl (Or.inl h)
      · rcases List.mem_cons.mp hx with rfl | hx
        · exact Or.inl (Or.inr ⟨h.1, h.2.symm⟩)
        · exact Or.inr ⟨x, hx, h⟩

theorem addAll_deliveries (o : Ord) (cfg : Cfg) (rs : List Rcpt) : ∀ (d : Dlv),
    ∀ t ∈ (addAll o cfg d rs).1.deliveries, ∀ y ∈ t.2,
      (∃ x ∈ (addAll o cfg d rs).2, x.1 = y ∧ x.2 = false) ∨ ∃ t0 ∈ d.deliveries, t0.1 = t.1 ∧ y ∈ t0.2 := by
  induction rs with
  | nil => intro d t ht y hy; exact Or.inr ⟨t, by simpa [addAll] using ht, rfl, hy⟩
  | cons r rest ih =>
    intro d t ht y hy
    simp only [addAll] at ht ⊢
    rcases ih _ t ht y hy with ⟨x, hx, h⟩ | ⟨t1, ht1, e1, hy1⟩
    · exact Or.inl ⟨x, List.mem_cons_of_mem _ hx, h⟩
    · rcases addRcpt_deliveries o cfg d r t1 ht1 y hy1 with ⟨rfl, hok⟩ | ⟨t0, ht0, e0, hy0⟩
      · exact Or.inl ⟨_, List.mem_cons_self, rfl, hok⟩
      · exact Or.inr ⟨t0, ht0, e0.trans e1, hy0⟩

/-- For every recipient that got as far as its block's modifiers (every accepted one in particular),
at the end of the RCPT phase: each applicable check has a live state object that has seen this
recipient, and a quarantine verdict on it is recorded. -/
theorem addAll_reached (cfg : Cfg) (rs : List Rcpt) : ∀ (d : Dlv), RInv cfg.v d.cr →
    ∀ x ∈ (addAll idOrd cfg d rs).2, ReachesBlock cfg x.1 → ∀ g ∈ appGroups cfg x.1, ∀ c ∈ g,
      c ∈ (addAll idOrd cfg d rs).1.cr.states ∧
      (⟨c, (addAll idOrd cfg d rs).1.cr.gen c, .rcpt x.1⟩ : Call) ∈ (addAll idOrd cfg d rs).1.cr.done ∧
      (cfg.v c (.rcpt x.1) = .quar → (addAll idOrd cfg d rs).1.cr.mergedQ = true) := by
  induction rs with
  | nil => intro d _ x hx; simp [addAll] at hx
  | cons r rest ih =>
    intro d hr x hx hre g hg c hc
    have st := addRcpt_step cfg d r
    simp only [addAll, List.mem_cons] at hx ⊢
    rcases hx with rfl | hx
    · have k := st.reached hr hre g hg c hc
      have e := addAll_ext cfg rest (addRcpt idOrd cfg d r).1
      have m := e.mem k.1 k.2.1
      exact ⟨m.1, m.2, fun hq => e.q (k.2.2 hq)⟩
    · exact ih _ (st.rinv hr) x hx hre g hg c hc

theorem addAll_accepted (cfg : Cfg) (rs : List Rcpt) (d : Dlv) (hr : RInv cfg.v d.cr) :
    ∀ x ∈ (addAll idOrd cfg d rs).2, x.2 = false → ∀ g ∈ appGroups cfg x.1, ∀ c ∈ g,
      c ∈ (addAll idOrd cfg d rs).1.cr.states ∧
      (⟨c, (addAll idOrd cfg d rs).1.cr.gen c, .rcpt x.1⟩ : Call) ∈ (addAll idOrd cfg d rs).1.cr.done ∧
      (cfg.v c (.rcpt x.1) = .quar → (addAll idOrd cfg d rs).1.cr.mergedQ = true) :=
  fun x hx hxa => addAll_reached cfg rs d hr x hx (addAll_accepted_reaches cfg rs d hr x hx hxa)

/-- Only checks of the global block, of the source block and of the destination blocks of the
submitted recipients are ever called. -/
theorem addAll_done_src (cfg : Cfg) (rs : List Rcpt) : ∀ d : Dlv,
    ∀ k ∈ (addAll idOrd cfg d rs).1.cr.done, k ∈ d.cr.done ∨ ∃ r ∈ rs, ∃ g ∈ appGroups cfg r, k.c ∈ g := by
  induction rs with
  | nil => intro d k hk; left; simpa [addAll] using hk
  | cons r rest ih =>
    intro d k hk
    simp only [addAll] at hk
    rcases ih _ k hk with hk | ⟨r', hr', h⟩
    · rcases (addRcpt_step cfg d r).done_src k hk with hk | h
      · exact Or.inl hk
      · exact Or.inr ⟨r, List.mem_cons_self, h⟩
    · exact Or.inr ⟨r', List.mem_cons_of_mem _ hr', h⟩

theorem start_done_src (cfg : Cfg) : ∀ k ∈ (start idOrd cfg).1.cr.done, k.c ∈ cfg.global ∨ k.c ∈ cfg.source := by
  intro k hk
  have one : k ∈ (checkStates idOrd cfg.v CR.init cfg.global).1.done → k.c ∈ cfg.global := by
    intro hk
    rcases cs_done_src _ _ _ k hk with h | h
    · simp [CR.init] at h
    · exact h
  have two : k ∈ (checkStates idOrd cfg.v (checkStates idOrd cfg.v CR.init cfg.global).1 cfg.source).1.done →
      k.c ∈ cfg.global ∨ k.c ∈ cfg.source := by
    intro hk
    rcases cs_done_src _ _ _ k hk with h | h
    · exact Or.inl (one h)
    · exact Or.inr h
  simp only [start] at hk
  split at hk
  · exact Or.inl (one hk)
  · split at hk
    · exact Or.inl (one hk)
    · split at hk <;> exact two hk

theorem addAll_q_src (cfg : Cfg) (rs : List Rcpt) : ∀ (d : Dlv),
    (addAll idOrd cfg d rs).1.cr.mergedQ = true → d.cr.mergedQ = true ∨ ∃ c s, cfg.v c s = .quar := by
  induction rs with
  | nil => intro d h; left; simpa [addAll] using h
  | cons r rest ih =>
    intro d h
    simp only [addAll] at h
    rcases ih _ h with h | h
    · exact (addRcpt_step cfg d r).q_src h
    · exact Or.inr h

/-! ### DATA -/

/-- The groups whose checks are asked about the body. -/
def bodyGroups (cfg : Cfg) (d : Dlv) : List (List CheckId) :=
  cfg.global :: cfg.source :: d.used.map (fun b => (cfg.block b).checks)

theorem bodyGroups_nodup {cfg : Cfg} (hw : cfg.WF) (d : Dlv) : ∀ g ∈ bodyGroups cfg d, g.Nodup := by
  intro g hg
  simp only [bodyGroups, List.mem_cons, List.mem_map] at hg
  rcases hg with rfl | rfl | ⟨b, _, rfl⟩
  · exact hw.global
  · exact hw.source
  · exact hw.block b

theorem checkBodyBlocks_chain (cfg : Cfg) (bs : List Nat) : ∀ cr : CR,
    Chain cfg.v .body (bs.map (fun b => (cfg.block b).checks)) cr
      (checkBodyBlocks idOrd cfg cr bs).1 (checkBodyBlocks idOrd cfg cr bs).2 := by
  induction bs with
  | nil => intro cr; exact Chain.nil _
  | cons b rest ih =>
    intro cr
    have s1 := checkBody_spec cfg.v cr (cfg.block b).checks
    simp only [checkBodyBlocks, List.map_cons]
    generalize checkBody idOrd cfg.v cr (cfg.block b).checks = p at s1 ⊢
    obtain ⟨c1, b1⟩ := p
    cases b1
    · simp only [Bool.false_eq_true, ↓reduceIte]; exact Chain.cons s1 (ih c1)
    · exact Chain.stop s1

/-- The check phase shared by `Body` and `BodyNonAtomic`. -/
def bodyChecks (cfg : Cfg) (d : Dlv) : CR × Bool :=
  let p1 := checkBody idOrd cfg.v d.cr cfg.global
  if p1.2 then p1 else
  let p2 := checkBody idOrd cfg.v p1.1 cfg.source
  if p2.2 then p2 else checkBodyBlocks idOrd cfg p2.1 d.used

theorem bodyChecks_chain (cfg : Cfg) (d : Dlv) :
    Chain cfg.v .body (bodyGroups cfg d) d.cr (bodyChecks cfg d).1 (bodyChecks cfg d).2 := by
  have s1 := checkBody_spec cfg.v d.cr cfg.global
  simp only [bodyChecks, bodyGroups]
  generalize checkBody idOrd cfg.v d.cr cfg.global = p1 at s1 ⊢
  obtain ⟨c1, b1⟩ := p1
  cases b1
  · have s2 := checkBody_spec cfg.v c1 cfg.source
    simp only [Bool.false_eq_true, ↓reduceIte]
    generalize checkBody idOrd cfg.v c1 cfg.source = p2 at s2 ⊢
    obtain ⟨c2, b2⟩ := p2
    cases b2
    · simp only [Bool.false_eq_true, ↓reduceIte]
      exact Chain.cons s1 (Chain.cons s2 (checkBodyBlocks_chain cfg d.used c2))
    · simp only [↓reduceIte]; exact Chain.cons s1 (Chain.stop s2)
  · exact Chain.stop s1

/-- `Body` (and `BodyNonAtomic`) in terms of the shared check phase. -/
theorem bodySMTP_eq (cfg : Cfg) (d : Dlv) :
    bodySMTP idOrd cfg d =
      if (bodyChecks cfg d).2 then ({ d with cr := (bodyChecks cfg d).1 }, ⟨some .check, []⟩)
      else if (applyResults cfg { d with cr := (bodyChecks cfg d).1 }).2 then
        ((applyResults cfg { d with cr := (bodyChecks cfg d).1 }).1, ⟨some .dmarc, []⟩)
      else if modBodyFails cfg (applyResults cfg { d with cr := (bodyChecks cfg d).1 }).1 then
        ((applyResults cfg { d with cr := (bodyChecks cfg d).1 }).1, ⟨some .modifier, []⟩)
      else ((applyResults cfg { d with cr := (bodyChecks cfg d).1 }).1,
            ⟨none, deliverAll cfg (applyResults cfg { d with cr := (bodyChecks cfg d).1 }).1⟩) := by
  simp only [bodySMTP, bodyChecks]
  split
  · simp
  · split
    · simp
    · split <;> simp

theorem applyResults_frame (cfg : Cfg) (d : Dlv) :
    (applyResults cfg d).1.deliveries = d.deliveries ∧ (applyResults cfg d).1.used = d.used ∧
    (applyResults cfg d).1.cr = d.cr := by
  unfold applyResults; split <;> simp

/-- `applyResults`: the flag the targets will see, and whether DMARC refuses. -/
theorem applyResults_spec (cfg : Cfg) (d : Dlv) :
    ((applyResults cfg d).2 = true ↔ cfg.dmarc = .rej) ∧
    ((applyResults cfg d).1.metaQ = (d.metaQ || d.cr.mergedQ || (cfg.dmarc == .quar))) := by
  unfold applyResults; split <;> simp_all

/-- The `RewriteBody` phase sees the blocks the check phase saw. -/
theorem modBodyFails_applyResults (cfg : Cfg) (d : Dlv) :
    modBodyFails cfg (applyResults cfg d).1 = modBodyFails cfg d := by
  simp only [modBodyFails, (applyResults_frame cfg d).2.1]

theorem bodyLMTP_eq_bodySMTP : bodyLMTP = bodySMTP := rfl

/-! ## independence of the completion order, lifted through the whole transaction -/

theorem replayRcpts_ord (o : Ord) (ho : o.fair) : replayRcpts o = replayRcpts idOrd := by
  funext v checks cr rs
  induction rs generalizing cr with
  | nil => simp [replayRcpts]
  | cons r rest ih => simp only [replayRcpts, runAndMerge_ord o ho, ih]

theorem checkStates_ord (o : Ord) (ho : o.fair) : checkStates o = checkStates idOrd := by
  funext v cr checks
  simp only [checkStates, runAndMerge_ord o ho, replayRcpts_ord o ho]

theorem checkRcpt_ord (o : Ord) (ho : o.fair) : checkRcpt o = checkRcpt idOrd := by
  funext v cr checks r
  simp only [checkRcpt, runAndMerge_ord o ho, checkStates_ord o ho]

theorem checkBody_ord (o : Ord) (ho : o.fair) : checkBody o = checkBody idOrd := by
  funext v cr checks
  simp only [checkBody, runAndMerge_ord o ho, checkStates_ord o ho]

theorem start_ord (o : Ord) (ho : o.fair) : start o = start idOrd := by
  funext cfg
  simp only [start, checkStates_ord o ho]

theorem addRcpt_ord (o : Ord) (ho : o.fair) : addRcpt o = addRcpt idOrd := by
  funext cfg d r
  simp only [addRcpt, checkRcpt_ord o ho]

theorem addAll_ord (o : Ord) (ho : o.fair) : addAll o = addAll idOrd := by
  funext cfg d rs
  induction rs generalizing d with
  | nil => simp [addAll]
  | cons r rest ih => simp only [addAll, addRcpt_ord o ho, ih]

theorem checkBodyBlocks_ord (o : Ord) (ho : o.fair) : checkBodyBlocks o = checkBodyBlocks idOrd := by
  funext cfg cr bs
  induction bs generalizing cr with
  | nil => simp [checkBodyBlocks]
  | cons b rest ih => simp only [checkBodyBlocks, checkBody_ord o ho, ih]

theorem bodySMTP_ord (o : Ord) (ho : o.fair) : bodySMTP o = bodySMTP idOrd := by
  funext cfg d
  simp only [bodySMTP, checkBody_ord o ho, checkBodyBlocks_ord o ho]

theorem bodyLMTP_ord (o : Ord) (ho : o.fair) : bodyLMTP o = bodyLMTP idOrd := by
  funext cfg d
  simp only [bodyLMTP, checkBody_ord o ho, checkBodyBlocks_ord o ho]

theorem run_ord (o : Ord) (ho : o.fair) : run o = run idOrd := by
  funext cfg m rs
  cases m <;> simp only [run, bodyOf, start_ord o ho, addAll_ord o ho, bodySMTP_ord o ho, bodyLMTP_ord o ho]

end MaddyVerif.CheckRunner
