import MaddyVerif.Lemmas.PoolChan
/-! Helper lemmas for C19: hand-out log and shutdown accounting. -/
namespace MaddyVerif.C19
open MaddyVerif.Pool

/-! ## Hand-out log: every pooled connection `Get` returned passed both tests at that moment -/

def HandOK (cfg : Cfg) (e : Hand) : Prop := e.now ≤ e.lastUse + cfg.maxLife ∧ e.broken = false

theorem hand_stepTask {s s' : St} {i p : Nat} {t : Task}
    (hstep : stepTask s i t p = some s') :
    s'.cfg = s.cfg ∧ (s'.handLog = s.handLog ∨ ∃ e, s'.handLog = e :: s.handLog ∧ HandOK s.cfg e) := by
  obtain ⟨pc, prog, held⟩ := t
  cases pc
  case done => simp [stepTask] at hstep
  case panicked => simp [stepTask] at hstep
  case gUsable k h c =>
    simp only [stepTask] at hstep
    split at hstep
    · simp only [Option.some.injEq] at hstep; subst hstep; exact ⟨rfl, Or.inl rfl⟩
    · split at hstep
      · simp only [Option.some.injEq] at hstep; subst hstep; exact ⟨rfl, Or.inl rfl⟩
      · rename_i hb hl
        simp only [Option.some.injEq] at hstep; subst hstep
        refine ⟨rfl, Or.inr ⟨_, rfl, ?_, ?_⟩⟩
        · simp only; omega
        · simpa using hb
  all_goals (
    simp only [stepTask] at hstep
    repeat' split at hstep
    all_goals (try (simp only [Option.some.injEq, reduceCtorEq] at hstep))
    all_goals (try subst hstep)
    all_goals (try (obtain ⟨ch, rest, hch, hbuf, rfl⟩ := recv_conn ‹recv _ _ = _›))
    all_goals (try (obtain ⟨ch, hch, hopen, rfl⟩ := closeChan_some ‹closeChan _ _ = _›))
    all_goals (exact ⟨rfl, Or.inl rfl⟩))


/-! ## Shutdown accounting: `Close` is called at most once, so the ticker is there to take the stop signal -/

/-- pending shutdowns of a goroutine: `shutdown` ops still in its program, plus the one it is blocked in -/
def sd (t : Task) : Nat := t.prog.count Op.shutdown + (if t.pc = Pc.sStop then 1 else 0)
def sdSum (tasks : List Task) : Nat := (tasks.map sd).sum
def sdSumX (tasks : List Task) (i : Nat) : Nat := sdSum (tasks.eraseIdx i)

theorem sdSum_split (tasks : List Task) (i : Nat) (t : Task) (hh : tasks[i]? = some t) :
    sdSum tasks = sdSumX tasks i + sd t := by
  induction tasks generalizing i with
  | nil => simp at hh
  | cons a l ih =>
    cases i with
    | zero => simp at hh; subst hh; simp [sdSum, sdSumX]; omega
    | succ n =>
      simp at hh
      have := ih n hh
      simp [sdSum, sdSumX] at this ⊢; omega

theorem sdSum_set' (tasks : List Task) (i : Nat) (t' : Task) (hh : i < tasks.length) :
    sdSum (tasks.set i t') = sdSumX tasks i + sd t' := by
  induction tasks generalizing i with
  | nil => simp at hh
  | cons a l ih =>
    cases i with
    | zero => simp [sdSum, sdSumX]; omega
    | succ n =>
      simp at hh
      have := ih n hh
      simp [sdSum, sdSumX] at this ⊢; omega

theorem sdSum_append (a b : List Task) : sdSum (a ++ b) = sdSum a + sdSum b := by simp [sdSum]
theorem sdSum_one (t : Task) : sdSum [t] = sd t := by simp [sdSum]

set_option hygiene false in
macro "sd_case" : tactic => `(tactic| (
  simp only [stepTask] at hstep
  repeat' split at hstep
  all_goals (try (simp only [Option.some.injEq, reduceCtorEq] at hstep))
  all_goals (try subst hstep)
  all_goals (try (obtain ⟨ch, rest, hch, hbuf, rfl⟩ := recv_conn ‹recv _ _ = _›))
  all_goals (try (obtain ⟨ch, hch, hopen, rfl⟩ := closeChan_some ‹closeChan _ _ = _›))
  all_goals (
    left
    refine ⟨rfl, ?_⟩
    simp only [setTask, spawnCloser, miss, mkBucket, Pool.panic, sdSum_append, sdSum_one, sdSum_set' _ _ _ hi, hsplit, sd,
      reduceCtorEq, ↓reduceIte, List.count_nil, List.count_cons, Nat.add_zero, beq_iff_eq]
    try omega)))

theorem sd_stepTask {s s' : St} {i p : Nat} {t : Task} (ht : s.tasks[i]? = some t)
    (hstep : stepTask s i t p = some s') :
    (s'.ticker = s.ticker ∧ sdSum s'.tasks = sdSum s.tasks) ∨
    (s.ticker = true ∧ s'.ticker = false ∧ sdSum s'.tasks + 1 = sdSum s.tasks) := by
  have hi := lt_of_getElem? ht
  have hsplit := sdSum_split s.tasks i t ht
  obtain ⟨pc, prog, held⟩ := t
  cases pc
  case done => simp [stepTask] at hstep
  case panicked => simp [stepTask] at hstep
  case sStop =>
    simp only [stepTask] at hstep
    split at hstep
    · rename_i htk
      simp only [Option.some.injEq] at hstep; subst hstep
      right
      simp only [Bool.and_eq_true] at htk
      refine ⟨htk.1, rfl, ?_⟩
      simp only [setTask, sdSum_set' _ _ _ hi, hsplit, sd, reduceCtorEq, ↓reduceIte]
      omega
    · simp at hstep
  case idle =>
    simp only [stepTask] at hstep
    split at hstep
    · simp only [Option.some.injEq] at hstep; subst hstep
      left; refine ⟨rfl, ?_⟩
      simp only [setTask, sdSum_set' _ _ _ hi, hsplit, sd, reduceCtorEq, ↓reduceIte]
    cases prog with
    | nil =>
      simp at hstep; subst hstep
      left; refine ⟨rfl, ?_⟩
      simp only [setTask, sdSum_set' _ _ _ hi, hsplit, sd, reduceCtorEq, ↓reduceIte]
    | cons op rest =>
      cases op <;> cases held <;> simp at hstep <;> (try split at hstep) <;> (try simp at hstep) <;> subst hstep <;> left <;> refine ⟨rfl, ?_⟩ <;>
        simp [setTask, sdSum_set' _ _ _ hi, hsplit, sd, List.count_cons] <;> omega
  all_goals sd_case

end MaddyVerif.C19
