import MaddyVerif.Lemmas.PoolReach
/-! Helper lemmas for C19: the key and the time of the last `Return` of a connection (history variables
`retKey` / `retAt`, written only by the `ret` op) travel with the connection through the pool:

* every connection idle in a bucket was last returned under the key of that bucket, and has not been used since;
* every connection a `Get` / `Return` carries was last returned under the key of that call;
* hence every pooled hand-out is for the key of the connection's last `Return`, and its `LastUseAt` stamp is not
  later than that `Return`.

Only three transitions write the functions `lastUse`, `retKey`, `retAt`: `use` and `ret` (on a connection the
worker holds) and `cfg.New` (on the connection it creates); that the connection concerned is nowhere else is
`OnePlace`. -/
namespace MaddyVerif.C19
open MaddyVerif.Pool

/-- connection `c` was last returned under key `k` and was not used after that `Return` -/
def Good (s : St) (c : ConnId) (k : Key) : Prop := s.retKey c = some k ∧ s.lastUse c ≤ s.retAt c

/-- bucket `h` exists and is the bucket of key `k` -/
def ChanKey (chans : List Chan) (h : ChanId) (k : Key) : Prop := ∃ ch, chans[h]? = some ch ∧ ch.key = k

def BufOK (chans : List Chan) (G : ConnId → Key → Prop) : Prop :=
  ∀ (h : Nat) (ch : Chan), chans[h]? = some ch → ∀ c ∈ ch.buf, G c ch.key

def PcK (G : ConnId → Key → Prop) (chans : List Chan) : Pc → Prop
  | .gSel k h => ChanKey chans h k
  | .gUsable k h c => ChanKey chans h k ∧ G c k
  | .rLock k c => G c k
  | .rIter k c _ _ => G c k
  | .rClose k c _ _ => G c k
  | .rDrain k c _ _ => G c k
  | .rDrainClose k c _ _ _ => G c k
  | .rSel k c h => G c k ∧ ChanKey chans h k
  | _ => True

def TasksK (tasks : List Task) (P : Pc → Prop) : Prop :=
  ∀ (i : Nat) (t : Task), tasks[i]? = some t → P t.pc

/-- what the hand-out log says about keys and the last `Return` -/
def HandK (e : Hand) : Prop := e.retKey = some e.key ∧ e.lastUse ≤ e.retAt

structure KInv (s : St) : Prop where
  le : ∀ c, s.lastUse c ≤ s.now
  buf : BufOK s.chans (Good s)
  task : TasksK s.tasks (PcK (Good s) s.chans)
  log : ∀ e ∈ s.handLog, HandK e

/-! ### lists of buckets and goroutines under the model's updates -/

theorem chanKey_set {chans : List Chan} {h : Nat} {ch ch' : Chan} (hch : chans[h]? = some ch) (hkey : ch'.key = ch.key)
    {x k : Nat} (hx : ChanKey chans x k) : ChanKey (chans.set h ch') x k := by
  obtain ⟨c0, h0, hk0⟩ := hx
  by_cases hxe : x = h
  · subst hxe
    rw [hch] at h0; simp at h0; subst h0
    exact ⟨ch', by simp [lt_of_getElem? hch], by rw [hkey, hk0]⟩
  · exact ⟨c0, by rw [List.getElem?_set_ne (Ne.symm hxe)]; exact h0, hk0⟩

theorem chanKey_append {chans : List Chan} (n : Chan) {x k : Nat} (hx : ChanKey chans x k) : ChanKey (chans ++ [n]) x k := by
  obtain ⟨c0, h0, hk0⟩ := hx
  exact ⟨c0, by rw [List.getElem?_append_left (lt_of_getElem? h0)]; exact h0, hk0⟩

theorem chanKey_new (chans : List Chan) (n : Chan) : ChanKey (chans ++ [n]) chans.length n.key :=
  ⟨n, by simp, rfl⟩

theorem bufOK_set {chans : List Chan} {G : ConnId → Key → Prop} {h : Nat} {ch ch' : Chan} (hb : BufOK chans G)
    (hch : chans[h]? = some ch) (hkey : ch'.key = ch.key) (hsub : ∀ c ∈ ch'.buf, c ∈ ch.buf ∨ G c ch.key) :
    BufOK (chans.set h ch') G := by
  unfold BufOK at hb ⊢
  intro x cx hx c hc
  rcases set_cases hx with ⟨rfl, rfl⟩ | ⟨_, hx⟩
  · rw [hkey]
    rcases hsub c hc with h1 | h1
    · exact hb _ ch hch c h1
    · exact h1
  · exact hb x cx hx c hc

theorem bufOK_append {chans : List Chan} {G : ConnId → Key → Prop} (hb : BufOK chans G) (n : Chan) (hn : n.buf = []) :
    BufOK (chans ++ [n]) G := by
  unfold BufOK at hb ⊢
  intro x cx hx c hc
  rw [List.getElem?_append] at hx
  split at hx
  · exact hb x cx hx c hc
  · cases hh : x - chans.length with
    | zero => rw [hh] at hx; simp at hx; subst hx; rw [hn] at hc; simp at hc
    | succ m => rw [hh] at hx; simp at hx

theorem bufOK_mono {chans : List Chan} {G G' : ConnId → Key → Prop} (hb : BufOK chans G)
    (hg : ∀ (h : Nat) (ch : Chan), chans[h]? = some ch → ∀ c ∈ ch.buf, G c ch.key → G' c ch.key) : BufOK chans G' := by
  unfold BufOK at hb ⊢
  exact fun h ch hch c hc => hg h ch hch c hc (hb h ch hch c hc)

theorem pcK_mono {G G' : ConnId → Key → Prop} {chans chans' : List Chan} {pc : Pc}
    (hg : ∀ c k, c ∈ pc.conns → G c k → G' c k) (hc : ∀ x k, ChanKey chans x k → ChanKey chans' x k)
    (h : PcK G chans pc) : PcK G' chans' pc := by
  cases pc <;> simp only [PcK, Pc.conns] at h hg ⊢
  case gSel => exact hc _ _ h
  case gUsable => exact ⟨hc _ _ h.1, hg _ _ (by simp) h.2⟩
  case rLock => exact hg _ _ (by simp) h
  case rIter => exact hg _ _ (by simp) h
  case rClose => exact hg _ _ (by simp) h
  case rDrain => exact hg _ _ (by simp) h
  case rDrainClose => exact hg _ _ (by simp) h
  case rSel => exact ⟨hg _ _ (by simp) h.1, hc _ _ h.2⟩

theorem tasksK_set {tasks : List Task} {P' : Pc → Prop} {i : Nat} {t' : Task}
    (ht : ∀ j tj, j ≠ i → tasks[j]? = some tj → P' tj.pc) (hnew : P' t'.pc) : TasksK (tasks.set i t') P' := by
  unfold TasksK
  intro j tj hj
  rcases set_cases hj with ⟨rfl, rfl⟩ | ⟨hne, hj⟩
  · exact hnew
  · exact ht j tj hne hj

theorem tasksK_set_spawn {tasks : List Task} {P' : Pc → Prop} {i : Nat} {t' : Task} {c : ConnId}
    (ht : ∀ j tj, j ≠ i → tasks[j]? = some tj → P' tj.pc) (hnew : P' t'.pc) (hk : P' (.kClose c)) :
    TasksK (tasks.set i t' ++ [⟨.kClose c, [], []⟩]) P' := by
  unfold TasksK
  intro j tj hj
  rcases set_append_cases hj with ⟨rfl, rfl⟩ | ⟨hne, hj⟩ | rfl
  · exact hnew
  · exact ht j tj hne hj
  · exact hk

theorem lookup_key {s : St} {k h : Nat} (hl : lookup s k = some h) : ChanKey s.chans h k := by
  unfold lookup at hl
  have := List.find?_some hl
  split at this
  · rename_i ch hch; exact ⟨ch, hch, by simpa using this⟩
  · simp at this

/-! ### a connection a goroutine holds or carries is nowhere else; a connection not yet created is nowhere -/

theorem chanCnt_zero_not_mem {chans : List Chan} {c : Nat} (h0 : chanCnt chans c = 0) {h : Nat} {ch : Chan}
    (hch : chans[h]? = some ch) : c ∉ ch.buf := by
  intro hc
  have := chanCnt_split chans h ch c hch
  have := List.count_pos_iff.mpr hc
  omega

theorem taskCnt_two {tasks : List Task} {i j : Nat} {ti tj : Task} {c : Nat} (hij : i ≠ j)
    (hi : tasks[i]? = some ti) (hj : tasks[j]? = some tj) :
    (Task.conns ti).count c + (Task.conns tj).count c ≤ taskCnt tasks c := by
  induction tasks generalizing i j with
  | nil => simp at hi
  | cons a l ih =>
    rw [taskCnt_cons]
    cases i with
    | zero =>
      cases j with
      | zero => exact absurd rfl hij
      | succ j' =>
        simp at hi hj; subst hi
        have := taskCnt_split l j' tj c hj
        omega
    | succ i' =>
      cases j with
      | zero =>
        simp at hi hj; subst hj
        have := taskCnt_split l i' ti c hi
        omega
      | succ j' =>
        simp at hi hj
        have := ih (i := i') (j := j') (by omega) hi hj
        omega

/-- a connection goroutine `i` holds or carries is in no bucket and with no other goroutine -/
theorem owned_excl {s : St} (h1 : OnePlace s) {i : Nat} {t : Task} (ht : s.tasks[i]? = some t) {c : Nat}
    (hc : c ∈ Task.conns t) :
    (∀ (h : Nat) (ch : Chan), s.chans[h]? = some ch → c ∉ ch.buf) ∧
      (∀ (j : Nat) (tj : Task), j ≠ i → s.tasks[j]? = some tj → c ∉ tj.pc.conns) := by
  have hpos := List.count_pos_iff.mpr hc
  have hle : cnt s c ≤ 1 := by
    by_cases hf : c < s.fresh
    · rw [(h1 c).1 hf]; exact Nat.le_refl 1
    · rw [(h1 c).2 (by omega)]; exact Nat.zero_le 1
  unfold cnt at hle
  have hsp := taskCnt_split s.tasks i t c ht
  constructor
  · intro h ch hch
    have hz : chanCnt s.chans c = 0 := by omega
    exact chanCnt_zero_not_mem hz hch
  · intro j tj hne hj hcj
    have h2 := taskCnt_two (c := c) (Ne.symm hne) ht hj
    have : 1 ≤ (Task.conns tj).count c := by
      unfold Task.conns
      rw [List.count_append]
      have := List.count_pos_iff.mpr hcj
      omega
    omega

/-- the connection `cfg.New` is going to create is nowhere yet -/
theorem fresh_excl {s : St} (h1 : OnePlace s) :
    (∀ (h : Nat) (ch : Chan), s.chans[h]? = some ch → s.fresh ∉ ch.buf) ∧
      (∀ (j : Nat) (tj : Task), s.tasks[j]? = some tj → s.fresh ∉ tj.pc.conns) := by
  have h0 := (h1 s.fresh).2 (Nat.le_refl _)
  unfold cnt at h0
  constructor
  · intro h ch hch
    have hz : chanCnt s.chans s.fresh = 0 := by omega
    exact chanCnt_zero_not_mem hz hch
  · intro j tj hj hcj
    have hsp := taskCnt_split s.tasks j tj s.fresh hj
    have : 1 ≤ (Task.conns tj).count s.fresh := by
      unfold Task.conns
      rw [List.count_append]
      have := List.count_pos_iff.mpr hcj
      omega
    omega

/-! ### assembling the invariant after a step -/

theorem good_congr {s s' : St} (hrk : s'.retKey = s.retKey) (hra : s'.retAt = s.retAt) (hlu : s'.lastUse = s.lastUse) :
    Good s' = Good s := by
  funext c k; unfold Good; rw [hrk, hra, hlu]

/-- a step that does not write `lastUse` / `retKey` / `retAt` -/
theorem KInv_of {s s' : St} {i : Nat} {t' : Task} (hk : KInv s)
    (hrk : s'.retKey = s.retKey) (hra : s'.retAt = s.retAt) (hlu : s'.lastUse = s.lastUse) (hnow : s'.now = s.now)
    (hchan : ∀ x k, ChanKey s.chans x k → ChanKey s'.chans x k)
    (hbuf : BufOK s'.chans (Good s))
    (htasks : s'.tasks = s.tasks.set i t' ∨ ∃ c, s'.tasks = s.tasks.set i t' ++ [⟨.kClose c, [], []⟩])
    (hnew : PcK (Good s) s'.chans t'.pc)
    (hlog : s'.handLog = s.handLog ∨ ∃ e, s'.handLog = e :: s.handLog ∧ HandK e) : KInv s' := by
  have hg := good_congr hrk hra hlu
  refine ⟨?_, ?_, ?_, ?_⟩
  · intro c; rw [hlu, hnow]; exact hk.le c
  · rw [hg]; exact hbuf
  · rw [hg]
    have hothers : ∀ (j : Nat) (tj : Task), j ≠ i → s.tasks[j]? = some tj → PcK (Good s) s'.chans tj.pc :=
      fun j tj _ hj => pcK_mono (fun _ _ _ h => h) hchan (hk.task j tj hj)
    rcases htasks with h | ⟨c, h⟩ <;> rw [h]
    · exact tasksK_set hothers hnew
    · exact tasksK_set_spawn hothers hnew trivial
  · intro e he
    rcases hlog with h | ⟨e0, h, h0⟩ <;> rw [h] at he
    · exact hk.log e he
    · simp only [List.mem_cons] at he
      rcases he with rfl | he
      · exact h0
      · exact hk.log e he

/-- a step that writes the history of one connection `x` which is nowhere but with the stepping goroutine -/
theorem KInv_upd {s s' : St} {i : Nat} {t t' : Task} {x : ConnId} (hk : KInv s) (ht : s.tasks[i]? = some t)
    (hgood : ∀ c k, c ≠ x → Good s c k → Good s' c k)
    (hxb : ∀ (h : Nat) (ch : Chan), s.chans[h]? = some ch → x ∉ ch.buf)
    (hxt : ∀ (j : Nat) (tj : Task), j ≠ i → s.tasks[j]? = some tj → x ∉ tj.pc.conns)
    (hle : ∀ c, s'.lastUse c ≤ s'.now)
    (hchans : s'.chans = s.chans) (htasks : s'.tasks = s.tasks.set i t')
    (hnew : PcK (Good s') s.chans t'.pc) (hlog : s'.handLog = s.handLog) : KInv s' := by
  refine ⟨hle, ?_, ?_, ?_⟩
  · rw [hchans]
    exact bufOK_mono hk.buf (fun h ch hch c hc hg => hgood c _ (fun e => hxb h ch hch (e ▸ hc)) hg)
  · rw [hchans, htasks]
    refine tasksK_set (fun j tj hne hj => ?_) hnew
    exact pcK_mono (fun c k hc hg => hgood c k (fun e => hxt j tj hne hj (e ▸ hc)) hg) (fun _ _ h => h) (hk.task j tj hj)
  · rw [hlog]; exact hk.log

theorem KInv_fields {s s' : St} (h1 : s'.lastUse = s.lastUse) (h2 : s'.retKey = s.retKey) (h3 : s'.retAt = s.retAt)
    (h4 : s'.now = s.now) (h5 : s'.chans = s.chans) (h6 : s'.tasks = s.tasks) (h7 : s'.handLog = s.handLog)
    (hk : KInv s) : KInv s' := by
  have hg := good_congr h2 h3 h1
  refine ⟨?_, ?_, ?_, ?_⟩
  · intro c; rw [h1, h4]; exact hk.le c
  · rw [hg, h5]; exact hk.buf
  · rw [hg, h5, h6]; exact hk.task
  · rw [h7]; exact hk.log

theorem kinv_miss {s : St} {i : Nat} {t : Task} (k : Key) (h1 : OnePlace s) (hk : KInv s) (ht : s.tasks[i]? = some t) :
    KInv (miss s i t k) := by
  obtain ⟨hxb, hxt⟩ := fresh_excl h1
  refine KInv_upd (x := s.fresh) hk ht ?_ hxb (fun j tj _ hj => hxt j tj hj) ?_ rfl rfl trivial rfl
  · intro c k' hne hg
    unfold Good at hg ⊢
    simp only [miss, setTask, hne, ↓reduceIte]
    exact hg
  · intro c
    simp only [miss, setTask]
    split
    · exact Nat.le_refl _
    · exact hk.le c

set_option hygiene false in
/-- closes the side goals of `KInv_of` for the usual shapes of the bucket list after a step -/
macro "kinv_chan" : tactic => `(tactic| first
  | exact fun _ _ h => h
  | exact hk.buf
  | exact fun _ _ h => chanKey_set hch rfl h
  | exact fun _ _ h => chanKey_append _ h
  | exact bufOK_append hk.buf _ rfl
  | exact bufOK_set hk.buf hch rfl (fun c hc => Or.inl hc)
  | exact bufOK_set hk.buf hch rfl (fun c hc => Or.inl (by rw [hbuf]; exact List.mem_cons_of_mem _ hc))
  | trivial)

theorem kinv_mkBucket {s : St} {i : Nat} {t : Task} {k c : Nat} (hk : KInv s) (hg : Good s c k) :
    KInv (mkBucket s i t k c) :=
  KInv_of (i := i) (t' := { t with pc := .rSel k c s.chans.length }) hk rfl rfl rfl rfl
    (fun _ _ h => chanKey_append _ h) (bufOK_append hk.buf _ rfl) (Or.inl rfl)
    ⟨hg, chanKey_new s.chans _⟩ (Or.inl rfl)

theorem kinv_stepTask {s s' : St} {i p : Nat} {t : Task} (h1 : OnePlace s) (hk : KInv s) (ht : s.tasks[i]? = some t)
    (hstep : stepTask s i t p = some s') : KInv s' := by
  have hpc := hk.task i t ht
  obtain ⟨pc, prog, held⟩ := t
  cases pc
  case done => simp [stepTask] at hstep
  case panicked => simp [stepTask] at hstep
  case idle =>
    simp only [stepTask] at hstep
    split at hstep
    · simp only [Option.some.injEq] at hstep; subst hstep
      exact KInv_of hk rfl rfl rfl rfl (fun _ _ h => h) hk.buf (Or.inl rfl) trivial (Or.inl rfl)
    cases prog with
    | nil =>
      simp only [Option.some.injEq] at hstep; subst hstep
      exact KInv_of hk rfl rfl rfl rfl (fun _ _ h => h) hk.buf (Or.inl rfl) trivial (Or.inl rfl)
    | cons op rest =>
      cases op
      case sweep =>
        simp at hstep
        split at hstep <;> (try simp at hstep) <;> subst hstep <;>
          exact KInv_of hk rfl rfl rfl rfl (fun _ _ h => h) hk.buf (Or.inl rfl) trivial (Or.inl rfl)
      case get k =>
        simp only [Option.some.injEq] at hstep; subst hstep
        exact KInv_of hk rfl rfl rfl rfl (fun _ _ h => h) hk.buf (Or.inl rfl) trivial (Or.inl rfl)
      case cleanup =>
        simp only [Option.some.injEq] at hstep; subst hstep
        exact KInv_of hk rfl rfl rfl rfl (fun _ _ h => h) hk.buf (Or.inl rfl) trivial (Or.inl rfl)
      case shutdown =>
        simp only [Option.some.injEq] at hstep; subst hstep
        exact KInv_of hk rfl rfl rfl rfl (fun _ _ h => h) hk.buf (Or.inl rfl) trivial (Or.inl rfl)
      case drop =>
        cases held with
        | nil =>
          simp only [Option.some.injEq] at hstep; subst hstep
          exact KInv_of hk rfl rfl rfl rfl (fun _ _ h => h) hk.buf (Or.inl rfl) trivial (Or.inl rfl)
        | cons a hs =>
          simp only [Option.some.injEq] at hstep; subst hstep
          exact KInv_of hk rfl rfl rfl rfl (fun _ _ h => h) hk.buf (Or.inl rfl) trivial (Or.inl rfl)
      case ret =>
        cases held with
        | nil =>
          simp only [Option.some.injEq] at hstep; subst hstep
          exact KInv_of hk rfl rfl rfl rfl (fun _ _ h => h) hk.buf (Or.inl rfl) trivial (Or.inl rfl)
        | cons a hs =>
          obtain ⟨c, k⟩ := a
          simp only [Option.some.injEq] at hstep; subst hstep
          obtain ⟨hxb, hxt⟩ := owned_excl h1 ht (c := c) (by simp [Task.conns])
          refine KInv_upd (x := c) hk ht ?_ hxb hxt hk.le rfl rfl ?_ rfl
          · intro c' k' hne hg
            unfold Good at hg ⊢
            simp only [setTask, hne, ↓reduceIte]
            exact hg
          · simp only [PcK, Good, setTask, ↓reduceIte, true_and]
            exact hk.le c
      case use =>
        cases held with
        | nil =>
          simp only [Option.some.injEq] at hstep; subst hstep
          exact KInv_of hk rfl rfl rfl rfl (fun _ _ h => h) hk.buf (Or.inl rfl) trivial (Or.inl rfl)
        | cons a hs =>
          obtain ⟨c, k⟩ := a
          simp only [Option.some.injEq] at hstep; subst hstep
          obtain ⟨hxb, hxt⟩ := owned_excl h1 ht (c := c) (by simp [Task.conns])
          refine KInv_upd (x := c) hk ht ?_ hxb hxt ?_ rfl rfl trivial rfl
          · intro c' k' hne hg
            unfold Good at hg ⊢
            simp only [setTask, hne, ↓reduceIte]
            exact hg
          · intro c'
            simp only [setTask]
            split
            · exact Nat.le_refl _
            · exact hk.le c'
  case wClose c =>
    simp only [stepTask, Option.some.injEq] at hstep; subst hstep
    exact KInv_of hk rfl rfl rfl rfl (fun _ _ h => h) hk.buf (Or.inl rfl) trivial (Or.inl rfl)
  case kClose c =>
    simp only [stepTask, Option.some.injEq] at hstep; subst hstep
    exact KInv_of hk rfl rfl rfl rfl (fun _ _ h => h) hk.buf (Or.inl rfl) trivial (Or.inl rfl)
  case gLock k =>
    simp only [stepTask] at hstep
    split at hstep
    · simp at hstep
    · split at hstep
      · split at hstep <;> (simp only [Option.some.injEq] at hstep; subst hstep)
        · exact KInv_of hk rfl rfl rfl rfl (fun _ _ h => h) hk.buf (Or.inl rfl) trivial (Or.inl rfl)
        · exact kinv_miss k h1 hk ht
      · rename_i h hl
        split at hstep
        · simp only [Option.some.injEq] at hstep; subst hstep
          exact KInv_of hk rfl rfl rfl rfl (fun _ _ h => h) hk.buf (Or.inl rfl) trivial (Or.inl rfl)
        · split at hstep
          · simp only [Option.some.injEq] at hstep; subst hstep
            exact KInv_of hk rfl rfl rfl rfl (fun _ _ h => h) hk.buf (Or.inl rfl) trivial (Or.inl rfl)
          · simp only [Option.some.injEq] at hstep; subst hstep
            exact KInv_of hk rfl rfl rfl rfl (fun _ _ h => h) hk.buf (Or.inl rfl) (lookup_key hl) (Or.inl rfl)
  case gDropClose k h =>
    simp only [stepTask] at hstep
    split at hstep
    · simp only [Option.some.injEq] at hstep; subst hstep
      exact KInv_of hk rfl rfl rfl rfl (fun _ _ h => h) hk.buf (Or.inl rfl) trivial (Or.inl rfl)
    · obtain ⟨ch, hch, hopen, rfl⟩ := closeChan_some ‹closeChan _ _ = _›
      simp only [Option.some.injEq] at hstep; subst hstep
      exact KInv_of hk rfl rfl rfl rfl (fun _ _ h => chanKey_set hch (by rfl) h)
        (bufOK_set hk.buf hch (by rfl) (fun c hc => Or.inl hc)) (Or.inl rfl) trivial (Or.inl rfl)
  case gDrain k h =>
    simp only [stepTask] at hstep
    split at hstep
    · rename_i c0 s1 hr
      obtain ⟨ch, rest, hch, hbuf, rfl⟩ := recv_conn hr
      simp only [Option.some.injEq] at hstep; subst hstep
      refine KInv_of (i := i) (t' := ⟨.gDrain k h, prog, held⟩) hk rfl rfl rfl rfl (fun _ _ h => chanKey_set hch (by rfl) h)
        (bufOK_set hk.buf hch (by rfl) (fun c hc => Or.inl (by rw [hbuf]; exact List.mem_cons_of_mem _ hc)))
        (Or.inr ⟨c0, ?_⟩) trivial (Or.inl rfl)
      simp only [spawnCloser, set_self ht]
    · split at hstep <;> (simp only [Option.some.injEq] at hstep; subst hstep)
      · exact KInv_of hk rfl rfl rfl rfl (fun _ _ h => h) hk.buf (Or.inl rfl) trivial (Or.inl rfl)
      · exact KInv_fields (s := miss s i _ k) rfl rfl rfl rfl rfl rfl rfl (kinv_miss k h1 hk ht)
    · simp at hstep
    · simp only [Option.some.injEq] at hstep; subst hstep
      exact KInv_of hk rfl rfl rfl rfl (fun _ _ h => h) hk.buf (Or.inl rfl) trivial (Or.inl rfl)
  case gSel k h =>
    simp only [PcK] at hpc
    simp only [stepTask] at hstep
    split at hstep
    · rename_i c0 s1 hr
      obtain ⟨ch, rest, hch, hbuf, rfl⟩ := recv_conn hr
      simp only [Option.some.injEq] at hstep; subst hstep
      have hkey : ch.key = k := by
        obtain ⟨ch0, h0, hk0⟩ := hpc
        rw [hch] at h0; simp at h0; subst h0; exact hk0
      refine KInv_of hk rfl rfl rfl rfl (fun _ _ h => chanKey_set hch (by rfl) h)
        (bufOK_set hk.buf hch (by rfl) (fun c hc => Or.inl (by rw [hbuf]; exact List.mem_cons_of_mem _ hc)))
        (Or.inl rfl) ⟨chanKey_set hch (by rfl) hpc, ?_⟩ (Or.inl rfl)
      rw [← hkey]
      exact hk.buf h ch hch c0 (by rw [hbuf]; exact List.mem_cons_self)
    · split at hstep <;> (simp only [Option.some.injEq] at hstep; subst hstep)
      · exact KInv_of hk rfl rfl rfl rfl (fun _ _ h => h) hk.buf (Or.inl rfl) trivial (Or.inl rfl)
      · exact kinv_miss k h1 hk ht
    · split at hstep <;> (simp only [Option.some.injEq] at hstep; subst hstep)
      · exact KInv_of hk rfl rfl rfl rfl (fun _ _ h => h) hk.buf (Or.inl rfl) trivial (Or.inl rfl)
      · exact kinv_miss k h1 hk ht
    · simp only [Option.some.injEq] at hstep; subst hstep
      exact KInv_of hk rfl rfl rfl rfl (fun _ _ h => h) hk.buf (Or.inl rfl) trivial (Or.inl rfl)
  case gUsable k h c =>
    simp only [PcK] at hpc
    simp only [stepTask] at hstep
    split at hstep
    · simp only [Option.some.injEq] at hstep; subst hstep
      exact KInv_of hk rfl rfl rfl rfl (fun _ _ h => h) hk.buf (Or.inr ⟨c, rfl⟩) hpc.1 (Or.inl rfl)
    · split at hstep
      · simp only [Option.some.injEq] at hstep; subst hstep
        exact KInv_of hk rfl rfl rfl rfl (fun _ _ h => h) hk.buf (Or.inr ⟨c, rfl⟩) hpc.1 (Or.inl rfl)
      · simp only [Option.some.injEq] at hstep; subst hstep
        exact KInv_of hk rfl rfl rfl rfl (fun _ _ h => h) hk.buf (Or.inl rfl) trivial (Or.inr ⟨_, rfl, hpc.2⟩)
  case rLock k c =>
    simp only [PcK] at hpc
    simp only [stepTask] at hstep
    split at hstep
    · simp at hstep
    · split at hstep
      · simp only [Option.some.injEq] at hstep; subst hstep
        exact KInv_of hk rfl rfl rfl rfl (fun _ _ h => h) hk.buf (Or.inl rfl) trivial (Or.inl rfl)
      · split at hstep
        · rename_i h hl
          simp only [Option.some.injEq] at hstep; subst hstep
          exact KInv_of hk rfl rfl rfl rfl (fun _ _ h => h) hk.buf (Or.inl rfl) ⟨hpc, lookup_key hl⟩ (Or.inl rfl)
        · split at hstep
          · split at hstep
            · simp only [Option.some.injEq] at hstep; subst hstep
              exact KInv_of hk rfl rfl rfl rfl (fun _ _ h => h) hk.buf (Or.inl rfl) hpc (Or.inl rfl)
            · simp only [Option.some.injEq] at hstep; subst hstep
              exact kinv_mkBucket hk hpc
          · simp only [Option.some.injEq] at hstep; subst hstep
            exact kinv_mkBucket hk hpc
  case rIter k c h td =>
    simp only [PcK] at hpc
    simp only [stepTask] at hstep
    split at hstep
    · simp only [Option.some.injEq] at hstep; subst hstep
      exact KInv_of hk rfl rfl rfl rfl (fun _ _ h => h) hk.buf (Or.inl rfl) trivial (Or.inl rfl)
    · split at hstep
      · simp only [Option.some.injEq] at hstep; subst hstep
        exact KInv_of hk rfl rfl rfl rfl (fun _ _ h => h) hk.buf (Or.inl rfl) hpc (Or.inl rfl)
      · split at hstep
        · simp only [Option.some.injEq] at hstep; subst hstep
          exact KInv_of hk rfl rfl rfl rfl (fun _ _ h => h) hk.buf (Or.inl rfl) hpc (Or.inl rfl)
        · simp only [Option.some.injEq] at hstep; subst hstep
          exact kinv_mkBucket hk hpc
  case rClose k c h td =>
    simp only [PcK] at hpc
    simp only [stepTask] at hstep
    split at hstep
    · simp only [Option.some.injEq] at hstep; subst hstep
      exact KInv_of hk rfl rfl rfl rfl (fun _ _ h => h) hk.buf (Or.inl rfl) trivial (Or.inl rfl)
    · obtain ⟨ch, hch, hopen, rfl⟩ := closeChan_some ‹closeChan _ _ = _›
      simp only [Option.some.injEq] at hstep; subst hstep
      exact KInv_of hk rfl rfl rfl rfl (fun _ _ h => chanKey_set hch (by rfl) h)
        (bufOK_set hk.buf hch (by rfl) (fun c hc => Or.inl hc)) (Or.inl rfl) hpc (Or.inl rfl)
  case rDrain k c h td =>
    simp only [PcK] at hpc
    simp only [stepTask] at hstep
    split at hstep
    · rename_i c0 s1 hr
      obtain ⟨ch, rest, hch, hbuf, rfl⟩ := recv_conn hr
      simp only [Option.some.injEq] at hstep; subst hstep
      exact KInv_of hk rfl rfl rfl rfl (fun _ _ h => chanKey_set hch (by rfl) h)
        (bufOK_set hk.buf hch (by rfl) (fun c hc => Or.inl (by rw [hbuf]; exact List.mem_cons_of_mem _ hc)))
        (Or.inl rfl) hpc (Or.inl rfl)
    · split at hstep
      · simp only [Option.some.injEq] at hstep; subst hstep
        exact KInv_of hk rfl rfl rfl rfl (fun _ _ h => h) hk.buf (Or.inl rfl) hpc (Or.inl rfl)
      · simp only [Option.some.injEq] at hstep; subst hstep
        exact kinv_mkBucket hk hpc
    · simp at hstep
    · simp only [Option.some.injEq] at hstep; subst hstep
      exact KInv_of hk rfl rfl rfl rfl (fun _ _ h => h) hk.buf (Or.inl rfl) trivial (Or.inl rfl)
  case rDrainClose k c h td c' =>
    simp only [PcK] at hpc
    simp only [stepTask, Option.some.injEq] at hstep; subst hstep
    exact KInv_of hk rfl rfl rfl rfl (fun _ _ h => h) hk.buf (Or.inl rfl) hpc (Or.inl rfl)
  case rSel k c h =>
    simp only [PcK] at hpc
    simp only [stepTask] at hstep
    split at hstep
    · simp only [Option.some.injEq] at hstep; subst hstep
      exact KInv_of hk rfl rfl rfl rfl (fun _ _ h => h) hk.buf (Or.inl rfl) trivial (Or.inl rfl)
    · rename_i ch hch
      have hkey : ch.key = k := by
        obtain ⟨ch0, h0, hk0⟩ := hpc.2
        rw [hch] at h0; simp at h0; subst h0; exact hk0
      split at hstep
      · simp only [Option.some.injEq] at hstep; subst hstep
        exact KInv_of hk rfl rfl rfl rfl (fun _ _ h => h) hk.buf (Or.inl rfl) trivial (Or.inl rfl)
      · split at hstep
        · simp only [Option.some.injEq] at hstep; subst hstep
          refine KInv_of hk rfl rfl rfl rfl (fun _ _ h => chanKey_set hch (by rfl) h)
            (bufOK_set hk.buf hch (by rfl) (fun c' hc' => ?_)) (Or.inl rfl) trivial (Or.inl rfl)
          simp only [List.mem_append, List.mem_singleton] at hc'
          rcases hc' with hc' | rfl
          · exact Or.inl hc'
          · right; rw [hkey]; exact hpc.1
        · simp only [Option.some.injEq] at hstep; subst hstep
          exact KInv_of hk rfl rfl rfl rfl (fun _ _ h => h) hk.buf (Or.inr ⟨c, rfl⟩) trivial (Or.inl rfl)
  case cDrain h td =>
    simp only [stepTask] at hstep
    split at hstep
    · rename_i c0 s1 hr
      obtain ⟨ch, rest, hch, hbuf, rfl⟩ := recv_conn hr
      simp only [Option.some.injEq] at hstep; subst hstep
      refine KInv_of (i := i) (t' := ⟨.cDrain h td, prog, held⟩) hk rfl rfl rfl rfl (fun _ _ h => chanKey_set hch (by rfl) h)
        (bufOK_set hk.buf hch (by rfl) (fun c hc => Or.inl (by rw [hbuf]; exact List.mem_cons_of_mem _ hc)))
        (Or.inr ⟨c0, ?_⟩) trivial (Or.inl rfl)
      simp only [spawnCloser, set_self ht]
    · split at hstep
      · simp only [Option.some.injEq] at hstep; subst hstep
        exact KInv_of hk rfl rfl rfl rfl (fun _ _ h => h) hk.buf (Or.inl rfl) trivial (Or.inl rfl)
      · simp only [Option.some.injEq] at hstep; subst hstep
        exact KInv_of hk rfl rfl rfl rfl (fun _ _ h => h) hk.buf (Or.inl rfl) trivial (Or.inl rfl)
    · simp at hstep
    · simp only [Option.some.injEq] at hstep; subst hstep
      exact KInv_of hk rfl rfl rfl rfl (fun _ _ h => h) hk.buf (Or.inl rfl) trivial (Or.inl rfl)
  all_goals (
    simp only [stepTask] at hstep
    repeat' split at hstep
    all_goals (try (simp only [Option.some.injEq, reduceCtorEq] at hstep))
    all_goals (try subst hstep))
  all_goals first
    | exact KInv_of hk rfl rfl rfl rfl (fun _ _ h => h) hk.buf (Or.inl rfl) trivial (Or.inl rfl)
    | (obtain ⟨ch, hch, hopen, rfl⟩ := closeChan_some ‹closeChan _ _ = _›
       exact KInv_of hk rfl rfl rfl rfl (fun _ _ h => chanKey_set hch (by rfl) h)
         (bufOK_set hk.buf hch (by rfl) (fun c hc => Or.inl hc)) (Or.inl rfl) trivial (Or.inl rfl))
    | (obtain ⟨ch, rest, hch, hbuf, rfl⟩ := recv_conn ‹recv _ _ = _›
       exact KInv_of hk rfl rfl rfl rfl (fun _ _ h => chanKey_set hch (by rfl) h)
             (bufOK_set hk.buf hch (by rfl) (fun c hc => Or.inl (by rw [hbuf]; exact List.mem_cons_of_mem _ hc)))
             (Or.inl rfl) trivial (Or.inl rfl))

theorem kinv_step {s s' : St} {w : Who} (hinv : Inv s) (hk : KInv s) (hstep : step s w = some s') : KInv s' := by
  cases w with
  | task i p =>
    simp only [step] at hstep
    split at hstep
    · simp at hstep
    · rename_i t ht; exact kinv_stepTask hinv.one hk ht hstep
  | tick d =>
    simp only [step, Option.some.injEq] at hstep; subst hstep
    refine ⟨fun c => Nat.le_trans (hk.le c) (Nat.le_add_right _ _), hk.buf, hk.task, hk.log⟩
  | brk c =>
    simp only [step] at hstep
    split at hstep
    · simp only [Option.some.injEq] at hstep; subst hstep
      exact KInv_fields (s := s) rfl rfl rfl rfl rfl rfl rfl hk
    · simp at hstep
  | cancel i =>
    simp only [step, Option.some.injEq] at hstep; subst hstep
    exact KInv_fields (s := s) rfl rfl rfl rfl rfl rfl rfl hk

theorem kinv_run {s : St} (ws : List Who) (hinv : Inv s) (hk : KInv s) : KInv (run s ws) := by
  induction ws generalizing s with
  | nil => exact hk
  | cons w ws ih =>
    refine ih (inv_next w hinv) ?_
    unfold next
    cases h : step s w with
    | none => simpa using hk
    | some s' => simpa using kinv_step hinv hk h

theorem kinv_init (cfg : Cfg) (progs : List (List Op)) : KInv (init cfg progs) := by
  refine ⟨fun _ => Nat.le_refl _, ?_, ?_, ?_⟩
  · intro h ch hch; simp [init] at hch
  · intro i t hi
    simp only [init, List.getElem?_map] at hi
    cases hp : progs[i]? with
    | none => simp [hp] at hi
    | some p => simp [hp] at hi; subst hi; trivial
  · intro e he; simp [init] at he

end MaddyVerif.C19
