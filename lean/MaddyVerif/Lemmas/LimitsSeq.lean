import MaddyVerif.Lemmas.LimitsStep
/-! C11: one goroutine taking the message limits while everybody else is quiescent (used for the
"full N can be acquired again" theorem). -/
namespace MaddyVerif.Limits

theorem count_range_g (i n : Nat) : ((List.range n).map Tok.g).count (Tok.g i) = if i < n then 1 else 0 := by
  induction n with
  | zero => simp
  | succ n ih =>
    rw [List.range_succ, List.map_append, List.count_append, ih]
    simp only [List.map_cons, List.map_nil, count_singleton]
    by_cases e1 : i < n
    · have : ¬ Tok.g n = Tok.g i := by simp; omega
      simp [e1, this]; omega
    · by_cases e2 : n = i
      · subst e2; simp
      · have : ¬ i < n + 1 := by omega
        have h' : ¬ Tok.g n = Tok.g i := by simp [e2]
        simp [e1, this, h']

theorem count_range_g_other (n : Nat) (tok : Tok) (h : ∀ i, tok ≠ Tok.g i) :
    ((List.range n).map Tok.g).count tok = 0 := by
  rw [List.count_eq_zero]
  simp
  intro x _ hx
  exact h x hx.symm

theorem setToks_count_le (c : Cfg) (sc : Sc) (k : Nat) (tok : Tok) : (opsToks c (relSet c sc k)).count tok ≤ 1 := by
  unfold relSet
  split
  · simp only [opsToks_cons, opsToks_nil, List.append_nil, MOp.toks, List.count_cons]
    cases tok with
    | g j => simp [count_range_b_g]
    | use sc' k' => simp [count_range_b_use]; split <;> omega
    | b sc' k' i => simp [count_range_b]; split <;> omega
  · simp

theorem setToks_scope (c : Cfg) (sc : Sc) (k : Nat) (tok : Tok) (h : tok ∈ opsToks c (relSet c sc k)) :
    (∃ i, tok = .b sc k i) ∨ tok = .use sc k := by
  unfold relSet at h
  split at h
  · simp [MOp.toks] at h
    rcases h with h | ⟨i, _, h⟩
    · exact Or.inr h
    · exact Or.inl ⟨i, h.symm⟩
  · simp at h

theorem release_count_le_one (c : Cfg) (ip dom : Nat) (tok : Tok) :
    (opsToks c (releaseMsgProg c ip dom)).count tok ≤ 1 := by
  simp only [releaseMsgProg, opsToks_append, List.count_append, globToks_eq]
  have h1 := setToks_count_le c .ip (c.keys.rel ip) tok
  have h2 := setToks_count_le c .src dom tok
  cases tok with
  | g i =>
    have e1 : (opsToks c (relSet c .ip (c.keys.rel ip))).count (.g i) = 0 := by
      rw [List.count_eq_zero]; intro h; rcases setToks_scope c _ _ _ h with ⟨_, h⟩ | h <;> simp at h
    have e2 : (opsToks c (relSet c .src dom)).count (.g i) = 0 := by
      rw [List.count_eq_zero]; intro h; rcases setToks_scope c _ _ _ h with ⟨_, h⟩ | h <;> simp at h
    rw [count_range_g, e1, e2]; split <;> omega
  | b sc k i =>
    rw [count_range_g_other _ _ (by intro j; simp)]
    cases sc with
    | ip =>
      have e2 : (opsToks c (relSet c .src dom)).count (.b .ip k i) = 0 := by
        rw [List.count_eq_zero]; intro h; rcases setToks_scope c _ _ _ h with ⟨_, h⟩ | h <;> simp at h
      omega
    | src =>
      have e1 : (opsToks c (relSet c .ip (c.keys.rel ip))).count (.b .src k i) = 0 := by
        rw [List.count_eq_zero]; intro h; rcases setToks_scope c _ _ _ h with ⟨_, h⟩ | h <;> simp at h
      omega
    | dst =>
      have e1 : (opsToks c (relSet c .ip (c.keys.rel ip))).count (.b .dst k i) = 0 := by
        rw [List.count_eq_zero]; intro h; rcases setToks_scope c _ _ _ h with ⟨_, h⟩ | h <;> simp at h
      omega
  | use sc k =>
    rw [count_range_g_other _ _ (by intro j; simp)]
    cases sc with
    | ip =>
      have e2 : (opsToks c (relSet c .src dom)).count (.use .ip k) = 0 := by
        rw [List.count_eq_zero]; intro h; rcases setToks_scope c _ _ _ h with ⟨_, h⟩ | h <;> simp at h
      omega
    | src =>
      have e1 : (opsToks c (relSet c .ip (c.keys.rel ip))).count (.use .src k) = 0 := by
        rw [List.count_eq_zero]; intro h; rcases setToks_scope c _ _ _ h with ⟨_, h⟩ | h <;> simp at h
      omega
    | dst =>
      have e1 : (opsToks c (relSet c .ip (c.keys.rel ip))).count (.use .dst k) = 0 := by
        rw [List.count_eq_zero]; intro h; rcases setToks_scope c _ _ _ h with ⟨_, h⟩ | h <;> simp at h
      omega

/-- Which bucket keys the tokens of a message mention. -/
theorem release_use_key (c : Cfg) (ip dom : Nat) (sc : Sc) (k : Nat)
    (h : Tok.use sc k ∈ opsToks c (releaseMsgProg c ip dom)) :
    (sc = .ip ∧ k = c.keys.rel ip) ∨ (sc = .src ∧ k = dom) := by
  simp only [releaseMsgProg, opsToks_append, List.mem_append, globToks_eq] at h
  rcases h with (h | h) | h
  · simp at h
  · rcases setToks_scope c _ _ _ h with ⟨_, h⟩ | h
    · simp at h
    · injection h with a b; exact Or.inl ⟨a, b⟩
  · rcases setToks_scope c _ _ _ h with ⟨_, h⟩ | h
    · simp at h
    · injection h with a b; exact Or.inr ⟨a, b⟩

theorem chain_le_fin (c : Cfg) (cur : List Tok) (op : MOp) (u : List MOp) (rest : TakeProg) (fin : List Tok)
    (h : Chain c cur ((op, u) :: rest) fin) :
    ∀ tok, (opsToks c u).count tok + (op.toks c).count tok ≤ fin.count tok := by
  induction rest generalizing cur op u with
  | nil =>
    intro tok
    have := h.2.2.2 tok
    simp only [List.count_append] at this
    omega
  | cons e r ih =>
    obtain ⟨op', u'⟩ := e
    intro tok
    have h1 := ih _ op' u' h.2.2.2 tok
    have h2 := h.2.2.2.1 tok
    simp only [List.count_append] at h2
    omega

theorem msgToks_replicate_count (c : Cfg) (k : Nat) (p : Nat × Nat) (tok : Tok) :
    (msgToks c (List.replicate k p)).count tok = k * (opsToks c (releaseMsgProg c p.1 p.2)).count tok := by
  induction k with
  | zero => simp [msgToks]
  | succ k ih =>
    simp only [List.replicate_succ, msgToks, List.flatMap_cons, List.count_append] at ih ⊢
    rw [ih, Nat.succ_mul]; omega

theorem lt_of_getElem?' {α : Type} (l : List α) (i : Nat) (x : α) (h : l[i]? = some x) : i < l.length := by
  rcases Nat.lt_or_ge i l.length with h' | h'
  · exact h'
  · simp [List.getElem?_eq_none h'] at h

theorem length_le_one_of_same_key (m : List Bucket) (key : Nat) (hn : (m.map (·.key)).Nodup)
    (h : ∀ b ∈ m, b.key = key) : m.length ≤ 1 := by
  match m with
  | [] => simp
  | [_] => simp
  | a :: b :: r =>
    have ha := h a (by simp)
    have hb := h b (by simp)
    simp [List.nodup_cons] at hn
    exact absurd (ha.trans hb.symm) hn.1.1


/-! ### the solo setting -/

def msgLims (c : Cfg) : List Lim := c.all ++ (c.ip ++ c.src)

def HStale (c : Cfg) (g : Group) : Prop := ∀ sc, ∀ b ∈ g.bk sc, b.users = 0 → c.reap < (b.age : Int)

def OthersIdle (s : St) (j : Nat) : Prop :=
  ∀ i t, i ≠ j → s.tasks[i]? = some t → t.pc = .idle ∧ t.outMsg = [] ∧ t.outDest = []

theorem idle_toks (c : Cfg) (t : Task) (h : t.pc = .idle ∧ t.outMsg = [] ∧ t.outDest = []) : t.toks c = [] := by
  simp [Task.toks, h.1, h.2.1, h.2.2, msgToks, destToks, curToks]

theorem total_solo (c : Cfg) (s : St) (j : Nat) (t : Task) (tok : Tok) (ho : OthersIdle s j)
    (hj : s.tasks[j]? = some t) : total c tok s.tasks = (t.toks c).count tok := by
  have h1 := total_set c tok s.tasks j t Task.new hj
  have h2 : total c tok (s.tasks.set j Task.new) = 0 := by
    apply total_eq_zero
    intro x hx
    obtain ⟨i, hi⟩ := List.mem_iff_getElem?.1 hx
    rw [List.getElem?_set] at hi
    by_cases e : j = i
    · subst e
      have : j < s.tasks.length := lt_of_getElem?' _ _ _ hj
      simp [this] at hi
      subst hi
      simp [Task.new, Task.toks, msgToks, destToks, curToks]
    · simp [e] at hi
      rw [idle_toks c x (ho i x (fun h => e h.symm) hi)]
      simp
  have h3 : (Task.new.toks c).count tok = 0 := by simp [Task.new, Task.toks, msgToks, destToks, curToks]
  omega


/-- Static facts about the take call whose capacity is probed; `L` = the directives it can touch. -/
structure CallSpec (c : Cfg) (call : Call) (L : List Lim) : Prop where
  isTake : call.isTake
  one : ∀ tok, (call.toks c).count tok ≤ 1
  key : ∀ sc k1 k2, Tok.use sc k1 ∈ call.toks c → Tok.use sc k2 ∈ call.toks c → k1 = k2
  coverG : ∀ i, Tok.g i ∈ call.toks c → ∀ l ∈ c.all, l ∈ L
  coverB : ∀ sc k, Tok.use sc k ∈ call.toks c → ∀ l ∈ c.ctors sc, l ∈ L
  sem : ∀ l ∈ L, l.kind = .sem

/-- Goroutine `j` holds `k` successful instances of `call`, everybody else is quiescent. -/
structure SoloCtx (c : Cfg) (s : St) (j : Nat) (call : Call) (k : Nat) (t : Task) : Prop where
  inv : Inv c s
  stale : HStale c s.g
  others : OthersIdle s j
  tj : s.tasks[j]? = some t
  outs : ∀ tok, (msgToks c t.outMsg).count tok + (destToks c t.outDest).count tok = k * (call.toks c).count tok
  maxB : 1 ≤ c.maxB
  law : c.keys.Lawful

theorem lim_take_ok (l : LimSt) (hk : l.kind = .sem) (h : l.real → l.len < l.cap) : ∃ l', l.take = some l' := by
  unfold LimSt.take
  by_cases hc : l.cap = 0
  · simp [hc]
  · have := h ⟨hk, by omega⟩
    simp [hc, hk, this]

theorem ctors_sub_msgLims (c : Cfg) (sc : Sc) (h : sc = .ip ∨ sc = .src) : ∀ l ∈ c.ctors sc, l ∈ msgLims c := by
  intro l hl
  rcases h with rfl | rfl <;> simp [Cfg.ctors, msgLims] at hl ⊢ <;> simp [hl]

theorem bsTake_mem_users (c : Cfg) (sc : Sc) (m : List Bucket) (k : Nat) (b : Bucket)
    (hb : b ∈ (bsTake c sc m k).1) (hu : b.users = 0) : b ∈ m := by
  have hreap : ∀ x ∈ reap c m, x ∈ m := by
    intro x hx
    unfold reap at hx
    split at hx
    · exact (List.mem_filter.1 hx).1
    · exact hx
  rw [bsTake_eq] at hb
  split at hb
  · exact hreap b hb
  · simp only [updB, List.mem_map] at hb
    obtain ⟨b0, hb0, rfl⟩ := hb
    by_cases e : b0.key = k
    · simp [e] at hu
    · simp [e] at hu ⊢
      split at hb0
      · exact hreap b0 hb0
      · simp at hb0
        rcases hb0 with hb0 | rfl
        · exact hreap b0 hb0
        · simp at e

theorem solo_acq (c : Cfg) (s : St) (j : Nat) (call : Call) (L : List Lim) (k : Nat) (t : Task) (op : MOp)
    (u : List MOp) (rest : TakeProg) (hs : CallSpec c call L)
    (hx : SoloCtx c s j call k t) (hcap : ∀ l ∈ L, 0 < l.n → k < l.n.toNat)
    (hpc : t.pc = .taking call ((op, u) :: rest)) :
    ∃ g', execAcq c s.g op = .ok g' ∧ HStale c g' := by
  have hwf := hx.inv.t t (List.mem_of_getElem? hx.tj)
  unfold TaskWF at hwf
  rw [hpc] at hwf
  obtain ⟨_, hch⟩ := hwf
  have hle := chain_le_fin c _ op u rest _ hch
  have hone := hs.one
  have hok := hch.2.1
  have htoks : ∀ tok, (t.toks c).count tok =
      k * (call.toks c).count tok + (opsToks c u).count tok := by
    intro tok
    have := hx.outs tok
    simp only [Task.toks, hpc, curToks, List.count_append]
    omega
  have hlen : ∀ tok, counted c tok = true → lenOf s.g tok =
      k * (call.toks c).count tok + (opsToks c u).count tok := by
    intro tok hc
    rw [hx.inv.w tok hc, total_solo c s j t tok hx.others hx.tj, htoks]
  have hmemfin : ∀ tok, tok ∈ t.toks c → tok ∈ call.toks c := by
    intro tok hm
    have h1 := count_pos_of_mem _ _ hm
    rw [htoks] at h1
    have h2 := hle tok
    rw [← List.count_pos_iff]
    rcases Nat.eq_zero_or_pos ((call.toks c).count tok) with h0 | h0
    · rw [h0] at h1 h2; omega
    · exact h0
  cases op with
  | relG i => exact absurd hok (by simp [AcqOK])
  | relB a b d => exact absurd hok (by simp [AcqOK])
  | untake a b => exact absurd hok (by simp [AcqOK])
  | bsRel a b => exact absurd hok (by simp [AcqOK])
  | acqG i =>
    have hi : i < c.all.length := hok
    obtain ⟨l, hl⟩ := shaped_lt _ _ i hx.inv.g.glob hi
    obtain ⟨ct, c1, c2, c3, c4⟩ := hx.inv.g.glob.2 i l hl
    have hgfin : Tok.g i ∈ call.toks c := by
      have h2 := hle (.g i)
      simp only [MOp.toks, count_singleton, if_true] at h2
      rw [← List.count_pos_iff]; omega
    have hct : ct ∈ L := hs.coverG i hgfin ct (List.mem_of_getElem? c1)
    have hreal := realSem_iff _ _ i l hx.inv.g.glob hl
    obtain ⟨l', hl'⟩ := lim_take_ok l (by rw [c2]; exact hs.sem ct hct) (by
      intro hr
      have hc : counted c (.g i) = true := by simpa [counted] using hreal.2 hr
      have h1 := hlen _ hc
      have h2 := hle (.g i)
      have h3 := hone (.g i)
      simp only [MOp.toks, count_singleton, if_true] at h2
      have h4 : lenOf s.g (.g i) = l.len := by simp [lenOf, hl, limLen]
      have h5 : (call.toks c).count (.g i) = 1 := by omega
      have h6 : (opsToks c u).count (.g i) = 0 := by omega
      rw [h5, h6] at h1
      have hpos : 0 < ct.n := by have := hr.2; omega
      have hcc := c3
      have := hcap ct hct hpos
      have hcap := hr.2
      omega)
    refine ⟨{ s.g with glob := s.g.glob.set i l' }, by simp [execAcq, hl, hl'], ?_⟩
    intro sc b hb
    exact hx.stale sc b (by simpa using hb)
  | acqB sc key i =>
    obtain ⟨hi, huse⟩ := hok
    have husefin : Tok.use sc key ∈ call.toks c :=
      hmemfin _ (by simp only [Task.toks, hpc, curToks, List.mem_append]; exact Or.inr (Or.inr huse))
    have hpos : 0 < lenOf s.g (.use sc key) := by
      rw [hlen _ rfl]
      have := count_pos_of_mem _ _ huse
      omega
    obtain ⟨bk, hb⟩ := find_of_use_pos s.g sc key hpos
    have hbs := hx.inv.g.bk sc bk (findB_some _ _ _ hb).1
    obtain ⟨l, hl⟩ := shaped_lt _ _ i hbs hi
    obtain ⟨ct, c1, c2, c3, c4⟩ := hbs.2 i l hl
    have hct : ct ∈ L := hs.coverB sc key husefin ct (List.mem_of_getElem? c1)
    have hreal := realSem_iff _ _ i l hbs hl
    obtain ⟨l', hl'⟩ := lim_take_ok l (by rw [c2]; exact hs.sem ct hct) (by
      intro hr
      have hc : counted c (.b sc key i) = true := by simpa [counted] using hreal.2 hr
      have h1 := hlen _ hc
      have h2 := hle (.b sc key i)
      have h3 := hone (.b sc key i)
      simp only [MOp.toks, count_singleton, if_true] at h2
      have h4 : lenOf s.g (.b sc key i) = l.len := by simp [lenOf_b_of_find s.g sc key i bk hb, hl, limLen]
      have h5 : (call.toks c).count (.b sc key i) = 1 := by omega
      have h6 : (opsToks c u).count (.b sc key i) = 0 := by omega
      rw [h5, h6] at h1
      have hpos : 0 < ct.n := by have := hr.2; omega
      have hcc := c3
      have := hcap ct hct hpos
      have hcap := hr.2
      omega)
    refine ⟨s.g.setBk sc (updB (s.g.bk sc) key (fun b => { b with lims := b.lims.set i l' })),
      by simp [execAcq, hb, hl, hl'], ?_⟩
    intro sc' b' hb' hu'
    rw [bk_setBk] at hb'
    by_cases e : sc' = sc
    · subst e
      simp only [if_true, updB, List.mem_map] at hb'
      obtain ⟨b0, hb0, rfl⟩ := hb'
      by_cases e' : b0.key = key
      · simp [e'] at hu' ⊢
        exact hx.stale sc' b0 hb0 hu'
      · simp [e'] at hu' ⊢
        exact hx.stale sc' b0 hb0 hu'
    · simp [e] at hb'
      exact hx.stale sc' b' hb' hu'
  | bsTake sc key =>
    have husefin : Tok.use sc key ∈ call.toks c := by
      have h2 := hle (.use sc key)
      simp only [MOp.toks, count_singleton, if_true] at h2
      rw [← List.count_pos_iff]; omega
    have hkey : ∀ k', Tok.use sc k' ∈ call.toks c → k' = key := fun k' hk' => hs.key sc k' key hk' husefin
    have hlenle : (reap c (s.g.bk sc)).length ≤ c.maxB := by
      unfold reap
      split
      · have hmax := hx.maxB
        refine Nat.le_trans (length_le_one_of_same_key _ key
          (List.Nodup.sublist (List.Sublist.map _ List.filter_sublist) (hx.inv.g.nodup sc)) ?_) hmax
        intro b hb
        obtain ⟨hbm, hns⟩ := List.mem_filter.1 hb
        have hu : b.users ≠ 0 := by
          intro hu
          have := hx.stale sc b hbm hu
          simp [Bucket.stale, hu, this] at hns
        have hf := findB_of_mem _ b (hx.inv.g.nodup sc) hbm
        have h1 := hlen (.use sc b.key) rfl
        rw [lenOf_use_of_find s.g sc b.key b hf] at h1
        apply hkey
        apply hmemfin
        rw [← List.count_pos_iff, htoks]
        omega
      · omega
    have hnot : ¬ (reap c (s.g.bk sc)).length > c.maxB := by omega
    refine ⟨s.g.setBk sc (bsTake c sc (s.g.bk sc) key).1, ?_, ?_⟩
    · have : (bsTake c sc (s.g.bk sc) key).2 = true := by rw [bsTake_eq]; simp [hnot]
      simp [execAcq, this]
    · intro sc' b' hb' hu'
      rw [bk_setBk] at hb'
      by_cases e : sc' = sc
      · subst e
        simp only [if_true] at hb'
        exact hx.stale sc' b' (bsTake_mem_users c sc' _ key b' hb' hu') hu'
      · simp [e] at hb'
        exact hx.stale sc' b' hb' hu'


/-! ### running the call to completion -/

theorem step_go_eq (c : Cfg) (s : St) (j : Nat) (t : Task) (h : s.tasks[j]? = some t) :
    step c s (.go j) = { s with g := (t.go c s.g).1, tasks := s.tasks.set j (t.go c s.g).2 } := by
  simp [step, h]

theorem set_get_same {α : Type} (l : List α) (j : Nat) (x y : α) (h : l[j]? = some x) : (l.set j y)[j]? = some y := by
  rw [List.getElem?_set]
  simp [lt_of_getElem?' l j x h]

theorem set_get_ne {α : Type} (l : List α) (i j : Nat) (y : α) (h : i ≠ j) : (l.set j y)[i]? = l[i]? := by
  rw [List.getElem?_set]
  have : ¬ j = i := fun e => h e.symm
  simp [this]

theorem OthersIdle.set (s : St) (j : Nat) (g : Group) (t' : Task) (h : OthersIdle s j) :
    OthersIdle { s with g := g, tasks := s.tasks.set j t' } j := by
  intro i t hi ht
  simp only [set_get_ne _ i j t' hi] at ht
  exact h i t hi ht

theorem finish_succ (c : Cfg) (j f : Nat) (s : St) (t : Task) (h : s.tasks[j]? = some t) :
    finish c j (f + 1) s =
      if t.running then finish c j f (step c s (if t.parked c s.g then .timeout j else .go j)) else s := by
  simp [finish, h]

theorem finish_idle (c : Cfg) (j f : Nat) (s : St) (t : Task) (h : s.tasks[j]? = some t) (hp : t.pc = .idle) :
    finish c j f s = s := by
  cases f with
  | zero => rfl
  | succ f => rw [finish_succ c j f s t h]; simp [Task.running, hp]

theorem finishTake_spec (c : Cfg) (call : Call) (k : Nat) (t : Task) (hit : call.isTake)
    (h : ∀ tok, (msgToks c t.outMsg).count tok + (destToks c t.outDest).count tok = k * (call.toks c).count tok) :
    (∀ tok, (msgToks c (t.finishTake call).outMsg).count tok + (destToks c (t.finishTake call).outDest).count tok
      = (k + 1) * (call.toks c).count tok) ∧ (t.finishTake call).pc = .idle ∧ (t.finishTake call).res = .ok := by
  cases call with
  | takeMsg a b =>
    refine ⟨?_, rfl, rfl⟩
    intro tok
    have := h tok
    simp only [Task.finishTake, msgToks, List.flatMap_cons, List.count_append, Call.toks, Nat.succ_mul] at this ⊢
    omega
  | takeDest d =>
    refine ⟨?_, rfl, rfl⟩
    intro tok
    have := h tok
    simp only [Task.finishTake, destToks, List.flatMap_cons, List.count_append, Call.toks, Nat.succ_mul] at this ⊢
    omega
  | relMsg a b => exact absurd hit (by simp [Call.isTake])
  | relDest d => exact absurd hit (by simp [Call.isTake])

theorem solo_finish (c : Cfg) (j : Nat) (call : Call) (L : List Lim) (k : Nat) (hs : CallSpec c call L)
    (hcap : ∀ l ∈ L, 0 < l.n → k < l.n.toNat) :
    ∀ (todo : TakeProg) (fuel : Nat) (s : St) (t : Task), SoloCtx c s j call k t → s.misuse = false →
      t.pc = .taking call todo → todo.length + 1 ≤ fuel →
      ∃ t', SoloCtx c (finish c j fuel s) j call (k + 1) t' ∧ (finish c j fuel s).misuse = false ∧
        t'.pc = .idle ∧ t'.res = .ok := by
  intro todo
  induction todo with
  | nil =>
    intro fuel s t hx hm hpc hf
    obtain ⟨f, rfl⟩ : ∃ f, fuel = f + 1 := ⟨fuel - 1, by simp at hf; omega⟩
    rw [finish_succ c j f s t hx.tj]
    have hrun : t.running = true := by simp [Task.running, hpc]
    have hpark : t.parked c s.g = false := by simp [Task.parked, hpc]
    simp only [hrun, hpark, if_true, Bool.false_eq_true, if_false]
    have hgo : t.go c s.g = (s.g, t.finishTake call) := by simp [Task.go, hpc]
    have hstep := step_go_eq c s j t hx.tj
    rw [hgo] at hstep
    have hinv : Inv c (step c s (.go j)) := step_inv c hx.law s (.go j) hx.inv (by rw [hstep]; exact hm)
    rw [hstep] at hinv ⊢
    let t' := t.finishTake call
    obtain ⟨ho, hidle, hres⟩ := finishTake_spec c call k t hs.isTake hx.outs
    have htj : ({ s with g := s.g, tasks := s.tasks.set j t' } : St).tasks[j]? = some t' :=
      set_get_same _ j t t' hx.tj
    rw [finish_idle c j f _ t' htj hidle]
    exact ⟨t', ⟨hinv, hx.stale, OthersIdle.set s j s.g t' hx.others, htj, ho, hx.maxB, hx.law⟩, hm, hidle, hres⟩
  | cons e rest ih =>
    obtain ⟨op, u⟩ := e
    intro fuel s t hx hm hpc hf
    obtain ⟨f, rfl⟩ : ∃ f, fuel = f + 1 := ⟨fuel - 1, by simp at hf; omega⟩
    obtain ⟨g', hacq, hst⟩ := solo_acq c s j call L k t op u rest hs hx hcap hpc
    rw [finish_succ c j f s t hx.tj]
    have hrun : t.running = true := by simp [Task.running, hpc]
    have hpark : t.parked c s.g = false := by simp [Task.parked, hpc, hacq]
    simp only [hrun, hpark, if_true, Bool.false_eq_true, if_false]
    have hgo : t.go c s.g = (g', { t with pc := .taking call rest }) := by
      simp [Task.go, hpc, hacq]
    have hstep := step_go_eq c s j t hx.tj
    rw [hgo] at hstep
    have hinv : Inv c (step c s (.go j)) := step_inv c hx.law s (.go j) hx.inv (by rw [hstep]; exact hm)
    rw [hstep] at hinv ⊢
    let t1 : Task := { t with pc := .taking call rest }
    have htj : ({ s with g := g', tasks := s.tasks.set j t1 } : St).tasks[j]? = some t1 :=
      set_get_same _ j t t1 hx.tj
    exact ih f _ t1 ⟨hinv, hst, OthersIdle.set s j g' t1 hx.others, htj, hx.outs, hx.maxB, hx.law⟩ hm rfl
      (by simp at hf ⊢; omega)

theorem takeSet_length (c : Cfg) (sc : Sc) (k : Nat) (outer : List MOp) :
    (takeSet c sc k outer).length ≤ (c.ctors sc).length + 1 := by
  unfold takeSet; split <;> simp

theorem takeMsgProg_length (c : Cfg) (ip dom : Nat) : (takeMsgProg c ip dom).length + 1 ≤ Call.fuel c := by
  have h1 := takeSet_length c .ip (c.keys.take ip) (relGAll c)
  have h2 := takeSet_length c .src dom (relGAll c ++ relSet c .ip (c.keys.undo ip))
  simp only [takeMsgProg, takeGlob, List.length_append, List.length_map, List.length_range, Call.fuel, Cfg.ctors] at *
  omega

theorem takeDestProg_length (c : Cfg) (d : Nat) : (takeDestProg c d).length + 1 ≤ Call.fuel c := by
  have h1 := takeSet_length c .dst d []
  simp only [takeDestProg, Call.fuel, Cfg.ctors] at *
  omega

def Call.prog (c : Cfg) : Call → TakeProg
  | .takeMsg ip dom => takeMsgProg c ip dom
  | .takeDest d => takeDestProg c d
  | _ => []

theorem Call.prog_length (c : Cfg) (call : Call) : (call.prog c).length + 1 ≤ Call.fuel c := by
  cases call with
  | takeMsg a b => exact takeMsgProg_length c a b
  | takeDest d => exact takeDestProg_length c d
  | relMsg a b => simp [Call.prog, Call.fuel]
  | relDest d => simp [Call.prog, Call.fuel]

theorem begin_take (c : Cfg) (t : Task) (call : Call) (h : call.isTake) :
    t.begin c call = ({ t with pc := .taking call (call.prog c) }, false) := by
  cases call with
  | takeMsg a b => rfl
  | takeDest d => rfl
  | relMsg a b => exact absurd h (by simp [Call.isTake])
  | relDest d => exact absurd h (by simp [Call.isTake])

/-- One more take call by the only active goroutine succeeds while every limit it touches has room. -/
theorem solo_call (c : Cfg) (s : St) (j : Nat) (call : Call) (L : List Lim) (k : Nat) (t : Task)
    (hs : CallSpec c call L) (hx : SoloCtx c s j call k t)
    (hm : s.misuse = false) (hpc : t.pc = .idle) (hcap : ∀ l ∈ L, 0 < l.n → k < l.n.toNat) :
    ∃ t', SoloCtx c (Limits.call c j s call) j call (k + 1) t' ∧
      (Limits.call c j s call).misuse = false ∧ t'.pc = .idle ∧ t'.res = .ok := by
  unfold Limits.call
  let t0 : Task := { t with pc := .taking call (call.prog c) }
  have hstep : step c s (.begin j call) = { s with tasks := s.tasks.set j t0, misuse := s.misuse } := by
    simp [step, hx.tj, hpc, begin_take c t call hs.isTake, t0]
  have hm1 : (step c s (.begin j call)).misuse = false := by rw [hstep]; exact hm
  have hinv := step_inv c hx.law s (.begin j call) hx.inv hm1
  rw [hstep] at hinv hm1 ⊢
  have htj : ({ s with tasks := s.tasks.set j t0, misuse := s.misuse } : St).tasks[j]? = some t0 :=
    set_get_same _ j t t0 hx.tj
  have ho : OthersIdle ({ s with tasks := s.tasks.set j t0, misuse := s.misuse } : St) j := by
    intro i x hi hxx
    simp only [set_get_ne _ i j t0 hi] at hxx
    exact hx.others i x hi hxx
  exact solo_finish c j call L k hs hcap _ _ _ t0
    ⟨hinv, hx.stale, ho, htj, hx.outs, hx.maxB, hx.law⟩ hm1 rfl (Call.prog_length c call)

/-! ### the two take calls -/

theorem CallSpec.takeMsg (c : Cfg) (ip dom : Nat) (hsem : ∀ l ∈ msgLims c, l.kind = .sem) :
    CallSpec c (.takeMsg ip dom) (msgLims c) := by
  refine ⟨trivial, release_count_le_one c ip dom, ?_, ?_, ?_, hsem⟩
  · intro sc k1 k2 h1 h2
    rcases release_use_key c ip dom sc k1 h1 with a | a <;>
      rcases release_use_key c ip dom sc k2 h2 with b | b
    · rw [a.2, b.2]
    · have := a.1; have := b.1; simp_all
    · have := a.1; have := b.1; simp_all
    · rw [a.2, b.2]
  · intro i _ l hl
    simp only [msgLims, List.mem_append]; exact Or.inl hl
  · intro sc k h l hl
    rcases release_use_key c ip dom sc k h with a | a
    · exact ctors_sub_msgLims c sc (Or.inl a.1) l hl
    · exact ctors_sub_msgLims c sc (Or.inr a.1) l hl

theorem CallSpec.takeDest (c : Cfg) (d : Nat) (hsem : ∀ l ∈ c.dst, l.kind = .sem) :
    CallSpec c (.takeDest d) c.dst := by
  refine ⟨trivial, setToks_count_le c .dst d, ?_, ?_, ?_, hsem⟩
  · intro sc k1 k2 h1 h2
    rcases setToks_scope c _ _ _ h1 with ⟨_, a⟩ | a <;> rcases setToks_scope c _ _ _ h2 with ⟨_, b⟩ | b
    · simp at a
    · simp at a
    · simp at b
    · injection a with _ a2; injection b with _ b2; rw [a2, b2]
  · intro i h
    rcases setToks_scope c _ _ _ h with ⟨_, a⟩ | a <;> simp at a
  · intro sc k h l hl
    rcases setToks_scope c _ _ _ h with ⟨_, a⟩ | a
    · simp at a
    · injection a with a1 _; subst a1; exact hl

end MaddyVerif.Limits
