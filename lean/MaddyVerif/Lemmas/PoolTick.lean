import MaddyVerif.Lemmas.PoolReach
/-! Helper lemmas for C19: the pool's ticker goroutine (`cleanUpTick`).  While it is away from its `select`
(`tkTask = some j`) goroutine `j` of the model runs its `CleanUp` call: it is at one of the points of `CleanUp`, or on
its way back (`idle`).  It is never inside `Close`, so nobody who waits for the ticker goroutine (the send on the
unbuffered `cleanupStop`) is waited for by it. -/
namespace MaddyVerif.C19
open MaddyVerif.Pool

/-- the places of the goroutine that runs the ticker's `CleanUp` call -/
def sweeping : Pc → Bool
  | .idle | .cLock | .cIter .. | .cClose .. | .cDrain .. | .panicked _ => true
  | _ => false

def TkInv (s : St) : Prop := ∀ j, s.tkTask = some j → ∃ t, s.tasks[j]? = some t ∧ sweeping t.pc = true

theorem TkInv_of {s s' : St} {i : Nat} {t t' : Task} (hk : TkInv s) (ht : s.tasks[i]? = some t)
    (htasks : s'.tasks = s.tasks.set i t' ∨ (∃ c, s'.tasks = s.tasks.set i t' ++ [⟨.kClose c, [], []⟩]) ∨
      (t' = t ∧ ∃ c, s'.tasks = s.tasks ++ [⟨.kClose c, [], []⟩]))
    (htk : s'.tkTask = none ∨ (s'.tkTask = some i ∧ sweeping t'.pc = true) ∨
      (s'.tkTask = s.tkTask ∧ (sweeping t.pc = true → sweeping t'.pc = true)) ∨
      (s'.tkTask = s.tkTask ∧ s.tkTask ≠ some i)) : TkInv s' := by
  have hi := lt_of_getElem? ht
  have hself : s'.tasks[i]? = some t' := by
    rcases htasks with h | ⟨c, h⟩ | ⟨rfl, c, h⟩ <;> rw [h]
    · simp [hi]
    · rw [List.getElem?_append_left (by simp [hi])]; simp [hi]
    · rw [List.getElem?_append_left hi]; exact ht
  have hother : ∀ j tj, j ≠ i → s.tasks[j]? = some tj → s'.tasks[j]? = some tj := by
    intro j tj hne htj
    rcases htasks with h | ⟨c, h⟩ | ⟨_, c, h⟩ <;> rw [h]
    · rw [List.getElem?_set_ne (Ne.symm hne)]; exact htj
    · rw [List.getElem?_append_left (by simp; exact lt_of_getElem? htj), List.getElem?_set_ne (Ne.symm hne)]; exact htj
    · rw [List.getElem?_append_left (lt_of_getElem? htj)]; exact htj
  intro j hj
  rcases htk with h | ⟨h, hsw⟩ | ⟨h, himp⟩ | ⟨h, hne⟩
  · rw [h] at hj; simp at hj
  · rw [h] at hj; simp at hj; subst hj; exact ⟨t', hself, hsw⟩
  · rw [h] at hj
    obtain ⟨tj, htj, hsw⟩ := hk j hj
    by_cases hji : j = i
    · subst hji
      rw [ht] at htj; simp at htj; subst htj
      exact ⟨t', hself, himp hsw⟩
    · exact ⟨tj, hother j tj hji htj, hsw⟩
  · rw [h] at hj
    obtain ⟨tj, htj, hsw⟩ := hk j hj
    have hji : j ≠ i := by rintro rfl; exact hne hj
    exact ⟨tj, hother j tj hji htj, hsw⟩

set_option hygiene false in
macro "tk_case" : tactic => `(tactic| (
  simp only [stepTask] at hstep
  repeat' split at hstep
  all_goals (try (simp only [Option.some.injEq, reduceCtorEq] at hstep))
  all_goals (try subst hstep)
  all_goals (try (obtain ⟨ch, rest, hch, hbuf, rfl⟩ := recv_conn ‹recv _ _ = _›))
  all_goals (try (obtain ⟨ch, hch, hopen, rfl⟩ := closeChan_some ‹closeChan _ _ = _›))
  all_goals (first
    | exact TkInv_of hk ht (Or.inl rfl) (Or.inr (Or.inr (Or.inl ⟨rfl, by simp [sweeping]⟩)))
    | exact TkInv_of hk ht (Or.inr (Or.inl ⟨_, rfl⟩)) (Or.inr (Or.inr (Or.inl ⟨rfl, by simp [sweeping]⟩)))
    | exact TkInv_of hk ht (Or.inr (Or.inr ⟨rfl, _, rfl⟩)) (Or.inr (Or.inr (Or.inl ⟨rfl, fun h => h⟩))))))

theorem tk_stepTask {s s' : St} {i p : Nat} {t : Task} (hk : TkInv s) (ht : s.tasks[i]? = some t)
    (hstep : stepTask s i t p = some s') : TkInv s' := by
  obtain ⟨pc, prog, held⟩ := t
  cases pc
  case done => simp [stepTask] at hstep
  case panicked => simp [stepTask] at hstep
  case idle =>
    simp only [stepTask] at hstep
    split at hstep
    · simp only [Option.some.injEq] at hstep; subst hstep
      exact TkInv_of hk ht (Or.inl rfl) (Or.inl rfl)
    rename_i hne
    cases prog with
    | nil =>
      simp at hstep; subst hstep
      exact TkInv_of hk ht (Or.inl rfl) (Or.inr (Or.inr (Or.inr ⟨rfl, hne⟩)))
    | cons op rest =>
      cases op <;> cases held <;> simp at hstep <;> (try split at hstep) <;> (try simp at hstep) <;> subst hstep <;>
        first
        | exact TkInv_of hk ht (Or.inl rfl) (Or.inr (Or.inr (Or.inr ⟨rfl, hne⟩)))
        | exact TkInv_of hk ht (Or.inl rfl) (Or.inr (Or.inl ⟨rfl, rfl⟩))
  all_goals tk_case

theorem tk_step {s s' : St} {w : Who} (hk : TkInv s) (hstep : step s w = some s') : TkInv s' := by
  cases w with
  | task i p =>
    simp only [step] at hstep
    split at hstep
    · simp at hstep
    · rename_i t ht; exact tk_stepTask hk ht hstep
  | tick d => simp only [step, Option.some.injEq] at hstep; subst hstep; exact hk
  | brk c =>
    simp only [step] at hstep
    split at hstep
    · simp only [Option.some.injEq] at hstep; subst hstep; exact hk
    · simp at hstep
  | cancel i => simp only [step, Option.some.injEq] at hstep; subst hstep; exact hk

theorem tk_run {s : St} (ws : List Who) (hk : TkInv s) : TkInv (run s ws) := by
  induction ws generalizing s with
  | nil => exact hk
  | cons w ws ih =>
    apply ih
    unfold next
    cases h : step s w with
    | none => simpa using hk
    | some s' => simpa using tk_step hk h

theorem tk_init (cfg : Cfg) (progs : List (List Op)) : TkInv (init cfg progs) := by
  intro j hj; simp [init] at hj

end MaddyVerif.C19
