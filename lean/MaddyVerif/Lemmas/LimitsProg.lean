import MaddyVerif.Lemmas.LimitsTake
/-! C11: the compiled programs of the Group calls are well formed: every roll-back list gives back exactly
what was acquired before the failing acquisition, and a successful take holds exactly what the matching
release gives back. -/
namespace MaddyVerif.Limits

def CEq (a b : List Tok) : Prop := ∀ tok, a.count tok = b.count tok

theorem CEq.refl (a : List Tok) : CEq a a := fun _ => rfl
theorem CEq.symm {a b : List Tok} (h : CEq a b) : CEq b a := fun t => (h t).symm
theorem CEq.trans {a b d : List Tok} (h : CEq a b) (h' : CEq b d) : CEq a d := fun t => (h t).trans (h' t)

theorem CEq.mem {a b : List Tok} (h : CEq a b) (t : Tok) (ht : t ∈ a) : t ∈ b := by
  rw [← List.count_pos_iff] at ht ⊢
  rw [← h t]; exact ht

def RelOpOK (c : Cfg) (op : MOp) (rest : List MOp) : Prop :=
  match op with
  | .relG i => i < c.all.length
  | .relB sc k i => i < (c.ctors sc).length ∧ Tok.use sc k ∈ opsToks c rest
  | .untake _ _ => True
  | .bsRel _ _ => True
  | _ => False

def RelWF (c : Cfg) : List MOp → Prop
  | [] => True
  | op :: rest => RelOpOK c op rest ∧ RelWF c rest

def AcqOK (c : Cfg) (op : MOp) (u : List MOp) : Prop :=
  match op with
  | .acqG i => i < c.all.length
  | .bsTake _ _ => True
  | .acqB sc k i => i < (c.ctors sc).length ∧ Tok.use sc k ∈ opsToks c u
  | _ => False

def Chain (c : Cfg) : List Tok → TakeProg → List Tok → Prop
  | cur, [], fin => CEq cur fin
  | cur, (op, u) :: rest, fin =>
    CEq (opsToks c u) cur ∧ AcqOK c op u ∧ RelWF c u ∧ Chain c (op.toks c ++ opsToks c u) rest fin

/-- Who holds a permit of a bucket is a user of that bucket. -/
theorem RelWF.user (c : Cfg) (l : List MOp) (h : RelWF c l) (sc : Sc) (k i : Nat)
    (hb : Tok.b sc k i ∈ opsToks c l) : Tok.use sc k ∈ opsToks c l := by
  induction l with
  | nil => simp at hb
  | cons op rest ih =>
    obtain ⟨h1, h2⟩ := h
    simp only [opsToks_cons, List.mem_append] at hb ⊢
    rcases hb with hb | hb
    · cases op with
      | relG j => simp [MOp.toks] at hb
      | acqG j => exact absurd h1 (by simp [RelOpOK])
      | bsTake a b => exact absurd h1 (by simp [RelOpOK])
      | acqB a b d => exact absurd h1 (by simp [RelOpOK])
      | untake a b => simp [MOp.toks] at hb
      | relB sc' k' i' =>
        simp [MOp.toks] at hb
        obtain ⟨rfl, rfl, rfl⟩ := hb
        exact Or.inr h1.2
      | bsRel sc' k' =>
        simp [MOp.toks] at hb
        obtain ⟨_, _, rfl, rfl, _⟩ := hb
        exact Or.inl (by simp [MOp.toks])
    · exact Or.inr (ih h2 hb)

theorem RelWF.append (c : Cfg) (l₁ l₂ : List MOp) (h₁ : RelWF c l₁) (h₂ : RelWF c l₂) : RelWF c (l₁ ++ l₂) := by
  induction l₁ with
  | nil => simpa using h₂
  | cons op rest ih =>
    obtain ⟨a, b⟩ := h₁
    refine ⟨?_, ih b⟩
    cases op <;> simp_all [RelOpOK]

theorem opsToks_map_single (c : Cfg) (f : Nat → MOp) (t : Nat → Tok) (hf : ∀ j, (f j).toks c = [t j])
    (l : List Nat) : opsToks c (l.map f) = l.map t := by
  induction l with
  | nil => rfl
  | cons a l ih => simp [hf, ih]

theorem RelWF.relG_list (c : Cfg) (l : List Nat) (h : ∀ j ∈ l, j < c.all.length) : RelWF c (l.map MOp.relG) := by
  induction l with
  | nil => trivial
  | cons a l ih => exact ⟨h a (by simp), ih (fun j hj => h j (by simp [hj]))⟩

theorem RelWF.relGAll (c : Cfg) : RelWF c (relGAll c) :=
  RelWF.relG_list c _ (fun j hj => by simpa using hj)

theorem RelWF.relSet (c : Cfg) (sc : Sc) (k : Nat) : RelWF c (relSet c sc k) := by
  unfold Limits.relSet; split
  · exact ⟨trivial, trivial⟩
  · trivial

theorem RelWF.releaseMsg (c : Cfg) (ip dom : Nat) : RelWF c (releaseMsgProg c ip dom) :=
  RelWF.append c _ _ (RelWF.append c _ _ (RelWF.relGAll c) (RelWF.relSet c _ _)) (RelWF.relSet c _ _)

theorem RelWF.releaseDest (c : Cfg) (d : Nat) : RelWF c (releaseDestProg c d) := RelWF.relSet c _ _

theorem RelWF.relB_list (c : Cfg) (sc : Sc) (k : Nat) (l : List Nat) (outer : List MOp)
    (h : ∀ j ∈ l, j < (c.ctors sc).length) (ho : RelWF c outer) (hu : Tok.use sc k ∈ opsToks c outer) :
    RelWF c (l.map (MOp.relB sc k) ++ outer) := by
  induction l with
  | nil => simpa using ho
  | cons a l ih =>
    refine ⟨⟨h a (by simp), ?_⟩, ih (fun j hj => h j (by simp [hj]))⟩
    show Tok.use sc k ∈ opsToks c (List.map (MOp.relB sc k) l ++ outer)
    rw [opsToks_append, List.mem_append]
    exact Or.inr hu

theorem Chain.congr (c : Cfg) (a b : List Tok) (p : TakeProg) (fin : List Tok) (h : CEq a b)
    (hc : Chain c b p fin) : Chain c a p fin := by
  cases p with
  | nil => exact h.trans hc
  | cons e rest =>
    obtain ⟨op, u⟩ := e
    exact ⟨hc.1.trans h.symm, hc.2⟩

theorem Chain.fin_congr (c : Cfg) (a : List Tok) (p : TakeProg) (fin fin' : List Tok) (h : CEq fin fin')
    (hc : Chain c a p fin) : Chain c a p fin' := by
  induction p generalizing a with
  | nil => exact CEq.trans hc h
  | cons e rest ih =>
    obtain ⟨op, u⟩ := e
    exact ⟨hc.1, hc.2.1, hc.2.2.1, ih _ hc.2.2.2⟩

theorem Chain.append (c : Cfg) (a mid fin : List Tok) (p q : TakeProg) (hp : Chain c a p mid)
    (hq : Chain c mid q fin) : Chain c a (p ++ q) fin := by
  induction p generalizing a with
  | nil => exact Chain.congr c a mid q fin hp hq
  | cons e rest ih =>
    obtain ⟨op, u⟩ := e
    exact ⟨hp.1, hp.2.1, hp.2.2.1, ih _ hp.2.2.2⟩

/-- A run of single-limiter acquisitions `acq s, acq (s+1), …` where failing at `j` rolls back
`rl 0 … rl (j-1)` and then `tail`. -/
theorem Chain.acqSeq (c : Cfg) (acq rl : Nat → MOp) (t : Nat → Tok) (tail : List MOp) (n : Nat)
    (hacq : ∀ j, (acq j).toks c = [t j]) (hrl : ∀ j, (rl j).toks c = [t j])
    (hok : ∀ j, j < n → AcqOK c (acq j) ((List.range j).map rl ++ tail))
    (hwf : ∀ j, j < n → RelWF c ((List.range j).map rl ++ tail)) :
    ∀ m s, s + m = n →
      Chain c ((List.range s).map t ++ opsToks c tail)
        ((List.range' s m).map (fun j => (acq j, (List.range j).map rl ++ tail)))
        ((List.range n).map t ++ opsToks c tail) := by
  intro m
  induction m with
  | zero => intro s hs; simp at hs; subst hs; exact CEq.refl _
  | succ m ih =>
    intro s hs
    rw [List.range'_succ, List.map_cons]
    refine ⟨?_, hok s (by omega), hwf s (by omega), ?_⟩
    · rw [opsToks_append, opsToks_map_single c rl t hrl]; exact CEq.refl _
    · apply Chain.congr c _ _ _ _ _ (ih (s + 1) (by omega))
      intro tok
      rw [hacq, opsToks_append, opsToks_map_single c rl t hrl, List.range_succ]
      simp only [List.map_append, List.count_append, List.map_cons, List.map_nil]
      omega

theorem globToks_eq (c : Cfg) : opsToks c (relGAll c) = (List.range c.all.length).map Tok.g :=
  opsToks_map_single c MOp.relG Tok.g (fun _ => rfl) _

theorem Chain.takeGlob (c : Cfg) : Chain c [] (takeGlob c) (opsToks c (relGAll c)) := by
  have := Chain.acqSeq c MOp.acqG MOp.relG Tok.g [] c.all.length (fun _ => rfl) (fun _ => rfl)
    (fun j hj => by simpa [AcqOK] using hj)
    (fun j hj => by
      simp only [List.append_nil]
      exact RelWF.relG_list c _ (fun i hi => by simp at hi; omega))
    c.all.length 0 (by omega)
  simp only [List.append_nil, opsToks_nil, List.range_zero, List.map_nil] at this
  rw [globToks_eq]
  unfold Limits.takeGlob
  rw [List.range_eq_range']
  rw [List.range_eq_range'] at this
  exact this

def setToks (c : Cfg) (sc : Sc) (k : Nat) : List Tok := opsToks c (relSet c sc k)

theorem Chain.takeSet (c : Cfg) (sc : Sc) (k : Nat) (outer : List MOp) (ho : RelWF c outer) :
    Chain c (opsToks c outer) (takeSet c sc k outer) (opsToks c outer ++ setToks c sc k) := by
  unfold Limits.takeSet setToks Limits.relSet
  split
  · refine ⟨CEq.refl _, trivial, ho, ?_⟩
    have hwf : ∀ j, j < (c.ctors sc).length →
        RelWF c ((List.range j).map (MOp.relB sc k) ++ (MOp.untake sc k :: outer)) := by
      intro j hj
      apply RelWF.relB_list c sc k _ _ (fun i hi => by simp at hi; omega) (show RelWF c (MOp.untake sc k :: outer) from ⟨trivial, ho⟩)
      simp [MOp.toks]
    have := Chain.acqSeq c (MOp.acqB sc k) (MOp.relB sc k) (Tok.b sc k) (MOp.untake sc k :: outer)
      (c.ctors sc).length (fun _ => rfl) (fun _ => rfl)
      (fun j hj => ⟨hj, by simp [MOp.toks]⟩) hwf (c.ctors sc).length 0 (by omega)
    rw [← List.range_eq_range'] at this
    apply Chain.congr c _ _ _ _ _ (Chain.fin_congr c _ _ _ _ _ this)
    · intro tok; simp [MOp.toks]
    · intro tok
      simp only [opsToks_cons, opsToks_nil, MOp.toks, List.count_append, List.count_cons, List.count_nil]
      omega
  · simp only [opsToks_nil, List.append_nil]
    exact CEq.refl _

/-- `TakeMsg` is a well-formed chain ending in exactly what `ReleaseMsg` gives back — provided the roll-back
and the release derive the per-IP bucket key like the acquisition does (`IpKeys.Lawful`). -/
theorem Chain.takeMsg (c : Cfg) (hk : c.keys.Lawful) (ip dom : Nat) :
    Chain c [] (takeMsgProg c ip dom) (opsToks c (releaseMsgProg c ip dom)) := by
  unfold takeMsgProg releaseMsgProg
  rw [(hk ip).1, (hk ip).2]
  rw [List.append_assoc]
  apply Chain.append c _ _ _ _ _ (Chain.takeGlob c)
  apply Chain.append c _ (opsToks c (relGAll c) ++ setToks c .ip (c.keys.take ip)) _ _ _
    (Chain.takeSet c .ip (c.keys.take ip) _ (RelWF.relGAll c))
  have := Chain.takeSet c .src dom (relGAll c ++ relSet c .ip (c.keys.take ip))
    (RelWF.append c _ _ (RelWF.relGAll c) (RelWF.relSet c _ _))
  simpa [setToks] using this

theorem Chain.takeDest (c : Cfg) (d : Nat) :
    Chain c [] (takeDestProg c d) (opsToks c (releaseDestProg c d)) := by
  unfold takeDestProg releaseDestProg
  simpa [setToks] using Chain.takeSet c .dst d [] trivial

end MaddyVerif.Limits
