import MaddyVerif.Lemmas.LimitsProg
/-! C11: the global invariant and its preservation by every scheduler event. -/
namespace MaddyVerif.Limits

def Call.isTake : Call → Prop
  | .takeMsg _ _ => True
  | .takeDest _ => True
  | _ => False

def TaskWF (c : Cfg) (t : Task) : Prop :=
  match t.pc with
  | .idle => True
  | .panicked => False
  | .taking call todo => call.isTake ∧ Chain c (curToks c (.taking call todo)) todo (call.toks c)
  | .undo _ todo => RelWF c todo
  | .rel todo => RelWF c todo

structure Inv (c : Cfg) (s : St) : Prop where
  g : GInv c s.g
  w : ∀ tok, counted c tok = true → lenOf s.g tok = total c tok s.tasks
  t : ∀ t ∈ s.tasks, TaskWF c t

/-! ### users of buckets -/

theorem msgToks_user (c : Cfg) (l : List (Nat × Nat)) (sc : Sc) (k i : Nat) (h : Tok.b sc k i ∈ msgToks c l) :
    Tok.use sc k ∈ msgToks c l := by
  unfold msgToks at h ⊢
  rw [List.mem_flatMap] at h ⊢
  obtain ⟨p, hp, hb⟩ := h
  exact ⟨p, hp, RelWF.user c _ (RelWF.releaseMsg c _ _) sc k i hb⟩

theorem destToks_user (c : Cfg) (l : List Nat) (sc : Sc) (k i : Nat) (h : Tok.b sc k i ∈ destToks c l) :
    Tok.use sc k ∈ destToks c l := by
  unfold destToks at h ⊢
  rw [List.mem_flatMap] at h ⊢
  obtain ⟨p, hp, hb⟩ := h
  exact ⟨p, hp, RelWF.user c _ (RelWF.releaseDest c _) sc k i hb⟩

theorem Call.toks_wf (c : Cfg) (call : Call) : ∃ l, call.toks c = opsToks c l ∧ RelWF c l := by
  cases call with
  | takeMsg a b => exact ⟨_, rfl, RelWF.releaseMsg c a b⟩
  | relMsg a b => exact ⟨_, rfl, RelWF.releaseMsg c a b⟩
  | takeDest d => exact ⟨_, rfl, RelWF.releaseDest c d⟩
  | relDest d => exact ⟨_, rfl, RelWF.releaseDest c d⟩

theorem curToks_user (c : Cfg) (t : Task) (h : TaskWF c t) (sc : Sc) (k i : Nat)
    (hb : Tok.b sc k i ∈ curToks c t.pc) : Tok.use sc k ∈ curToks c t.pc := by
  unfold TaskWF at h
  cases hpc : t.pc with
  | idle => simp [hpc, curToks] at hb
  | panicked => simp [hpc, curToks] at hb
  | undo r todo => rw [hpc] at h hb; exact RelWF.user c _ h sc k i hb
  | rel todo => rw [hpc] at h hb; exact RelWF.user c _ h sc k i hb
  | taking call todo =>
    rw [hpc] at h hb
    cases todo with
    | nil =>
      obtain ⟨l, hl, hwf⟩ := Call.toks_wf c call
      simp only [curToks] at hb ⊢
      rw [hl] at hb ⊢
      exact RelWF.user c _ hwf sc k i hb
    | cons e rest =>
      obtain ⟨op, u⟩ := e
      exact RelWF.user c _ h.2.2.2.1 sc k i hb

theorem task_user (c : Cfg) (t : Task) (h : TaskWF c t) (sc : Sc) (k i : Nat)
    (hb : Tok.b sc k i ∈ t.toks c) : Tok.use sc k ∈ t.toks c := by
  unfold Task.toks at hb ⊢
  simp only [List.mem_append] at hb ⊢
  rcases hb with hb | hb | hb
  · exact Or.inl (msgToks_user c _ sc k i hb)
  · exact Or.inr (Or.inl (destToks_user c _ sc k i hb))
  · exact Or.inr (Or.inr (curToks_user c t h sc k i hb))

/-- A bucket without users has no permit in use. -/
theorem Inv.idle_bucket (c : Cfg) (s : St) (h : Inv c s) (sc : Sc) (k i : Nat)
    (hu : lenOf s.g (.use sc k) = 0) (hc : counted c (.b sc k i) = true) : lenOf s.g (.b sc k i) = 0 := by
  rw [h.w _ hc]
  rw [h.w _ (by rfl)] at hu
  apply total_eq_zero
  intro t ht
  have h0 := total_zero_count c _ _ hu t ht
  rw [List.count_eq_zero] at h0 ⊢
  exact fun hb => h0 (task_user c t (h.t t ht) sc k i hb)

/-! ### release operations, uniformly -/

theorem count_pos_of_mem (l : List Tok) (t : Tok) (h : t ∈ l) : 0 < l.count t := List.count_pos_iff.2 h

theorem execRel_spec (c : Cfg) (g : Group) (op : MOp) (rest : List MOp) (h : GInv c g)
    (hok : RelOpOK c op rest)
    (hav : ∀ tok, counted c tok = true → (op.toks c ++ opsToks c rest).count tok ≤ lenOf g tok) :
    ∃ g', execRel g op = some g' ∧ GInv c g' ∧
      ∀ tok, counted c tok = true → lenOf g' tok + (op.toks c).count tok = lenOf g tok := by
  have hmem : ∀ tok, counted c tok = true → tok ∈ op.toks c ++ opsToks c rest → 0 < lenOf g tok := by
    intro tok hc hm
    have := hav tok hc
    have := count_pos_of_mem _ _ hm
    omega
  cases op with
  | acqG i => exact absurd hok (by simp [RelOpOK])
  | bsTake a b => exact absurd hok (by simp [RelOpOK])
  | acqB a b d => exact absurd hok (by simp [RelOpOK])
  | relG i => exact execRel_relG c g i h hok (fun hc => hmem _ hc (by simp [MOp.toks]))
  | relB sc k i =>
    exact execRel_relB c g sc k i h hok.1 (hmem _ rfl (List.mem_append.2 (Or.inr hok.2)))
      (fun hc => hmem _ hc (by simp [MOp.toks]))
  | untake sc k => exact execRel_untake c g sc k h (hmem _ rfl (by simp [MOp.toks]))
  | bsRel sc k =>
    refine execRel_bsRel c g sc k h (hmem _ rfl (by simp [MOp.toks])) ?_
    intro i hc
    apply hmem _ hc
    have hi : i < (c.ctors sc).length := by
      simp only [counted] at hc
      rcases Nat.lt_or_ge i (c.ctors sc).length with h' | h'
      · exact h'
      · simp [List.getElem?_eq_none h', realSem] at hc
    simp [MOp.toks, hi]


/-! ### one operation of one goroutine -/

theorem chain_next (c : Cfg) (call : Call) (cur : List Tok) (op : MOp) (u : List MOp) (rest : TakeProg)
    (h : Chain c cur ((op, u) :: rest) (call.toks c)) :
    Chain c (curToks c (.taking call rest)) rest (call.toks c) ∧
      CEq (curToks c (.taking call rest)) (op.toks c ++ opsToks c u) := by
  obtain ⟨_, _, _, h4⟩ := h
  cases rest with
  | nil => exact ⟨CEq.refl _, CEq.symm h4⟩
  | cons e r =>
    obtain ⟨op', u'⟩ := e
    exact ⟨⟨CEq.refl _, h4.2⟩, h4.1⟩

structure GoSpec (c : Cfg) (g : Group) (t : Task) (g' : Group) (t' : Task) : Prop where
  hg : GInv c g'
  ht : TaskWF c t'
  hw : ∀ tok, counted c tok = true →
    lenOf g' tok + (t.toks c).count tok = lenOf g tok + (t'.toks c).count tok

theorem toks_pc (c : Cfg) (t : Task) (p : Pc) :
    ({ t with pc := p } : Task).toks c = msgToks c t.outMsg ++ (destToks c t.outDest ++ curToks c p) := rfl

theorem GoSpec.same (c : Cfg) (g : Group) (t : Task) (hg : GInv c g) (ht : TaskWF c t) : GoSpec c g t g t :=
  ⟨hg, ht, fun _ _ => rfl⟩

theorem Task.go_spec (c : Cfg) (g : Group) (t : Task) (hg : GInv c g) (ht : TaskWF c t)
    (hav : ∀ tok, counted c tok = true → (t.toks c).count tok ≤ lenOf g tok)
    (hZ : ∀ sc k i, lenOf g (.use sc k) = 0 → counted c (.b sc k i) = true → lenOf g (.b sc k i) = 0) :
    GoSpec c g t (t.go c g).1 (t.go c g).2 := by
  have ht' := ht
  unfold TaskWF at ht'
  have htoks : t.toks c = msgToks c t.outMsg ++ (destToks c t.outDest ++ curToks c t.pc) := rfl
  cases hpc : t.pc with
  | idle => simp only [Task.go, hpc]; exact GoSpec.same c g t hg ht
  | panicked => simp only [Task.go, hpc]; exact GoSpec.same c g t hg ht
  | taking call todo =>
    rw [hpc] at ht'
    cases todo with
    | nil =>
      simp only [Task.go, hpc]
      refine ⟨hg, ?_, ?_⟩
      · cases call <;> simp [Task.finishTake, TaskWF]
      · intro tok _
        rw [htoks, hpc]
        cases call with
        | takeMsg a b =>
          simp [Task.finishTake, Task.toks, curToks, msgToks, Call.toks, List.count_append]; omega
        | takeDest d =>
          simp [Task.finishTake, Task.toks, curToks, destToks, Call.toks, List.count_append]; omega
        | relMsg a b => exact absurd ht'.1 (by simp [Call.isTake])
        | relDest d => exact absurd ht'.1 (by simp [Call.isTake])
    | cons e rest =>
      obtain ⟨op, u⟩ := e
      obtain ⟨hit, hch⟩ := ht'
      obtain ⟨hnext, hceq⟩ := chain_next c call _ op u rest hch
      obtain ⟨_, hok, hwf, _⟩ := hch
      have hcur : curToks c t.pc = opsToks c u := by rw [hpc]; rfl
      have hspec : AcqSpec c g op (execAcq c g op) := by
        cases op with
        | acqG i => exact execAcq_acqG c g i hg hok
        | bsTake sc k => exact bsTake_spec c g sc k hg (hZ sc)
        | acqB sc k i =>
          apply execAcq_acqB c g sc k i hg hok.1
          have h1 := hav (.use sc k) rfl
          have h2 : 0 < (t.toks c).count (.use sc k) := by
            apply count_pos_of_mem
            rw [htoks, hcur]
            simp only [List.mem_append]
            exact Or.inr (Or.inr hok.2)
          omega
        | relG i => exact absurd hok (by simp [AcqOK])
        | relB a b d => exact absurd hok (by simp [AcqOK])
        | untake a b => exact absurd hok (by simp [AcqOK])
        | bsRel a b => exact absurd hok (by simp [AcqOK])
      generalize hr : execAcq c g op = r at hspec
      simp only [Task.go, hpc, hr]
      cases hspec with
      | blocked => exact GoSpec.same c g t hg ht
      | ok g' hg' hl =>
        refine ⟨hg', ?_, ?_⟩
        · simp only [TaskWF]; exact ⟨hit, hnext⟩
        · intro tok hc
          rw [hl tok hc, htoks, hcur]
          have := hceq tok
          simp only [Task.toks, List.count_append] at this ⊢
          omega
      | full g' hg' hl =>
        refine ⟨hg', ?_, ?_⟩
        · simp only [TaskWF]; exact hwf
        · intro tok hc
          rw [hl tok hc, htoks, hcur]
          simp [Task.toks, curToks]
  | undo r todo =>
    rw [hpc] at ht'
    cases todo with
    | nil =>
      simp only [Task.go, hpc]
      refine ⟨hg, by simp [TaskWF], ?_⟩
      intro tok _
      rw [htoks, hpc]
      simp [Task.toks, curToks]
    | cons op rest =>
      have hcur : curToks c t.pc = op.toks c ++ opsToks c rest := by rw [hpc]; simp [curToks]
      obtain ⟨g', he, hg', hl⟩ := execRel_spec c g op rest hg ht'.1 (by
        intro tok hc
        have := hav tok hc
        rw [htoks, hcur] at this
        simp only [List.count_append] at this ⊢
        omega)
      simp only [Task.go, hpc, he]
      refine ⟨hg', by simp only [TaskWF]; exact ht'.2, ?_⟩
      intro tok hc
      have := hl tok hc
      rw [htoks, hcur]
      simp only [Task.toks, curToks, List.count_append] at this ⊢
      omega
  | rel todo =>
    rw [hpc] at ht'
    cases todo with
    | nil =>
      simp only [Task.go, hpc]
      refine ⟨hg, by simp [TaskWF], ?_⟩
      intro tok _
      rw [htoks, hpc]
      simp [Task.toks, curToks]
    | cons op rest =>
      have hcur : curToks c t.pc = op.toks c ++ opsToks c rest := by rw [hpc]; simp [curToks]
      obtain ⟨g', he, hg', hl⟩ := execRel_spec c g op rest hg ht'.1 (by
        intro tok hc
        have := hav tok hc
        rw [htoks, hcur] at this
        simp only [List.count_append] at this ⊢
        omega)
      simp only [Task.go, hpc, he]
      refine ⟨hg', by simp only [TaskWF]; exact ht'.2, ?_⟩
      intro tok hc
      have := hl tok hc
      rw [htoks, hcur]
      simp only [Task.toks, curToks, List.count_append] at this ⊢
      omega

end MaddyVerif.Limits
