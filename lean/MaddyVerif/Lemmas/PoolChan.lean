import MaddyVerif.Lemmas.PoolStep
/-! Helper lemmas for C19: idle connections sit only in buckets of the map or in the bucket the lock holder is
draining; after shutdown every bucket is empty (`CInv`). -/
namespace MaddyVerif.C19
open MaddyVerif.Pool

/-! ## Idle connections are only in buckets of the map, or in the bucket the lock holder is draining -/

/-- the bucket the lock holder has taken out of the map and not finished with -/
def pend (s : St) : Option Nat :=
  match s.lock with
  | none => none
  | some i =>
    match s.tasks[i]? with
    | some t => Pc.chan t.pc
    | none => none

structure CInv (s : St) : Prop where
  ne : ∀ x ch, s.chans[x]? = some ch → ch.buf ≠ [] → x ∈ s.keys ∨ pend s = some x
  nil : s.keysNil = true → s.keys = [] ∧ s.lock = none
  recv : ∀ e ∈ s.recvLog, e.2 = false
  noLeak : s.keysNil = false → s.leaked = []

theorem CInv_of {s s' : St} (hc : CInv s)
    (A : ∀ x ch', s'.chans[x]? = some ch' → ch'.buf ≠ [] → x ∈ s'.keys ∨ ∃ ch, s.chans[x]? = some ch ∧ ch.buf ≠ [])
    (B : ∀ x, x ∈ s.keys → x ∈ s'.keys ∨ pend s' = some x)
    (C : ∀ x, pend s = some x → pend s' = some x ∨ ∀ ch', s'.chans[x]? = some ch' → ch'.buf = [])
    (D : s'.keysNil = true → s'.keys = [] ∧ s'.lock = none)
    (R : ∀ e ∈ s'.recvLog, e ∈ s.recvLog ∨ e.2 = false)
    (L : s'.keysNil = false → s'.leaked = s.leaked ∧ s.keysNil = false) : CInv s' := by
  refine ⟨?_, D, ?_, ?_⟩
  · intro x ch' hx hne
    rcases A x ch' hx hne with h | ⟨ch, hch, hne0⟩
    · exact Or.inl h
    · rcases hc.ne x ch hch hne0 with h | h
      · exact B x h
      · rcases C x h with h | h
        · exact Or.inr h
        · exact absurd (h ch' hx) hne
  · intro e he
    rcases R e he with h | h
    · exact hc.recv e h
    · exact h
  · intro hk
    obtain ⟨h1, h2⟩ := L hk
    rw [h1]; exact hc.noLeak h2

theorem A_same {s s' : St} (h : s'.chans = s.chans) :
    ∀ x ch', s'.chans[x]? = some ch' → ch'.buf ≠ [] → x ∈ s'.keys ∨ ∃ ch, s.chans[x]? = some ch ∧ ch.buf ≠ [] := by
  intro x ch' hx hne; rw [h] at hx; exact Or.inr ⟨ch', hx, hne⟩

theorem A_set {s s' : St} {h : Nat} {ch chn : Chan} (hc : s'.chans = s.chans.set h chn) (hch : s.chans[h]? = some ch)
    (hb : chn.buf ≠ [] → ch.buf ≠ [] ∨ h ∈ s'.keys) :
    ∀ x ch', s'.chans[x]? = some ch' → ch'.buf ≠ [] → x ∈ s'.keys ∨ ∃ ch, s.chans[x]? = some ch ∧ ch.buf ≠ [] := by
  intro x ch' hx hne
  rw [hc] at hx
  by_cases hxe : x = h
  · subst hxe
    simp [lt_of_getElem? hch] at hx; subst hx
    rcases hb hne with h1 | h1
    · exact Or.inr ⟨ch, hch, h1⟩
    · exact Or.inl h1
  · rw [List.getElem?_set_ne (Ne.symm hxe)] at hx
    exact Or.inr ⟨ch', hx, hne⟩

theorem A_append {s s' : St} {n : Chan} (hc : s'.chans = s.chans ++ [n]) (hb : n.buf = []) :
    ∀ x ch', s'.chans[x]? = some ch' → ch'.buf ≠ [] → x ∈ s'.keys ∨ ∃ ch, s.chans[x]? = some ch ∧ ch.buf ≠ [] := by
  intro x ch' hx hne
  rw [hc, List.getElem?_append] at hx
  split at hx
  · exact Or.inr ⟨ch', hx, hne⟩
  · cases hh : x - s.chans.length with
    | zero => rw [hh] at hx; simp at hx; subst hx; exact absurd hb hne
    | succ n => rw [hh] at hx; simp at hx

/-- a goroutine that does not hold the lock and does not take it cannot change what the holder is draining -/
theorem pend_frame {s s' : St} {i : Nat} {t t' : Task} (hs : SInv s) (ht : s.tasks[i]? = some t) (hu : t.pc.locked = false)
    (hl : s'.lock = s.lock)
    (htasks : s'.tasks = s.tasks.set i t' ∨ ∃ c, s'.tasks = s.tasks.set i t' ++ [⟨.kClose c, [], []⟩]) :
    pend s' = pend s := by
  unfold pend
  rw [hl]
  cases hlk : s.lock with
  | none => rfl
  | some j =>
    obtain ⟨tj, htj, hjl⟩ := hs.holder j hlk
    have hne : i ≠ j := by
      rintro rfl
      rw [ht] at htj; simp at htj; subst htj
      simp [hu] at hjl
    have : s'.tasks[j]? = s.tasks[j]? := by
      rcases htasks with h | ⟨c, h⟩ <;> rw [h]
      · exact List.getElem?_set_ne hne
      · rw [List.getElem?_append_left (by simp; exact lt_of_getElem? htj)]; exact List.getElem?_set_ne hne
    simp only [this]

/-- assembling `CInv` after a step outside the critical section that takes no lock -/
theorem CInv_frame {s s' : St} {i : Nat} {t t' : Task} (hs : SInv s) (hc : CInv s) (ht : s.tasks[i]? = some t)
    (hu : t.pc.locked = false)
    (htasks : s'.tasks = s.tasks.set i t' ∨ ∃ c, s'.tasks = s.tasks.set i t' ++ [⟨.kClose c, [], []⟩])
    (hk : s'.keys = s.keys) (hl : s'.lock = s.lock) (hn : s'.keysNil = s.keysNil)
    (A : ∀ x ch', s'.chans[x]? = some ch' → ch'.buf ≠ [] → x ∈ s'.keys ∨ ∃ ch, s.chans[x]? = some ch ∧ ch.buf ≠ [])
    (R : ∀ e ∈ s'.recvLog, e ∈ s.recvLog ∨ e.2 = false)
    (L : s'.leaked = s.leaked) : CInv s' := by
  have hp := pend_frame hs ht hu hl htasks
  refine CInv_of hc A ?_ ?_ ?_ R ?_
  · intro x hx; left; rw [hk]; exact hx
  · intro x hx; left; rw [hp]; exact hx
  · rw [hn, hk, hl]; exact hc.nil
  · rw [hn, L]; exact fun h => ⟨rfl, h⟩


theorem pend_some {s : St} {i : Nat} {t : Task} (hl : s.lock = some i) (ht : s.tasks[i]? = some t) : pend s = Pc.chan t.pc := by
  simp [pend, hl, ht]

theorem pend_none {s : St} (hl : s.lock = none) : pend s = none := by
  simp [pend, hl]

theorem nil_false_of_lock {s : St} (hc : CInv s) {i : Nat} (h : s.lock = some i) : s.keysNil = false := by
  cases hk : s.keysNil with
  | false => rfl
  | true => have := (hc.nil hk).2; rw [h] at this; simp at this

theorem nil_false_of_mem {s : St} (hc : CInv s) {x : Nat} (h : x ∈ s.keys) : s.keysNil = false := by
  cases hk : s.keysNil with
  | false => rfl
  | true => have := (hc.nil hk).1; rw [this] at h; simp at h

theorem cinv_idle {s s' : St} {i p : Nat} {prog held} (hs : SInv s) (hc : CInv s) (ht : s.tasks[i]? = some ⟨.idle, prog, held⟩)
    (hstep : stepTask s i ⟨.idle, prog, held⟩ p = some s') : CInv s' := by
  simp only [stepTask] at hstep
  split at hstep
  · simp only [Option.some.injEq] at hstep; subst hstep
    exact CInv_frame hs hc ht rfl (Or.inl rfl) rfl rfl rfl (A_same rfl) (fun e he => Or.inl he) rfl
  cases prog with
  | nil =>
    simp at hstep; subst hstep
    exact CInv_frame hs hc ht rfl (Or.inl rfl) rfl rfl rfl (A_same rfl) (fun e he => Or.inl he) rfl
  | cons op rest =>
    cases op <;> cases held <;> simp at hstep <;> (try split at hstep) <;> (try simp at hstep) <;> subst hstep <;>
      exact CInv_frame hs hc ht rfl (Or.inl rfl) rfl rfl rfl (A_same rfl) (fun e he => Or.inl he) rfl

theorem cinv_wClose {s s' : St} {i p : Nat} {c prog held} (hs : SInv s) (hc : CInv s) (ht : s.tasks[i]? = some ⟨.wClose c, prog, held⟩)
    (hstep : stepTask s i ⟨.wClose c, prog, held⟩ p = some s') : CInv s' := by
  simp only [stepTask, Option.some.injEq] at hstep; subst hstep
  exact CInv_frame hs hc ht rfl (Or.inl rfl) rfl rfl rfl (A_same rfl) (fun e he => Or.inl he) rfl

theorem cinv_kClose {s s' : St} {i p : Nat} {c prog held} (hs : SInv s) (hc : CInv s) (ht : s.tasks[i]? = some ⟨.kClose c, prog, held⟩)
    (hstep : stepTask s i ⟨.kClose c, prog, held⟩ p = some s') : CInv s' := by
  simp only [stepTask, Option.some.injEq] at hstep; subst hstep
  exact CInv_frame hs hc ht rfl (Or.inl rfl) rfl rfl rfl (A_same rfl) (fun e he => Or.inl he) rfl

theorem cinv_sStop {s s' : St} {i p : Nat} {prog held} (hs : SInv s) (hc : CInv s) (ht : s.tasks[i]? = some ⟨.sStop, prog, held⟩)
    (hstep : stepTask s i ⟨.sStop, prog, held⟩ p = some s') : CInv s' := by
  simp only [stepTask] at hstep
  split at hstep
  · simp only [Option.some.injEq] at hstep; subst hstep
    exact CInv_frame hs hc ht rfl (Or.inl rfl) rfl rfl rfl (A_same rfl) (fun e he => Or.inl he) rfl
  · simp at hstep

theorem cinv_gUsable {s s' : St} {i p : Nat} {k h c prog held} (hs : SInv s) (hc : CInv s) (ht : s.tasks[i]? = some ⟨.gUsable k h c, prog, held⟩)
    (hstep : stepTask s i ⟨.gUsable k h c, prog, held⟩ p = some s') : CInv s' := by
  simp only [stepTask] at hstep
  split at hstep
  · simp only [Option.some.injEq] at hstep; subst hstep
    exact CInv_frame hs hc ht rfl (Or.inr ⟨c, rfl⟩) rfl rfl rfl (A_same rfl) (fun e he => Or.inl he) rfl
  · split at hstep
    · simp only [Option.some.injEq] at hstep; subst hstep
      exact CInv_frame hs hc ht rfl (Or.inr ⟨c, rfl⟩) rfl rfl rfl (A_same rfl) (fun e he => Or.inl he) rfl
    · simp only [Option.some.injEq] at hstep; subst hstep
      exact CInv_frame hs hc ht rfl (Or.inl rfl) rfl rfl rfl (A_same rfl) (fun e he => Or.inl he) rfl

/-- after shutdown every bucket is empty -/
theorem empty_after_shutdown {s : St} (hc : CInv s) (hk : s.keysNil = true) {x : Nat} {ch : Chan}
    (hx : s.chans[x]? = some ch) : ch.buf = [] := by
  cases hb : ch.buf with
  | nil => rfl
  | cons a l =>
    exfalso
    obtain ⟨h1, h2⟩ := hc.nil hk
    rcases hc.ne x ch hx (by simp [hb]) with h | h
    · rw [h1] at h; simp at h
    · rw [pend_none h2] at h; simp at h

theorem cinv_gSel {s s' : St} {i p : Nat} {k h prog held} (hs : SInv s) (hc : CInv s) (ht : s.tasks[i]? = some ⟨.gSel k h, prog, held⟩)
    (hstep : stepTask s i ⟨.gSel k h, prog, held⟩ p = some s') : CInv s' := by
  simp only [stepTask] at hstep
  split at hstep
  · rename_i c s1 hr
    obtain ⟨ch, rest, hch, hbuf, rfl⟩ := recv_conn hr
    simp only [Option.some.injEq] at hstep; subst hstep
    refine CInv_frame hs hc ht rfl (Or.inl rfl) rfl rfl rfl (A_set rfl hch (fun _ => Or.inl (by simp [hbuf]))) ?_ rfl
    intro e he
    simp only [setTask, List.mem_cons] at he
    rcases he with rfl | he
    · right
      cases hk : s.keysNil with
      | false => rfl
      | true => have := empty_after_shutdown hc hk hch; simp [hbuf] at this
    · exact Or.inl he
  · split at hstep <;> (simp only [Option.some.injEq] at hstep; subst hstep) <;>
      exact CInv_frame hs hc ht rfl (Or.inl rfl) rfl rfl rfl (A_same rfl) (fun e he => Or.inl he) rfl
  · split at hstep <;> (simp only [Option.some.injEq] at hstep; subst hstep) <;>
      exact CInv_frame hs hc ht rfl (Or.inl rfl) rfl rfl rfl (A_same rfl) (fun e he => Or.inl he) rfl
  · simp only [Option.some.injEq] at hstep; subst hstep
    exact CInv_frame hs hc ht rfl (Or.inl rfl) rfl rfl rfl (A_same rfl) (fun e he => Or.inl he) rfl


theorem tasks_get_new {s s' : St} {i : Nat} {t t' : Task} (ht : s.tasks[i]? = some t)
    (htasks : s'.tasks = s.tasks.set i t' ∨ ∃ c, s'.tasks = s.tasks.set i t' ++ [⟨.kClose c, [], []⟩]) :
    s'.tasks[i]? = some t' := by
  have hi := lt_of_getElem? ht
  rcases htasks with h | ⟨c, h⟩ <;> rw [h]
  · simp [hi]
  · rw [List.getElem?_append_left (by simp [hi])]; simp [hi]

/-- assembling `CInv` after a step of the lock holder, or of a goroutine that found the lock free -/
theorem CInv_lock {s s' : St} {i : Nat} {t t' : Task} (hc : CInv s) (ht : s.tasks[i]? = some t)
    (htasks : s'.tasks = s.tasks.set i t' ∨ ∃ c, s'.tasks = s.tasks.set i t' ++ [⟨.kClose c, [], []⟩])
    (hl' : s'.lock = none ∨ s'.lock = some i)
    (D : s'.keysNil = false ∨ (s'.keys = [] ∧ s'.lock = none))
    (hnk : s'.keysNil = false → s.keysNil = false)
    (hleak : s'.leaked = s.leaked) (hrecv : s'.recvLog = s.recvLog)
    (A : ∀ x ch', s'.chans[x]? = some ch' → ch'.buf ≠ [] → x ∈ s'.keys ∨ ∃ ch, s.chans[x]? = some ch ∧ ch.buf ≠ [])
    (B : ∀ x, x ∈ s.keys → x ∈ s'.keys ∨ (s'.lock = some i ∧ Pc.chan t'.pc = some x))
    (C : ∀ x, pend s = some x → (s'.lock = some i ∧ Pc.chan t'.pc = some x) ∨ ∀ ch', s'.chans[x]? = some ch' → ch'.buf = []) :
    CInv s' := by
  have hnew := tasks_get_new ht htasks
  have hp : ∀ x, (s'.lock = some i ∧ Pc.chan t'.pc = some x) → pend s' = some x := by
    intro x ⟨h1, h2⟩
    rw [pend_some h1 hnew]; exact h2
  refine CInv_of hc A ?_ ?_ ?_ ?_ ?_
  · intro x hx
    rcases B x hx with h | h
    · exact Or.inl h
    · exact Or.inr (hp x h)
  · intro x hx
    rcases C x hx with h | h
    · exact Or.inl (hp x h)
    · exact Or.inr h
  · intro hk
    rcases D with h | h
    · rw [h] at hk; simp at hk
    · exact h
  · intro e he; rw [hrecv] at he; exact Or.inl he
  · intro hk; exact ⟨hleak, hnk hk⟩

theorem cinv_gLock {s s' : St} {i p : Nat} {k prog held} (hs : SInv s) (hc : CInv s) (ht : s.tasks[i]? = some ⟨.gLock k, prog, held⟩)
    (hstep : stepTask s i ⟨.gLock k, prog, held⟩ p = some s') : CInv s' := by
  simp only [stepTask] at hstep
  split at hstep
  · simp at hstep
  · rename_i hlk
    have hln := lock_none_of hlk
    split at hstep
    · split at hstep <;> (simp only [Option.some.injEq] at hstep; subst hstep) <;>
        exact CInv_frame hs hc ht rfl (Or.inl rfl) rfl rfl rfl (A_same rfl) (fun e he => Or.inl he) rfl
    · rename_i h hlook
      have hmem := lookup_mem hlook
      have hnil := nil_false_of_mem hc hmem
      split at hstep
      · simp only [Option.some.injEq] at hstep; subst hstep
        exact CInv_frame hs hc ht rfl (Or.inl rfl) rfl rfl rfl (A_same rfl) (fun e he => Or.inl he) rfl
      · split at hstep
        · simp only [Option.some.injEq] at hstep; subst hstep
          refine CInv_lock hc ht (Or.inl rfl) (Or.inr rfl) (Or.inl hnil) (fun h => h) rfl rfl (A_same rfl) ?_ ?_
          · intro x hx
            by_cases hxe : x = h
            · exact Or.inr ⟨rfl, by simp [Pc.chan, hxe]⟩
            · exact Or.inl ((List.mem_erase_of_ne hxe).mpr hx)
          · intro x hx; rw [pend_none hln] at hx; simp at hx
        · simp only [Option.some.injEq] at hstep; subst hstep
          exact CInv_frame hs hc ht rfl (Or.inl rfl) rfl rfl rfl (A_same rfl) (fun e he => Or.inl he) rfl

theorem cinv_gDropClose {s s' : St} {i p : Nat} {k h prog held} (hs : SInv s) (hc : CInv s) (ht : s.tasks[i]? = some ⟨.gDropClose k h, prog, held⟩)
    (hstep : stepTask s i ⟨.gDropClose k h, prog, held⟩ p = some s') : CInv s' := by
  have hlk := (hs.tasks i _ ht).1 rfl
  have hnil := nil_false_of_lock hc hlk
  simp only [stepTask] at hstep
  split at hstep
  · rename_i hcl
    have hpc := (hs.tasks i _ ht).2.2
    simp only [PcOK] at hpc
    exact absurd hcl (closeChan_open hpc.1)
  · rename_i s1 hcl
    obtain ⟨ch, hch, hop, rfl⟩ := closeChan_some hcl
    simp only [Option.some.injEq] at hstep; subst hstep
    refine CInv_lock hc ht (Or.inl rfl) (Or.inr hlk) (Or.inl hnil) (fun h => h) rfl rfl
      (A_set rfl hch (fun hb => Or.inl hb)) (fun x hx => Or.inl hx) ?_
    intro x hx; rw [pend_some hlk ht] at hx
    exact Or.inl ⟨hlk, hx⟩


theorem recv_closedEmpty {s : St} {h : Nat} (hr : recv s h = .closedEmpty) : ∀ ch, s.chans[h]? = some ch → ch.buf = [] := by
  intro ch hch
  unfold recv at hr
  rw [hch] at hr
  dsimp only at hr
  split at hr
  · simp at hr
  · assumption

/-- the drain of bucket `h` by the lock holder has received a connection -/
theorem cinv_drain_recv {s s' : St} {i : Nat} {t t' : Task} {h : Nat} {ch : Chan} {rest : List Nat} {c : Nat}
    (hs : SInv s) (hc : CInv s) (ht : s.tasks[i]? = some t) (hlk : s.lock = some i) (hpt : Pc.chan t.pc = some h)
    (hpt' : Pc.chan t'.pc = some h)
    (htasks : s'.tasks = s.tasks.set i t' ∨ ∃ c, s'.tasks = s.tasks.set i t' ++ [⟨.kClose c, [], []⟩])
    (hch : s.chans[h]? = some ch) (hbuf : ch.buf = c :: rest)
    (hchans : s'.chans = s.chans.set h { ch with buf := rest }) (hk : s'.keys = s.keys) (hl' : s'.lock = some i)
    (hn : s'.keysNil = s.keysNil) (hleak : s'.leaked = s.leaked) (hrecv : s'.recvLog = s.recvLog) : CInv s' := by
  have hnil := nil_false_of_lock hc hlk
  refine CInv_lock hc ht htasks (Or.inr hl') (Or.inl (by rw [hn]; exact hnil)) (fun _ => hnil) hleak hrecv
    (A_set hchans hch (fun _ => Or.inl (by simp [hbuf]))) (fun x hx => Or.inl (by rw [hk]; exact hx)) ?_
  intro x hx
  rw [pend_some hlk ht, hpt] at hx
  simp at hx; subst hx
  exact Or.inl ⟨hl', hpt'⟩

/-- the lock holder has finished draining bucket `h` and moves on (next iteration, or leaves) -/
theorem cinv_drain_done {s s' : St} {i : Nat} {t t' : Task} {h : Nat}
    (hs : SInv s) (hc : CInv s) (ht : s.tasks[i]? = some t) (hlk : s.lock = some i) (hpt : Pc.chan t.pc = some h)
    (hr : recv s h = .closedEmpty)
    (htasks : s'.tasks = s.tasks.set i t' ∨ ∃ c, s'.tasks = s.tasks.set i t' ++ [⟨.kClose c, [], []⟩])
    (hchans : s'.chans = s.chans) (hk : s'.keys = s.keys) (hl' : s'.lock = none ∨ s'.lock = some i)
    (hn : s'.keysNil = s.keysNil) (hleak : s'.leaked = s.leaked) (hrecv : s'.recvLog = s.recvLog) : CInv s' := by
  have hnil := nil_false_of_lock hc hlk
  refine CInv_lock hc ht htasks hl' (Or.inl (by rw [hn]; exact hnil)) (fun _ => hnil) hleak hrecv
    (A_same hchans) (fun x hx => Or.inl (by rw [hk]; exact hx)) ?_
  intro x hx
  rw [pend_some hlk ht, hpt] at hx
  simp at hx; subst hx
  right
  intro ch' hch'
  rw [hchans] at hch'
  exact recv_closedEmpty hr ch' hch'

theorem cinv_gDrain {s s' : St} {i p : Nat} {k h prog held} (hs : SInv s) (hc : CInv s) (ht : s.tasks[i]? = some ⟨.gDrain k h, prog, held⟩)
    (hstep : stepTask s i ⟨.gDrain k h, prog, held⟩ p = some s') : CInv s' := by
  have hlk := (hs.tasks i _ ht).1 rfl
  have hpc := (hs.tasks i _ ht).2.2
  simp only [PcOK] at hpc
  have hnb := recv_closed_not_block hpc
  simp only [stepTask] at hstep
  split at hstep
  · rename_i c s1 hr
    obtain ⟨ch, rest, hch, hbuf, rfl⟩ := recv_conn hr
    simp only [Option.some.injEq] at hstep; subst hstep
    refine cinv_drain_recv (t' := ⟨.gDrain k h, prog, held⟩) hs hc ht hlk rfl rfl (Or.inr ⟨c, ?_⟩) hch hbuf rfl rfl hlk rfl rfl rfl
    simp only [spawnCloser]
    congr 1
    exact (set_self ht).symm
  · rename_i hr
    split at hstep <;> (simp only [Option.some.injEq] at hstep; subst hstep) <;>
      exact cinv_drain_done hs hc ht hlk rfl hr (Or.inl rfl) rfl rfl (Or.inl rfl) rfl rfl rfl
  · rename_i hr; exact absurd hr hnb.1
  · rename_i hr; exact absurd hr hnb.2


theorem cinv_mkBucket {s : St} {i : Nat} {t : Task} (hc : CInv s) (ht : s.tasks[i]? = some t)
    (hnil : s.keysNil = false)
    (hp : ∀ x, pend s = some x → ∀ ch, s.chans[x]? = some ch → ch.buf = []) (k c : Nat) :
    CInv (mkBucket s i t k c) := by
  refine CInv_lock hc ht (Or.inl rfl) (Or.inr rfl) (Or.inl hnil) (fun _ => hnil) rfl rfl
    (A_append (n := { key := k, cap := s.cfg.maxConns, born := s.now, buf := [], closed := false }) rfl rfl)
    (fun x hx => Or.inl (by simp [mkBucket, setTask, hx])) ?_
  intro x hx
  right
  intro ch' hch'
  simp only [mkBucket, setTask] at hch'
  rw [List.getElem?_append] at hch'
  split at hch'
  · exact hp x hx ch' hch'
  · cases hh : x - s.chans.length with
    | zero => rw [hh] at hch'; simp at hch'; subst hch'; rfl
    | succ n => rw [hh] at hch'; simp at hch'

theorem cinv_rLock {s s' : St} {i p : Nat} {k c prog held} (hs : SInv s) (hc : CInv s) (ht : s.tasks[i]? = some ⟨.rLock k c, prog, held⟩)
    (hstep : stepTask s i ⟨.rLock k c, prog, held⟩ p = some s') : CInv s' := by
  simp only [stepTask] at hstep
  split at hstep
  · simp at hstep
  · rename_i hlk
    have hln := lock_none_of hlk
    have hpn : ∀ x, pend s = some x → ∀ ch, s.chans[x]? = some ch → ch.buf = [] := by
      intro x hx; rw [pend_none hln] at hx; simp at hx
    split at hstep
    · rename_i hk
      simp only [Option.some.injEq] at hstep; subst hstep
      have hp := pend_frame (s' := { setTask s i { pc := Pc.idle, prog := prog, held := held } with leaked := c :: s.leaked })
        (t' := { pc := Pc.idle, prog := prog, held := held }) hs ht rfl rfl (Or.inl rfl)
      refine CInv_of hc (A_same rfl) (fun x hx => Or.inl hx) (fun x hx => Or.inl (by rw [hp]; exact hx)) hc.nil
        (fun e he => Or.inl he) ?_
      intro h; simp only [setTask] at h; rw [hk] at h; simp at h
    · rename_i hk
      have hnil : s.keysNil = false := by simpa using hk
      split at hstep
      · simp only [Option.some.injEq] at hstep; subst hstep
        refine CInv_lock hc ht (Or.inl rfl) (Or.inr rfl) (Or.inl hnil) (fun h => h) rfl rfl (A_same rfl) (fun x hx => Or.inl hx) ?_
        intro x hx; rw [pend_none hln] at hx; simp at hx
      · split at hstep
        · split at hstep
          · simp only [Option.some.injEq] at hstep; subst hstep
            refine CInv_lock hc ht (Or.inl rfl) (Or.inr rfl) (Or.inl hnil) (fun h => h) rfl rfl (A_same rfl) (fun x hx => Or.inl hx) ?_
            intro x hx; rw [pend_none hln] at hx; simp at hx
          · simp only [Option.some.injEq] at hstep; subst hstep
            exact cinv_mkBucket hc ht hnil hpn k c
        · simp only [Option.some.injEq] at hstep; subst hstep
          exact cinv_mkBucket hc ht hnil hpn k c

/-- a step of the lock holder that touches neither buckets nor the map, and was not draining -/
theorem cinv_lock_same {s s' : St} {i : Nat} {t t' : Task} (hs : SInv s) (hc : CInv s) (ht : s.tasks[i]? = some t)
    (hlk : s.lock = some i) (hpt : Pc.chan t.pc = Pc.chan t'.pc)
    (htasks : s'.tasks = s.tasks.set i t' ∨ ∃ c, s'.tasks = s.tasks.set i t' ++ [⟨.kClose c, [], []⟩])
    (hchans : s'.chans = s.chans) (hk : s'.keys = s.keys) (hl' : s'.lock = some i ∨ (s'.lock = none ∧ Pc.chan t.pc = none))
    (hn : s'.keysNil = s.keysNil) (hleak : s'.leaked = s.leaked) (hrecv : s'.recvLog = s.recvLog) : CInv s' := by
  have hnil := nil_false_of_lock hc hlk
  refine CInv_lock hc ht htasks (by rcases hl' with h | h; exact Or.inr h; exact Or.inl h.1) (Or.inl (by rw [hn]; exact hnil)) (fun _ => hnil) hleak hrecv
    (A_same hchans) (fun x hx => Or.inl (by rw [hk]; exact hx)) ?_
  intro x hx
  rw [pend_some hlk ht] at hx
  rcases hl' with h | ⟨_, h⟩
  · exact Or.inl ⟨h, by rw [← hpt]; exact hx⟩
  · rw [h] at hx; simp at hx

theorem cinv_rIter {s s' : St} {i p : Nat} {k c h td prog held} (hs : SInv s) (hc : CInv s) (ht : s.tasks[i]? = some ⟨.rIter k c h td, prog, held⟩)
    (hstep : stepTask s i ⟨.rIter k c h td, prog, held⟩ p = some s') : CInv s' := by
  have hlk := (hs.tasks i _ ht).1 rfl
  have hnil := nil_false_of_lock hc hlk
  simp only [stepTask] at hstep
  split at hstep
  · simp only [Option.some.injEq] at hstep; subst hstep
    exact cinv_lock_same hs hc ht hlk (by simp [Pc.chan, Pool.panic]) (Or.inl rfl) rfl rfl (Or.inl hlk) rfl rfl rfl
  · split at hstep
    · simp only [Option.some.injEq] at hstep; subst hstep
      refine CInv_lock hc ht (Or.inl rfl) (Or.inr hlk) (Or.inl hnil) (fun h => h) rfl rfl (A_same rfl) ?_ ?_
      · intro x hx
        by_cases hxe : x = h
        · exact Or.inr ⟨hlk, by simp [Pc.chan, hxe]⟩
        · exact Or.inl ((List.mem_erase_of_ne hxe).mpr hx)
      · intro x hx; rw [pend_some hlk ht] at hx; simp [Pc.chan] at hx
    · split at hstep
      · simp only [Option.some.injEq] at hstep; subst hstep
        exact cinv_lock_same hs hc ht hlk (by simp [Pc.chan, Pool.panic]) (Or.inl rfl) rfl rfl (Or.inl hlk) rfl rfl rfl
      · simp only [Option.some.injEq] at hstep; subst hstep
        refine cinv_mkBucket hc ht hnil ?_ k c
        intro x hx; rw [pend_some hlk ht] at hx; simp [Pc.chan] at hx


/-- `close(ch)` by the lock holder on the bucket it has already taken out of the map -/
theorem cinv_close_pend {s s' : St} {i : Nat} {t t' : Task} {h : Nat} {ch : Chan}
    (hs : SInv s) (hc : CInv s) (ht : s.tasks[i]? = some t) (hlk : s.lock = some i) (hpt : Pc.chan t.pc = some h)
    (hpt' : Pc.chan t'.pc = some h)
    (htasks : s'.tasks = s.tasks.set i t' ∨ ∃ c, s'.tasks = s.tasks.set i t' ++ [⟨.kClose c, [], []⟩])
    (hch : s.chans[h]? = some ch)
    (hchans : s'.chans = s.chans.set h { ch with closed := true }) (hk : s'.keys = s.keys) (hl' : s'.lock = some i)
    (hn : s'.keysNil = s.keysNil) (hleak : s'.leaked = s.leaked) (hrecv : s'.recvLog = s.recvLog) : CInv s' := by
  have hnil := nil_false_of_lock hc hlk
  refine CInv_lock hc ht htasks (Or.inr hl') (Or.inl (by rw [hn]; exact hnil)) (fun _ => hnil) hleak hrecv
    (A_set hchans hch (fun hb => Or.inl hb)) (fun x hx => Or.inl (by rw [hk]; exact hx)) ?_
  intro x hx
  rw [pend_some hlk ht, hpt] at hx
  simp at hx; subst hx
  exact Or.inl ⟨hl', hpt'⟩

/-- `close(ch)` + removal from the map (CleanUp, Close) -/
theorem cinv_close_erase {s s' : St} {i : Nat} {t t' : Task} {h : Nat} {ch : Chan}
    (hs : SInv s) (hc : CInv s) (ht : s.tasks[i]? = some t) (hlk : s.lock = some i) (hpt : Pc.chan t.pc = none)
    (hpt' : Pc.chan t'.pc = some h)
    (htasks : s'.tasks = s.tasks.set i t' ∨ ∃ c, s'.tasks = s.tasks.set i t' ++ [⟨.kClose c, [], []⟩])
    (hch : s.chans[h]? = some ch)
    (hchans : s'.chans = s.chans.set h { ch with closed := true }) (hk : s'.keys = s.keys.erase h) (hl' : s'.lock = some i)
    (hn : s'.keysNil = s.keysNil) (hleak : s'.leaked = s.leaked) (hrecv : s'.recvLog = s.recvLog) : CInv s' := by
  have hnil := nil_false_of_lock hc hlk
  refine CInv_lock hc ht htasks (Or.inr hl') (Or.inl (by rw [hn]; exact hnil)) (fun _ => hnil) hleak hrecv
    (A_set hchans hch (fun hb => Or.inl hb)) ?_ ?_
  · intro x hx
    by_cases hxe : x = h
    · exact Or.inr ⟨hl', by rw [hpt', hxe]⟩
    · exact Or.inl (by rw [hk]; exact (List.mem_erase_of_ne hxe).mpr hx)
  · intro x hx
    rw [pend_some hlk ht, hpt] at hx
    simp at hx

theorem cinv_rClose {s s' : St} {i p : Nat} {k c h td prog held} (hs : SInv s) (hc : CInv s) (ht : s.tasks[i]? = some ⟨.rClose k c h td, prog, held⟩)
    (hstep : stepTask s i ⟨.rClose k c h td, prog, held⟩ p = some s') : CInv s' := by
  have hlk := (hs.tasks i _ ht).1 rfl
  have hpc := (hs.tasks i _ ht).2.2
  simp only [PcOK] at hpc
  simp only [stepTask] at hstep
  split at hstep
  · rename_i hcl; exact absurd hcl (closeChan_open hpc.1)
  · rename_i s1 hcl
    obtain ⟨ch, hch, hop, rfl⟩ := closeChan_some hcl
    simp only [Option.some.injEq] at hstep; subst hstep
    exact cinv_close_pend hs hc ht hlk rfl (by simp [Pc.chan]) (Or.inl rfl) hch rfl rfl hlk rfl rfl rfl

theorem cinv_rDrain {s s' : St} {i p : Nat} {k c h td prog held} (hs : SInv s) (hc : CInv s) (ht : s.tasks[i]? = some ⟨.rDrain k c h td, prog, held⟩)
    (hstep : stepTask s i ⟨.rDrain k c h td, prog, held⟩ p = some s') : CInv s' := by
  have hlk := (hs.tasks i _ ht).1 rfl
  have hnil := nil_false_of_lock hc hlk
  have hpc := (hs.tasks i _ ht).2.2
  simp only [PcOK] at hpc
  have hnb := recv_closed_not_block hpc.1
  simp only [stepTask] at hstep
  split at hstep
  · rename_i c' s1 hr
    obtain ⟨ch, rest, hch, hbuf, rfl⟩ := recv_conn hr
    simp only [Option.some.injEq] at hstep; subst hstep
    exact cinv_drain_recv hs hc ht hlk rfl (by simp [Pc.chan]) (Or.inl rfl) hch hbuf rfl rfl hlk rfl rfl rfl
  · rename_i hr
    split at hstep
    · simp only [Option.some.injEq] at hstep; subst hstep
      exact cinv_drain_done hs hc ht hlk rfl hr (Or.inl rfl) rfl rfl (Or.inr hlk) rfl rfl rfl
    · simp only [Option.some.injEq] at hstep; subst hstep
      refine cinv_mkBucket hc ht hnil ?_ k c
      intro x hx; rw [pend_some hlk ht] at hx; simp [Pc.chan] at hx; subst hx
      exact recv_closedEmpty hr
  · rename_i hr; exact absurd hr hnb.1
  · rename_i hr; exact absurd hr hnb.2

theorem cinv_rDrainClose {s s' : St} {i p : Nat} {k c h td c' prog held} (hs : SInv s) (hc : CInv s)
    (ht : s.tasks[i]? = some ⟨.rDrainClose k c h td c', prog, held⟩)
    (hstep : stepTask s i ⟨.rDrainClose k c h td c', prog, held⟩ p = some s') : CInv s' := by
  have hlk := (hs.tasks i _ ht).1 rfl
  simp only [stepTask, Option.some.injEq] at hstep; subst hstep
  exact cinv_lock_same hs hc ht hlk (by simp [Pc.chan]) (Or.inl rfl) rfl rfl (Or.inl hlk) rfl rfl rfl

theorem cinv_rSel {s s' : St} {i p : Nat} {k c h prog held} (hs : SInv s) (hc : CInv s) (ht : s.tasks[i]? = some ⟨.rSel k c h, prog, held⟩)
    (hstep : stepTask s i ⟨.rSel k c h, prog, held⟩ p = some s') : CInv s' := by
  have hlk := (hs.tasks i _ ht).1 rfl
  have hnil := nil_false_of_lock hc hlk
  have hpc := (hs.tasks i _ ht).2.2
  simp only [PcOK] at hpc
  obtain ⟨ch, hch, hop⟩ := hs.keysOpen h hpc
  simp only [stepTask, hch] at hstep
  split at hstep
  · rename_i hcc; rw [hop] at hcc; simp at hcc
  split at hstep
  · simp only [Option.some.injEq] at hstep; subst hstep
    refine CInv_lock hc ht (Or.inl rfl) (Or.inl rfl) (Or.inl hnil) (fun _ => hnil) rfl rfl
      (A_set rfl hch (fun _ => Or.inr hpc)) (fun x hx => Or.inl hx) ?_
    intro x hx; rw [pend_some hlk ht] at hx; simp [Pc.chan] at hx
  · simp only [Option.some.injEq] at hstep; subst hstep
    exact cinv_lock_same hs hc ht hlk (by simp [Pc.chan]) (Or.inr ⟨c, rfl⟩) rfl rfl (Or.inr ⟨rfl, rfl⟩) rfl rfl rfl

theorem cinv_cLock {s s' : St} {i p : Nat} {prog held} (hs : SInv s) (hc : CInv s) (ht : s.tasks[i]? = some ⟨.cLock, prog, held⟩)
    (hstep : stepTask s i ⟨.cLock, prog, held⟩ p = some s') : CInv s' := by
  simp only [stepTask] at hstep
  split at hstep
  · simp at hstep
  · rename_i hlk
    have hln := lock_none_of hlk
    split at hstep
    · rename_i h td hp
      have hmem := (pickOf_some hp hs.keysNodup).1
      have hnil := nil_false_of_mem hc hmem
      simp only [Option.some.injEq] at hstep; subst hstep
      refine CInv_lock hc ht (Or.inl rfl) (Or.inr rfl) (Or.inl hnil) (fun h => h) rfl rfl (A_same rfl) (fun x hx => Or.inl hx) ?_
      intro x hx; rw [pend_none hln] at hx; simp at hx
    · simp only [Option.some.injEq] at hstep; subst hstep
      exact CInv_frame hs hc ht rfl (Or.inl rfl) rfl rfl rfl (A_same rfl) (fun e he => Or.inl he) rfl

theorem cinv_cIter {s s' : St} {i p : Nat} {h td prog held} (hs : SInv s) (hc : CInv s) (ht : s.tasks[i]? = some ⟨.cIter h td, prog, held⟩)
    (hstep : stepTask s i ⟨.cIter h td, prog, held⟩ p = some s') : CInv s' := by
  have hlk := (hs.tasks i _ ht).1 rfl
  simp only [stepTask] at hstep
  split at hstep
  · simp only [Option.some.injEq] at hstep; subst hstep
    exact cinv_lock_same hs hc ht hlk (by simp [Pc.chan, Pool.panic]) (Or.inl rfl) rfl rfl (Or.inl hlk) rfl rfl rfl
  · split at hstep
    · simp only [Option.some.injEq] at hstep; subst hstep
      exact cinv_lock_same hs hc ht hlk (by simp [Pc.chan]) (Or.inl rfl) rfl rfl (Or.inl hlk) rfl rfl rfl
    · split at hstep
      · simp only [Option.some.injEq] at hstep; subst hstep
        exact cinv_lock_same hs hc ht hlk (by simp [Pc.chan]) (Or.inl rfl) rfl rfl (Or.inl hlk) rfl rfl rfl
      · simp only [Option.some.injEq] at hstep; subst hstep
        exact cinv_lock_same hs hc ht hlk (by simp [Pc.chan]) (Or.inl rfl) rfl rfl (Or.inr ⟨rfl, rfl⟩) rfl rfl rfl

theorem cinv_cClose {s s' : St} {i p : Nat} {h td prog held} (hs : SInv s) (hc : CInv s) (ht : s.tasks[i]? = some ⟨.cClose h td, prog, held⟩)
    (hstep : stepTask s i ⟨.cClose h td, prog, held⟩ p = some s') : CInv s' := by
  have hlk := (hs.tasks i _ ht).1 rfl
  have hpc := (hs.tasks i _ ht).2.2
  simp only [PcOK] at hpc
  simp only [stepTask] at hstep
  split at hstep
  · rename_i hcl; exact absurd hcl (closeChan_open (hs.keysOpen h hpc.1))
  · rename_i s1 hcl
    obtain ⟨ch, hch, hop, rfl⟩ := closeChan_some hcl
    simp only [Option.some.injEq] at hstep; subst hstep
    exact cinv_close_erase hs hc ht hlk rfl (by simp [Pc.chan]) (Or.inl rfl) hch rfl rfl hlk rfl rfl rfl

theorem cinv_cDrain {s s' : St} {i p : Nat} {h td prog held} (hs : SInv s) (hc : CInv s) (ht : s.tasks[i]? = some ⟨.cDrain h td, prog, held⟩)
    (hstep : stepTask s i ⟨.cDrain h td, prog, held⟩ p = some s') : CInv s' := by
  have hlk := (hs.tasks i _ ht).1 rfl
  have hpc := (hs.tasks i _ ht).2.2
  simp only [PcOK] at hpc
  have hnb := recv_closed_not_block hpc.1
  simp only [stepTask] at hstep
  split at hstep
  · rename_i c s1 hr
    obtain ⟨ch, rest, hch, hbuf, rfl⟩ := recv_conn hr
    simp only [Option.some.injEq] at hstep; subst hstep
    refine cinv_drain_recv (t' := ⟨.cDrain h td, prog, held⟩) hs hc ht hlk rfl rfl (Or.inr ⟨c, ?_⟩) hch hbuf rfl rfl hlk rfl rfl rfl
    simp only [spawnCloser]
    congr 1
    exact (set_self ht).symm
  · rename_i hr
    split at hstep
    · simp only [Option.some.injEq] at hstep; subst hstep
      exact cinv_drain_done hs hc ht hlk rfl hr (Or.inl rfl) rfl rfl (Or.inr hlk) rfl rfl rfl
    · simp only [Option.some.injEq] at hstep; subst hstep
      exact cinv_drain_done hs hc ht hlk rfl hr (Or.inl rfl) rfl rfl (Or.inl rfl) rfl rfl rfl
  · rename_i hr; exact absurd hr hnb.1
  · rename_i hr; exact absurd hr hnb.2


theorem cinv_sLock {s s' : St} {i p : Nat} {prog held} (hs : SInv s) (hc : CInv s) (ht : s.tasks[i]? = some ⟨.sLock, prog, held⟩)
    (hstep : stepTask s i ⟨.sLock, prog, held⟩ p = some s') : CInv s' := by
  simp only [stepTask] at hstep
  split at hstep
  · simp at hstep
  · rename_i hlk
    have hln := lock_none_of hlk
    split at hstep
    · rename_i h td hp
      have hmem := (pickOf_some hp hs.keysNodup).1
      have hnil := nil_false_of_mem hc hmem
      simp only [Option.some.injEq] at hstep; subst hstep
      refine CInv_lock hc ht (Or.inl rfl) (Or.inr rfl) (Or.inl hnil) (fun h => h) rfl rfl (A_same rfl) (fun x hx => Or.inl hx) ?_
      intro x hx; rw [pend_none hln] at hx; simp at hx
    · rename_i hp
      have hk := pickOf_none hp
      simp only [Option.some.injEq] at hstep; subst hstep
      refine CInv_of hc (A_same rfl) ?_ ?_ (fun _ => ⟨rfl, hln⟩) (fun e he => Or.inl he) ?_
      · intro x hx; rw [hk] at hx; simp at hx
      · intro x hx; rw [pend_none hln] at hx; simp at hx
      · intro h; simp at h

theorem cinv_sIter {s s' : St} {i p : Nat} {h td prog held} (hs : SInv s) (hc : CInv s) (ht : s.tasks[i]? = some ⟨.sIter h td, prog, held⟩)
    (hstep : stepTask s i ⟨.sIter h td, prog, held⟩ p = some s') : CInv s' := by
  have hlk := (hs.tasks i _ ht).1 rfl
  simp only [stepTask, Option.some.injEq] at hstep; subst hstep
  exact cinv_lock_same hs hc ht hlk (by simp [Pc.chan]) (Or.inl rfl) rfl rfl (Or.inl hlk) rfl rfl rfl

theorem cinv_sClose {s s' : St} {i p : Nat} {h td prog held} (hs : SInv s) (hc : CInv s) (ht : s.tasks[i]? = some ⟨.sClose h td, prog, held⟩)
    (hstep : stepTask s i ⟨.sClose h td, prog, held⟩ p = some s') : CInv s' := by
  have hlk := (hs.tasks i _ ht).1 rfl
  have hpc := (hs.tasks i _ ht).2.2
  simp only [PcOK] at hpc
  simp only [stepTask] at hstep
  split at hstep
  · rename_i hcl; exact absurd hcl (closeChan_open (hs.keysOpen h hpc.1))
  · rename_i s1 hcl
    obtain ⟨ch, hch, hop, rfl⟩ := closeChan_some hcl
    simp only [Option.some.injEq] at hstep; subst hstep
    exact cinv_close_erase hs hc ht hlk rfl (by simp [Pc.chan]) (Or.inl rfl) hch rfl rfl hlk rfl rfl rfl

theorem cinv_sDrain {s s' : St} {i p : Nat} {h td prog held} (hs : SInv s) (hc : CInv s) (ht : s.tasks[i]? = some ⟨.sDrain h td, prog, held⟩)
    (hstep : stepTask s i ⟨.sDrain h td, prog, held⟩ p = some s') : CInv s' := by
  have hlk := (hs.tasks i _ ht).1 rfl
  have hpc := (hs.tasks i _ ht).2.2
  simp only [PcOK] at hpc
  have hnb := recv_closed_not_block hpc.1
  simp only [stepTask] at hstep
  split at hstep
  · rename_i c s1 hr
    obtain ⟨ch, rest, hch, hbuf, rfl⟩ := recv_conn hr
    simp only [Option.some.injEq] at hstep; subst hstep
    exact cinv_drain_recv hs hc ht hlk rfl (by simp [Pc.chan]) (Or.inl rfl) hch hbuf rfl rfl hlk rfl rfl rfl
  · rename_i hr
    split at hstep
    · simp only [Option.some.injEq] at hstep; subst hstep
      exact cinv_drain_done hs hc ht hlk rfl hr (Or.inl rfl) rfl rfl (Or.inr hlk) rfl rfl rfl
    · rename_i hp
      have htd := pickOf_none hp
      simp only [Option.some.injEq] at hstep; subst hstep
      refine CInv_of hc (A_same rfl) ?_ ?_ (fun _ => ⟨rfl, rfl⟩) (fun e he => Or.inl he) ?_
      · intro x hx
        have := hpc.2.2 x hx
        rw [htd] at this; simp at this
      · intro x hx
        rw [pend_some hlk ht] at hx; simp [Pc.chan] at hx; subst hx
        have he := recv_closedEmpty hr
        exact Or.inr (fun ch' hch' => he ch' hch')
      · intro h; simp at h
  · rename_i hr; exact absurd hr hnb.1
  · rename_i hr; exact absurd hr hnb.2

theorem cinv_sDrainClose {s s' : St} {i p : Nat} {h td c prog held} (hs : SInv s) (hc : CInv s)
    (ht : s.tasks[i]? = some ⟨.sDrainClose h td c, prog, held⟩)
    (hstep : stepTask s i ⟨.sDrainClose h td c, prog, held⟩ p = some s') : CInv s' := by
  have hlk := (hs.tasks i _ ht).1 rfl
  simp only [stepTask, Option.some.injEq] at hstep; subst hstep
  exact cinv_lock_same hs hc ht hlk (by simp [Pc.chan]) (Or.inl rfl) rfl rfl (Or.inl hlk) rfl rfl rfl

theorem cinv_stepTask {s s' : St} {i p : Nat} {t : Task} (hs : SInv s) (hc : CInv s) (ht : s.tasks[i]? = some t)
    (hstep : stepTask s i t p = some s') : CInv s' := by
  obtain ⟨pc, prog, held⟩ := t
  cases pc
  case idle => exact cinv_idle hs hc ht hstep
  case done => simp [stepTask] at hstep
  case panicked => simp [stepTask] at hstep
  case wClose => exact cinv_wClose hs hc ht hstep
  case kClose => exact cinv_kClose hs hc ht hstep
  case gLock => exact cinv_gLock hs hc ht hstep
  case gDropClose => exact cinv_gDropClose hs hc ht hstep
  case gDrain => exact cinv_gDrain hs hc ht hstep
  case gSel => exact cinv_gSel hs hc ht hstep
  case gUsable => exact cinv_gUsable hs hc ht hstep
  case rLock => exact cinv_rLock hs hc ht hstep
  case rIter => exact cinv_rIter hs hc ht hstep
  case rClose => exact cinv_rClose hs hc ht hstep
  case rDrain => exact cinv_rDrain hs hc ht hstep
  case rDrainClose => exact cinv_rDrainClose hs hc ht hstep
  case rSel => exact cinv_rSel hs hc ht hstep
  case cLock => exact cinv_cLock hs hc ht hstep
  case cIter => exact cinv_cIter hs hc ht hstep
  case cClose => exact cinv_cClose hs hc ht hstep
  case cDrain => exact cinv_cDrain hs hc ht hstep
  case sStop => exact cinv_sStop hs hc ht hstep
  case sLock => exact cinv_sLock hs hc ht hstep
  case sIter => exact cinv_sIter hs hc ht hstep
  case sClose => exact cinv_sClose hs hc ht hstep
  case sDrain => exact cinv_sDrain hs hc ht hstep
  case sDrainClose => exact cinv_sDrainClose hs hc ht hstep

end MaddyVerif.C19
