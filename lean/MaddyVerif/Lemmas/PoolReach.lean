import MaddyVerif.Lemmas.PoolAux
/-! Helper lemmas for C19: the invariants hold in every state reachable from `init` by any schedule. -/
namespace MaddyVerif.C19
open MaddyVerif.Pool

theorem SInv_congr {s s' : St} (h1 : s'.tasks = s.tasks) (h2 : s'.lock = s.lock) (h3 : s'.keys = s.keys)
    (h4 : s'.chans = s.chans) (hs : SInv s) : SInv s' := by
  have f : Frame s s' := ⟨h3, h2, fun x => by rw [h4]⟩
  refine ⟨?_, ?_, ?_, ?_⟩
  · intro i t hi; rw [h1] at hi; exact TaskOK_frame f (hs.tasks i t hi)
  · intro i hi; rw [h2] at hi; rw [h1]; exact hs.holder i hi
  · intro h hh; rw [h3] at hh; exact (f.open_iff h).mpr (hs.keysOpen h hh)
  · rw [h3]; exact hs.keysNodup

theorem pend_congr {s s' : St} (h1 : s'.tasks = s.tasks) (h2 : s'.lock = s.lock) : pend s' = pend s := by
  unfold pend; rw [h1, h2]

theorem CInv_congr {s s' : St} (h1 : s'.tasks = s.tasks) (h2 : s'.lock = s.lock) (h3 : s'.keys = s.keys)
    (h4 : s'.chans = s.chans) (h5 : s'.keysNil = s.keysNil) (h6 : s'.recvLog = s.recvLog) (h7 : s'.leaked = s.leaked)
    (hc : CInv s) : CInv s' := by
  refine ⟨?_, ?_, ?_, ?_⟩
  · intro x ch hx hne; rw [h4] at hx; rw [h3, pend_congr h1 h2]; exact hc.ne x ch hx hne
  · rw [h5, h3, h2]; exact hc.nil
  · rw [h6]; exact hc.recv
  · rw [h5, h7]; exact hc.noLeak

/-- everything that holds in every reachable state -/
structure Inv (s : St) : Prop where
  one : OnePlace s
  sinv : SInv s
  cinv : CInv s
  hand : ∀ e ∈ s.handLog, HandOK s.cfg e

theorem inv_step {s s' : St} {w : Who} (hinv : Inv s) (hstep : step s w = some s') : Inv s' := by
  refine ⟨onePlace_step hinv.one hstep, ?_, ?_, ?_⟩
  · cases w with
    | task i p =>
      simp only [step] at hstep
      split at hstep
      · simp at hstep
      · rename_i t ht; exact sinv_stepTask hinv.sinv ht hstep
    | tick d => simp only [step, Option.some.injEq] at hstep; subst hstep; exact SInv_congr (s := s) rfl rfl rfl rfl hinv.sinv
    | brk c =>
      simp only [step] at hstep
      split at hstep
      · simp only [Option.some.injEq] at hstep; subst hstep; exact SInv_congr (s := s) rfl rfl rfl rfl hinv.sinv
      · simp at hstep
    | cancel i => simp only [step, Option.some.injEq] at hstep; subst hstep; exact SInv_congr (s := s) rfl rfl rfl rfl hinv.sinv
  · cases w with
    | task i p =>
      simp only [step] at hstep
      split at hstep
      · simp at hstep
      · rename_i t ht; exact cinv_stepTask hinv.sinv hinv.cinv ht hstep
    | tick d => simp only [step, Option.some.injEq] at hstep; subst hstep; exact CInv_congr (s := s) rfl rfl rfl rfl rfl rfl rfl hinv.cinv
    | brk c =>
      simp only [step] at hstep
      split at hstep
      · simp only [Option.some.injEq] at hstep; subst hstep; exact CInv_congr (s := s) rfl rfl rfl rfl rfl rfl rfl hinv.cinv
      · simp at hstep
    | cancel i => simp only [step, Option.some.injEq] at hstep; subst hstep; exact CInv_congr (s := s) rfl rfl rfl rfl rfl rfl rfl hinv.cinv
  · cases w with
    | task i p =>
      simp only [step] at hstep
      split at hstep
      · simp at hstep
      · obtain ⟨h1, h2⟩ := hand_stepTask hstep
        intro e he
        rw [h1]
        rcases h2 with h2 | ⟨e0, h2, h3⟩
        · rw [h2] at he; exact hinv.hand e he
        · rw [h2] at he
          simp only [List.mem_cons] at he
          rcases he with rfl | he
          · exact h3
          · exact hinv.hand e he
    | tick d => simp only [step, Option.some.injEq] at hstep; subst hstep; exact hinv.hand
    | brk c =>
      simp only [step] at hstep
      split at hstep
      · simp only [Option.some.injEq] at hstep; subst hstep; exact hinv.hand
      · simp at hstep
    | cancel i => simp only [step, Option.some.injEq] at hstep; subst hstep; exact hinv.hand

/-- `Close` has been called at most once so far, and if it was, nobody else is going to call it -/
def ShutInv (s : St) : Prop := (s.ticker = true → sdSum s.tasks ≤ 1) ∧ (s.ticker = false → sdSum s.tasks = 0)

theorem shut_step {s s' : St} {w : Who} (hsh : ShutInv s) (hstep : step s w = some s') : ShutInv s' := by
  cases w with
    | task i p =>
      simp only [step] at hstep
      split at hstep
      · simp at hstep
      · rename_i t ht
        rcases sd_stepTask ht hstep with ⟨h1, h2⟩ | ⟨h1, h2, h3⟩
        · unfold ShutInv; rw [h1, h2]; exact hsh
        · have := hsh.1 h1
          constructor
          · intro h; rw [h2] at h; simp at h
          · intro _; omega
    | tick d => simp only [step, Option.some.injEq] at hstep; subst hstep; exact hsh
    | brk c =>
      simp only [step] at hstep
      split at hstep
      · simp only [Option.some.injEq] at hstep; subst hstep; exact hsh
      · simp at hstep
    | cancel i => simp only [step, Option.some.injEq] at hstep; subst hstep; exact hsh

theorem shut_run {s : St} (ws : List Who) (hsh : ShutInv s) : ShutInv (run s ws) := by
  induction ws generalizing s with
  | nil => exact hsh
  | cons w ws ih =>
    apply ih
    unfold next
    cases h : step s w with
    | none => simpa using hsh
    | some s' => simpa using shut_step hsh h

theorem inv_next {s : St} (w : Who) (hinv : Inv s) : Inv (next s w) := by
  unfold next
  cases h : step s w with
  | none => simpa using hinv
  | some s' => simpa using inv_step hinv h

theorem inv_run {s : St} (ws : List Who) (hinv : Inv s) : Inv (run s ws) := by
  induction ws generalizing s with
  | nil => exact hinv
  | cons w ws ih => exact ih (inv_next w hinv)

/-- total number of `pool.Close()` calls in the workers' programs -/
def shutdowns (progs : List (List Op)) : Nat := (progs.map (fun p => p.count Op.shutdown)).sum

theorem sdSum_init (progs : List (List Op)) :
    sdSum (progs.map (fun p => ({ pc := .idle, prog := p, held := [] } : Task))) = shutdowns progs := by
  induction progs with
  | nil => rfl
  | cons p ps ih =>
    simp only [sdSum, shutdowns, List.map_cons, List.sum_cons] at ih ⊢
    rw [ih]
    simp [sd]

theorem inv_init (cfg : Cfg) (progs : List (List Op)) : Inv (init cfg progs) := by
  refine ⟨onePlace_init cfg progs, ⟨?_, ?_, ?_, ?_⟩, ⟨?_, ?_, ?_, ?_⟩, ?_⟩
  · intro i t hi
    simp only [init, List.getElem?_map] at hi
    cases hp : progs[i]? with
    | none => simp [hp] at hi
    | some p => simp [hp] at hi; subst hi; exact ⟨by simp [Pc.locked], by simp, trivial⟩
  · intro i hi; simp [init] at hi
  · intro h hh; simp [init] at hh
  · simp [init]
  · intro x ch hx; simp [init] at hx
  · intro h; simp [init] at h
  · intro e he; simp [init] at he
  · intro _; rfl
  · intro e he; simp [init] at he

theorem shut_init (cfg : Cfg) (progs : List (List Op)) (h1 : shutdowns progs ≤ 1) : ShutInv (init cfg progs) := by
  constructor
  · intro _; simp only [init]; rw [sdSum_init]; exact h1
  · intro h; simp [init] at h

theorem cfg_step {s s' : St} {w : Who} (hstep : step s w = some s') : s'.cfg = s.cfg := by
  cases w with
  | task i p =>
    simp only [step] at hstep
    split at hstep
    · simp at hstep
    · exact (hand_stepTask hstep).1
  | tick d => simp only [step, Option.some.injEq] at hstep; subst hstep; rfl
  | brk c =>
    simp only [step] at hstep
    split at hstep
    · simp only [Option.some.injEq] at hstep; subst hstep; rfl
    · simp at hstep
  | cancel i => simp only [step, Option.some.injEq] at hstep; subst hstep; rfl

theorem cfg_run (s : St) (ws : List Who) : (run s ws).cfg = s.cfg := by
  induction ws generalizing s with
  | nil => rfl
  | cons w ws ih =>
    simp only [run]
    rw [ih]
    unfold next
    cases h : step s w with
    | none => rfl
    | some s' => exact cfg_step h

end MaddyVerif.C19
