import MaddyVerif.Model.Limits
/-! Proof-side bookkeeping for C11: the tokens (permits, bucket uses) a goroutine holds according to its
control state, their totals, and what the group state says about them.  Nothing here influences the model. -/
namespace MaddyVerif.Limits

inductive Tok
  | g (i : Nat)                  -- a permit of g.global.Wrapped[i]
  | b (sc : Sc) (k i : Nat)      -- a permit of bucket k's Wrapped[i] in scope sc
  | use (sc : Sc) (k : Nat)      -- one unit of bucket k's `users`
deriving DecidableEq, Repr

/-- Tokens an operation acquires (acquisition side) or gives back (release side). -/
def MOp.toks (c : Cfg) : MOp → List Tok
  | .acqG i => [.g i]
  | .relG i => [.g i]
  | .bsTake sc k => [.use sc k]
  | .untake sc k => [.use sc k]
  | .acqB sc k i => [.b sc k i]
  | .relB sc k i => [.b sc k i]
  | .bsRel sc k => .use sc k :: (List.range (c.ctors sc).length).map (Tok.b sc k)

def opsToks (c : Cfg) (l : List MOp) : List Tok := l.flatMap (MOp.toks c)

@[simp] theorem opsToks_nil (c : Cfg) : opsToks c [] = [] := rfl
@[simp] theorem opsToks_cons (c : Cfg) (op : MOp) (l : List MOp) :
    opsToks c (op :: l) = op.toks c ++ opsToks c l := by simp [opsToks]
@[simp] theorem opsToks_append (c : Cfg) (l₁ l₂ : List MOp) :
    opsToks c (l₁ ++ l₂) = opsToks c l₁ ++ opsToks c l₂ := by simp [opsToks]

/-- What a successful take call holds = what the matching release call gives back. -/
def Call.toks (c : Cfg) : Call → List Tok
  | .takeMsg ip dom => opsToks c (releaseMsgProg c ip dom)
  | .relMsg ip dom => opsToks c (releaseMsgProg c ip dom)
  | .takeDest d => opsToks c (releaseDestProg c d)
  | .relDest d => opsToks c (releaseDestProg c d)

def msgToks (c : Cfg) (l : List (Nat × Nat)) : List Tok :=
  l.flatMap (fun p => opsToks c (releaseMsgProg c p.1 p.2))

def destToks (c : Cfg) (l : List Nat) : List Tok :=
  l.flatMap (fun d => opsToks c (releaseDestProg c d))

def curToks (c : Cfg) : Pc → List Tok
  | .idle => []
  | .panicked => []
  | .taking call [] => call.toks c
  | .taking _ ((_, u) :: _) => opsToks c u
  | .undo _ todo => opsToks c todo
  | .rel todo => opsToks c todo

def Task.toks (c : Cfg) (t : Task) : List Tok :=
  msgToks c t.outMsg ++ (destToks c t.outDest ++ curToks c t.pc)

/-- Is the limiter behind the token a semaphore that really counts (`concurrency N`, N > 0)? -/
def realSem : Option Lim → Bool
  | some l => l.kind == .sem && decide (0 < l.n)
  | none => false

def counted (c : Cfg) : Tok → Bool
  | .g i => realSem c.all[i]?
  | .b sc _ i => realSem (c.ctors sc)[i]?
  | .use _ _ => true

def limLen : Option LimSt → Nat
  | some l => l.len
  | none => 0

def bLen (ob : Option Bucket) (i : Nat) : Nat :=
  match ob with
  | some bk => limLen bk.lims[i]?
  | none => 0

def bUsers (ob : Option Bucket) : Nat :=
  match ob with
  | some bk => bk.users
  | none => 0

/-- What the group state records for a token: channel length / `users`. -/
def lenOf (g : Group) : Tok → Nat
  | .g i => limLen g.glob[i]?
  | .b sc k i => bLen (findB (g.bk sc) k) i
  | .use sc k => bUsers (findB (g.bk sc) k)

def total (c : Cfg) (tok : Tok) (ts : List Task) : Nat :=
  (ts.map (fun t => (t.toks c).count tok)).sum

theorem sum_set_add (l : List Nat) (i : Nat) (x y : Nat) (h : l[i]? = some x) :
    (l.set i y).sum + x = l.sum + y := by
  induction l generalizing i with
  | nil => simp at h
  | cons a l ih =>
    cases i with
    | zero => simp at h; subst h; simp; omega
    | succ i => simp at h; have := ih i h; simp; omega

theorem total_set (c : Cfg) (tok : Tok) (ts : List Task) (i : Nat) (t t' : Task) (h : ts[i]? = some t) :
    total c tok (ts.set i t') + (t.toks c).count tok = total c tok ts + (t'.toks c).count tok := by
  unfold total
  rw [List.map_set]
  apply sum_set_add
  simp [h]

theorem total_append_new (c : Cfg) (tok : Tok) (ts : List Task) :
    total c tok (ts ++ [Task.new]) = total c tok ts := by
  simp [total, Task.new, Task.toks, msgToks, destToks, curToks]

theorem count_le_total (c : Cfg) (tok : Tok) (ts : List Task) (i : Nat) (t : Task) (h : ts[i]? = some t) :
    (t.toks c).count tok ≤ total c tok ts := by
  unfold total
  induction ts generalizing i with
  | nil => simp at h
  | cons a l ih =>
    cases i with
    | zero => simp at h; subst h; simp
    | succ i => simp at h; have := ih i h; simp; omega

theorem total_eq_zero (c : Cfg) (tok : Tok) (ts : List Task)
    (h : ∀ t ∈ ts, (t.toks c).count tok = 0) : total c tok ts = 0 := by
  unfold total
  induction ts with
  | nil => simp
  | cons a l ih =>
    simp at h ⊢
    exact ⟨h.1, ih h.2⟩

theorem total_zero_count (c : Cfg) (tok : Tok) (ts : List Task) (h : total c tok ts = 0) :
    ∀ t ∈ ts, (t.toks c).count tok = 0 := by
  unfold total at h
  induction ts with
  | nil => simp
  | cons a l ih =>
    simp at h
    intro t ht
    simp at ht
    rcases ht with rfl | ht
    · exact h.1
    · exact ih (by simpa using h.2) t ht

end MaddyVerif.Limits
