import MaddyVerif.Lemmas.LimitsInv
/-! C11: every scheduler event preserves the invariant (as long as no goroutine releases what it does
not hold). -/
namespace MaddyVerif.Limits

theorem Inv.set_task (c : Cfg) (s : St) (i : Nat) (t t' : Task) (g' : Group) (h : Inv c s)
    (hi : s.tasks[i]? = some t) (hs : GoSpec c s.g t g' t') :
    Inv c { s with g := g', tasks := s.tasks.set i t' } := by
  refine ⟨hs.hg, ?_, ?_⟩
  · intro tok hc
    have h1 := total_set c tok s.tasks i t t' hi
    have h2 := hs.hw tok hc
    have h3 := h.w tok hc
    simp only at h1 h2 h3 ⊢
    omega
  · intro x hx
    rcases List.mem_or_eq_of_mem_set hx with hx | rfl
    · exact h.t x hx
    · exact hs.ht

theorem Inv.avail (c : Cfg) (s : St) (i : Nat) (t : Task) (h : Inv c s) (hi : s.tasks[i]? = some t) :
    ∀ tok, counted c tok = true → (t.toks c).count tok ≤ lenOf s.g tok := by
  intro tok hc
  rw [h.w tok hc]
  exact count_le_total c tok s.tasks i t hi

theorem chain_cur (c : Cfg) (call : Call) (p : TakeProg) (h : Chain c [] p (call.toks c)) :
    Chain c (curToks c (.taking call p)) p (call.toks c) ∧ CEq (curToks c (.taking call p)) [] := by
  cases p with
  | nil => exact ⟨CEq.refl _, CEq.symm h⟩
  | cons e r =>
    obtain ⟨op, u⟩ := e
    exact ⟨⟨CEq.refl _, h.2⟩, h.1⟩

theorem flatMap_erase_count {α : Type} [BEq α] [LawfulBEq α] (f : α → List Tok) (l : List α) (p : α) (tok : Tok)
    (h : p ∈ l) : (l.flatMap f).count tok = (f p).count tok + ((l.erase p).flatMap f).count tok := by
  induction l with
  | nil => simp at h
  | cons a l ih =>
    by_cases e : a = p
    · subst e; simp [List.count_append]
    · have e' : (a == p) = false := by simpa using e
      have hp : p ∈ l := by
        simp at h
        rcases h with h | h
        · exact absurd h.symm e
        · exact h
      have : (a :: l).erase p = a :: l.erase p := by
        rw [List.erase_cons]
        simp [e']
      rw [this]
      simp only [List.flatMap_cons, List.count_append]
      rw [ih hp]
      omega

theorem Task.begin_spec (c : Cfg) (hk : c.keys.Lawful) (g : Group) (t : Task) (call : Call) (hg : GInv c g) (hpc : t.pc = .idle)
    (hm : (t.begin c call).2 = false) : GoSpec c g t g (t.begin c call).1 := by
  have htoks : t.toks c = msgToks c t.outMsg ++ (destToks c t.outDest ++ []) := by
    unfold Task.toks; rw [hpc]; rfl
  cases call with
  | takeMsg a b =>
    obtain ⟨h1, h2⟩ := chain_cur c (.takeMsg a b) _ (Chain.takeMsg c hk a b)
    refine ⟨hg, ?_, ?_⟩
    · simp only [Task.begin, TaskWF]; exact ⟨trivial, h1⟩
    · intro tok _
      rw [htoks]
      have := h2 tok
      simp only [Task.begin, Task.toks, List.count_append, List.count_nil] at this ⊢
      omega
  | takeDest d =>
    obtain ⟨h1, h2⟩ := chain_cur c (.takeDest d) _ (Chain.takeDest c d)
    refine ⟨hg, ?_, ?_⟩
    · simp only [Task.begin, TaskWF]; exact ⟨trivial, h1⟩
    · intro tok _
      rw [htoks]
      have := h2 tok
      simp only [Task.begin, Task.toks, List.count_append, List.count_nil] at this ⊢
      omega
  | relMsg a b =>
    simp only [Task.begin, Bool.not_eq_false', List.contains_eq_mem, decide_eq_true_eq] at hm
    refine ⟨hg, ?_, ?_⟩
    · simp only [Task.begin, TaskWF]; exact RelWF.releaseMsg c a b
    · intro tok _
      rw [htoks]
      have := flatMap_erase_count (fun p : Nat × Nat => opsToks c (releaseMsgProg c p.1 p.2)) t.outMsg (a, b) tok hm
      simp only [Task.begin, Task.toks, curToks, msgToks, List.count_append, List.count_nil] at this ⊢
      omega
  | relDest d =>
    simp only [Task.begin, Bool.not_eq_false', List.contains_eq_mem, decide_eq_true_eq] at hm
    refine ⟨hg, ?_, ?_⟩
    · simp only [Task.begin, TaskWF]; exact RelWF.releaseDest c d
    · intro tok _
      rw [htoks]
      have := flatMap_erase_count (fun p : Nat => opsToks c (releaseDestProg c p)) t.outDest d tok hm
      simp only [Task.begin, Task.toks, curToks, destToks, List.count_append, List.count_nil] at this ⊢
      omega

theorem Task.timeout_spec (c : Cfg) (g : Group) (t : Task) (hg : GInv c g) (ht : TaskWF c t) :
    GoSpec c g t g t.timeout := by
  unfold Task.timeout
  split
  · rename_i call op u rest hpc
    split
    · refine ⟨hg, ?_, ?_⟩
      · unfold TaskWF at ht
        rw [hpc] at ht
        simp only [TaskWF]
        exact ht.2.2.2.1
      · intro tok _
        simp only [Task.toks, hpc, curToks]
    · exact GoSpec.same c g t hg ht
  · exact GoSpec.same c g t hg ht

/-! ### time and refill -/

def ageAll (n : Nat) (m : List Bucket) : List Bucket := m.map (fun b => { b with age := b.age + n })

theorem findB_ageAll (n : Nat) (m : List Bucket) (k : Nat) :
    findB (ageAll n m) k = (findB m k).map (fun b => { b with age := b.age + n }) := by
  unfold findB ageAll
  rw [List.find?_map]
  rfl

theorem lenOf_adv (g : Group) (n : Nat) (tok : Tok) :
    lenOf { g with ip := ageAll n g.ip, src := ageAll n g.src, dst := ageAll n g.dst } tok = lenOf g tok := by
  cases tok with
  | g j => rfl
  | b sc k i =>
    cases sc <;> simp only [lenOf, Group.bk, findB_ageAll] <;>
      cases findB _ k <;> rfl
  | use sc k =>
    cases sc <;> simp only [lenOf, Group.bk, findB_ageAll] <;>
      cases findB _ k <;> rfl

theorem GInv.adv (c : Cfg) (g : Group) (n : Nat) (h : GInv c g) :
    GInv c { g with ip := ageAll n g.ip, src := ageAll n g.src, dst := ageAll n g.dst } := by
  refine ⟨h.glob, ?_, ?_⟩
  · intro sc b hb
    have : b ∈ ageAll n (g.bk sc) := by cases sc <;> exact hb
    unfold ageAll at this
    simp at this
    obtain ⟨b0, hb0, rfl⟩ := this
    exact h.bk sc b0 hb0
  · intro sc
    have : ({ g with ip := ageAll n g.ip, src := ageAll n g.src, dst := ageAll n g.dst } : Group).bk sc =
        ageAll n (g.bk sc) := by cases sc <;> rfl
    rw [this]
    unfold ageAll
    rw [List.map_map]
    exact h.nodup sc

theorem updB_none (m : List Bucket) (k : Nat) (f : Bucket → Bucket) (h : findB m k = none) : updB m k f = m := by
  unfold updB
  have h1 : ∀ b ∈ m, (if b.key == k then f b else b) = id b := fun b hb => by
    have := findB_none m k h b hb
    simp [this]
  rw [List.map_congr_left h1]
  simp

theorem setBk_bk (g : Group) (sc : Sc) : g.setBk sc (g.bk sc) = g := by cases sc <;> rfl

theorem Bucket.refill_key (i : Nat) (b : Bucket) : (b.refill i).key = b.key := by
  unfold Bucket.refill; split <;> rfl

theorem Bucket.refill_users (i : Nat) (b : Bucket) : (b.refill i).users = b.users := by
  unfold Bucket.refill; split <;> rfl

theorem refillB_spec (c : Cfg) (g : Group) (sc : Sc) (k i : Nat) (h : GInv c g) :
    GInv c (g.setBk sc (updB (g.bk sc) k (Bucket.refill i))) ∧
      ∀ tok, counted c tok = true → lenOf (g.setBk sc (updB (g.bk sc) k (Bucket.refill i))) tok = lenOf g tok := by
  cases hb : findB (g.bk sc) k with
  | none => rw [updB_none _ _ _ hb, setBk_bk]; exact ⟨h, fun _ _ => rfl⟩
  | some bk =>
    have hbs := h.bk sc bk (findB_some _ _ _ hb).1
    have hshape : shaped (c.ctors sc) (bk.refill i).lims := by
      unfold Bucket.refill
      cases hl : bk.lims[i]? with
      | none => exact hbs
      | some l =>
        obtain ⟨r1, r2, r3, _⟩ := refill_spec l
        exact shaped_set _ _ i l _ hbs hl r1 r2 (r3 (shaped_le _ _ i l hbs hl))
    obtain ⟨hg, hl⟩ := upd_spec c g sc k (Bucket.refill i) bk h hb (Bucket.refill_key i) hshape
    refine ⟨hg, ?_⟩
    intro tok hc
    rw [hl]
    cases tok with
    | g j => rfl
    | use sc' k' =>
      by_cases e : sc' = sc ∧ k' = k
      · obtain ⟨rfl, rfl⟩ := e
        simp [Bucket.refill_users, lenOf_use_of_find g _ _ bk hb]
      · simp [e]
    | b sc' k' i' =>
      by_cases e : sc' = sc ∧ k' = k
      · obtain ⟨rfl, rfl⟩ := e
        simp only [true_and, if_true, lenOf_b_of_find g _ _ i' bk hb]
        unfold Bucket.refill
        cases hl' : bk.lims[i]? with
        | none => rfl
        | some l =>
          simp only [limLen_set _ i i' l _ hl']
          by_cases e' : i = i'
          · subst e'
            have hreal := realSem_iff _ _ i l hbs hl'
            have := (refill_spec l).2.2.2 (hreal.1 (by simpa [counted] using hc))
            simp [hl', limLen, this]
          · simp [e']
      · simp [e]

theorem refillG_spec (c : Cfg) (g : Group) (i : Nat) (l : LimSt) (h : GInv c g) (hl : g.glob[i]? = some l) :
    GInv c { g with glob := g.glob.set i l.refill } ∧
      ∀ tok, counted c tok = true → lenOf { g with glob := g.glob.set i l.refill } tok = lenOf g tok := by
  obtain ⟨r1, r2, r3, r4⟩ := refill_spec l
  refine ⟨GInv.setGlob c g _ h (shaped_set _ _ i l _ h.glob hl r1 r2 (r3 (shaped_le _ _ i l h.glob hl))), ?_⟩
  intro tok hc
  rw [lenOf_glob]
  cases tok with
  | g j =>
    simp only [limLen_set _ i j l _ hl]
    by_cases e : i = j
    · subst e
      have hreal := realSem_iff _ _ i l h.glob hl
      have := r4 (hreal.1 (by simpa [counted] using hc))
      simp [lenOf, hl, limLen, this]
    · simp [e, lenOf]
  | b sc k i' => rfl
  | use sc k => rfl

/-! ### every event -/

theorem step_inv (c : Cfg) (hk : c.keys.Lawful) (s : St) (e : Ev) (h : Inv c s) (hm : (step c s e).misuse = false) :
    Inv c (step c s e) := by
  cases e with
  | spawn =>
    refine ⟨h.g, ?_, ?_⟩
    · intro tok hc
      simp only [step, total_append_new]
      exact h.w tok hc
    · intro t ht
      simp only [step, List.mem_append, List.mem_singleton] at ht
      rcases ht with ht | rfl
      · exact h.t t ht
      · simp [TaskWF, Task.new]
  | begin i call =>
    simp only [step] at hm ⊢
    cases hi : s.tasks[i]? with
    | none => simpa [hi] using h
    | some t =>
      simp only [hi] at hm ⊢
      cases hpc : t.pc with
      | idle =>
        simp only [hpc] at hm ⊢
        have hm' : (t.begin c call).2 = false := by
          cases hb : (t.begin c call).2 with
          | false => rfl
          | true => simp [hb] at hm
        have := Inv.set_task c s i t _ s.g h hi (Task.begin_spec c hk s.g t call h.g hpc hm')
        refine ⟨this.g, this.w, this.t⟩
      | panicked => simpa [hpc] using h
      | taking a b => simpa [hpc] using h
      | undo a b => simpa [hpc] using h
      | rel a => simpa [hpc] using h
  | go i =>
    simp only [step]
    cases hi : s.tasks[i]? with
    | none => simpa [hi] using h
    | some t =>
      simp only [hi]
      exact Inv.set_task c s i t _ _ h hi
        (Task.go_spec c s.g t h.g (h.t t (List.mem_of_getElem? hi)) (Inv.avail c s i t h hi)
          (fun sc k i' => Inv.idle_bucket c s h sc k i'))
  | timeout i =>
    simp only [step]
    cases hi : s.tasks[i]? with
    | none => simpa [hi] using h
    | some t =>
      simp only [hi]
      have := Inv.set_task c s i t _ s.g h hi (Task.timeout_spec c s.g t h.g (h.t t (List.mem_of_getElem? hi)))
      exact ⟨this.g, this.w, this.t⟩
  | adv n =>
    refine ⟨GInv.adv c s.g n h.g, ?_, h.t⟩
    intro tok hc
    have := lenOf_adv s.g n tok
    simp only [step]
    unfold ageAll at this
    rw [this]
    exact h.w tok hc
  | refillG i =>
    simp only [step]
    cases hl : s.g.glob[i]? with
    | none => simpa [hl] using h
    | some l =>
      simp only [hl]
      obtain ⟨hg, hlen⟩ := refillG_spec c s.g i l h.g hl
      exact ⟨hg, fun tok hc => by rw [hlen tok hc]; exact h.w tok hc, h.t⟩
  | refillB sc k i =>
    simp only [step]
    obtain ⟨hg, hlen⟩ := refillB_spec c s.g sc k i h.g
    exact ⟨hg, fun tok hc => by rw [hlen tok hc]; exact h.w tok hc, h.t⟩

end MaddyVerif.Limits
