import MaddyVerif.Lemmas.LimitsOps
/-! C11: specification of `execRel` / `execAcq` per operation. -/
namespace MaddyVerif.Limits

@[simp] theorem bk_glob (g : Group) (gl : List LimSt) (sc : Sc) : ({ g with glob := gl } : Group).bk sc = g.bk sc := by
  cases sc <;> rfl

theorem GInv.setGlob (c : Cfg) (g : Group) (gl : List LimSt) (h : GInv c g) (hs : shaped c.all gl) :
    GInv c { g with glob := gl } :=
  ⟨hs, fun sc b hb => h.bk sc b (by simpa using hb), fun sc => by simpa using h.nodup sc⟩

theorem count_singleton (a b : Tok) : [a].count b = if a = b then 1 else 0 := by
  simp [List.count_cons]

theorem limLen_set (l : List LimSt) (i j : Nat) (x y : LimSt) (h : l[i]? = some x) :
    limLen (l.set i y)[j]? = if i = j then y.len else limLen l[j]? := by
  rw [List.getElem?_set]
  by_cases e : i = j
  · subst e
    have : i < l.length := by
      rcases Nat.lt_or_ge i l.length with h' | h'
      · exact h'
      · simp [List.getElem?_eq_none h'] at h
    simp [this, limLen]
  · simp [e]

theorem shaped_le (ctors : List Lim) (lims : List LimSt) (i : Nat) (l : LimSt) (hs : shaped ctors lims)
    (hl : lims[i]? = some l) : l.len ≤ l.cap := by
  obtain ⟨_, _, _, _, h⟩ := hs.2 i l hl
  exact h

/-! ### global limiters -/

theorem execRel_relG (c : Cfg) (g : Group) (i : Nat) (h : GInv c g) (hi : i < c.all.length)
    (hav : counted c (.g i) = true → 0 < lenOf g (.g i)) :
    ∃ g', execRel g (.relG i) = some g' ∧ GInv c g' ∧
      ∀ tok, counted c tok = true → lenOf g' tok + [Tok.g i].count tok = lenOf g tok := by
  obtain ⟨l, hl⟩ := shaped_lt _ _ i h.glob hi
  have hreal := realSem_iff c.all g.glob i l h.glob hl
  have hpos : l.real → 0 < l.len := fun hr => by
    have := hav (by simpa [counted] using hreal.2 hr)
    simpa [lenOf, hl, limLen] using this
  obtain ⟨l', hl'⟩ := release_some l hpos
  obtain ⟨hk, hc, hle, hlen⟩ := release_spec l l' (shaped_le _ _ i l h.glob hl) hl'
  refine ⟨{ g with glob := g.glob.set i l' }, by simp [execRel, hl, hl'],
    GInv.setGlob c g _ h (shaped_set _ _ i l l' h.glob hl hk hc hle), ?_⟩
  intro tok hct
  rw [lenOf_glob]
  cases tok with
  | g j =>
    simp only [limLen_set _ i j l l' hl, count_singleton]
    by_cases e : i = j
    · subst e
      have := hlen (hreal.1 (by simpa [counted] using hct))
      simp [lenOf, hl, limLen]; omega
    · have : ¬ Tok.g i = Tok.g j := by simp [e]
      simp [e, this, lenOf]
  | b sc k i' => simp [count_singleton]
  | use sc k => simp [count_singleton]

inductive AcqSpec (c : Cfg) (g : Group) (op : MOp) : AcqRes → Prop
  | ok (g' : Group) (hg : GInv c g')
      (hl : ∀ tok, counted c tok = true → lenOf g' tok = lenOf g tok + (op.toks c).count tok) : AcqSpec c g op (.ok g')
  | blocked : AcqSpec c g op .blocked
  | full (g' : Group) (hg : GInv c g')
      (hl : ∀ tok, counted c tok = true → lenOf g' tok = lenOf g tok) : AcqSpec c g op (.full g')

theorem execAcq_acqG (c : Cfg) (g : Group) (i : Nat) (h : GInv c g) (hi : i < c.all.length) :
    AcqSpec c g (.acqG i) (execAcq c g (.acqG i)) := by
  obtain ⟨l, hl⟩ := shaped_lt _ _ i h.glob hi
  have hreal := realSem_iff c.all g.glob i l h.glob hl
  simp only [execAcq, hl]
  cases ht : l.take with
  | none => exact .blocked
  | some l' =>
    obtain ⟨hk, hc, hle, hlen⟩ := take_spec l l' (shaped_le _ _ i l h.glob hl) ht
    refine .ok _ (GInv.setGlob c g _ h (shaped_set _ _ i l l' h.glob hl hk hc hle)) ?_
    intro tok hct
    rw [lenOf_glob]
    cases tok with
    | g j =>
      simp only [limLen_set _ i j l l' hl, MOp.toks, count_singleton]
      by_cases e : i = j
      · subst e
        have := hlen (hreal.1 (by simpa [counted] using hct))
        simp [lenOf, hl, limLen]; omega
      · have : ¬ Tok.g i = Tok.g j := by simp [e]
        simp [e, this, lenOf]
    | b sc k i' => simp [MOp.toks, count_singleton]
    | use sc k => simp [MOp.toks, count_singleton]


/-! ### one bucket updated in place -/

theorem upd_spec (c : Cfg) (g : Group) (sc : Sc) (k : Nat) (f : Bucket → Bucket) (bk : Bucket)
    (h : GInv c g) (hb : findB (g.bk sc) k = some bk) (hf : ∀ b, (f b).key = b.key)
    (hs : shaped (c.ctors sc) (f bk).lims) :
    GInv c (g.setBk sc (updB (g.bk sc) k f)) ∧
    ∀ tok, lenOf (g.setBk sc (updB (g.bk sc) k f)) tok = match tok with
      | .g j => lenOf g (.g j)
      | .b sc' k' i => if sc' = sc ∧ k' = k then limLen (f bk).lims[i]? else lenOf g (.b sc' k' i)
      | .use sc' k' => if sc' = sc ∧ k' = k then (f bk).users else lenOf g (.use sc' k') := by
  constructor
  · apply GInv.setBk c g sc _ h
    · intro b hb'
      unfold updB at hb'
      simp at hb'
      obtain ⟨b0, hb0, rfl⟩ := hb'
      by_cases e : b0.key = k
      · have h1 := findB_of_mem (g.bk sc) b0 (h.nodup sc) hb0
        rw [e, hb] at h1
        simp at h1
        subst h1
        simpa [e] using hs
      · simpa [e] using h.bk sc b0 hb0
    · rw [keys_updB _ _ _ hf]; exact h.nodup sc
  · intro tok
    rw [lenOf_setBk]
    cases tok with
    | g j => rfl
    | b sc' k' i =>
      by_cases e1 : sc' = sc
      · subst e1
        by_cases e2 : k' = k
        · subst e2; simp [findB_updB_same _ _ f bk hf hb, bLen]
        · simp [e2, findB_updB_ne _ _ _ f hf e2, lenOf]
      · simp [e1]
    | use sc' k' =>
      by_cases e1 : sc' = sc
      · subst e1
        by_cases e2 : k' = k
        · subst e2; simp [findB_updB_same _ _ f bk hf hb, bUsers]
        · simp [e2, findB_updB_ne _ _ _ f hf e2, lenOf]
      · simp [e1]

theorem lenOf_b_of_find (g : Group) (sc : Sc) (k i : Nat) (bk : Bucket) (hb : findB (g.bk sc) k = some bk) :
    lenOf g (.b sc k i) = limLen bk.lims[i]? := by simp [lenOf, hb, bLen]

theorem lenOf_use_of_find (g : Group) (sc : Sc) (k : Nat) (bk : Bucket) (hb : findB (g.bk sc) k = some bk) :
    lenOf g (.use sc k) = bk.users := by simp [lenOf, hb, bUsers]

theorem find_of_use_pos (g : Group) (sc : Sc) (k : Nat) (h : 0 < lenOf g (.use sc k)) :
    ∃ bk, findB (g.bk sc) k = some bk := by
  cases hb : findB (g.bk sc) k with
  | none => simp [lenOf, hb, bUsers] at h
  | some bk => exact ⟨bk, rfl⟩

theorem execRel_relB (c : Cfg) (g : Group) (sc : Sc) (k i : Nat) (h : GInv c g) (hi : i < (c.ctors sc).length)
    (huse : 0 < lenOf g (.use sc k))
    (hav : counted c (.b sc k i) = true → 0 < lenOf g (.b sc k i)) :
    ∃ g', execRel g (.relB sc k i) = some g' ∧ GInv c g' ∧
      ∀ tok, counted c tok = true → lenOf g' tok + [Tok.b sc k i].count tok = lenOf g tok := by
  obtain ⟨bk, hb⟩ := find_of_use_pos g sc k huse
  have hbs := h.bk sc bk (findB_some _ _ _ hb).1
  obtain ⟨l, hl⟩ := shaped_lt _ _ i hbs hi
  have hreal := realSem_iff _ _ i l hbs hl
  have hpos : l.real → 0 < l.len := fun hr => by
    have := hav (by simpa [counted] using hreal.2 hr)
    simpa [lenOf_b_of_find g sc k i bk hb, hl, limLen] using this
  obtain ⟨l', hl'⟩ := release_some l hpos
  obtain ⟨hk, hc, hle, hlen⟩ := release_spec l l' (shaped_le _ _ i l hbs hl) hl'
  obtain ⟨hg, hlen'⟩ := upd_spec c g sc k (fun b => { b with lims := b.lims.set i l' }) bk h hb (fun _ => rfl)
    (shaped_set _ _ i l l' hbs hl hk hc hle)
  refine ⟨_, by simp [execRel, hb, hl, hl'], hg, ?_⟩
  intro tok hct
  rw [hlen']
  cases tok with
  | g j => simp [count_singleton]
  | use sc' k' =>
    simp only [count_singleton]
    by_cases e : sc' = sc ∧ k' = k
    · obtain ⟨rfl, rfl⟩ := e; simp [lenOf_use_of_find g _ _ bk hb]
    · simp [e]
  | b sc' k' i' =>
    simp only [count_singleton, limLen_set _ i i' l l' hl]
    by_cases e : sc' = sc ∧ k' = k
    · obtain ⟨rfl, rfl⟩ := e
      simp only [true_and, if_true, lenOf_b_of_find g _ _ i' bk hb]
      by_cases e' : i = i'
      · subst e'
        have := hlen (hreal.1 (by simpa [counted] using hct))
        simp [hl, limLen]; omega
      · have : ¬ Tok.b sc' k' i = Tok.b sc' k' i' := by simp [e']
        simp [e', this]
    · have : ¬ Tok.b sc k i = Tok.b sc' k' i' := by
        intro hh; injection hh with a b c; exact e ⟨a.symm, b.symm⟩
      simp [e, this]

theorem execAcq_acqB (c : Cfg) (g : Group) (sc : Sc) (k i : Nat) (h : GInv c g) (hi : i < (c.ctors sc).length)
    (huse : 0 < lenOf g (.use sc k)) :
    AcqSpec c g (.acqB sc k i) (execAcq c g (.acqB sc k i)) := by
  obtain ⟨bk, hb⟩ := find_of_use_pos g sc k huse
  have hbs := h.bk sc bk (findB_some _ _ _ hb).1
  obtain ⟨l, hl⟩ := shaped_lt _ _ i hbs hi
  have hreal := realSem_iff _ _ i l hbs hl
  simp only [execAcq, hb, hl]
  cases ht : l.take with
  | none => exact .blocked
  | some l' =>
    obtain ⟨hk, hc, hle, hlen⟩ := take_spec l l' (shaped_le _ _ i l hbs hl) ht
    obtain ⟨hg, hlen'⟩ := upd_spec c g sc k (fun b => { b with lims := b.lims.set i l' }) bk h hb (fun _ => rfl)
      (shaped_set _ _ i l l' hbs hl hk hc hle)
    refine .ok _ hg ?_
    intro tok hct
    rw [hlen']
    cases tok with
    | g j => simp [MOp.toks, count_singleton]
    | use sc' k' =>
      simp only [MOp.toks, count_singleton]
      by_cases e : sc' = sc ∧ k' = k
      · obtain ⟨rfl, rfl⟩ := e; simp [lenOf_use_of_find g _ _ bk hb]
      · simp [e]
    | b sc' k' i' =>
      simp only [MOp.toks, count_singleton, limLen_set _ i i' l l' hl]
      by_cases e : sc' = sc ∧ k' = k
      · obtain ⟨rfl, rfl⟩ := e
        simp only [true_and, if_true, lenOf_b_of_find g _ _ i' bk hb]
        by_cases e' : i = i'
        · subst e'
          have := hlen (hreal.1 (by simpa [counted] using hct))
          simp [hl, limLen]; omega
        · have : ¬ Tok.b sc' k' i = Tok.b sc' k' i' := by simp [e']
          simp [e', this]
      · have : ¬ Tok.b sc k i = Tok.b sc' k' i' := by
          intro hh; injection hh with a b c; exact e ⟨a.symm, b.symm⟩
        simp [e, this]


/-! ### untake, BucketSet.Release -/

theorem execRel_untake (c : Cfg) (g : Group) (sc : Sc) (k : Nat) (h : GInv c g)
    (huse : 0 < lenOf g (.use sc k)) :
    ∃ g', execRel g (.untake sc k) = some g' ∧ GInv c g' ∧
      ∀ tok, counted c tok = true → lenOf g' tok + [Tok.use sc k].count tok = lenOf g tok := by
  obtain ⟨bk, hb⟩ := find_of_use_pos g sc k huse
  have hbs := h.bk sc bk (findB_some _ _ _ hb).1
  obtain ⟨hg, hlen'⟩ := upd_spec c g sc k (fun b => { b with users := b.users - 1 }) bk h hb (fun _ => rfl) hbs
  refine ⟨_, by simp [execRel], hg, ?_⟩
  intro tok _
  rw [hlen']
  have hu := lenOf_use_of_find g sc k bk hb
  cases tok with
  | g j => simp [count_singleton]
  | b sc' k' i' =>
    simp only [count_singleton]
    by_cases e : sc' = sc ∧ k' = k
    · obtain ⟨rfl, rfl⟩ := e; simp [lenOf_b_of_find g _ _ i' bk hb]
    · simp [e]
  | use sc' k' =>
    simp only [count_singleton]
    by_cases e : sc' = sc ∧ k' = k
    · obtain ⟨rfl, rfl⟩ := e; simp; omega
    · have : ¬ Tok.use sc k = Tok.use sc' k' := by
        intro hh; injection hh with a b; exact e ⟨a.symm, b.symm⟩
      simp [e, this]

theorem relLims_spec (lims : List LimSt) (h : ∀ l ∈ lims, l.real → 0 < l.len) :
    ∃ ls, relLims lims = some ls ∧ ls.length = lims.length ∧
      ∀ (i : Nat) (l : LimSt), lims[i]? = some l → ∃ l', ls[i]? = some l' ∧ l.release = some l' := by
  induction lims with
  | nil => exact ⟨[], rfl, rfl, by simp⟩
  | cons a lims ih =>
    obtain ⟨a', ha'⟩ := release_some a (h a (by simp))
    obtain ⟨ls, h1, h2, h3⟩ := ih (fun l hl => h l (by simp [hl]))
    refine ⟨a' :: ls, by simp [relLims, ha', h1], by simp [h2], ?_⟩
    intro i l hl
    cases i with
    | zero => simp at hl; subst hl; exact ⟨a', by simp, ha'⟩
    | succ i => simp at hl; simpa using h3 i l hl

theorem count_range_b (sc sc' : Sc) (k k' i n : Nat) :
    ((List.range n).map (Tok.b sc k)).count (Tok.b sc' k' i) = if sc = sc' ∧ k = k' ∧ i < n then 1 else 0 := by
  induction n with
  | zero => simp
  | succ n ih =>
    rw [List.range_succ, List.map_append, List.count_append, ih]
    simp only [List.map_cons, List.map_nil, count_singleton]
    by_cases e : sc = sc' ∧ k = k'
    · obtain ⟨rfl, rfl⟩ := e
      by_cases e1 : i < n
      · have : ¬ n = i := by omega
        simp [e1, this]; omega
      · by_cases e2 : n = i
        · subst e2; simp
        · have : ¬ i < n + 1 := by omega
          simp [e1, e2, this]
    · have : ¬ Tok.b sc k n = Tok.b sc' k' i := by
        intro hh; injection hh with a b c; exact e ⟨a, b⟩
      have e' : ¬ (sc = sc' ∧ k = k' ∧ i < n) := fun hh => e ⟨hh.1, hh.2.1⟩
      have e'' : ¬ (sc = sc' ∧ k = k' ∧ i < n + 1) := fun hh => e ⟨hh.1, hh.2.1⟩
      simp [this, e', e'']

theorem count_range_b_use (sc sc' : Sc) (k k' n : Nat) :
    ((List.range n).map (Tok.b sc k)).count (Tok.use sc' k') = 0 := by
  rw [List.count_eq_zero]; simp

theorem count_range_b_g (sc : Sc) (k j n : Nat) :
    ((List.range n).map (Tok.b sc k)).count (Tok.g j) = 0 := by
  rw [List.count_eq_zero]; simp

theorem execRel_bsRel (c : Cfg) (g : Group) (sc : Sc) (k : Nat) (h : GInv c g)
    (huse : 0 < lenOf g (.use sc k))
    (hav : ∀ i, counted c (.b sc k i) = true → 0 < lenOf g (.b sc k i)) :
    ∃ g', execRel g (.bsRel sc k) = some g' ∧ GInv c g' ∧
      ∀ tok, counted c tok = true → lenOf g' tok + ((MOp.bsRel sc k).toks c).count tok = lenOf g tok := by
  obtain ⟨bk, hb⟩ := find_of_use_pos g sc k huse
  have hbs := h.bk sc bk (findB_some _ _ _ hb).1
  have hpos : ∀ l ∈ bk.lims, l.real → 0 < l.len := by
    intro l hl hr
    obtain ⟨i, hi, rfl⟩ := List.mem_iff_getElem.1 hl
    have hli : bk.lims[i]? = some bk.lims[i] := by simp [hi]
    have hreal := realSem_iff _ _ i _ hbs hli
    have := hav i (by simpa [counted] using hreal.2 hr)
    simpa [lenOf_b_of_find g sc k i bk hb, hli, limLen] using this
  obtain ⟨ls, hls, hlen, hpt⟩ := relLims_spec bk.lims hpos
  have hshape : shaped (c.ctors sc) ls := by
    refine ⟨by rw [hlen, hbs.1], ?_⟩
    intro i l' hl'
    have hi : i < bk.lims.length := by
      rcases Nat.lt_or_ge i ls.length with h' | h'
      · omega
      · simp [List.getElem?_eq_none h'] at hl'
    have hli : bk.lims[i]? = some bk.lims[i] := by simp [hi]
    obtain ⟨l'', h1, h2⟩ := hpt i _ hli
    rw [hl'] at h1; simp at h1; subst h1
    obtain ⟨ct, c1, c2, c3, c4⟩ := hbs.2 i _ hli
    obtain ⟨r1, r2, r3, _⟩ := release_spec _ _ c4 h2
    exact ⟨ct, c1, by rw [r1, c2], by rw [r2, c3], r3⟩
  obtain ⟨hg, hlen'⟩ := upd_spec c g sc k (fun b => { b with lims := ls, users := b.users - 1 }) bk h hb
    (fun _ => rfl) hshape
  refine ⟨_, by simp [execRel, hb, hls], hg, ?_⟩
  intro tok hct
  rw [hlen']
  have hu := lenOf_use_of_find g sc k bk hb
  cases tok with
  | g j => simp [MOp.toks, List.count_cons, count_range_b_g]
  | use sc' k' =>
    simp only [MOp.toks, List.count_cons, count_range_b_use]
    by_cases e : sc' = sc ∧ k' = k
    · obtain ⟨rfl, rfl⟩ := e; simp; omega
    · have : ¬ Tok.use sc k = Tok.use sc' k' := by
        intro hh; injection hh with a b; exact e ⟨a.symm, b.symm⟩
      simp [e, this]
  | b sc' k' i =>
    simp only [MOp.toks, List.count_cons, count_range_b]
    by_cases e : sc' = sc ∧ k' = k
    · obtain ⟨rfl, rfl⟩ := e
      simp only [true_and, if_true, lenOf_b_of_find g _ _ i bk hb]
      simp only [counted] at hct
      have hi : i < (c.ctors sc').length := by
        rcases Nat.lt_or_ge i (c.ctors sc').length with h' | h'
        · exact h'
        · simp [List.getElem?_eq_none h', realSem] at hct
      obtain ⟨l, hl⟩ := shaped_lt _ _ i hbs hi
      obtain ⟨l', h1, h2⟩ := hpt i l hl
      have hreal := realSem_iff _ _ i l hbs hl
      obtain ⟨_, _, _, r4⟩ := release_spec _ _ (shaped_le _ _ i l hbs hl) h2
      have := r4 (hreal.1 hct)
      simp [h1, hl, limLen, hi]; omega
    · have e' : ¬ (sc = sc' ∧ k = k' ∧ i < (c.ctors sc).length) := fun hh => e ⟨hh.1.symm, hh.2.1.symm⟩
      simp [e, e']

end MaddyVerif.Limits
