import MaddyVerif.Model.Pool
/-! Helper lemmas for C19: conservation of connections (every connection is at exactly one place). -/
namespace MaddyVerif.C19
open MaddyVerif.Pool

/-! ## Where a connection is (derived, never stored) -/

def Task.conns (t : Task) : List ConnId := t.pc.conns ++ t.held.map (·.1)

def chanCnt (chans : List Chan) (c : ConnId) : Nat := (chans.map (fun ch => ch.buf.count c)).sum
def taskCnt (tasks : List Task) (c : ConnId) : Nat := (tasks.map (fun t => (Task.conns t).count c)).sum

/-- number of places connection `c` is at: idle in a bucket, carried or held by a goroutine, closed
(once per `Close()` call), dropped -/
def cnt (s : St) (c : ConnId) : Nat :=
  chanCnt s.chans c + taskCnt s.tasks c + s.closed.count c + s.leaked.count c

def CntInv (s : St) : Prop := ∀ c, cnt s c = if c < s.fresh then 1 else 0

theorem chanCnt_append (a b : List Chan) (c : ConnId) : chanCnt (a ++ b) c = chanCnt a c + chanCnt b c := by
  simp [chanCnt]

theorem taskCnt_append (a b : List Task) (c : ConnId) : taskCnt (a ++ b) c = taskCnt a c + taskCnt b c := by
  simp [taskCnt]

theorem chanCnt_set (chans : List Chan) (h : Nat) (ch ch' : Chan) (c : ConnId)
    (hh : chans[h]? = some ch) :
    chanCnt (chans.set h ch') c + ch.buf.count c = chanCnt chans c + ch'.buf.count c := by
  induction chans generalizing h with
  | nil => simp at hh
  | cons a l ih =>
    cases h with
    | zero =>
      simp at hh; subst hh
      simp [chanCnt]; omega
    | succ n =>
      simp at hh
      have := ih n hh
      simp [chanCnt] at this ⊢; omega

theorem taskCnt_set (tasks : List Task) (i : Nat) (t t' : Task) (c : ConnId)
    (hh : tasks[i]? = some t) :
    taskCnt (tasks.set i t') c + (Task.conns t).count c = taskCnt tasks c + (Task.conns t').count c := by
  induction tasks generalizing i with
  | nil => simp at hh
  | cons a l ih =>
    cases i with
    | zero =>
      simp at hh; subst hh
      simp [taskCnt]; omega
    | succ n =>
      simp at hh
      have := ih n hh
      simp [taskCnt] at this ⊢; omega


/-- sum over all entries except entry `i` -/
def chanCntX (chans : List Chan) (i : Nat) (c : ConnId) : Nat := chanCnt (chans.eraseIdx i) c
def taskCntX (tasks : List Task) (i : Nat) (c : ConnId) : Nat := taskCnt (tasks.eraseIdx i) c

theorem chanCnt_split (chans : List Chan) (h : Nat) (ch : Chan) (c : ConnId) (hh : chans[h]? = some ch) :
    chanCnt chans c = chanCntX chans h c + ch.buf.count c := by
  induction chans generalizing h with
  | nil => simp at hh
  | cons a l ih =>
    cases h with
    | zero => simp at hh; subst hh; simp [chanCnt, chanCntX]; omega
    | succ n =>
      simp at hh
      have := ih n hh
      simp [chanCnt, chanCntX] at this ⊢; omega

theorem chanCnt_set' (chans : List Chan) (h : Nat) (ch' : Chan) (c : ConnId) (hh : h < chans.length) :
    chanCnt (chans.set h ch') c = chanCntX chans h c + ch'.buf.count c := by
  induction chans generalizing h with
  | nil => simp at hh
  | cons a l ih =>
    cases h with
    | zero => simp [chanCnt, chanCntX]; omega
    | succ n =>
      simp at hh
      have := ih n hh
      simp [chanCnt, chanCntX] at this ⊢; omega

theorem taskCnt_split (tasks : List Task) (i : Nat) (t : Task) (c : ConnId) (hh : tasks[i]? = some t) :
    taskCnt tasks c = taskCntX tasks i c + (Task.conns t).count c := by
  induction tasks generalizing i with
  | nil => simp at hh
  | cons a l ih =>
    cases i with
    | zero => simp at hh; subst hh; simp [taskCnt, taskCntX]; omega
    | succ n =>
      simp at hh
      have := ih n hh
      simp [taskCnt, taskCntX] at this ⊢; omega

theorem taskCnt_set' (tasks : List Task) (i : Nat) (t' : Task) (c : ConnId) (hh : i < tasks.length) :
    taskCnt (tasks.set i t') c = taskCntX tasks i c + (Task.conns t').count c := by
  induction tasks generalizing i with
  | nil => simp at hh
  | cons a l ih =>
    cases i with
    | zero => simp [taskCnt, taskCntX]; omega
    | succ n =>
      simp at hh
      have := ih n hh
      simp [taskCnt, taskCntX] at this ⊢; omega

theorem lt_of_getElem? {α} {l : List α} {i : Nat} {a : α} (h : l[i]? = some a) : i < l.length := by
  have := List.getElem?_eq_some_iff.mp h
  exact this.1

/-! ### effect of the model's helpers on the count -/

theorem recv_conn {s s1 : St} {h : ChanId} {c' : ConnId} (hr : recv s h = .conn c' s1) :
    ∃ ch rest, s.chans[h]? = some ch ∧ ch.buf = c' :: rest ∧
      s1 = { s with chans := s.chans.set h { ch with buf := rest } } := by
  unfold recv at hr
  split at hr
  · simp at hr
  · rename_i ch hch
    split at hr
    · rename_i c rest hb
      simp at hr
      exact ⟨ch, rest, hch, by rw [hb, hr.1], hr.2.symm⟩
    · split at hr <;> simp at hr

theorem closeChan_some {s s1 : St} {h : ChanId} (hr : closeChan s h = some s1) :
    ∃ ch, s.chans[h]? = some ch ∧ ch.closed = false ∧
      s1 = { s with chans := s.chans.set h { ch with closed := true } } := by
  unfold closeChan at hr
  split at hr
  · rename_i ch hch
    split at hr
    · simp at hr
    · rename_i hcl
      simp at hr
      exact ⟨ch, hch, by simpa using hcl, hr.symm⟩
  · simp at hr

theorem taskCnt_one (t : Task) (c : ConnId) : taskCnt [t] c = (Task.conns t).count c := by simp [taskCnt]
theorem chanCnt_one (ch : Chan) (c : ConnId) : chanCnt [ch] c = ch.buf.count c := by simp [chanCnt]

set_option hygiene false in
macro "cnt_norm" : tactic => `(tactic|
  simp only [cnt, setTask, spawnCloser, miss, mkBucket, Pool.panic, taskCnt_append, chanCnt_append, taskCnt_set', chanCnt_set',
        taskCnt_one, chanCnt_one, List.length_set,
        Task.conns, Pc.conns, List.count_cons, List.count_append, List.count_nil, List.map_cons, List.map_nil, List.map_append,
        Bool.false_eq_true, beq_self_eq_true, true_and, and_true, and_self, and_false, false_and, Nat.lt_irrefl, Nat.le_refl, Nat.lt_add_one, Nat.le_add_right, ↓reduceIte, *])
set_option hygiene false in
macro "cnt_recv" : tactic => `(tactic| (
  obtain ⟨ch, rest, hch, hbuf, rfl⟩ := recv_conn ‹recv _ _ = _›
  have hhl := lt_of_getElem? hch
  have hcs := fun c => chanCnt_split _ _ _ c hch))
set_option hygiene false in
macro "cnt_close" : tactic => `(tactic| (
  obtain ⟨ch, hch, hopen, rfl⟩ := closeChan_some ‹closeChan _ _ = _›
  have hhl := lt_of_getElem? hch
  have hcs := fun c => chanCnt_split _ _ _ c hch))
set_option hygiene false in
macro "cnt_chan" : tactic => `(tactic| (
  have hch := ‹s.chans[_]? = some _›
  have hhl := lt_of_getElem? hch
  have hcs := fun c => chanCnt_split _ _ _ c hch))
set_option hygiene false in
macro "cnt_case" : tactic => `(tactic| (
  simp only [stepTask] at hstep
  repeat' split at hstep
  all_goals (try (simp only [Option.some.injEq, reduceCtorEq] at hstep))
  all_goals (try subst hstep)
  all_goals (try cnt_recv)
  all_goals (try cnt_close)
  all_goals (try cnt_chan)
  all_goals (try cnt_norm)
  all_goals (first | omega | skip)))

/-- Conservation: a step of a goroutine moves connections around but never duplicates or loses one; the
only new connection is the one `cfg.New` creates. -/
theorem cnt_stepTask {s s' : St} {i p : Nat} {t : Task} (ht : s.tasks[i]? = some t)
    (hstep : stepTask s i t p = some s') (c : Nat) :
    cnt s' c = cnt s c + (if s.fresh ≤ c ∧ c < s'.fresh then 1 else 0) ∧
      s.fresh ≤ s'.fresh ∧ s'.fresh ≤ s.fresh + 1 := by
  have hi := lt_of_getElem? ht
  obtain ⟨pc, prog, held⟩ := t
  by_cases hfc : s.fresh = c
  · subst hfc
    have hsplit := fun c => taskCnt_split s.tasks i _ c ht
    cases pc
    case done => simp [stepTask] at hstep
    case panicked => simp [stepTask] at hstep
    case idle => cnt_case
    case wClose => cnt_case
    case kClose => cnt_case
    case gLock => cnt_case
    case gDropClose => cnt_case
    case gDrain => cnt_case
    case gSel => cnt_case
    case gUsable => cnt_case
    case rLock => cnt_case
    case rIter => cnt_case
    case rClose => cnt_case
    case rDrain => cnt_case
    case rDrainClose => cnt_case
    case rSel => cnt_case
    case cLock => cnt_case
    case cIter => cnt_case
    case cClose => cnt_case
    case cDrain => cnt_case
    case sStop => cnt_case
    case sLock => cnt_case
    case sIter => cnt_case
    case sClose => cnt_case
    case sDrain => cnt_case
    case sDrainClose => cnt_case
  · have hfb : (s.fresh == c) = false := by simp [hfc]
    have h1 : ¬(s.fresh ≤ c ∧ c < s.fresh) := by intro h; omega
    have h2 : ¬(s.fresh ≤ c ∧ c < s.fresh + 1) := by intro h; omega
    have hsplit := fun c => taskCnt_split s.tasks i _ c ht
    cases pc
    case done => simp [stepTask] at hstep
    case panicked => simp [stepTask] at hstep
    case idle => cnt_case
    case wClose => cnt_case
    case kClose => cnt_case
    case gLock => cnt_case
    case gDropClose => cnt_case
    case gDrain => cnt_case
    case gSel => cnt_case
    case gUsable => cnt_case
    case rLock => cnt_case
    case rIter => cnt_case
    case rClose => cnt_case
    case rDrain => cnt_case
    case rDrainClose => cnt_case
    case rSel => cnt_case
    case cLock => cnt_case
    case cIter => cnt_case
    case cClose => cnt_case
    case cDrain => cnt_case
    case sStop => cnt_case
    case sLock => cnt_case
    case sIter => cnt_case
    case sClose => cnt_case
    case sDrain => cnt_case
    case sDrainClose => cnt_case

/-- every connection that exists is at exactly one place; connections that do not exist yet are nowhere -/
def OnePlace (s : St) : Prop := ∀ c : Nat, (c < s.fresh → cnt s c = 1) ∧ (s.fresh ≤ c → cnt s c = 0)

theorem onePlace_step {s s' : St} {w : Who} (hinv : OnePlace s) (hstep : step s w = some s') : OnePlace s' := by
  cases w with
  | task i p =>
    simp only [step] at hstep
    split at hstep
    · simp at hstep
    · rename_i t ht
      intro c
      have h := cnt_stepTask ht hstep c
      have hc := hinv c
      obtain ⟨h1, h2, h3⟩ := h
      constructor
      · intro hlt
        by_cases hf : c < s.fresh
        · have : ¬(s.fresh ≤ c ∧ c < s'.fresh) := by intro h; omega
          simp only [this, ↓reduceIte] at h1
          have := hc.1 hf
          omega
        · have : (s.fresh ≤ c ∧ c < s'.fresh) := by omega
          simp only [this, and_self, ↓reduceIte] at h1
          have := hc.2 (by omega)
          omega
      · intro hge
        have : ¬(s.fresh ≤ c ∧ c < s'.fresh) := by intro h; omega
        simp only [this, ↓reduceIte] at h1
        have := hc.2 (by omega)
        omega
  | tick d =>
    simp only [step, Option.some.injEq] at hstep
    subst hstep
    exact hinv
  | brk c =>
    simp only [step] at hstep
    split at hstep
    · simp only [Option.some.injEq] at hstep
      subst hstep
      exact hinv
    · simp at hstep
  | cancel i =>
    simp only [step, Option.some.injEq] at hstep
    subst hstep
    exact hinv

theorem onePlace_next {s : St} (w : Who) (hinv : OnePlace s) : OnePlace (next s w) := by
  unfold next
  cases h : step s w with
  | none => simpa using hinv
  | some s' => simpa using onePlace_step hinv h

theorem onePlace_run {s : St} (ws : List Who) (hinv : OnePlace s) : OnePlace (run s ws) := by
  induction ws generalizing s with
  | nil => exact hinv
  | cons w ws ih => exact ih (onePlace_next w hinv)

theorem taskCnt_cons (t : Task) (ts : List Task) (c : Nat) :
    taskCnt (t :: ts) c = (Task.conns t).count c + taskCnt ts c := by simp [taskCnt]

theorem taskCnt_init (progs : List (List Op)) (c : Nat) :
    taskCnt (progs.map (fun p => ({ pc := .idle, prog := p, held := [] } : Task))) c = 0 := by
  induction progs with
  | nil => rfl
  | cons p ps ih =>
    rw [List.map_cons, taskCnt_cons, ih]
    simp [Task.conns, Pc.conns]

theorem onePlace_init (cfg : Cfg) (progs : List (List Op)) : OnePlace (init cfg progs) := by
  intro c
  simp [init, cnt, chanCnt, taskCnt_init]


end MaddyVerif.C19
