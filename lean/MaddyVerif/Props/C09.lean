import MaddyVerif.Model.StatusKeys
/-!
# C09 — per-recipient results name exactly the accepted recipients

Quantifier: all recipient lists, capability sets, per-stage failures and all histories of
transactions sharing the connection pool (any length, any pool contents).
-/
namespace MaddyVerif.C09
open MaddyVerif.StatusKeys

theorem keys_cons (d : Nat) (c : Conn) (rest : Conns) : keys ((d, c) :: rest) = c.rcpts ++ keys rest := by
  simp [keys]

/-- One `AddRcpt` adds exactly the given address to the status keys when it succeeds, nothing
otherwise — whatever connection the pool hands out. -/
theorem addTo_keys (utf8 : Bool) (r : Rcpt) (conns : Conns) (pool : Pool) (x : Nat) :
    (keys (addTo utf8 r conns pool).1).count x =
      (keys conns).count x + (if (addTo utf8 r conns pool).2.2 = true ∧ x = r.id then 1 else 0) := by
  induction conns generalizing pool with
  | nil =>
    simp only [addTo, Conn.mail, Conn.rcpt]
    by_cases h : (sendable utf8 r && r.accept) = true
    · simp [h, keys, List.count_cons]
      by_cases hx : r.id = x
      · simp [hx]
      · simp [hx]; intro h'; exact hx h'.symm
    · simp [h, keys]
  | cons e rest ih =>
    obtain ⟨d, c⟩ := e
    simp only [addTo]
    by_cases hd : (d == r.dom) = true
    · simp only [hd, ↓reduceIte, Conn.rcpt]
      by_cases h : (sendable utf8 r && r.accept) = true
      · simp [h, keys_cons, List.count_append, List.count_cons]
        by_cases hx : r.id = x
        · simp [hx]; omega
        · simp [hx]; intro h'; exact absurd h'.symm hx
      · simp [h, keys_cons]
    · simp only [hd, Bool.false_eq_true, ↓reduceIte]
      have h := ih pool
      simp only [keys_cons, List.count_append]
      rw [h]
      exact (Nat.add_assoc _ _ _).symm

/-- Invariant over all the AddRcpt calls of a transaction: status keys and accepted
recipients agree as multisets. -/
theorem addAll_keys (utf8 : Bool) (rs : List Rcpt) :
    ∀ (conns : Conns) (pool : Pool) (recips : List Nat),
      (∀ x, (keys conns).count x = recips.count x) →
      ∀ x, (keys (addAll utf8 (conns, pool, recips) rs).1.1).count x =
           ((addAll utf8 (conns, pool, recips) rs).1.2.2).count x := by
  induction rs with
  | nil => intro conns pool recips h x; simpa [addAll] using h x
  | cons r rest ih =>
    intro conns pool recips h x
    simp only [addAll]
    apply ih
    intro y
    rw [addTo_keys, h y]
    by_cases hok : (addTo utf8 r conns pool).2.2 = true
    · simp [hok, List.count_append, List.count_cons]
      by_cases hy : r.id = y
      · simp [hy]
      · simp [hy]; intro h'; exact hy h'.symm
    · simp [hok]

theorem addAll_recips (utf8 : Bool) (rs : List Rcpt) :
    ∀ (conns : Conns) (pool : Pool) (recips : List Nat),
      (addAll utf8 (conns, pool, recips) rs).1.2.2 =
        recips ++ (((addAll utf8 (conns, pool, recips) rs).2.filter (fun p => p.2)).map (fun p => p.1)) := by
  induction rs with
  | nil => intro conns pool recips; simp [addAll]
  | cons r rest ih =>
    intro conns pool recips
    simp only [addAll]
    rw [ih]
    by_cases hok : (addTo utf8 r conns pool).2.2 = true
    · simp [hok]
    · simp [hok]

theorem bodyStatuses_keys (conns : Conns) (f : Nat → Bool) :
    (bodyStatuses conns f).map (fun p => p.1) = keys conns := by
  induction conns with
  | nil => simp [bodyStatuses, keys]
  | cons e rest ih =>
    simp only [bodyStatuses, keys, List.flatMap_cons, List.map_append] at ih ⊢
    rw [ih]; simp [Function.comp_def]

/-- **C09 (remote target).** In every transaction of every history, whatever idle connections
the pool holds (connections reused from earlier transactions included), whatever the next hop
supports or refuses: the addresses under which `BodyNonAtomic` reports results are — counted with
multiplicity — exactly the addresses `AddRcpt` accepted in this transaction, as they were given. -/
theorem C09_status_keys_eq_accepted (utf8 : Bool) (pool : Pool) (tx : Tx) (x : Nat) :
    let o := (runTx utf8 pool tx).2
    (o.statuses.map (fun p => p.1)).count x =
      ((o.adds.filter (fun p => p.2)).map (fun p => p.1)).count x := by
  simp only [runTx]
  have hk := addAll_keys utf8 tx.rcpts [] pool [] (by intro y; simp [keys]) x
  have hr := addAll_recips utf8 tx.rcpts [] pool []
  simp only [List.nil_append] at hr
  split
  · rename_i hemp
    rw [← hr]
    simp at hemp
    simp [hemp]
  · rw [bodyStatuses_keys, hk, hr]

/-- The same for every transaction of a history sharing one pool. -/
theorem C09_history (utf8 : Bool) :
    ∀ (txs : List Tx) (pool : Pool), ∀ o ∈ runHistory utf8 pool txs, ∀ x,
      (o.statuses.map (fun p => p.1)).count x =
        ((o.adds.filter (fun p => p.2)).map (fun p => p.1)).count x := by
  intro txs
  induction txs with
  | nil => intro pool o ho; simp [runHistory] at ho
  | cons tx rest ih =>
    intro pool o ho x
    simp only [runHistory, List.mem_cons] at ho
    rcases ho with rfl | ho
    · exact C09_status_keys_eq_accepted utf8 pool tx x
    · exact ih _ o ho x

/-- **C09 (LMTP next hop).** Exactly one result per accepted recipient, in order, under the
address given — however many statuses the server managed to send. -/
theorem C09_lmtp_one_status_each (accepted : List Nat) (serverSt : List Bool) :
    (lmtpStatuses accepted serverSt).map (fun p => p.1) = accepted := by
  unfold lmtpStatuses
  simp only [List.map_append, List.map_map]
  have h1 : ((accepted.take (min serverSt.length accepted.length)).zip
      (serverSt.take (min serverSt.length accepted.length))).map (fun p => p.1) =
      accepted.take (min serverSt.length accepted.length) := by
    apply List.map_fst_zip
    simp [List.length_take]
  rw [h1]
  have h2 : (accepted.drop (min serverSt.length accepted.length)).map ((fun p : Nat × Bool => p.1) ∘ fun id => (id, false)) =
      accepted.drop (min serverSt.length accepted.length) := by
    simp [Function.comp_def]
  rw [h2, List.take_append_drop]

/-- A status the server did send is reported unchanged for the recipient at that position. -/
theorem C09_lmtp_status_value (accepted : List Nat) (serverSt : List Bool) (i : Nat)
    (hi : i < accepted.length) (hs : i < serverSt.length) :
    (lmtpStatuses accepted serverSt)[i]? = some (accepted[i], serverSt[i]) := by
  unfold lmtpStatuses
  have hk : i < min serverSt.length accepted.length := by omega
  rw [List.getElem?_append_left (by simp [List.length_zip, List.length_take]; omega)]
  simp [hk, hs]

/-- **C09 (pipeline).** A result for an effective recipient that was produced by rewriting is
reported under the client-supplied address recorded for it; unrewritten ones are unchanged. -/
theorem C09_pipeline_keys_are_client_addresses (orig : List (Nat × Nat)) (eff client : Nat)
    (h : orig.find? (fun e => e.1 == eff) = some (eff, client)) :
    translate orig eff = client := by simp [translate, h]

theorem C09_pipeline_unrewritten_unchanged (orig : List (Nat × Nat)) (eff : Nat)
    (h : ∀ e ∈ orig, e.1 ≠ eff) : translate orig eff = eff := by
  unfold translate
  have : orig.find? (fun e => e.1 == eff) = none := by
    rw [List.find?_eq_none]; intro e he; simpa using h e he
  simp [this]

/-- Known finding (not repaired — `OriginalRcpts` is a plain map, so the repair is not small): when
two client-supplied recipients (1 and 2) are rewritten to the same effective address (77), the
map keeps only the later one, both results are filed under recipient 2 and recipient 1 gets none. -/
theorem C09_alias_collision_counterexample :
    let orig : List (Nat × Nat) := [(77, 2), (77, 1)]   -- AddRcpt 1 wrote (77,1), AddRcpt 2 overwrote
    translate orig 77 = 2 ∧ translate orig 77 ≠ 1 := by decide

/-! ## non-vacuity -/
def demoTx : Tx := { rcpts := [⟨1, 0, false, false, true⟩, ⟨2, 0, true, true, true⟩, ⟨3, 1, true, false, true⟩, ⟨4, 1, false, false, false⟩],
                     dataFail := fun d => d == 1 }
example : ((runTx false [(0, { rcpts := [9, 9], errored := false })] demoTx).2.statuses) = [(1, true), (2, true)] := by decide
example : lmtpStatuses [5, 6, 7] [true] = [(5, true), (6, false), (7, false)] := by decide

end MaddyVerif.C09
