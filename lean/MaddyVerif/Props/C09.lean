import MaddyVerif.Model.StatusKeys
/-!
# C09 — per-recipient results name exactly the accepted recipients

Quantifier: all recipient lists, capability sets, per-stage failures and all histories of
transactions sharing the connection pool (any length, any pool contents).
-/
namespace MaddyVerif.C09
open MaddyVerif.StatusKeys

theorem keys_cons (d : Nat) (c : Conn) (rest : Conns) : keys ((d, c) :: rest) = c.rcpts ++ keys rest := by
  simp [keys]

/-- `C.Rcpt` appends the address as given exactly when it reports success — dead connection,
local refusal, refusal by the server or a connection fault under the command all leave the list
as it was. -/
theorem rcpt_spec (c : Conn) (utf8 : Bool) (r : Rcpt) :
    (c.rcpt utf8 r).1.rcpts = (if (c.rcpt utf8 r).2 = true then c.rcpts ++ [r.id] else c.rcpts) := by
  unfold Conn.rcpt
  by_cases h1 : (c.dead || !sendable utf8 r) = true
  · simp [h1]
  · by_cases h2 : r.fault = true
    · simp [h1, h2]
    · by_cases h3 : r.accept = true
      · simp [h1, h2, h3]
      · simp [h1, h2, h3]

theorem count_snoc_ite (l : List Nat) (b : Bool) (y x : Nat) :
    (if b = true then l ++ [y] else l).count x = l.count x + (if b = true ∧ x = y then 1 else 0) := by
  by_cases hb : b = true
  · by_cases hx : y = x
    · simp [hb, hx, List.count_append]
    · have hx' : ¬ x = y := fun h => hx h.symm
      simp [hb, hx', List.count_append, hx]
  · simp [hb]

/-- One `AddRcpt` adds exactly the given address to the status keys when it succeeds, nothing
otherwise — whatever connection the pool hands out, alive or not. -/
theorem addTo_keys (utf8 : Bool) (r : Rcpt) (conns : Conns) (pool : Pool) (x : Nat) :
    (keys (addTo utf8 r conns pool).1).count x =
      (keys conns).count x + (if (addTo utf8 r conns pool).2.2 = true ∧ x = r.id then 1 else 0) := by
  induction conns generalizing pool with
  | nil =>
    simp only [addTo, keys, List.flatMap_cons, List.flatMap_nil, List.append_nil]
    rw [rcpt_spec, count_snoc_ite]
    simp [Conn.mail]
    try rfl
  | cons e rest ih =>
    obtain ⟨d, c⟩ := e
    simp only [addTo]
    by_cases hd : (d == r.dom) = true
    · simp only [hd, ↓reduceIte, keys_cons, List.count_append]
      rw [rcpt_spec, count_snoc_ite]
      omega
    · simp only [hd, Bool.false_eq_true, ↓reduceIte]
      have h := ih pool
      simp only [keys_cons, List.count_append]
      rw [h]
      exact (Nat.add_assoc _ _ _).symm

/-- Invariant over all the AddRcpt calls of a transaction: status keys and accepted
recipients agree as multisets. -/
theorem addAll_keys (utf8 : Bool) (rs : List Rcpt) :
    ∀ (conns : Conns) (pool : Pool) (recips : List Nat),
      (∀ x, (keys conns).count x = recips.count x) →
      ∀ x, (keys (addAll utf8 (conns, pool, recips) rs).1.1).count x =
           ((addAll utf8 (conns, pool, recips) rs).1.2.2).count x := by
  induction rs with
  | nil => intro conns pool recips h x; simpa [addAll] using h x
  | cons r rest ih =>
    intro conns pool recips h x
    simp only [addAll]
    apply ih
    intro y
    rw [addTo_keys, h y]
    by_cases hok : (addTo utf8 r conns pool).2.2 = true
    · simp [hok, List.count_append, List.count_cons]
      by_cases hy : r.id = y
      · simp [hy]
      · simp [hy]; intro h'; exact hy h'.symm
    · simp [hok]

theorem addAll_recips (utf8 : Bool) (rs : List Rcpt) :
    ∀ (conns : Conns) (pool : Pool) (recips : List Nat),
      (addAll utf8 (conns, pool, recips) rs).1.2.2 =
        recips ++ (((addAll utf8 (conns, pool, recips) rs).2.filter (fun p => p.2)).map (fun p => p.1)) := by
  induction rs with
  | nil => intro conns pool recips; simp [addAll]
  | cons r rest ih =>
    intro conns pool recips
    simp only [addAll]
    rw [ih]
    by_cases hok : (addTo utf8 r conns pool).2.2 = true
    · simp [hok]
    · simp [hok]

theorem bodyStatuses_keys (conns : Conns) (f : Nat → Bool) :
    (bodyStatuses conns f).map (fun p => p.1) = keys conns := by
  induction conns with
  | nil => simp [bodyStatuses, keys]
  | cons e rest ih =>
    simp only [bodyStatuses, keys, List.flatMap_cons, List.map_append] at ih ⊢
    rw [ih]; simp [Function.comp_def]

/-- **C09 (remote target).** In every transaction of every history, whatever idle connections
the pool holds (connections reused from earlier transactions included), whatever the next hop
supports or refuses: the addresses under which `BodyNonAtomic` reports results are — counted with
multiplicity — exactly the addresses `AddRcpt` accepted in this transaction, as they were given. -/
theorem C09_status_keys_eq_accepted (utf8 : Bool) (pool : Pool) (tx : Tx) (x : Nat) :
    let o := (runTx utf8 pool tx).2
    (o.statuses.map (fun p => p.1)).count x =
      ((o.adds.filter (fun p => p.2)).map (fun p => p.1)).count x := by
  simp only [runTx]
  have hk := addAll_keys utf8 tx.rcpts [] pool [] (by intro y; simp [keys]) x
  have hr := addAll_recips utf8 tx.rcpts [] pool []
  simp only [List.nil_append] at hr
  split
  · rename_i hemp
    rw [← hr]
    simp at hemp
    simp [hemp]
  · split
    · rw [List.map_map]
      have hid : ((fun p : Nat × Bool => p.1) ∘ fun id => (id, false)) = id := by funext y; rfl
      rw [hid, List.map_id, ← hr]
    · rw [bodyStatuses_keys, hk, hr]

/-! ### ground truth at the next hop -/

/-- Client-side record and server-side record of a connection agree. -/
def Synced (conns : Conns) : Prop := ∀ e ∈ conns, e.2.rcpts = e.2.wire

theorem rcpt_synced (c : Conn) (utf8 : Bool) (r : Rcpt) (h : c.rcpts = c.wire) :
    (c.rcpt utf8 r).1.rcpts = (c.rcpt utf8 r).1.wire := by
  unfold Conn.rcpt
  by_cases h1 : (c.dead || !sendable utf8 r) = true
  · simp [h1, h]
  · by_cases h2 : r.fault = true
    · simp [h1, h2, h]
    · by_cases h3 : r.accept = true
      · simp [h1, h2, h3, h]
      · simp [h1, h2, h3, h]

theorem addTo_synced (utf8 : Bool) (r : Rcpt) (conns : Conns) (pool : Pool) (h : Synced conns) :
    Synced (addTo utf8 r conns pool).1 := by
  induction conns generalizing pool with
  | nil =>
    intro e he
    simp only [addTo, List.mem_singleton] at he
    subst he
    exact rcpt_synced _ utf8 r (by simp [Conn.mail])
  | cons e rest ih =>
    obtain ⟨d, c⟩ := e
    have hc : c.rcpts = c.wire := h (d, c) (by simp)
    have hrest : Synced rest := fun e he => h e (by simp [he])
    simp only [addTo]
    by_cases hd : (d == r.dom) = true
    · simp only [hd, ↓reduceIte]
      intro e he
      simp only [List.mem_cons] at he
      rcases he with rfl | he
      · exact rcpt_synced c utf8 r hc
      · exact hrest e he
    · simp only [hd, Bool.false_eq_true, ↓reduceIte]
      intro e he
      simp only [List.mem_cons] at he
      rcases he with rfl | he
      · exact hc
      · exact ih pool hrest e he

theorem addAll_synced (utf8 : Bool) (rs : List Rcpt) :
    ∀ (conns : Conns) (pool : Pool) (recips : List Nat), Synced conns →
      Synced (addAll utf8 (conns, pool, recips) rs).1.1 := by
  induction rs with
  | nil => intro conns pool recips h; simpa [addAll] using h
  | cons r rest ih =>
    intro conns pool recips h
    simp only [addAll]
    exact ih _ _ _ (addTo_synced utf8 r conns pool h)

theorem ok_status_delivered (conns : Conns) (f : Nat → Bool) (h : Synced conns) (id : Nat)
    (hm : (id, true) ∈ bodyStatuses conns f) : id ∈ delivered conns f := by
  simp only [bodyStatuses, List.mem_flatMap, List.mem_map, Prod.mk.injEq] at hm
  obtain ⟨e, he, y, hy, hyid, hok⟩ := hm
  simp only [delivered, List.mem_flatMap]
  refine ⟨e, he, ?_⟩
  rw [hok, ← h e he, ← hyid]
  simpa using hy

/-- **C09 (remote target, ground truth).** A recipient that is NOT reported as failed was really
handed to the next hop in a transaction whose end-of-data the next hop answered 250 — whatever
connections broke at whatever RCPT command (recipients accepted on a connection before it broke
are reported, and reported as failed). -/
theorem C09_ok_status_was_delivered (utf8 : Bool) (pool : Pool) (tx : Tx) (id : Nat) :
    let o := (runTx utf8 pool tx).2
    (id, true) ∈ o.statuses → id ∈ o.delivered := by
  simp only [runTx]
  have hs := addAll_synced utf8 tx.rcpts [] pool [] (by intro e he; simp at he)
  by_cases hemp : (addAll utf8 ([], pool, []) tx.rcpts).1.2.2.isEmpty = true
  · simp [hemp]
  · by_cases hq : tx.quarantine = true
    · simp [hemp, hq]
    · simp only [hemp, hq, Bool.false_eq_true, ↓reduceIte, Bool.or_self]
      intro h; exact ok_status_delivered _ _ hs id h

theorem count_map_pair (l : List Nat) (b : Bool) (id : Nat) :
    (l.map (fun x => (x, b))).count (id, true) = if b = true then l.count id else 0 := by
  induction l with
  | nil => simp
  | cons y r ih =>
    simp only [List.map_cons, List.count_cons, ih]
    cases b <;> simp

theorem ok_status_count_delivered (conns : Conns) (f : Nat → Bool) (h : Synced conns) (id : Nat) :
    (bodyStatuses conns f).count (id, true) = (delivered conns f).count id := by
  induction conns with
  | nil => simp [bodyStatuses, delivered]
  | cons e rest ih =>
    have he : e.2.rcpts = e.2.wire := h e (by simp)
    have hr : Synced rest := fun x hx => h x (by simp [hx])
    have ih' := ih hr
    simp only [bodyStatuses, delivered, List.flatMap_cons, List.count_append] at ih' ⊢
    rw [ih', count_map_pair, he]
    by_cases hb : (!e.2.dead && !f e.1) = true
    · simp [hb]
    · simp [hb]

/-- **C09 (remote target, ground truth, with multiplicity).** The same address may be accepted several
times in one transaction (exact duplicates — two aliases expanded to one mailbox): an address is
reported as delivered exactly as many times as the next hop holds it in transactions it answered 250,
so a duplicate is neither swallowed on the way out nor reported once too often. -/
theorem C09_ok_status_count_eq_delivered (utf8 : Bool) (pool : Pool) (tx : Tx) (id : Nat) :
    let o := (runTx utf8 pool tx).2
    o.statuses.count (id, true) = o.delivered.count id := by
  simp only [runTx]
  have hs := addAll_synced utf8 tx.rcpts [] pool [] (by intro e he; simp at he)
  by_cases hemp : (addAll utf8 ([], pool, []) tx.rcpts).1.2.2.isEmpty = true
  · simp [hemp]
  · by_cases hq : tx.quarantine = true
    · simp [hemp, hq, count_map_pair]
    · simp only [hemp, hq, Bool.false_eq_true, ↓reduceIte, Bool.or_self]
      exact ok_status_count_delivered _ _ hs id

/-- A status for a recipient of a connection that broke is a failure. -/
theorem C09_dead_connection_statuses_fail (conns : Conns) (f : Nat → Bool) (d : Nat) (c : Conn)
    (hmem : (d, c) ∈ conns) (hdead : c.dead = true) (id : Nat) (hid : id ∈ c.rcpts) :
    (id, false) ∈ bodyStatuses conns f := by
  simp only [bodyStatuses, List.mem_flatMap, List.mem_map, Prod.mk.injEq]
  exact ⟨(d, c), hmem, id, hid, rfl, by simp [hdead]⟩

/-! ### the message body: buffers that cannot be opened (again), readers that fail, quarantine

`C09_status_keys_eq_accepted`, `C09_ok_status_was_delivered` and `C09_ok_status_count_eq_delivered` quantify
over every `Tx`, that is over every `openFail` / `readFail` pattern (whichever connections the scheduler
lets open the buffer before it stops working) and over `quarantine`: still exactly one result per
accepted recipient, and no success for a recipient whose connection never got the body. -/

theorem bodyStatuses_congr (conns : Conns) (f g : Nat → Bool) (h : ∀ e ∈ conns, f e.1 = g e.1) :
    bodyStatuses conns f = bodyStatuses conns g := by
  induction conns with
  | nil => simp [bodyStatuses]
  | cons e rest ih =>
    have he := h e (by simp)
    have ih' := ih (fun x hx => h x (by simp [hx]))
    simp only [bodyStatuses, List.flatMap_cons] at ih' ⊢
    rw [ih', he]

/-- **C09 (remote target, body failure of one connection).** The connection `d` whose goroutine could
not open the buffer (or whose reader failed) reports that for ITS recipients only: the results of all
other connections are what they would have been without the failure. -/
theorem C09_body_failure_stays_with_its_connection (conns : Conns) (f g : Nat → Bool) (d : Nat)
    (h : ∀ d', d' ≠ d → f d' = g d') :
    bodyStatuses (conns.filter (fun e => e.1 != d)) f = bodyStatuses (conns.filter (fun e => e.1 != d)) g := by
  apply bodyStatuses_congr
  intro e he
  simp only [List.mem_filter, bne_iff_ne, ne_eq] at he
  exact h e.1 he.2

/-- Every recipient of a connection that did not get the body gets a result, and it is a failure. -/
theorem C09_body_unavailable_statuses_fail (conns : Conns) (tx : Tx) (d : Nat) (c : Conn)
    (hmem : (d, c) ∈ conns) (hf : (tx.openFail d || tx.readFail d) = true) (id : Nat) (hid : id ∈ c.rcpts) :
    (id, false) ∈ bodyStatuses conns tx.fails := by
  simp only [bodyStatuses, List.mem_flatMap, List.mem_map, Prod.mk.injEq]
  refine ⟨(d, c), hmem, id, hid, rfl, ?_⟩
  simp only [Bool.or_eq_true] at hf
  rcases hf with hf | hf <;> simp [Tx.fails, hf]

/-- **C09 (remote target, quarantined message).** If the message is quarantined after the recipients
were added, every accepted recipient gets exactly one result, a failure, under the address given —
in the order of acceptance — and nothing is handed to the next hop. -/
theorem C09_quarantine_one_failure_each (utf8 : Bool) (pool : Pool) (tx : Tx) (hq : tx.quarantine = true) :
    let o := (runTx utf8 pool tx).2
    o.statuses = ((o.adds.filter (fun p => p.2)).map (fun p => p.1)).map (fun id => (id, false)) ∧ o.delivered = [] := by
  simp only [runTx]
  have hr := addAll_recips utf8 tx.rcpts [] pool []
  simp only [List.nil_append] at hr
  by_cases hemp : (addAll utf8 ([], pool, []) tx.rcpts).1.2.2.isEmpty = true
  · have hnil : (addAll utf8 ([], pool, []) tx.rcpts).1.2.2 = [] := by simpa using hemp
    rw [hnil] at hr
    simp [hemp, hq, ← hr]
  · simp [hemp, hq, ← hr]

/-- The same for every transaction of a history sharing one pool. -/
theorem C09_history (utf8 : Bool) :
    ∀ (txs : List Tx) (pool : Pool), ∀ o ∈ runHistory utf8 pool txs, ∀ x,
      (o.statuses.map (fun p => p.1)).count x =
        ((o.adds.filter (fun p => p.2)).map (fun p => p.1)).count x := by
  intro txs
  induction txs with
  | nil => intro pool o ho; simp [runHistory] at ho
  | cons tx rest ih =>
    intro pool o ho x
    simp only [runHistory, List.mem_cons] at ho
    rcases ho with rfl | ho
    · exact C09_status_keys_eq_accepted utf8 pool tx x
    · exact ih _ o ho x

/-! ### SMTPUTF8: message flag × capability of the next hop -/

/-- **C09 under every SMTPUTF8 combination.** Whatever the message's SMTPUTF8 flag, whether the next hop
offers the extension and whether it enforces RFC 6531 §3.4 — in every transaction of every history the
results are reported under exactly the addresses `AddRcpt` accepted, as given, with multiplicity. -/
theorem C09_history_caps (k : Caps) (txs : List Tx) (pool : Pool) :
    ∀ o ∈ runHistoryCaps k pool txs, ∀ x,
      (o.statuses.map (fun p => p.1)).count x =
        ((o.adds.filter (fun p => p.2)).map (fun p => p.1)).count x := by
  intro o ho x
  exact C09_history k.srvUtf8 (txs.map (Tx.answer k)) pool o ho x

/-- RFC 1870 SIZE announcements change nothing about WHO gets a result: whatever limits the next hops
announce on whichever connections (smaller than the message, equal, bigger, none), every accepted recipient
gets exactly one result under the address it was given and nobody else gets one — in particular the
recipients of the other connections do not get the refusal of a next hop that is not theirs. -/
theorem C09_history_size (k : Caps) (tooSmall : Nat → Bool) (txs : List Tx) (pool : Pool) :
    ∀ o ∈ runHistorySize k tooSmall pool txs, ∀ x,
      (o.statuses.map (fun p => p.1)).count x =
        ((o.adds.filter (fun p => p.2)).map (fun p => p.1)).count x := by
  intro o ho x
  exact C09_history_caps k (txs.map (Tx.withSize tooSmall)) pool o ho x

/-- One `C.Rcpt` never takes anything away from the transaction: what the connection had recorded
(`Rcpts()`) and what the next hop holds stay in place, in order; at most the new address is appended to both —
for every kind of recipient (non-ASCII without an ASCII form included) and every outcome. -/
theorem C09_rcpt_keeps_earlier_recipients (c : Conn) (utf8 : Bool) (r : Rcpt) :
    ∃ sfx, (c.rcpt utf8 r).1.rcpts = c.rcpts ++ sfx ∧ (c.rcpt utf8 r).1.wire = c.wire ++ sfx ∧
      sfx = (if (c.rcpt utf8 r).2 = true then [r.id] else []) := by
  unfold Conn.rcpt
  by_cases h1 : (c.dead || !sendable utf8 r) = true
  · exact ⟨[], by simp [h1]⟩
  · by_cases h2 : r.fault = true
    · exact ⟨[], by simp [h1, h2]⟩
    · by_cases h3 : r.accept = true
      · exact ⟨[r.id], by simp [h1, h2, h3]⟩
      · exact ⟨[], by simp [h1, h2, h3]⟩

theorem rcpt_refused (c : Conn) (utf8 : Bool) (r : Rcpt) (h : r.accept = false) : (c.rcpt utf8 r).2 = false := by
  unfold Conn.rcpt
  by_cases h1 : (c.dead || !sendable utf8 r) = true
  · simp [h1]
  · by_cases h2 : r.fault = true
    · simp [h1, h2]
    · simp [h1, h2, h]

theorem addTo_refused (utf8 : Bool) (r : Rcpt) (h : r.accept = false) (conns : Conns) (pool : Pool) :
    (addTo utf8 r conns pool).2.2 = false := by
  induction conns generalizing pool with
  | nil => simp only [addTo]; exact rcpt_refused _ utf8 r h
  | cons e rest ih =>
    obtain ⟨d, c⟩ := e
    simp only [addTo]
    by_cases hd : (d == r.dom) = true
    · simp only [hd, ↓reduceIte]; exact rcpt_refused _ utf8 r h
    · simp only [hd, Bool.false_eq_true, ↓reduceIte]; exact ih pool

/-- A message WITHOUT the SMTPUTF8 flag meets a next hop that offers the extension and enforces §3.4: a
non-ASCII recipient (IDN domain or non-ASCII local part — `C.Rcpt` sends both as given) is refused, and
the delivery keeps exactly the status keys it had — every recipient accepted before stays accepted and
will get its result (nothing is restarted, no connection is replaced). -/
theorem C09_non_ascii_refused_without_smtputf8_keeps_transaction (k : Caps) (hs : k.srvUtf8 = true)
    (hst : k.strict = true) (hm : k.msgUtf8 = false) (r : Rcpt) (hna : r.nonAscii = true)
    (conns : Conns) (pool : Pool) :
    (addTo k.srvUtf8 (k.answer r) conns pool).2.2 = false ∧
      ∀ x, (keys (addTo k.srvUtf8 (k.answer r) conns pool).1).count x = (keys conns).count x := by
  have hacc : (k.answer r).accept = false := by
    simp [Caps.answer, Caps.refuses, Caps.mailUtf8, hs, hst, hm, hna]
  have hok := addTo_refused k.srvUtf8 (k.answer r) hacc conns pool
  refine ⟨hok, ?_⟩
  intro x
  rw [addTo_keys, hok]
  simp

/-- `C.Rcpt` does not look at the message's flag: towards a next hop that does not enforce §3.4 (or does not
offer SMTPUTF8 at all) the flag changes nothing. -/
theorem C09_message_flag_irrelevant_unless_enforced (k : Caps) (h : (k.srvUtf8 && k.strict) = false)
    (pool : Pool) (txs : List Tx) :
    runHistoryCaps k pool txs = runHistory k.srvUtf8 pool txs := by
  have hr : ∀ r : Rcpt, k.answer r = r := by
    intro r
    have : k.refuses r = false := by
      unfold Caps.refuses
      rw [h]; simp
    simp [Caps.answer, this]
  have ht : ∀ tx : Tx, Tx.answer k tx = tx := by
    intro tx
    have : tx.rcpts.map k.answer = tx.rcpts := by
      rw [List.map_congr_left (g := id) (fun a _ => hr a), List.map_id]
    simp [Tx.answer, this]
  unfold runHistoryCaps
  rw [List.map_congr_left (g := id) (fun a _ => ht a), List.map_id]

/-- **C09 (LMTP next hop).** Exactly one result per accepted recipient, in order, under the
address given — however many statuses the server managed to send. -/
theorem C09_lmtp_one_status_each (accepted : List Nat) (serverSt : List Bool) :
    (lmtpStatuses accepted serverSt).map (fun p => p.1) = accepted := by
  unfold lmtpStatuses
  simp only [List.map_append, List.map_map]
  have h1 : ((accepted.take (min serverSt.length accepted.length)).zip
      (serverSt.take (min serverSt.length accepted.length))).map (fun p => p.1) =
      accepted.take (min serverSt.length accepted.length) := by
    apply List.map_fst_zip
    simp [List.length_take]
  rw [h1]
  have h2 : (accepted.drop (min serverSt.length accepted.length)).map ((fun p : Nat × Bool => p.1) ∘ fun id => (id, false)) =
      accepted.drop (min serverSt.length accepted.length) := by
    simp [Function.comp_def]
  rw [h2, List.take_append_drop]

/-- A status the server did send is reported unchanged for the recipient at that position. -/
theorem C09_lmtp_status_value (accepted : List Nat) (serverSt : List Bool) (i : Nat)
    (hi : i < accepted.length) (hs : i < serverSt.length) :
    (lmtpStatuses accepted serverSt)[i]? = some (accepted[i], serverSt[i]) := by
  unfold lmtpStatuses
  have hk : i < min serverSt.length accepted.length := by omega
  rw [List.getElem?_append_left (by simp [List.length_zip, List.length_take]; omega)]
  simp [hk, hs]

/-- **C09 (pipeline).** A result for an effective recipient that was produced by rewriting is
reported under the client-supplied address recorded for it; unrewritten ones are unchanged. -/
theorem C09_pipeline_keys_are_client_addresses (orig : List (Nat × Nat)) (eff client : Nat)
    (h : orig.find? (fun e => e.1 == eff) = some (eff, client)) :
    translate orig eff = client := by simp [translate, h]

theorem C09_pipeline_unrewritten_unchanged (orig : List (Nat × Nat)) (eff : Nat)
    (h : ∀ e ∈ orig, e.1 ≠ eff) : translate orig eff = eff := by
  unfold translate
  have : orig.find? (fun e => e.1 == eff) = none := by
    rw [List.find?_eq_none]; intro e he; simpa using h e he
  simp [this]

/-- **C09 (pipeline, overlapping rewrites).** When no two client-supplied recipients are rewritten
to the same effective address (the keys of `OriginalRcpts` are distinct), EVERY effective recipient's
result is reported under exactly the client-supplied recipient it was produced from — also when
that client-supplied address is itself the rewrite result of another recipient (a→b, b→c with the
client sending a and b: the result for c belongs to b, the chain is not followed up to a). -/
theorem C09_pipeline_each_effective_to_its_own_client (orig : List (Nat × Nat))
    (hnd : (orig.map (fun e => e.1)).Nodup) :
    ∀ e ∈ orig, translate orig e.1 = e.2 := by
  induction orig with
  | nil => intro e he; simp at he
  | cons o rest ih =>
    intro e he
    simp only [List.map_cons, List.nodup_cons] at hnd
    simp only [List.mem_cons] at he
    rcases he with rfl | he
    · simp [translate]
    · have hne : o.1 ≠ e.1 := by
        intro h
        exact hnd.1 (List.mem_map.mpr ⟨e, he, h.symm⟩)
      have := ih hnd.2 e he
      unfold translate at this ⊢
      simp only [List.find?_cons]
      have hb : (o.1 == e.1) = false := by simpa using hne
      simp only [hb]
      exact this

/-! ### nested pipelines (`reroute { … }`, a pipeline used as a target) -/

/-- **C09 (nested pipelines).** A final address the INNER pipeline produced from `eff`, which the OUTER
pipeline had produced from `client`: the result comes back under `client`. -/
theorem C09_nested_pipeline_result_under_client_address (outer inner : List (Nat × Nat)) (fin eff client : Nat)
    (hI : inner.find? (fun e => e.1 == fin) = some (fin, eff))
    (hO : outer.find? (fun e => e.1 == eff) = some (eff, client)) :
    translateNested outer inner fin = client := by
  simp [translateNested, translate, hI, hO]

/-- An address the inner pipeline did not rewrite is translated by the outer delivery alone — ONE
look-up, also when the address it is translated to is itself a rewrite result of the outer pipeline. -/
theorem C09_nested_pipeline_unrewritten_by_inner (outer inner : List (Nat × Nat)) (eff : Nat)
    (h : ∀ e ∈ inner, e.1 ≠ eff) : translateNested outer inner eff = translate outer eff := by
  unfold translateNested
  rw [C09_pipeline_unrewritten_unchanged inner eff h]

/-- **C09 (nested pipelines, overlapping rewrites).** With distinct keys in each delivery's own table,
every final recipient's result is reported under exactly the client-supplied recipient of the outer
recipient it was produced from — whatever else the tables hold (the client-supplied address being a
rewrite result of another recipient, the final address being spelled like some client-supplied one). -/
theorem C09_nested_pipeline_each_final_to_its_own_client (outer inner : List (Nat × Nat))
    (hO : (outer.map (fun e => e.1)).Nodup) (hI : (inner.map (fun e => e.1)).Nodup) :
    ∀ i ∈ inner, ∀ o ∈ outer, o.1 = i.2 → translateNested outer inner i.1 = o.2 := by
  intro i hi o ho hoi
  unfold translateNested
  rw [C09_pipeline_each_effective_to_its_own_client inner hI i hi, ← hoi]
  exact C09_pipeline_each_effective_to_its_own_client outer hO o ho

/-- The defect this replaced (fixed, `notes/C09.fix-1.patch`): outer and nested delivery both translated
through the ONE table in `MsgMetadata.OriginalRcpts`. Client sends 1 and 2, the outer pipeline rewrites
1→2 and 2→13 and reroutes: the result for 13 was translated to 2 by the nested delivery and on to 1 by
the outer one — two results for 1, none for 2. With a table per delivery it stays with 2. -/
theorem C09_shared_table_translated_twice_counterexample :
    let shared : List (Nat × Nat) := [(13, 2), (2, 1)]
    translate shared (translate shared 13) = 1 ∧ translateNested shared [] 13 = 2 := by decide

/-- outer 1→11, nested pipeline 11→41 and 11→42 (1-to-N inside the nest): both results under 1; the
unrelated client recipient 2 (not rewritten anywhere) keeps its address. -/
example : let outer : List (Nat × Nat) := [(11, 1)]
    let inner : List (Nat × Nat) := [(42, 11), (41, 11)]
    translateNested outer inner 41 = 1 ∧ translateNested outer inner 42 = 1 ∧ translateNested outer inner 2 = 2 := by decide

/-- a→b, b→c, client sends a (=1) and b (=2), c = 13: the result for 2 (what a became) is filed under
1 and the result for 13 under 2 — one result each. -/
example : let orig : List (Nat × Nat) := [(13, 2), (2, 1)]
    translate orig 2 = 1 ∧ translate orig 13 = 2 := by decide

/-- Known finding (not repaired — `OriginalRcpts` is a plain map, so the repair is not small): when
two client-supplied recipients (1 and 2) are rewritten to the same effective address (77), the
map keeps only the later one, both results are filed under recipient 2 and recipient 1 gets none. -/
theorem C09_alias_collision_counterexample :
    let orig : List (Nat × Nat) := [(77, 2), (77, 1)]   -- AddRcpt 1 wrote (77,1), AddRcpt 2 overwrote
    translate orig 77 = 2 ∧ translate orig 77 ≠ 1 := by decide

/-! ### statuses the pipeline generates itself (`setStatusAll`, `Body` error of a target without per-recipient results) -/

theorem pipeGenerated_keys (rs : List PipeRcpt) :
    (pipeGenerated rs).map (fun s => s.1) = pipeRecipients rs := by
  simp [pipeGenerated, Function.comp_def]

theorem count_map_const {β : Type} (l : List β) (c a : Nat) :
    (l.map (fun _ => c)).count a = if c = a then l.length else 0 := by
  induction l with
  | nil => simp
  | cons x rest ih =>
    simp only [List.map_cons, List.count_cons, ih, List.length_cons]
    by_cases h : c = a <;> simp [h]

/-- **C09 (pipeline-generated statuses), rewrites that do not expand.** When the delivery fails as a whole, the
keys of the reported results are EXACTLY the list of addresses the client supplied — same order, same
multiplicity — whatever the modifiers rewrote them to: nothing is assumed about the effective addresses, so the
effective→client table may be non-injective (two aliases of one mailbox) and non-total (an alias next to the
mailbox it stands for), and the client may have sent one address several times. -/
theorem C09_pipeline_generated_keys_eq_clients (rs : List PipeRcpt) (h : ∀ r ∈ rs, r.2.length = 1) :
    (pipeGenerated rs).map (fun s => s.1) = rs.map (fun r => r.1) := by
  rw [pipeGenerated_keys]
  induction rs with
  | nil => rfl
  | cons r rest ih =>
    have h1 : r.2.length = 1 := h r (by simp)
    obtain ⟨x, hx⟩ := List.length_eq_one_iff.mp h1
    have ih' := ih (fun q hq => h q (by simp [hq]))
    simp only [pipeRecipients, List.flatMap_cons, List.map_cons] at ih' ⊢
    rw [ih', hx]
    rfl

/-- **C09 (pipeline-generated statuses), 1-to-N rewrites.** In general an address is reported once per
effective recipient of every `AddRcpt` call that supplied it — again whatever the effective addresses are. -/
theorem C09_pipeline_generated_count (rs : List PipeRcpt) (a : Nat) :
    ((pipeGenerated rs).map (fun s => s.1)).count a =
      ((rs.filter (fun r => r.1 == a)).map (fun r => r.2.length)).sum := by
  rw [pipeGenerated_keys]
  induction rs with
  | nil => rfl
  | cons r rest ih =>
    simp only [pipeRecipients, List.flatMap_cons, List.count_append, count_map_const] at ih ⊢
    rw [ih]
    by_cases h : r.1 = a <;> simp [h]

/-- every one of them is a failure … -/
theorem C09_pipeline_generated_all_fail (rs : List PipeRcpt) : ∀ s ∈ pipeGenerated rs, s.2 = false := by
  intro s hs
  simp only [pipeGenerated, List.mem_map] at hs
  obtain ⟨_, _, rfl⟩ := hs
  rfl

/-- … and none is filed under an address the client did not supply. -/
theorem C09_pipeline_generated_no_foreign_key (rs : List PipeRcpt) :
    ∀ s ∈ pipeGenerated rs, ∃ r ∈ rs, r.1 = s.1 := by
  intro s hs
  simp only [pipeGenerated, pipeRecipients, List.mem_map, List.mem_flatMap] at hs
  obtain ⟨c, ⟨r, hr, _, _, rfl⟩, rfl⟩ := hs
  exact ⟨r, hr, rfl⟩

/-- The effective addresses take no part: two rewritings that agree on what the client supplied and on
the size of each expansion give the same results. -/
theorem C09_pipeline_generated_independent_of_rewriting (rs rs' : List PipeRcpt)
    (h : rs.map (fun r => (r.1, r.2.length)) = rs'.map (fun r => (r.1, r.2.length))) :
    pipeGenerated rs = pipeGenerated rs' := by
  have key : ∀ l : List PipeRcpt, pipeRecipients l =
      (l.map (fun r => (r.1, r.2.length))).flatMap (fun q => List.replicate q.2 q.1) := by
    intro l
    induction l with
    | nil => rfl
    | cons r rest ih =>
      simp only [pipeRecipients, List.flatMap_cons, List.map_cons] at ih ⊢
      rw [ih]
      congr 1
      exact List.map_const'
  unfold pipeGenerated
  rw [key rs, key rs', h]

/-- Why these statuses must NOT go through the reverse translation (the shape of seeded change C09-13):
the client supplies the alias 1 and the mailbox 2 it is rewritten to. The generated statuses name 1 and 2;
the effective recipients are 2 and 2, and translating them gives 1 twice and 2 never. Likewise for two
aliases 1, 2 of mailbox 77. -/
theorem C09_pipeline_generated_not_translated_counterexample :
    let rs : List PipeRcpt := [(1, [2]), (2, [2])]
    pipeGenerated rs = [(1, false), (2, false)] ∧
    (rs.flatMap (fun r => r.2)).map (translate (pipeTable rs)) = [1, 1] ∧
    pipeGenerated [(1, [77]), (2, [77])] = [(1, false), (2, false)] ∧
    ([77, 77] : List Nat).map (translate (pipeTable [(1, [77]), (2, [77])])) = [2, 2] := by decide

/-- non-vacuity: alias + mailbox + a 1-to-2 expansion + the alias sent twice: 1, 2, 3, 3, 1 — exactly once
per effective recipient, under the addresses as supplied. -/
example : (pipeGenerated [(1, [2]), (2, [2]), (3, [11, 2]), (1, [2])]).map (fun s => s.1) = [1, 2, 3, 3, 1] := by decide
example : (pipeGenerated [(1, [2]), (2, [2]), (1, [2])]).map (fun s => s.1) = [1, 2, 1] ∧
    (∀ r ∈ ([(1, [2]), (2, [2]), (1, [2])] : List PipeRcpt), r.2.length = 1) := by decide
/-- the same list through a per-recipient target is the known finding: both results under the alias -/
example : pipeTranslated [(1, [2]), (2, [2])] (fun _ => true) = [(1, true), (1, true)] := by decide

/-! ## non-vacuity -/
def demoTx : Tx := { rcpts := [⟨1, 0, false, false, true, false⟩, ⟨2, 0, true, true, true, false⟩, ⟨3, 1, true, false, true, false⟩, ⟨4, 1, false, false, false, false⟩],
                     dataFail := fun d => d == 1 }
example : ((runTx false [(0, { rcpts := [9, 9], errored := false })] demoTx).2.statuses) = [(1, true), (2, true)] := by decide
example : lmtpStatuses [5, 6, 7] [true] = [(5, true), (6, false), (7, false)] := by decide
/-- a connection breaks under the third RCPT of domain 0: the two recipients accepted before get a
(failed) status each, the later one of that domain is refused, the other domain is untouched. -/
def faultTx : Tx := { rcpts := [⟨1, 0, false, false, true, false⟩, ⟨2, 0, false, false, true, false⟩, ⟨3, 0, false, false, true, true⟩,
                                ⟨4, 0, false, false, true, false⟩, ⟨5, 1, false, false, true, false⟩],
                      dataFail := fun _ => false }
example : (runTx false [] faultTx).2.adds = [(1, true), (2, true), (3, false), (4, false), (5, true)] := by decide
example : (runTx false [] faultTx).2.statuses = [(1, false), (2, false), (5, true)] := by decide
example : (runTx false [] faultTx).2.delivered = [5] := by decide

/-- exact duplicates: address 1 is given three times (accepted, refused, accepted), then address 2 on
another connection whose DATA fails: two results for 1, one for 2, the next hop holds 1 twice. -/
def dupTx : Tx := { rcpts := [⟨1, 0, false, false, true, false⟩, ⟨1, 0, false, false, false, false⟩, ⟨1, 0, false, false, true, false⟩,
                              ⟨2, 1, false, false, true, false⟩],
                    dataFail := fun d => d == 1 }
example : (runTx false [] dupTx).2.adds = [(1, true), (1, false), (1, true), (2, true)] := by decide
example : (runTx false [] dupTx).2.statuses = [(1, true), (1, true), (2, false)] := by decide
example : (runTx false [] dupTx).2.delivered = [1, 1] := by decide
/-- three connections; the buffer could be opened for connection 1 only when connection 0's and 2's
goroutines came: their recipients get one failure each, connection 1 is delivered — and keeps its result. -/
def openFailTx : Tx := { rcpts := [⟨1, 0, false, false, true, false⟩, ⟨2, 1, false, false, true, false⟩, ⟨3, 2, false, false, true, false⟩,
                                   ⟨4, 0, false, false, true, false⟩],
                         dataFail := fun _ => false, openFail := fun d => d != 1 }
example : (runTx false [] openFailTx).2.statuses = [(1, false), (4, false), (2, true), (3, false)] := by decide
example : (runTx false [] openFailTx).2.delivered = [2] := by decide
example : (runTx false [] { openFailTx with quarantine := true }).2.statuses = [(1, false), (2, false), (3, false), (4, false)] := by decide
/-- two ASCII recipients accepted on connection 0, then a recipient with a non-ASCII local part (no ASCII
form) on the same connection, message without the SMTPUTF8 flag: an enforcing next hop refuses it and the
two earlier recipients keep their results; with the flag (or a lax next hop) all three are reported. -/
def utf8Tx : Tx := { rcpts := [⟨1, 0, false, false, true, false⟩, ⟨2, 0, false, false, true, false⟩, ⟨3, 0, true, false, true, false⟩],
                     dataFail := fun _ => false }
example : (runHistoryCaps { srvUtf8 := true, strict := true, msgUtf8 := false } [] [utf8Tx]).map (·.adds) = [[(1, true), (2, true), (3, false)]] := by decide
example : (runHistoryCaps { srvUtf8 := true, strict := true, msgUtf8 := false } [] [utf8Tx]).map (·.statuses) = [[(1, true), (2, true)]] := by decide
example : (runHistoryCaps { srvUtf8 := true, strict := true, msgUtf8 := true } [] [utf8Tx]).map (·.statuses) = [[(1, true), (2, true), (3, true)]] := by decide
example : (runHistoryCaps { srvUtf8 := true, strict := false, msgUtf8 := false } [] [utf8Tx]).map (·.statuses) = [[(1, true), (2, true), (3, true)]] := by decide
example : (runHistoryCaps { srvUtf8 := false, msgUtf8 := false } [] [utf8Tx]).map (·.adds) = [[(1, true), (2, true), (3, false)]] := by decide
example : ∃ k : Caps, k.srvUtf8 = true ∧ k.strict = true ∧ k.msgUtf8 = false := ⟨{ srvUtf8 := true, strict := true, msgUtf8 := false }, rfl, rfl, rfl⟩
/-- LMTP: the same address accepted twice gets the replies at ITS two positions, the recipient after
it keeps its own reply (nothing shifts). -/
example : lmtpStatuses [1, 1, 2] [true, false, true] = [(1, true), (1, false), (2, true)] := by decide
/-- pipeline: a modifier that only changes the spelling (key 17 = another spelling of the mailbox the
client gave as key 16) is a rewrite like any other: the result comes back under the spelling given. -/
example : translate [(17, 16)] 17 = 16 ∧ translate [(17, 16)] 16 = 16 := by decide

/-! ### recipients refused at `AddRcpt` time -/

/-- the invariant of `msgpipelineDelivery.AddRcpt` with refusing targets: every table entry leads to an address
some RCPT TO supplied, and every address the target holds is such an address itself or has a table entry -/
def refWf (clients : List Nat) (st : RefSt) : Prop :=
  (∀ p ∈ st.table, p.2 ∈ clients) ∧ (∀ e ∈ st.held, e ∈ clients ∨ ∃ c, (e, c) ∈ st.table) ∧
    (∀ k ∈ st.recips, k ∈ clients)

/-- One `AddRcpt` call — accepted or REFUSED half-way — never removes a table entry and never takes an address
back from the target (the law seeded change C09-21 breaks: "clean up" after a refused call). -/
theorem C09_addrcpt_never_forgets (second : Bool) (x y : List (Nat × Nat)) (rej : Nat → Bool) (c : Nat) (es : List Nat) :
    ∀ st : RefSt, (∀ p ∈ st.table, p ∈ (pipeAddEffs second x y rej c st es).1.table) ∧
      (∀ e ∈ st.held, e ∈ (pipeAddEffs second x y rej c st es).1.held) := by
  induction es with
  | nil => intro st; simp [pipeAddEffs]
  | cons e es ih =>
    intro st
    unfold pipeAddEffs
    simp only
    split
    · exact ⟨fun p hp => hp, fun a ha => ha⟩
    split
    · constructor
      · intro p hp; split <;> simp [hp]
      · intro a ha; exact ha
    · split
      · split
        · constructor
          · intro p hp; split <;> simp [hp]
          · intro a ha; simp [ha]
        · refine ⟨fun p hp => (ih _).1 p ?_, fun a ha => (ih _).2 a ?_⟩
          · split <;> simp [hp]
          · simp [ha]
      · refine ⟨fun p hp => (ih _).1 p ?_, fun a ha => (ih _).2 a ?_⟩
        · split <;> simp [hp]
        · simp [ha]

theorem pipeAddEffs_wf (second : Bool) (x y : List (Nat × Nat)) (rej : Nat → Bool) (clients : List Nat) (c : Nat) (hc : c ∈ clients)
    (es : List Nat) : ∀ st : RefSt, refWf clients st → refWf clients (pipeAddEffs second x y rej c st es).1 := by
  induction es with
  | nil => intro st h; simpa [pipeAddEffs] using h
  | cons e es ih =>
    intro st h
    have hT : ∀ p ∈ (if e != c then (e, c) :: st.table else st.table), p.2 ∈ clients := by
      intro p hp
      split at hp
      · rcases List.mem_cons.1 hp with rfl | hp
        · exact hc
        · exact h.1 p hp
      · exact h.1 p hp
    have hH : ∀ a ∈ st.held, a ∈ clients ∨ ∃ c', (a, c') ∈ (if e != c then (e, c) :: st.table else st.table) := by
      intro a ha
      rcases h.2.1 a ha with h1 | ⟨c', h2⟩
      · exact Or.inl h1
      · refine Or.inr ⟨c', ?_⟩
        split <;> simp [h2]
    have hE : e ∈ clients ∨ ∃ c', (e, c') ∈ (if e != c then (e, c) :: st.table else st.table) := by
      by_cases hec : e = c
      · exact Or.inl (hec ▸ hc)
      · refine Or.inr ⟨c, ?_⟩
        have : (e != c) = true := by simpa using hec
        simp [this]
    have hH' : ∀ a ∈ st.held ++ [e], a ∈ clients ∨ ∃ c', (a, c') ∈ (if e != c then (e, c) :: st.table else st.table) := by
      intro a ha
      rcases List.mem_append.1 ha with ha | ha
      · exact hH a ha
      · have : a = e := by simpa using ha
        exact this ▸ hE
    have hR : ∀ k ∈ st.recips ++ [c], k ∈ clients := by
      intro k hk
      rcases List.mem_append.1 hk with hk | hk
      · exact h.2.2 k hk
      · have : k = c := by simpa using hk
        exact this ▸ hc
    unfold pipeAddEffs
    simp only
    split
    · exact h
    split
    · exact ⟨hT, hH, h.2.2⟩
    · split
      · split
        · exact ⟨hT, hH', hR⟩
        · exact ih _ ⟨hT, hH', hR⟩
      · exact ih _ ⟨hT, hH', hR⟩

theorem pipeAddCalls_wf (second : Bool) (x y : List (Nat × Nat)) (rejC rej : Nat → Bool) (clients : List Nat) (rs : List PipeRcpt)
    (hrs : ∀ r ∈ rs, r.1 ∈ clients) : ∀ st : RefSt, refWf clients st → refWf clients (pipeAddCalls second x y rejC rej st rs).1 := by
  induction rs with
  | nil => intro st h; simpa [pipeAddCalls] using h
  | cons r rs ih =>
    intro st h
    simp only [pipeAddCalls]
    refine ih (fun r' hr' => hrs r' (List.mem_cons_of_mem _ hr')) _ ?_
    split
    · exact h
    · exact pipeAddEffs_wf second x y rej clients r.1 (hrs r (List.mem_cons_self ..)) r.2 st h

/-- However the targets refuse (the repetition of an accepted recipient, one address of a 1-to-N expansion, a
second target after the first one took the address, anything anywhere), for every RCPT TO sequence and every
rewriting: each result the per-recipient target reports — also for an address a refused call left behind —
reaches the caller under an address some RCPT TO SUPPLIED, never under a rewriting result. -/
theorem C09_pipeline_refusals_keys_are_client_addresses (second : Bool) (x y : List (Nat × Nat))
    (rejC rej : Nat → Bool) (rs : List PipeRcpt) (res : Nat → Bool) :
    ∀ s ∈ (pipeAddCalls second x y rejC rej {} rs).1.statuses res, s.1 ∈ rs.map (fun r => r.1) := by
  have hwf := pipeAddCalls_wf second x y rejC rej (rs.map (fun r => r.1)) rs
    (fun r hr => List.mem_map.2 ⟨r, hr, rfl⟩) {} ⟨by simp, by simp, by simp⟩
  intro s hs
  simp only [RefSt.statuses, List.mem_map] at hs
  obtain ⟨e, he, rfl⟩ := hs
  simp only [translate]
  cases hf : List.find? (fun p => p.1 == e) (pipeAddCalls second x y rejC rej {} rs).1.table with
  | some p => exact hwf.1 p (List.mem_of_find?_eq_some hf)
  | none =>
    rcases hwf.2.1 e he with h | ⟨c', hc'⟩
    · exact h
    · rw [List.find?_eq_none] at hf
      have := hf (e, c') hc'
      simp at this

/-- … and when the body stage fails for the whole delivery, the failures the pipeline generates itself
(`setStatusAll` over `delivery.recipients`) are under addresses some RCPT TO supplied as well, whatever was refused. -/
theorem C09_pipeline_refusals_generated_keys_are_client_addresses (second : Bool) (x y : List (Nat × Nat))
    (rejC rej : Nat → Bool) (rs : List PipeRcpt) :
    ∀ s ∈ (pipeAddCalls second x y rejC rej {} rs).1.generated, s.1 ∈ rs.map (fun r => r.1) ∧ s.2 = false := by
  have hwf := pipeAddCalls_wf second x y rejC rej (rs.map (fun r => r.1)) rs
    (fun r hr => List.mem_map.2 ⟨r, hr, rfl⟩) {} ⟨by simp, by simp, by simp⟩
  intro s hs
  simp only [RefSt.generated, List.mem_map] at hs
  obtain ⟨k, hk, rfl⟩ := hs
  exact ⟨hwf.2.2 k hk, rfl⟩

/-- the shape of C09-21: `c1 -> e11` accepted, then sent again and the target refuses the repetition; the first,
accepted RCPT TO still gets its result under `c1` (16 = c1, 176 = e11). -/
example : (pipeAddCalls false [(176, 2)] [] (fun _ => false) (fun _ => false) {} [(16, [176]), (16, [176])]).2 = [true, false] ∧
    (pipeAddCalls false [(176, 2)] [] (fun _ => false) (fun _ => false) {} [(16, [176]), (16, [176])]).1.statuses (fun _ => true) = [(16, true)] := by decide

/-- a 1-to-2 expansion of which the target takes the first address and refuses the second: the call fails, the
first address stays in the target and its result comes back under the client-supplied address. -/
example : (pipeAddCalls false [(192, 0)] [] (fun _ => false) (fun _ => false) {} [(16, [176, 192]), (32, [32])]).2 = [false, true] ∧
    (pipeAddCalls false [(192, 0)] [] (fun _ => false) (fun _ => false) {} [(16, [176, 192]), (32, [32])]).1.statuses (fun _ => true) = [(16, true), (32, true)] := by decide

end MaddyVerif.C09
