import MaddyVerif.Model.Queue
import MaddyVerif.Model.QueueHop
import MaddyVerif.Model.QueueRestart
import MaddyVerif.Model.QueueErr
import MaddyVerif.Model.QueueDup
import MaddyVerif.Model.QueueSpool
import MaddyVerif.Model.QueueTrace
/-!
# C01 — every queued recipient ends in exactly one terminal outcome

Quantifier: all duplicate-free recipient lists, both downstream kinds, all `maxTries ≥ 1`, all
infinite streams of per-attempt fault plans.
-/
namespace MaddyVerif.C01
open MaddyVerif.Queue

/-! ## counting lemmas -/

theorem commitCount_append (r : Addr) (a b : List Ev) :
    commitCount r (a ++ b) = commitCount r a + commitCount r b := by
  induction a with
  | nil => simp [commitCount]
  | cons e t ih => cases e <;> simp [commitCount, ih, Nat.add_assoc]

theorem reportCount_append (r : Addr) (a b : List Ev) :
    reportCount r (a ++ b) = reportCount r a + reportCount r b := by
  induction a with
  | nil => simp [reportCount]
  | cons e t ih => cases e <;> simp [reportCount, ih, Nat.add_assoc]

theorem commitCount_rcpts (r : Addr) (p : Plan) (to : List Addr) :
    commitCount r (to.map (fun x => Ev.rcpt x (p.rcpt x))) = 0 := by
  induction to with
  | nil => rfl
  | cons a t ih => simp [commitCount, ih]

theorem reportCount_rcpts (r : Addr) (p : Plan) (to : List Addr) :
    reportCount r (to.map (fun x => Ev.rcpt x (p.rcpt x))) = 0 := by
  induction to with
  | nil => rfl
  | cons a t ih => simp [reportCount, ih]

theorem count_filter_nodup (l : List Addr) (hnd : l.Nodup) (f : Addr → Bool) (r : Addr) :
    (l.filter f).count r = if r ∈ l ∧ f r = true then 1 else 0 := by
  have h2 : (l.filter f).Nodup := hnd.filter f
  rw [List.Nodup.count h2]
  simp [List.mem_filter]

/-! ## one attempt at the target: who is committed -/

/-- The downstream commits the message for a recipient of this attempt exactly when the queue
sees no error for it; it commits nothing for anybody else; `deliver` itself reports nothing. -/
theorem deliver_spec (k : Kind) (p : Plan) (to : List Addr) (hnd : to.Nodup) (r : Addr) :
    let res := deliver k p to
    reportCount r res.2 = 0 ∧
    (r ∉ to → commitCount r res.2 = 0) ∧
    (r ∈ to → commitCount r res.2 = if (res.1 r).isNone then 1 else 0) := by
  unfold deliver
  by_cases hs : p.start.isOk = true
  · simp only [hs, Bool.not_true, Bool.false_eq_true, ↓reduceIte]
    by_cases hacc : (to.filter (fun r => (p.rcpt r).isOk)).isEmpty = true
    · simp only [hacc, ↓reduceIte]
      refine ⟨?_, ?_, ?_⟩
      · simp [reportCount_append, reportCount, reportCount_rcpts]
      · intro _; simp [commitCount_append, commitCount, commitCount_rcpts]
      · intro hr
        have : (p.rcpt r).isOk = false := by
          rw [List.isEmpty_iff] at hacc
          cases h : (p.rcpt r).isOk with
          | false => rfl
          | true =>
            have : r ∈ to.filter (fun r => (p.rcpt r).isOk) := by simp [hr, h]
            rw [hacc] at this; simp at this
        simp [commitCount_append, commitCount, commitCount_rcpts, hr, this]
    · simp only [hacc, Bool.false_eq_true, ↓reduceIte]
      -- name the pieces
      generalize hA : to.filter (fun r => (p.rcpt r).isOk) = accepted at *
      have haccND : accepted.Nodup := by rw [← hA]; exact hnd.filter _
      have hmemA : ∀ x, x ∈ accepted ↔ x ∈ to ∧ (p.rcpt x).isOk = true := by
        intro x; rw [← hA]; simp
      cases k with
      | atomic =>
        by_cases hb : p.body.isOk = true
        · -- body ok: e2 = e1
          simp only [hb, Bool.not_true, Bool.false_eq_true, ↓reduceIte]
          split
          · rename_i hall
            refine ⟨?_, ?_, ?_⟩
            · simp [reportCount_append, reportCount, reportCount_rcpts]
            · intro _; simp [commitCount_append, commitCount, commitCount_rcpts]
            · intro hr
              simp [commitCount_append, commitCount, commitCount_rcpts]
              rw [List.all_eq_true] at hall
              by_cases hra : r ∈ accepted
              · have := hall r hra; simpa using this
              · have : (p.rcpt r).isOk = false := by
                  cases h : (p.rcpt r).isOk with
                  | false => rfl
                  | true => exact absurd ((hmemA r).mpr ⟨hr, h⟩) hra
                simp [hr, this]
          · split
            · refine ⟨?_, ?_, ?_⟩
              · simp [reportCount_append, reportCount, reportCount_rcpts]
              · intro _; simp [commitCount_append, commitCount, commitCount_rcpts]
              · intro hr
                simp [commitCount_append, commitCount, commitCount_rcpts]
                by_cases hra : r ∈ accepted
                · simp [hra]
                · have : (p.rcpt r).isOk = false := by
                    cases h : (p.rcpt r).isOk with
                    | false => rfl
                    | true => exact absurd ((hmemA r).mpr ⟨hr, h⟩) hra
                  simp [hra, hr, this]
            · refine ⟨?_, ?_, ?_⟩
              · simp [reportCount_append, reportCount, reportCount_rcpts]
              · intro hr
                simp only [commitCount_append, commitCount, commitCount_rcpts, count_filter_nodup _ haccND]
                have : r ∉ accepted := fun h => hr ((hmemA r).mp h).1
                simp [this]
              · intro hr
                simp only [commitCount_append, commitCount, commitCount_rcpts, count_filter_nodup _ haccND]
                by_cases hra : r ∈ accepted
                · have hok := ((hmemA r).mp hra).2
                  simp [hra, hok]
                · have : (p.rcpt r).isOk = false := by
                    cases h : (p.rcpt r).isOk with
                    | false => rfl
                    | true => exact absurd ((hmemA r).mpr ⟨hr, h⟩) hra
                  simp [hra, hr, this]
        · -- body failed: every accepted recipient has an error, abort
          simp only [hb, Bool.not_false, ↓reduceIte]
          have hall : (accepted.all fun r => (if r ∈ accepted then some p.body else
              if r ∈ to ∧ (!(p.rcpt r).isOk) = true then some (p.rcpt r) else none).isSome) = true := by
            rw [List.all_eq_true]; intro x hx; simp [hx]
          simp only [hall, ↓reduceIte]
          refine ⟨?_, ?_, ?_⟩
          · simp [reportCount_append, reportCount, reportCount_rcpts]
          · intro _; simp [commitCount_append, commitCount, commitCount_rcpts]
          · intro hr
            simp [commitCount_append, commitCount, commitCount_rcpts]
            by_cases hra : r ∈ accepted
            · simp [hra]
            · have : (p.rcpt r).isOk = false := by
                cases h : (p.rcpt r).isOk with
                | false => rfl
                | true => exact absurd ((hmemA r).mpr ⟨hr, h⟩) hra
              simp [hra, hr, this]
      | partialD =>
        simp only
        split
        · rename_i hall
          refine ⟨?_, ?_, ?_⟩
          · simp [reportCount_append, reportCount, reportCount_rcpts]
          · intro _; simp [commitCount_append, commitCount, commitCount_rcpts]
          · intro hr
            simp [commitCount_append, commitCount, commitCount_rcpts]
            rw [List.all_eq_true] at hall
            by_cases hra : r ∈ accepted
            · have := hall r hra
              rw [Option.isSome_iff_ne_none] at this
              simpa using this
            · have : (p.rcpt r).isOk = false := by
                cases h : (p.rcpt r).isOk with
                | false => rfl
                | true => exact absurd ((hmemA r).mpr ⟨hr, h⟩) hra
              simp [hra, hr, this]
        · split
          · refine ⟨?_, ?_, ?_⟩
            · simp [reportCount_append, reportCount, reportCount_rcpts]
            · intro _; simp [commitCount_append, commitCount, commitCount_rcpts]
            · intro hr
              simp [commitCount_append, commitCount, commitCount_rcpts]
              by_cases hra : r ∈ accepted
              · simp [hra]
              · have : (p.rcpt r).isOk = false := by
                  cases h : (p.rcpt r).isOk with
                  | false => rfl
                  | true => exact absurd ((hmemA r).mpr ⟨hr, h⟩) hra
                simp [hra, hr, this]
          · refine ⟨?_, ?_, ?_⟩
            · simp [reportCount_append, reportCount, reportCount_rcpts]
            · intro hr
              simp only [commitCount_append, commitCount, commitCount_rcpts, count_filter_nodup _ haccND]
              have : r ∉ accepted := fun h => hr ((hmemA r).mp h).1
              simp [this]
            · intro hr
              simp only [commitCount_append, commitCount, commitCount_rcpts, count_filter_nodup _ haccND]
              by_cases hra : r ∈ accepted
              · have hok := ((hmemA r).mp hra).2
                by_cases hbr : (p.bodyRc r).isOk = true
                · simp [hra, hbr, hr, hok]
                · simp [hra, hbr]
              · have : (p.rcpt r).isOk = false := by
                  cases h : (p.rcpt r).isOk with
                  | false => rfl
                  | true => exact absurd ((hmemA r).mpr ⟨hr, h⟩) hra
                simp [hra, hr, this]
  · simp only [hs, Bool.not_false, ↓reduceIte]
    refine ⟨by simp [reportCount], fun _ => by simp [commitCount], ?_⟩
    intro hr; simp [commitCount, hr]


theorem deliver_spec_report (k : Kind) (p : Plan) (to : List Addr) (r : Addr) :
    reportCount r (deliver k p to).2 = 0 := by
  cases k <;> unfold deliver <;> simp only <;> (repeat' split) <;>
    simp [reportCount_append, reportCount, reportCount_rcpts]

/-! ## the classification loop -/

def willRetry (maxTries : Nat) (e : Errs) (tries : Addr → Nat) (r : Addr) : Bool :=
  match e r with
  | some c => c.retryable && decide (tries r + 1 < maxTries)
  | none => false

def willFail (maxTries : Nat) (e : Errs) (tries : Addr → Nat) (r : Addr) : Bool :=
  match e r with
  | some c => !c.retryable || decide (tries r + 1 ≥ maxTries)
  | none => false

theorem classify_spec (maxTries : Nat) (e : Errs) (l : List Addr) (hnd : l.Nodup) (a : Acc) :
    let a' := classify maxTries e l a
    a'.newR = a.newR ++ l.filter (willRetry maxTries e a.tries) ∧
    a'.failedR = a.failedR ++ l.filter (willFail maxTries e a.tries) ∧
    (∀ x, a'.tries x =
      if x ∈ l ∧ willRetry maxTries e a.tries x = true then a.tries x + 1
      else if x ∈ l ∧ willFail maxTries e a.tries x = true then 0 else a.tries x) := by
  induction l generalizing a with
  | nil => simp [classify]
  | cons r rest ih =>
    have hr : r ∉ rest := (List.nodup_cons.mp hnd).1
    have hnd' : rest.Nodup := (List.nodup_cons.mp hnd).2
    -- predicates on `rest` do not see an update at `r`
    have congrR : ∀ v, rest.filter (willRetry maxTries e (updTries a.tries r v)) =
        rest.filter (willRetry maxTries e a.tries) := by
      intro v; apply List.filter_congr; intro x hx
      have : x ≠ r := fun h => hr (h ▸ hx)
      simp [willRetry, updTries, this]
    have congrF : ∀ v, rest.filter (willFail maxTries e (updTries a.tries r v)) =
        rest.filter (willFail maxTries e a.tries) := by
      intro v; apply List.filter_congr; intro x hx
      have : x ≠ r := fun h => hr (h ▸ hx)
      simp [willFail, updTries, this]
    simp only [classify]
    cases he : e r with
    | none =>
      simp only
      have := ih hnd' a
      refine ⟨?_, ?_, ?_⟩
      · rw [this.1]; simp [List.filter_cons, willRetry, he]
      · rw [this.2.1]; simp [List.filter_cons, willFail, he]
      · intro x; rw [this.2.2 x]
        by_cases hx : x = r
        · subst hx; simp [hr, willRetry, willFail, he]
        · simp [hx]
    | some c =>
      simp only
      by_cases hc : (!c.retryable || decide (a.tries r + 1 ≥ maxTries)) = true
      · simp only [hc, ↓reduceIte]
        have := ih hnd' { a with tries := updTries a.tries r 0, failedR := a.failedR ++ [r] }
        simp only at this
        have hwr : willRetry maxTries e a.tries r = false := by
          simp [willRetry, he]; simp at hc
          rcases hc with hc | hc
          · simp [hc]
          · intro _; omega
        have hwf : willFail maxTries e a.tries r = true := by simp [willFail, he]; simpa using hc
        refine ⟨?_, ?_, ?_⟩
        · rw [this.1, congrR]; simp [List.filter_cons, hwr]
        · rw [this.2.1, congrF]; simp [List.filter_cons, hwf]
        · intro x; rw [this.2.2 x]
          by_cases hx : x = r
          · subst hx; simp [hr, hwr, hwf, updTries]
          · have e1 : willRetry maxTries e (updTries a.tries r 0) x = willRetry maxTries e a.tries x := by
              simp [willRetry, updTries, hx]
            have e2 : willFail maxTries e (updTries a.tries r 0) x = willFail maxTries e a.tries x := by
              simp [willFail, updTries, hx]
            simp [hx, e1, e2, updTries]
      · simp only [hc, Bool.false_eq_true, ↓reduceIte]
        have := ih hnd' { a with tries := updTries a.tries r (a.tries r + 1), newR := a.newR ++ [r] }
        simp only at this
        have hwr : willRetry maxTries e a.tries r = true := by
          simp [willRetry, he]; simp at hc; exact ⟨hc.1, by omega⟩
        have hwf : willFail maxTries e a.tries r = false := by
          simp [willFail, he]; simp at hc; exact ⟨hc.1, by omega⟩
        refine ⟨?_, ?_, ?_⟩
        · rw [this.1, congrR]; simp [List.filter_cons, hwr]
        · rw [this.2.1, congrF]; simp [List.filter_cons, hwf]
        · intro x; rw [this.2.2 x]
          by_cases hx : x = r
          · subst hx; simp [hr, hwr, updTries]
          · have e1 : willRetry maxTries e (updTries a.tries r (a.tries r + 1)) x = willRetry maxTries e a.tries x := by
              simp [willRetry, updTries, hx]
            have e2 : willFail maxTries e (updTries a.tries r (a.tries r + 1)) x = willFail maxTries e a.tries x := by
              simp [willFail, updTries, hx]
            simp [hx, e1, e2, updTries]


/-! ## one attempt of the queue -/

def newTo : Option Meta → List Addr
  | none => []
  | some m => m.to

theorem tri (maxTries : Nat) (e : Errs) (tries : Addr → Nat) (r : Addr) :
    (e r = none ∧ willRetry maxTries e tries r = false ∧ willFail maxTries e tries r = false) ∨
    (∃ c, e r = some c ∧ willRetry maxTries e tries r = true ∧ willFail maxTries e tries r = false ∧
        c.retryable = true ∧ tries r + 1 < maxTries) ∨
    (∃ c, e r = some c ∧ willRetry maxTries e tries r = false ∧ willFail maxTries e tries r = true) := by
  cases he : e r with
  | none => left; simp [willRetry, willFail, he]
  | some c =>
    right
    by_cases h : c.retryable = true ∧ tries r + 1 < maxTries
    · left; refine ⟨c, rfl, ?_, ?_, h.1, h.2⟩
      · simp [willRetry, he, h.1, h.2]
      · simp [willFail, he, h.1]; omega
    · right; refine ⟨c, rfl, ?_, ?_⟩
      · simp [willRetry, he]; intro hr; have := h; simp [hr] at this; omega
      · simp [willFail, he]
        by_cases hr : c.retryable = true
        · right; simp [hr] at h; omega
        · left; simpa using hr

/-- What one attempt does for a recipient `r`. -/
theorem step_spec (maxTries : Nat) (k : Kind) (p : Plan) (m : Meta) (hnd : m.to.Nodup) (r : Addr) :
    let res := tryDelivery maxTries k true p m
    let e := (deliver k p m.to).1
    (r ∉ m.to → commitCount r res.2 = 0 ∧ reportCount r res.2 = 0 ∧ r ∉ newTo res.1) ∧
    (r ∈ m.to →
      (e r = none ∧ commitCount r res.2 = 1 ∧ reportCount r res.2 = 0 ∧ r ∉ newTo res.1) ∨
      (willFail maxTries e m.tries r = true ∧
        commitCount r res.2 = 0 ∧ reportCount r res.2 = 1 ∧ r ∉ newTo res.1) ∨
      (willRetry maxTries e m.tries r = true ∧
        commitCount r res.2 = 0 ∧ reportCount r res.2 = 0 ∧ r ∈ newTo res.1 ∧
        ∀ m', res.1 = some m' → m'.tries r = m.tries r + 1)) := by
  intro res e
  have hd := deliver_spec k p m.to hnd r
  have hc := classify_spec maxTries e m.to hnd ⟨m.tries, [], []⟩
  simp only [List.nil_append] at hc
  obtain ⟨hcN, hcF, hcT⟩ := hc
  -- shape of the result
  have hres : res = (if (classify maxTries e m.to ⟨m.tries, [], []⟩).newR.isEmpty then
        (none, (deliver k p m.to).2 ++
          (if (classify maxTries e m.to ⟨m.tries, [], []⟩).failedR.isEmpty || !true then []
            else [Ev.report (classify maxTries e m.to ⟨m.tries, [], []⟩).failedR]) ++ [.removed])
      else (some ⟨(classify maxTries e m.to ⟨m.tries, [], []⟩).newR,
                  (classify maxTries e m.to ⟨m.tries, [], []⟩).tries⟩,
            (deliver k p m.to).2 ++
          (if (classify maxTries e m.to ⟨m.tries, [], []⟩).failedR.isEmpty || !true then []
            else [Ev.report (classify maxTries e m.to ⟨m.tries, [], []⟩).failedR]) ++
          [.requeue (classify maxTries e m.to ⟨m.tries, [], []⟩).newR])) := by
    rfl
  have hnewTo : newTo res.1 = m.to.filter (willRetry maxTries e m.tries) := by
    rw [hres]; split
    · rename_i h; rw [hcN] at h; simp [newTo]; simpa using h
    · simp [newTo, hcN]
  have hcc : commitCount r res.2 = commitCount r (deliver k p m.to).2 := by
    rw [hres]; split <;> split <;> simp [commitCount_append, commitCount]
  have hrc : reportCount r res.2 =
      if r ∈ m.to ∧ willFail maxTries e m.tries r = true then 1 else 0 := by
    have hF : reportCount r (if (classify maxTries e m.to ⟨m.tries, [], []⟩).failedR.isEmpty || !true then []
            else [Ev.report (classify maxTries e m.to ⟨m.tries, [], []⟩).failedR]) =
        if r ∈ m.to ∧ willFail maxTries e m.tries r = true then 1 else 0 := by
      rw [hcF]
      split
      · rename_i h
        have h0 : m.to.filter (willFail maxTries e m.tries) = [] := by simpa using h
        have hn : ¬ (r ∈ m.to ∧ willFail maxTries e m.tries r = true) := by
          intro hh
          have : r ∈ m.to.filter (willFail maxTries e m.tries) := List.mem_filter.mpr hh
          rw [h0] at this; simp at this
        simp [reportCount, hn]
      · simp [reportCount, count_filter_nodup _ hnd]
    rw [hres]; split <;> simp only [reportCount_append, hd.1, hF] <;> simp [reportCount]
  have htries : ∀ m', res.1 = some m' → ∀ x, m'.tries x =
      if x ∈ m.to ∧ willRetry maxTries e m.tries x = true then m.tries x + 1
      else if x ∈ m.to ∧ willFail maxTries e m.tries x = true then 0 else m.tries x := by
    intro m' hm' x
    rw [hres] at hm'
    split at hm'
    · cases hm'
    · simp at hm'; rw [← hm']; exact hcT x
  constructor
  · intro hr
    refine ⟨by rw [hcc]; exact hd.2.1 hr, by rw [hrc]; simp [hr], ?_⟩
    rw [hnewTo]; simp [hr]
  · intro hr
    rcases tri maxTries e m.tries r with ⟨h1, h2, h3⟩ | ⟨c, h1, h2, h3, _, _⟩ | ⟨c, h1, h2, h3⟩
    · left
      refine ⟨h1, ?_, ?_, ?_⟩
      · rw [hcc, hd.2.2 hr]; simp [e] at h1; simp [h1]
      · rw [hrc]; simp [h3]
      · rw [hnewTo]; simp [h2]
    · right; right
      refine ⟨h2, ?_, ?_, ?_, ?_⟩
      · rw [hcc, hd.2.2 hr]; simp [e] at h1; simp [h1]
      · rw [hrc]; simp [h3]
      · rw [hnewTo]; simp [hr, h2]
      · intro m' hm'; rw [htries m' hm' r]; simp [hr, h2]
    · right; left
      refine ⟨h3, ?_, ?_, ?_⟩
      · rw [hcc, hd.2.2 hr]; simp [e] at h1; simp [h1]
      · rw [hrc]; simp [hr, h3]
      · rw [hnewTo]; simp [h2]


theorem step_meta (maxTries : Nat) (k : Kind) (p : Plan) (m : Meta) (hnd : m.to.Nodup) :
    let res := tryDelivery maxTries k true p m
    (∀ m', res.1 = some m' → m'.to.Nodup ∧ m'.to ≠ [] ∧ ∀ x ∈ m'.to, x ∈ m.to) ∧
    (res.1 = none → res.2.getLast? = some Ev.removed) := by
  intro res
  have hc := classify_spec maxTries (deliver k p m.to).1 m.to hnd ⟨m.tries, [], []⟩
  simp only [List.nil_append] at hc
  have hres : res = (if (classify maxTries (deliver k p m.to).1 m.to ⟨m.tries, [], []⟩).newR.isEmpty then
        (none, (deliver k p m.to).2 ++
          (if (classify maxTries (deliver k p m.to).1 m.to ⟨m.tries, [], []⟩).failedR.isEmpty || !true then []
            else [Ev.report (classify maxTries (deliver k p m.to).1 m.to ⟨m.tries, [], []⟩).failedR]) ++ [.removed])
      else (some ⟨(classify maxTries (deliver k p m.to).1 m.to ⟨m.tries, [], []⟩).newR,
                  (classify maxTries (deliver k p m.to).1 m.to ⟨m.tries, [], []⟩).tries⟩,
            (deliver k p m.to).2 ++
          (if (classify maxTries (deliver k p m.to).1 m.to ⟨m.tries, [], []⟩).failedR.isEmpty || !true then []
            else [Ev.report (classify maxTries (deliver k p m.to).1 m.to ⟨m.tries, [], []⟩).failedR]) ++
          [.requeue (classify maxTries (deliver k p m.to).1 m.to ⟨m.tries, [], []⟩).newR])) := by
    rfl
  constructor
  · intro m' hm'
    rw [hres] at hm'
    split at hm'
    · cases hm'
    · rename_i hne
      simp at hm'; subst hm'
      simp only
      rw [hc.1] at hne ⊢
      refine ⟨hnd.filter _, by simpa using hne, ?_⟩
      intro x hx; exact (List.mem_filter.mp hx).1
  · intro hn
    rw [hres] at hn ⊢
    split at hn
    · rename_i h; simp [h]
    · cases hn

/-- Invariant-based main lemma: from any pending state in which every pending recipient has
been tried fewer than `maxTries` times and `fuel` attempts suffice to exhaust the bound, the
remaining life of the message gives every pending recipient exactly one terminal outcome, gives
nothing to anybody else, and ends with the spool entry removed. -/
theorem run_spec (maxTries : Nat) (k : Kind) (plans : Nat → Plan) :
    ∀ (fuel i : Nat) (m : Meta), m.to.Nodup → m.to ≠ [] →
      (∀ r ∈ m.to, m.tries r < maxTries ∧ maxTries ≤ m.tries r + fuel) →
      let evs := run maxTries k true plans fuel i m
      (∀ r ∈ m.to, (commitCount r evs = 1 ∧ reportCount r evs = 0) ∨
                   (commitCount r evs = 0 ∧ reportCount r evs = 1)) ∧
      (∀ r, r ∉ m.to → commitCount r evs = 0 ∧ reportCount r evs = 0) ∧
      evs.getLast? = some Ev.removed := by
  intro fuel
  induction fuel with
  | zero =>
    intro i m _ hne hb
    exfalso
    cases hm : m.to with
    | nil => exact hne hm
    | cons r t => have := hb r (by simp [hm]); omega
  | succ fuel ih =>
    intro i m hnd hne hb
    simp only [run]
    have hmeta := step_meta maxTries k (plans i) m hnd
    have hstep := fun r => step_spec maxTries k (plans i) m hnd r
    cases hres : tryDelivery maxTries k true (plans i) m with
    | mk om evs1 =>
      simp only [hres] at hmeta hstep
      cases om with
      | none =>
        simp only
        refine ⟨?_, ?_, hmeta.2 rfl⟩
        · intro r hr
          rcases (hstep r).2 hr with ⟨_, h1, h2, _⟩ | ⟨_, h1, h2, _⟩ | ⟨_, _, _, h3, _⟩
          · left; exact ⟨h1, h2⟩
          · right; exact ⟨h1, h2⟩
          · simp [newTo] at h3
        · intro r hr
          have := (hstep r).1 hr; exact ⟨this.1, this.2.1⟩
      | some m' =>
        simp only
        obtain ⟨hnd', hne', hsub⟩ := hmeta.1 m' rfl
        have hb' : ∀ r ∈ m'.to, m'.tries r < maxTries ∧ maxTries ≤ m'.tries r + fuel := by
          intro r hr
          have hrm := hsub r hr
          rcases (hstep r).2 hrm with ⟨_, _, _, h3⟩ | ⟨_, _, _, h3⟩ | ⟨hw, _, _, _, ht⟩
          · exact absurd hr (by simpa [newTo] using h3)
          · exact absurd hr (by simpa [newTo] using h3)
          · have := ht m' rfl
            have hb0 := hb r hrm
            -- willRetry gives tries r + 1 < maxTries
            have hlt : m.tries r + 1 < maxTries := by
              unfold willRetry at hw
              split at hw
              · simp at hw; exact hw.2
              · cases hw
            omega
        have IH := ih (i + 1) m' hnd' hne' hb'
        simp only at IH
        obtain ⟨IH1, IH2, IH3⟩ := IH
        refine ⟨?_, ?_, ?_⟩
        · intro r hr
          rw [commitCount_append, reportCount_append]
          rcases (hstep r).2 hr with ⟨_, h1, h2, h3⟩ | ⟨_, h1, h2, h3⟩ | ⟨_, h1, h2, h3, _⟩
          · have := IH2 r (by simpa [newTo] using h3); left; omega
          · have := IH2 r (by simpa [newTo] using h3); right; omega
          · have := IH1 r (by simpa [newTo] using h3)
            rcases this with this | this
            · left; omega
            · right; omega
        · intro r hr
          rw [commitCount_append, reportCount_append]
          have h := (hstep r).1 hr
          have := IH2 r (by simpa [newTo] using h.2.2)
          omega
        · rw [List.getLast?_append]
          simp [IH3]

/-! ## property theorems -/

/-- **C01 (exactly one terminal outcome).** For every `maxTries ≥ 1`, downstream kind, stream of
per-attempt fault plans and duplicate-free recipient list: every recipient of an accepted
message is committed by the downstream exactly once and never reported, or reported in exactly
one failure report and never committed; nobody else is committed or reported; and the message
leaves the spool within `maxTries` attempts. -/
theorem C01_exactly_one_outcome (maxTries : Nat) (k : Kind) (plans : Nat → Plan) (to : List Addr)
    (hmt : 0 < maxTries) (hnd : to.Nodup) (hne : to ≠ []) :
    let evs := run maxTries k true plans maxTries 0 ⟨to, fun _ => 0⟩
    (∀ r ∈ to, (commitCount r evs = 1 ∧ reportCount r evs = 0) ∨
               (commitCount r evs = 0 ∧ reportCount r evs = 1)) ∧
    (∀ r, r ∉ to → commitCount r evs = 0 ∧ reportCount r evs = 0) ∧
    evs.getLast? = some Ev.removed :=
  run_spec maxTries k plans maxTries 0 ⟨to, fun _ => 0⟩ hnd hne
    (by intro r _; exact ⟨hmt, by simp⟩)

/-- **C01 (retry only after a temporary or unclassified failure, below the attempt bound).**
A recipient stays in the spool for another attempt only if this attempt ended for it with a
temporary/unclassified error and it has been tried fewer than `maxTries` times; one that was
delivered or failed permanently is never attempted again. -/
theorem C01_retry_only_after_temp (maxTries : Nat) (k : Kind) (p : Plan) (m : Meta)
    (hnd : m.to.Nodup) (r : Addr) :
    let res := tryDelivery maxTries k true p m
    r ∈ newTo res.1 →
      r ∈ m.to ∧ ∃ c, (deliver k p m.to).1 r = some c ∧ c.retryable = true ∧
        m.tries r + 1 < maxTries := by
  intro res hr
  have hs := step_spec maxTries k p m hnd r
  by_cases hm : r ∈ m.to
  · refine ⟨hm, ?_⟩
    rcases hs.2 hm with ⟨_, _, _, h3⟩ | ⟨_, _, _, h3⟩ | ⟨hw, _⟩
    · exact absurd hr h3
    · exact absurd hr h3
    · unfold willRetry at hw
      split at hw
      · rename_i c hc; simp at hw; exact ⟨c, hc, hw.1, hw.2⟩
      · cases hw
  · exact absurd hr (hs.1 hm).2.2

/-- **C01 (no report without a bounce route).** With the null sender or no bounce pipeline the
queue hands nothing to the bounce pipeline. -/
theorem C01_no_report_when_suppressed (maxTries : Nat) (k : Kind) (plans : Nat → Plan) (r : Addr) :
    ∀ (fuel i : Nat) (m : Meta), reportCount r (run maxTries k false plans fuel i m) = 0 := by
  intro fuel
  induction fuel with
  | zero => intro i m; simp [run, reportCount]
  | succ fuel ih =>
    intro i m
    simp only [run]
    have hstep : reportCount r (tryDelivery maxTries k false (plans i) m).2 = 0 := by
      unfold tryDelivery
      have hd := (deliver_spec_report k (plans i) m.to r)
      simp only
      split <;> simp [reportCount_append, reportCount, hd]
    cases hres : tryDelivery maxTries k false (plans i) m with
    | mk om evs1 =>
      rw [hres] at hstep
      cases om with
      | none => simpa using hstep
      | some m' => simp only [reportCount_append, hstep, ih]

/-! ## non-vacuity -/

def demoPlan : Nat → Plan := fun i =>
  { start := .ok, rcpt := fun r => if r = 3 then .perm else .ok, body := .ok,
    bodyRc := fun r => if r = 2 ∧ i = 0 then .temp else .ok, commit := .ok }

example : commitCount 1 (run 3 .partialD true demoPlan 3 0 ⟨[1, 2, 3], fun _ => 0⟩) = 1 ∧
          commitCount 2 (run 3 .partialD true demoPlan 3 0 ⟨[1, 2, 3], fun _ => 0⟩) = 1 ∧
          reportCount 3 (run 3 .partialD true demoPlan 3 0 ⟨[1, 2, 3], fun _ => 0⟩) = 1 := by decide

end MaddyVerif.C01

/-! ## the queue on a real forwarding target against a misbehaving next hop (`Model/QueueHop.lean`) -/
namespace MaddyVerif.C01
open MaddyVerif.Queue MaddyVerif.QueueHop

theorem FCls.toCls_isOk (f : FCls) : f.toCls.isOk = false := by cases f <;> rfl

theorem lookupCls_cons (r : Addr) (cl : Cls) (l : List (Addr × Cls)) (x : Addr) :
    lookupCls ((r, cl) :: l) x = if x = r then cl else lookupCls l x := by
  unfold lookupCls
  by_cases h : x = r
  · subst h; simp [List.find?]
  · have : (r == x) = false := by simpa using fun h' => h h'.symm
    simp [List.find?, this, h]

/-- `C.Rcpt`: the connection's recipient list grows by exactly the accepted recipient. -/
theorem rcptOn_acc (s : Script) (lr : Addr → Bool) (c : Sess) (r : Addr) :
    (rcptOn s lr c r).2.acc = c.acc ++ (if (rcptOn s lr c r).1.isOk then [r] else []) := by
  unfold rcptOn
  split
  · simp [Cls.isOk]
  · split
    · simp [Cls.isOk]
    · split
      · simp [FCls.toCls_isOk]
      · split
        · simp [FCls.toCls_isOk]
        · simp [Cls.isOk]

theorem stepRcpt_acc (s : Script) (lr : Addr → Bool) (st : DState) (r : Addr) :
    (sessOf (stepRcpt s lr st r).2).acc =
      (sessOf st).acc ++ (if (stepRcpt s lr st r).1.isOk then [r] else []) := by
  unfold stepRcpt
  cases hs : st.sess with
  | some c =>
    simp only [sessOf, Option.getD_some, hs]
    exact rcptOn_acc s lr c r
  | none =>
    simp only
    split
    · simp [sessOf, hs, FCls.toCls_isOk]
    · simp only [sessOf, Option.getD_some, hs, Option.getD_none]
      have := rcptOn_acc s lr ⟨true, []⟩ r
      simpa using this


theorem lookupCls_not_mem (l : List (Addr × Cls)) (x : Addr) (h : x ∉ l.map (·.1)) :
    lookupCls l x = .ok := by
  induction l with
  | nil => rfl
  | cons p t ih =>
    obtain ⟨a, c⟩ := p
    simp at h
    rw [lookupCls_cons]
    simp [h.1]
    exact ih (by simpa using h.2)

/-- The RCPT phase: one result per recipient, in order; the connection holds exactly the
recipients whose `AddRcpt` returned nil, in order. -/
theorem rcptPhase_spec (s : Script) (lr : Addr → Bool) :
    ∀ (l : List Addr) (st : DState), l.Nodup →
      (rcptPhase s lr st l).2.map (·.1) = l ∧
      (sessOf (rcptPhase s lr st l).1).acc =
        (sessOf st).acc ++ l.filter (fun r => (lookupCls (rcptPhase s lr st l).2 r).isOk) := by
  intro l
  induction l with
  | nil => intro st _; simp [rcptPhase]
  | cons r rest ih =>
    intro st hnd
    have hnd' : rest.Nodup := (List.nodup_cons.mp hnd).2
    have hr : r ∉ rest := (List.nodup_cons.mp hnd).1
    have IH := ih (stepRcpt s lr st r).2 hnd'
    have hstep := stepRcpt_acc s lr st r
    simp only [rcptPhase]
    refine ⟨by simp [IH.1], ?_⟩
    rw [IH.2, hstep]
    have hfilt : rest.filter (fun x => (lookupCls ((r, (stepRcpt s lr st r).1) ::
          (rcptPhase s lr (stepRcpt s lr st r).2 rest).2) x).isOk) =
        rest.filter (fun x => (lookupCls (rcptPhase s lr (stepRcpt s lr st r).2 rest).2 x).isOk) := by
      apply List.filter_congr
      intro x hx
      rw [lookupCls_cons]
      have : x ≠ r := fun h => hr (h ▸ hx)
      simp [this]
    rw [List.filter_cons, lookupCls_cons]
    simp only [↓reduceIte]
    rw [hfilt]
    split <;> simp


theorem lookupCls_map_const (l : List Addr) (cl : Cls) (r : Addr) :
    lookupCls (l.map (fun x => (x, cl))) r = if r ∈ l then cl else .ok := by
  induction l with
  | nil => rfl
  | cons a t ih =>
    simp only [List.map_cons, lookupCls_cons, ih, List.mem_cons]
    by_cases h : r = a <;> simp [h]

theorem lmtpWalk_spec (s : Script) (r : Addr) :
    ∀ (l : List Addr) (n : Option Nat), l.Nodup →
      (lmtpWalk s n l).1.map (·.1) = l ∧
      (lmtpWalk s n l).2.count r =
        if r ∈ l ∧ (lookupCls (lmtpWalk s n l).1 r).isOk then 1 else 0 := by
  intro l
  induction l with
  | nil => intro n _; simp [lmtpWalk]
  | cons a t ih =>
    intro n hnd
    have hnd' : t.Nodup := (List.nodup_cons.mp hnd).2
    have ha : a ∉ t := (List.nodup_cons.mp hnd).1
    -- a recipient of the tail is not `a`
    have hne : r ∈ t → r ≠ a := fun h h' => ha (h' ▸ h)
    by_cases h0 : n = some 0
    · subst h0
      have IH := ih (some 0) hnd'
      simp only [lmtpWalk]
      refine ⟨by simp [IH.1], ?_⟩
      rw [IH.2, lookupCls_cons]
      by_cases hra : r = a
      · subst hra; simp [ha, Cls.isOk]
      · simp [hra]
    · have IH := ih (n.map (· - 1)) hnd'
      have hunf : lmtpWalk s n (a :: t) =
          (match s.lmtpSt a with
           | none => ((a, Cls.ok) :: (lmtpWalk s (n.map (· - 1)) t).1, a :: (lmtpWalk s (n.map (· - 1)) t).2)
           | some f => ((a, f.toCls) :: (lmtpWalk s (n.map (· - 1)) t).1, (lmtpWalk s (n.map (· - 1)) t).2)) := by
        cases n with
        | none => cases h : s.lmtpSt a <;> simp [lmtpWalk, h]
        | some k =>
          cases k with
          | zero => exact absurd rfl h0
          | succ k => cases h : s.lmtpSt a <;> simp [lmtpWalk, h]
      rw [hunf]
      cases hst : s.lmtpSt a with
      | none =>
        simp only
        refine ⟨by simp [IH.1], ?_⟩
        rw [List.count_cons, IH.2, lookupCls_cons]
        by_cases hra : r = a
        · subst hra; simp [ha, Cls.isOk]
        · have : (a == r) = false := by simpa using fun h => hra h.symm
          simp [hra, this]
      | some f =>
        simp only
        refine ⟨by simp [IH.1], ?_⟩
        rw [IH.2, lookupCls_cons]
        by_cases hra : r = a
        · subst hra; simp [ha, FCls.toCls_isOk]
        · simp [hra]

/-- The DATA phase on one connection: the hop acknowledges exactly the accepted recipients for
which the target reports no error, each once. -/
theorem dataPhase_spec (tk : TKind) (s : Script) (c : Sess) (hnd : c.acc.Nodup) (r : Addr) :
    (dataPhase tk s c).2.count r =
      if r ∈ c.acc ∧ (lookupCls (dataPhase tk s c).1 r).isOk then 1 else 0 := by
  have hconst : ∀ cl : Cls, cl.isOk = false →
      ([] : List Addr).count r = if r ∈ c.acc ∧ (lookupCls (c.acc.map (fun x => (x, cl))) r).isOk then 1 else 0 := by
    intro cl hcl
    rw [lookupCls_map_const]
    by_cases h : r ∈ c.acc <;> simp [h, hcl]
  have hsmtp : (c.acc.map (fun x => (x, dataCls s c)), if (dataCls s c).isOk then c.acc else []).2.count r =
      if r ∈ c.acc ∧ (lookupCls (c.acc.map (fun x => (x, dataCls s c)), if (dataCls s c).isOk then c.acc else []).1 r).isOk
        then 1 else 0 := by
    simp only [lookupCls_map_const]
    by_cases hok : (dataCls s c).isOk = true
    · simp only [hok, ↓reduceIte]
      rw [List.Nodup.count hnd]
      by_cases h : r ∈ c.acc <;> simp [h, hok]
    · simp only [hok]
      by_cases h : r ∈ c.acc <;> simp [h, hok]
  cases tk with
  | remote => exact hsmtp
  | smtp => exact hsmtp
  | lmtp =>
    unfold dataPhase
    simp only
    split
    · exact hconst _ rfl
    · split
      · exact hconst _ (FCls.toCls_isOk _)
      · split
        · exact hconst _ rfl
        · exact (lmtpWalk_spec s r c.acc s.lmtpDrop hnd).2

/-- **C01 (a body that cannot be read is never acknowledged).** When the spooled body cannot be
opened or its reader fails before EOF, no target lets the final dot reach the next hop: the hop
acknowledges nobody on that connection, and every accepted recipient gets a retryable error, unless
the attempt ended earlier with the hop's own answer to the `DATA` command.  (This is what sending
any command — `RSET`, `QUIT` — on a connection left in the middle of the message data would break:
net/textproto would terminate the data first.) -/
theorem C01_hop_body_fault_not_acked (tk : TKind) (s : Script) (c : Sess)
    (hf : s.bodyOpenF = true ∨ s.bodyReadF = true) :
    (dataPhase tk s c).2 = [] ∧
    ∀ r ∈ c.acc, (lookupCls (dataPhase tk s c).1 r).isOk = false := by
  have hcls : (dataCls s c).isOk = false := by
    unfold dataCls
    rcases hf with hf | hf
    · simp [hf, Cls.isOk]
    · split
      · rfl
      · split
        · exact FCls.toCls_isOk _
        · simp [hf, Cls.isOk]
  have hsmtp : (c.acc.map (fun x => (x, dataCls s c)), if (dataCls s c).isOk then c.acc else []).2 = [] ∧
      ∀ r ∈ c.acc, (lookupCls (c.acc.map (fun x => (x, dataCls s c)),
        if (dataCls s c).isOk then c.acc else []).1 r).isOk = false := by
    refine ⟨by simp [hcls], ?_⟩
    intro r hr
    simp only [lookupCls_map_const, hr, ↓reduceIte, hcls]
  have hconst : ∀ cl : Cls, cl.isOk = false →
      ∀ r ∈ c.acc, (lookupCls (c.acc.map (fun x => (x, cl))) r).isOk = false := by
    intro cl hcl r hr
    simp only [lookupCls_map_const, hr, ↓reduceIte, hcl]
  cases tk with
  | remote => exact hsmtp
  | smtp => exact hsmtp
  | lmtp =>
    unfold dataPhase
    simp only
    split
    · exact ⟨rfl, hconst _ rfl⟩
    · rename_i h1
      split
      · exact ⟨rfl, hconst _ (FCls.toCls_isOk _)⟩
      · split
        · exact ⟨rfl, hconst _ rfl⟩
        · rename_i h2
          rcases hf with hf | hf
          · simp [hf] at h1
          · exact absurd hf h2

def bodyOk (k : Kind) (p : Plan) (r : Addr) : Bool :=
  match k with
  | .atomic => p.body.isOk
  | .partialD => (p.bodyRc r).isOk

theorem deliver_errs_none (k : Kind) (p : Plan) (to : List Addr) (r : Addr)
    (hs : p.start = .ok) (hc : p.commit = .ok) (hr : r ∈ to) :
    ((deliver k p to).1 r).isNone = ((p.rcpt r).isOk && bodyOk k p r) := by
  have hs' : p.start.isOk = true := by rw [hs]; rfl
  have hc' : p.commit.isOk = true := by rw [hc]; rfl
  unfold deliver
  simp only [hs', hc', Bool.not_true, Bool.false_eq_true, ↓reduceIte]
  by_cases hacc : (to.filter (fun r => (p.rcpt r).isOk)).isEmpty = true
  · have hall : (p.rcpt r).isOk = false := by
      have := List.isEmpty_iff.mp hacc
      have h2 : r ∉ to.filter (fun r => (p.rcpt r).isOk) := by rw [this]; simp
      simpa [List.mem_filter, hr] using h2
    simp [hacc, hr, hall]
  · simp only [hacc]
    cases k with
    | atomic =>
      by_cases hb : p.body.isOk = true
      · simp only [hb, bodyOk, Bool.not_true, Bool.false_eq_true, ↓reduceIte]
        split <;> (by_cases hrc : (p.rcpt r).isOk = true <;> simp [hr, hrc])
      · have hb' : p.body.isOk = false := by simpa using hb
        simp only [hb', bodyOk, Bool.not_false, Bool.false_eq_true, ↓reduceIte]
        split <;> (by_cases hrc : (p.rcpt r).isOk = true <;> simp [hr, hrc, List.mem_filter])
    | partialD =>
      simp only [bodyOk, Bool.false_eq_true, ↓reduceIte]
      split <;> (by_cases hrc : (p.rcpt r).isOk = true <;>
        by_cases hbr : (p.bodyRc r).isOk = true <;> simp [hr, hrc, hbr, List.mem_filter])


theorem count_flatMap_zero (l : List Nat) (f : Nat → List Addr) (r : Addr)
    (hf : ∀ d ∈ l, r ∉ f d) : (l.flatMap f).count r = 0 := by
  induction l with
  | nil => rfl
  | cons a t ih =>
    simp only [List.flatMap_cons, List.count_append]
    rw [ih (fun d hd => hf d (by simp [hd])), List.count_eq_zero_of_not_mem (hf a (by simp))]

theorem count_flatMap_unique (l : List Nat) (f : Nat → List Addr) (r : Addr) (d0 : Nat)
    (hl : l.Nodup) (hd : d0 ∈ l) (hf : ∀ d ∈ l, d ≠ d0 → r ∉ f d) :
    (l.flatMap f).count r = (f d0).count r := by
  induction l with
  | nil => cases hd
  | cons a t ih =>
    simp only [List.flatMap_cons, List.count_append]
    have hnd := List.nodup_cons.mp hl
    by_cases ha : a = d0
    · subst ha
      rw [count_flatMap_zero t f r (fun d hd' => hf d (by simp [hd']) (fun h => hnd.1 (h ▸ hd')))]
      simp
    · have hd' : d0 ∈ t := by
        rcases List.mem_cons.mp hd with h | h
        · exact absurd h.symm ha
        · exact h
      rw [ih hnd.2 hd' (fun d hdt => hf d (by simp [hdt])),
        List.count_eq_zero_of_not_mem (hf a (by simp) ha)]
      simp

theorem initState_acc (tk : TKind) : (sessOf (initState tk)).acc = [] := by
  cases tk <;> rfl

/-- What one hop holds after the RCPT phase of an attempt. -/
theorem hopRun_acc (tk : TKind) (s : Script) (lr : Addr → Bool) (dom : Addr → Nat) (to : List Addr)
    (hnd : to.Nodup) (d : Nat) :
    (sessOf (hopRun tk s lr dom to d).1).acc =
      (to.filter (fun r => dom r == d)).filter (fun r => (lookupCls (hopRun tk s lr dom to d).2 r).isOk) := by
  have h := (rcptPhase_spec s lr (to.filter (fun r => dom r == d)) (initState tk) (hnd.filter _)).2
  unfold hopRun
  rw [h, initState_acc]; simp

theorem hopAcked_mem (tk : TKind) (s : Script) (lr : Addr → Bool) (dom : Addr → Nat) (to : List Addr)
    (hnd : to.Nodup) (d : Nat) (r : Addr) (h : r ∈ hopAcked tk s lr dom to d) :
    r ∈ to ∧ dom r = d := by
  have hacc := hopRun_acc tk s lr dom to hnd d
  have hnd' : (sessOf (hopRun tk s lr dom to d).1).acc.Nodup := by
    rw [hacc]; exact (hnd.filter _).filter _
  have hc := dataPhase_spec tk s (sessOf (hopRun tk s lr dom to d).1) hnd' r
  have hpos : 0 < (hopAcked tk s lr dom to d).count r := List.count_pos_iff.mpr h
  unfold hopAcked at hpos
  rw [hc] at hpos
  split at hpos
  · rename_i hh
    have := hh.1
    rw [hacc] at this
    have := (List.mem_filter.mp (List.mem_filter.mp this).1)
    exact ⟨this.1, by simpa using this.2⟩
  · omega


theorem commitCount_start_fail (k : Kind) (p : Plan) (to : List Addr) (r : Addr)
    (hs : p.start.isOk = false) : commitCount r (deliver k p to).2 = 0 := by
  unfold deliver
  simp [hs, commitCount]

/-- **C01 (the target tells the queue the truth about a misbehaving next hop).** In one attempt
against next hops that fail at MAIL, in the middle of the RCPT phase, at DATA or at teardown, the
recipients the hops acknowledged (250 after the final dot) are exactly the ones the queue counts
as committed, each once: a recipient for which the target reports no error was acknowledged, and
one that was not acknowledged is reported with an error. -/
theorem C01_hop_attempt_truthful (tk : TKind) (s : Script) (lr : Addr → Bool) (dom : Addr → Nat)
    (nd : Nat) (to : List Addr) (hnd : to.Nodup) (hdom : ∀ r ∈ to, dom r < nd)
    (hone : tk ≠ .remote → ∀ r ∈ to, dom r = 0) (r : Addr) :
    (attemptAcked tk s lr dom nd to).count r =
      commitCount r (deliver tk.kind (hopPlan tk s lr dom to) to).2 := by
  unfold attemptAcked
  by_cases hst : (startCls tk s).isOk = true
  · simp only [hst, ↓reduceIte]
    have hds := deliver_spec tk.kind (hopPlan tk s lr dom to) to hnd r
    by_cases hr : r ∈ to
    · rw [hds.2.2 hr]
      have hs : (hopPlan tk s lr dom to).start = .ok := by
        have : (hopPlan tk s lr dom to).start = startCls tk s := rfl
        rw [this]; cases h : startCls tk s <;> simp_all [Cls.isOk]
      rw [deliver_errs_none tk.kind _ to r hs rfl hr]
      rw [count_flatMap_unique (List.range nd) _ r (dom r) List.nodup_range
        (List.mem_range.mpr (hdom r hr))
        (fun d _ hne hmem => hne (hopAcked_mem tk s lr dom to hnd d r hmem).2.symm)]
      -- the hop of `r`
      have hacc := hopRun_acc tk s lr dom to hnd (dom r)
      have hnd' : (sessOf (hopRun tk s lr dom to (dom r)).1).acc.Nodup := by
        rw [hacc]; exact (hnd.filter _).filter _
      have hc := dataPhase_spec tk s (sessOf (hopRun tk s lr dom to (dom r)).1) hnd' r
      unfold hopAcked
      rw [hc]
      have hmem : r ∈ (sessOf (hopRun tk s lr dom to (dom r)).1).acc ↔
          ((hopPlan tk s lr dom to).rcpt r).isOk = true := by
        rw [hacc]
        simp [List.mem_filter, hr, hopPlan]
      have hbody : r ∈ (sessOf (hopRun tk s lr dom to (dom r)).1).acc →
          (lookupCls (dataPhase tk s (sessOf (hopRun tk s lr dom to (dom r)).1)).1 r).isOk =
            bodyOk tk.kind (hopPlan tk s lr dom to) r := by
        intro hin
        cases tk with
        | remote => rfl
        | lmtp => rfl
        | smtp =>
          have h0 : dom r = 0 := hone (by decide) r hr
          simp only [TKind.kind, bodyOk, hopPlan, dataPhase]
          rw [lookupCls_map_const]
          simp only [hin, ↓reduceIte]
          rw [h0]
      by_cases hin : r ∈ (sessOf (hopRun tk s lr dom to (dom r)).1).acc
      · rw [hbody hin]
        have := hmem.mp hin
        simp [hin, this]
      · have : ((hopPlan tk s lr dom to).rcpt r).isOk = false := by
          cases h : ((hopPlan tk s lr dom to).rcpt r).isOk
          · rfl
          · exact absurd (hmem.mpr h) hin
        simp [hin, this]
    · rw [hds.2.1 hr]
      exact count_flatMap_zero _ _ r
        (fun d _ hmem => hr (hopAcked_mem tk s lr dom to hnd d r hmem).1)
  · have hst' : (startCls tk s).isOk = false := by simpa using hst
    simp only [hst', Bool.false_eq_true, ↓reduceIte]
    rw [commitCount_start_fail _ _ _ _ (by exact hst')]
    simp


/-! ### the whole life of a message on a forwarding target -/

/-- Pending state before attempt `i` (`none` = already removed). -/
def hopMetaAt (maxTries : Nat) (tk : TKind) (dsn : Bool) (scripts : Nat → Script) (lr : Addr → Bool)
    (dom : Addr → Nat) (m0 : Meta) : Nat → Option Meta
  | 0 => some m0
  | i + 1 =>
    match hopMetaAt maxTries tk dsn scripts lr dom m0 i with
    | none => none
    | some m => (tryDelivery maxTries tk.kind dsn (hopPlan tk (scripts i) lr dom m.to) m).1

/-- The fault plans the queue meets, attempt by attempt, on top of a forwarding target. -/
def hopPlans (maxTries : Nat) (tk : TKind) (dsn : Bool) (scripts : Nat → Script) (lr : Addr → Bool)
    (dom : Addr → Nat) (m0 : Meta) : Nat → Plan := fun i =>
  match hopMetaAt maxTries tk dsn scripts lr dom m0 i with
  | some m => hopPlan tk (scripts i) lr dom m.to
  | none => hopPlan tk (scripts i) lr dom []

/-- The queue on a forwarding target is an instance of the queue against a stream of fault plans:
everything proved for `Queue.run` holds for it. -/
theorem runHop_events (maxTries : Nat) (tk : TKind) (dsn : Bool) (scripts : Nat → Script)
    (lr : Addr → Bool) (dom : Addr → Nat) (nd : Nat) (m0 : Meta) :
    ∀ (fuel j : Nat) (m : Meta), hopMetaAt maxTries tk dsn scripts lr dom m0 j = some m →
      (runHop maxTries tk dsn scripts lr dom nd fuel j m).1 =
        run maxTries tk.kind dsn (hopPlans maxTries tk dsn scripts lr dom m0) fuel j m := by
  intro fuel
  induction fuel with
  | zero => intro j m _; rfl
  | succ fuel ih =>
    intro j m hm
    have hp : hopPlans maxTries tk dsn scripts lr dom m0 j = hopPlan tk (scripts j) lr dom m.to := by
      simp [hopPlans, hm]
    simp only [runHop, run, hp]
    cases hres : tryDelivery maxTries tk.kind dsn (hopPlan tk (scripts j) lr dom m.to) m with
    | mk om evs =>
      cases om with
      | none => rfl
      | some m' =>
        simp only
        have hm' : hopMetaAt maxTries tk dsn scripts lr dom m0 (j + 1) = some m' := by
          simp [hopMetaAt, hm, hres]
        rw [ih (j + 1) m' hm']

theorem tryDelivery_commitCount (maxTries : Nat) (k : Kind) (dsn : Bool) (p : Plan) (m : Meta) (r : Addr) :
    commitCount r (tryDelivery maxTries k dsn p m).2 = commitCount r (deliver k p m.to).2 := by
  unfold tryDelivery
  simp only
  split <;> (simp only [commitCount_append]; split <;> simp [commitCount])

/-- Over the whole life of the message the hops' ground truth agrees with the queue's view. -/
theorem runHop_acked (maxTries : Nat) (tk : TKind) (scripts : Nat → Script) (lr : Addr → Bool)
    (dom : Addr → Nat) (nd : Nat) (r : Addr) :
    ∀ (fuel i : Nat) (m : Meta), m.to.Nodup → (∀ x ∈ m.to, dom x < nd) →
      (tk ≠ .remote → ∀ x ∈ m.to, dom x = 0) →
      (runHop maxTries tk true scripts lr dom nd fuel i m).2.count r =
        commitCount r (runHop maxTries tk true scripts lr dom nd fuel i m).1 := by
  intro fuel
  induction fuel with
  | zero => intro i m _ _ _; rfl
  | succ fuel ih =>
    intro i m hnd hdom hone
    have hatt := C01_hop_attempt_truthful tk (scripts i) lr dom nd m.to hnd hdom hone r
    have htc := tryDelivery_commitCount maxTries tk.kind true (hopPlan tk (scripts i) lr dom m.to) m r
    have hmeta := step_meta maxTries tk.kind (hopPlan tk (scripts i) lr dom m.to) m hnd
    simp only [runHop]
    cases hres : tryDelivery maxTries tk.kind true (hopPlan tk (scripts i) lr dom m.to) m with
    | mk om evs =>
      rw [hres] at htc hmeta
      cases om with
      | none => simp only; rw [hatt, htc]
      | some m' =>
        simp only
        obtain ⟨hnd', _, hsub⟩ := hmeta.1 m' rfl
        rw [List.count_append, commitCount_append, hatt, htc,
          ih (i + 1) m' hnd' (fun x hx => hdom x (hsub x hx)) (fun h x hx => hone h x (hsub x hx))]

/-- **C01 on a forwarding target (exactly one terminal outcome, measured at the next hop).** For
every `maxTries ≥ 1`, each of the three forwarding targets, every stream of per-attempt next-hop
scripts (faults at MAIL, a recipient limit answered 4xx/5xx/421, the connection closed, reset or
silent in the middle of the RCPT phase, faults at DATA, after the final dot and at teardown) and
every duplicate-free recipient list: every recipient is acknowledged by a next hop exactly once
and never reported, or named in exactly one failure report and never acknowledged; nobody else
is acknowledged or reported; the message leaves the spool within `maxTries` attempts. -/
theorem C01_hop_exactly_one_outcome (maxTries : Nat) (tk : TKind) (scripts : Nat → Script)
    (lr : Addr → Bool) (dom : Addr → Nat) (nd : Nat) (to : List Addr)
    (hmt : 0 < maxTries) (hnd : to.Nodup) (hne : to ≠ []) (hdom : ∀ r ∈ to, dom r < nd)
    (hone : tk ≠ .remote → ∀ r ∈ to, dom r = 0) :
    let res := runHop maxTries tk true scripts lr dom nd maxTries 0 ⟨to, fun _ => 0⟩
    (∀ r ∈ to, (res.2.count r = 1 ∧ reportCount r res.1 = 0) ∨
               (res.2.count r = 0 ∧ reportCount r res.1 = 1)) ∧
    (∀ r, r ∉ to → res.2.count r = 0 ∧ reportCount r res.1 = 0) ∧
    res.1.getLast? = some Ev.removed := by
  intro res
  have hev : res.1 = run maxTries tk.kind true
      (hopPlans maxTries tk true scripts lr dom ⟨to, fun _ => 0⟩) maxTries 0 ⟨to, fun _ => 0⟩ :=
    runHop_events maxTries tk true scripts lr dom nd ⟨to, fun _ => 0⟩ maxTries 0 ⟨to, fun _ => 0⟩ rfl
  have hak : ∀ r, res.2.count r = commitCount r res.1 := fun r =>
    runHop_acked maxTries tk scripts lr dom nd r maxTries 0 ⟨to, fun _ => 0⟩ hnd hdom hone
  have hmain := C01_exactly_one_outcome maxTries tk.kind
    (hopPlans maxTries tk true scripts lr dom ⟨to, fun _ => 0⟩) to hmt hnd hne
  simp only at hmain
  rw [← hev] at hmain
  refine ⟨?_, ?_, hmain.2.2⟩
  · intro r hr; rw [hak r]; exact hmain.1 r hr
  · intro r hr; rw [hak r]; exact hmain.2.1 r hr

/-! ### non-vacuity of the hop theorems

`Script` has no field for the answer to RSET/QUIT: `remoteDelivery.Close` and `smtpconn.C.Close`
never return its failure, so teardown faults cannot change an outcome.

Three recipients of one domain over target.remote. Attempt 0: the hop accepts one recipient per
transaction and answers 452 to the others; attempt 1: the same limit answered with 421 and the
connection closed (the accepted recipient's DATA then fails as well); attempt 2: no fault. -/
def demoScript : Nat → Script := fun i =>
  { mailN := 0, mailF := ⟨.temp, false⟩, limit := if i < 2 then some 1 else none,
    limF := ⟨.temp, decide (i = 1)⟩, rej := fun _ => none,
    dataCmd := none, dataEnd := none, lmtpSt := fun _ => none, lmtpDrop := none }

example :
    (runHop 3 .remote true demoScript (fun _ => false) (fun _ => 0) 1 3 0 ⟨[1, 2, 3], fun _ => 0⟩).2
      = [1, 2, 3] ∧
    (runHop 2 .remote true demoScript (fun _ => false) (fun _ => 0) 1 2 0 ⟨[1, 2, 3], fun _ => 0⟩).2
      = [1] ∧
    reportCount 3
      (runHop 2 .remote true demoScript (fun _ => false) (fun _ => 0) 1 2 0 ⟨[1, 2, 3], fun _ => 0⟩).1
      = 1 := by decide

/-- Two recipients over target.smtp; in attempt 0 the body reader fails in the middle of the
message data: nobody is acknowledged, both are retried and acknowledged once in attempt 1. With
`maxTries = 1` both are reported instead. -/
def demoBodyFault : Nat → Script := fun i =>
  { mailN := 0, mailF := ⟨.temp, false⟩, limit := none, limF := ⟨.temp, false⟩, rej := fun _ => none,
    dataCmd := none, dataEnd := none, lmtpSt := fun _ => none, lmtpDrop := none,
    bodyReadF := decide (i = 0) }

example :
    (runHop 2 .smtp true demoBodyFault (fun _ => false) (fun _ => 0) 1 2 0 ⟨[1, 7], fun _ => 0⟩).2
      = [1, 7] ∧
    (runHop 1 .lmtp true demoBodyFault (fun _ => false) (fun _ => 0) 1 1 0 ⟨[1, 7], fun _ => 0⟩).2
      = [] ∧
    reportCount 7
      (runHop 1 .lmtp true demoBodyFault (fun _ => false) (fun _ => 0) 1 1 0 ⟨[1, 7], fun _ => 0⟩).1
      = 1 := by decide

/-- the hypotheses of `C01_hop_exactly_one_outcome` are satisfiable -/
example := C01_hop_exactly_one_outcome 3 .remote demoScript (fun _ => false) (fun _ => 0) 1 [1, 2, 3]
  (by decide) (by decide) (by decide) (by intro r _; decide) (by intro h; exact absurd rfl h)

end MaddyVerif.C01

/-! ## restarts of the server and the format of the failure report (`Model/QueueRestart.lean`) -/
namespace MaddyVerif.C01
open MaddyVerif.Queue MaddyVerif.QueueRestart

/-- What `readMessageMeta` reads is what `updateMetadataOnDisk` wrote, nil-ness of the maps included. -/
theorem load_store (m : MetaN) : load (store m) = m := rfl

theorem reload_eq (n : Nat) (m : MetaN) : reload n m = m := by
  induction n with
  | zero => rfl
  | succ n ih => simp [reload, load_store, ih]

theorem metaFor_eq (restarts : Nat → Nat) (i : Nat) (m : MetaN) : metaFor restarts i m = m := by
  unfold metaFor; split <;> simp [reload_eq]

theorem classify_mem (maxTries : Nat) (e : Errs) (l : List Addr) (a : Acc) :
    (∀ r ∈ (classify maxTries e l a).failedR, r ∈ a.failedR ∨ r ∈ l) ∧
    (∀ r ∈ (classify maxTries e l a).newR, r ∈ a.newR ∨ r ∈ l) := by
  induction l generalizing a with
  | nil => simp [classify]
  | cons x rest ih =>
    unfold classify
    split
    · have := ih a
      exact ⟨fun r hr => (this.1 r hr).elim Or.inl (fun h => Or.inr (List.mem_cons_of_mem _ h)),
             fun r hr => (this.2 r hr).elim Or.inl (fun h => Or.inr (List.mem_cons_of_mem _ h))⟩
    · split
      · have := ih { a with tries := updTries a.tries x 0, failedR := a.failedR ++ [x] }
        refine ⟨fun r hr => ?_, fun r hr => ?_⟩
        · rcases this.1 r hr with h | h
          · simp at h; rcases h with h | h
            · exact Or.inl h
            · exact Or.inr (h ▸ List.mem_cons_self)
          · exact Or.inr (List.mem_cons_of_mem _ h)
        · exact (this.2 r hr).elim Or.inl (fun h => Or.inr (List.mem_cons_of_mem _ h))
      · have := ih { a with tries := updTries a.tries x (a.tries x + 1), newR := a.newR ++ [x] }
        refine ⟨fun r hr => ?_, fun r hr => ?_⟩
        · exact (this.1 r hr).elim Or.inl (fun h => Or.inr (List.mem_cons_of_mem _ h))
        · rcases this.2 r hr with h | h
          · simp at h; rcases h with h | h
            · exact Or.inl h
            · exact Or.inr (h ▸ List.mem_cons_self)
          · exact Or.inr (List.mem_cons_of_mem _ h)

/-- In a well-formed envelope the report of any set of pending recipients can be generated. -/
theorem genOk_of_wellFormed (env : Env) (to failed : List Addr) (hw : env.wellFormed to)
    (hsub : ∀ r ∈ failed, r ∈ to) : genOk env failed = true := by
  unfold genOk
  cases hu : env.utf8 with
  | true => rfl
  | false =>
    have h := hw hu
    simp only [Bool.false_or, h.1, Bool.not_false, Bool.true_and, List.all_eq_true]
    intro r hr
    simp [h.2 r (hsub r hr)]

def liftMeta (m : Meta) : MetaN := ⟨m.to, m.tries, false, false⟩

/-- With `RcptErrs` non-nil and a well-formed envelope one attempt is the attempt of
`Model/Queue.lean`: no panic, the same events, the same pending state. -/
theorem tryDeliveryN_eq (maxTries : Nat) (k : Kind) (dsn : Bool) (env : Env) (p : Plan) (m : MetaN)
    (he : m.errsNil = false) (hw : env.wellFormed m.to) :
    tryDeliveryN maxTries k dsn env p m =
      ((tryDelivery maxTries k dsn p ⟨m.to, m.tries⟩).1.map liftMeta,
       (tryDelivery maxTries k dsn p ⟨m.to, m.tries⟩).2, false) := by
  have hg : genOk env (classify maxTries (deliver k p m.to).1 m.to ⟨m.tries, [], []⟩).failedR = true := by
    apply genOk_of_wellFormed env m.to _ hw
    intro r hr
    rcases (classify_mem maxTries (deliver k p m.to).1 m.to ⟨m.tries, [], []⟩).1 r hr with h | h
    · simp at h
    · exact h
  unfold tryDeliveryN tryDelivery
  simp only [he, Bool.false_and, Bool.false_eq_true, if_false, hg, Bool.not_true, Bool.or_false]
  split <;> simp [liftMeta, he]

/-- **C01 (restarts are transparent).** For every schedule of restarts — before the first attempt,
between any two attempts, several in a row — the queue's life of a message accepted through
`Queue.Start` in a well-formed envelope is event for event the life without restarts, and no attempt
panics. -/
theorem runR_eq (maxTries : Nat) (k : Kind) (dsn : Bool) (env : Env) (plans : Nat → Plan)
    (restarts : Nat → Nat) :
    ∀ (fuel i : Nat) (m : MetaN), m.errsNil = false → env.wellFormed m.to →
      runR maxTries k dsn env plans restarts fuel i m =
        (run maxTries k dsn plans fuel i ⟨m.to, m.tries⟩, false) := by
  intro fuel
  induction fuel with
  | zero => intro i m _ _; rfl
  | succ fuel ih =>
    intro i m he hw
    simp only [runR, run, metaFor_eq, tryDeliveryN_eq maxTries k dsn env (plans i) m he hw]
    cases hres : tryDelivery maxTries k dsn (plans i) ⟨m.to, m.tries⟩ with
    | mk om evs =>
      cases om with
      | none => simp
      | some m' =>
        have hsub : ∀ r ∈ m'.to, r ∈ m.to := by
          intro r hr
          have hm : m'.to = (classify maxTries (deliver k (plans i) m.to).1 m.to ⟨m.tries, [], []⟩).newR := by
            unfold tryDelivery at hres
            simp only at hres
            split at hres
            · cases hres
            · cases hres; rfl
          rw [hm] at hr
          rcases (classify_mem maxTries (deliver k (plans i) m.to).1 m.to ⟨m.tries, [], []⟩).2 r hr with h | h
          · simp at h
          · exact h
        have hw' : env.wellFormed (liftMeta m').to := by
          intro hu
          exact ⟨(hw hu).1, fun r hr => (hw hu).2 r (hsub r hr)⟩
        have := ih (i + 1) (liftMeta m') rfl hw'
        simp only [liftMeta] at this
        simp [liftMeta, this]

theorem C01_exactly_one_outcome_with_restarts (maxTries : Nat) (k : Kind) (plans : Nat → Plan)
    (to : List Addr) (restarts : Nat → Nat) (env : Env)
    (hmt : 0 < maxTries) (hnd : to.Nodup) (hne : to ≠ []) (hw : env.wellFormed to) :
    let res := runR maxTries k true env plans restarts maxTries 0 (accepted to)
    res.2 = false ∧
    (∀ r ∈ to, (commitCount r res.1 = 1 ∧ reportCount r res.1 = 0) ∨
               (commitCount r res.1 = 0 ∧ reportCount r res.1 = 1)) ∧
    (∀ r, r ∉ to → commitCount r res.1 = 0 ∧ reportCount r res.1 = 0) ∧
    res.1.getLast? = some Ev.removed := by
  intro res
  have h : res = (run maxTries k true plans maxTries 0 ⟨to, fun _ => 0⟩, false) :=
    runR_eq maxTries k true env plans restarts maxTries 0 (accepted to) rfl hw
  rw [h]
  exact ⟨rfl, C01_exactly_one_outcome maxTries k plans to hmt hnd hne⟩

/-- Every accepted recipient is delivered or reported also when reads of its spool entry failed
transiently (any number of times, before any attempts): an instance that cannot read an entry
leaves it alone, so the history is one of `runR`'s. -/
theorem C01_exactly_one_outcome_with_read_faults (maxTries : Nat) (k : Kind) (plans : Nat → Plan)
    (to : List Addr) (restarts faults : Nat → Nat) (env : Env)
    (hmt : 0 < maxTries) (hnd : to.Nodup) (hne : to ≠ []) (hw : env.wellFormed to) :
    let res := runR maxTries k true env plans (withReadFaults restarts faults) maxTries 0 (accepted to)
    res.2 = false ∧
    (∀ r ∈ to, (commitCount r res.1 = 1 ∧ reportCount r res.1 = 0) ∨
               (commitCount r res.1 = 0 ∧ reportCount r res.1 = 1)) ∧
    (∀ r, r ∉ to → commitCount r res.1 = 0 ∧ reportCount r res.1 = 0) ∧
    res.1.getLast? = some Ev.removed :=
  C01_exactly_one_outcome_with_restarts maxTries k plans to (withReadFaults restarts faults) env hmt hnd hne hw

/-! ### non-vacuity, and why the two hypotheses are there -/

def demoRestarts : Nat → Nat := fun i => if i = 0 then 1 else if i = 1 then 2 else 0
def demoEnv : Env := ⟨true, false, fun r => r = 3⟩

example : demoEnv.wellFormed [1, 2, 3] := by intro h; cases h

example :
    let res := runR 3 .partialD true demoEnv demoPlan demoRestarts 3 0 (accepted [1, 2, 3])
    res.2 = false ∧ commitCount 2 res.1 = 1 ∧ reportCount 3 res.1 = 1 := by decide

/-- A `.meta` that comes back with `RcptErrs == nil` (what an `omitempty` tag on the field does to the
empty map `Queue.Start` made): the first failed recipient of an attempt after a restart is a panic,
nobody is reported, the entry stays behind. -/
example :
    let res := runR 3 .atomic true demoEnv (fun _ => { demoPlan 0 with rcpt := fun _ => .temp })
      (fun _ => 1) 3 0 ⟨[1, 2], fun _ => 0, true, true⟩
    res.2 = true ∧ reportCount 1 res.1 = 0 ∧ commitCount 1 res.1 = 0 := by decide

/-- A report rendered in the plain format although the address it names has a non-ASCII local
part is not generated: the recipient is dropped without an outcome. -/
example :
    let res := runR 1 .atomic true ⟨false, false, fun r => r = 3⟩ demoPlan (fun _ => 0) 1 0 (accepted [3])
    res.2 = false ∧ reportCount 3 res.1 = 0 ∧ commitCount 3 res.1 = 0 := by decide

/-! ## the class of a failure: basic reply code or marker, never the enhanced status code

`Model/QueueErr.lean`.  The plan letters of `Queue.run` are `QueueErr.cls` of the error the
downstream returned; these theorems say what that class can depend on. -/
section errclass
open MaddyVerif.QueueErr

theorem temporaryOf_eraseEnh (e : Err) : temporaryOf (eraseEnh e) = temporaryOf e := by
  induction e with
  | nil => rfl
  | cons l t ih =>
    cases l <;> simp_all [eraseEnh, temporaryOf]

theorem cls_eraseEnh (e : Err) : cls (eraseEnh e) = cls e := by
  simp [cls, temporaryOf_eraseEnh]

/-- Two errors that differ only in their enhanced status codes get the same decision. -/
theorem C01_retry_decision_ignores_enhanced_code (maxTries tries : Nat) (e e' : Err)
    (h : eraseEnh e = eraseEnh e') :
    retryDecision maxTries tries e = retryDecision maxTries tries e' := by
  have : cls e = cls e' := by rw [← cls_eraseEnh e, ← cls_eraseEnh e', h]
  simp [retryDecision, this]

/-- … and so does the whole classification loop of `tryDelivery`: which recipients are re-queued,
which are reported, and the attempt counters. -/
theorem C01_classify_ignores_enhanced_code (maxTries : Nat) (errs errs' : Addr → Option Err)
    (h : ∀ r, (errs r).map eraseEnh = (errs' r).map eraseEnh) (to : List Addr) (a : Acc) :
    classify maxTries (fun r => (errs r).map cls) to a =
      classify maxTries (fun r => (errs' r).map cls) to a := by
  have hf : (fun r => (errs r).map cls) = (fun r => (errs' r).map cls) := by
    funext r
    have hr := h r
    cases h1 : errs r with
    | none => cases h2 : errs' r with
      | none => rfl
      | some y => simp [h1, h2] at hr
    | some x => cases h2 : errs' r with
      | none => simp [h1, h2] at hr
      | some y =>
        simp [h1, h2] at hr
        simp [← cls_eraseEnh x, ← cls_eraseEnh y, hr]
  rw [hf]

/-- The basic reply code decides when the reply is the outermost classified layer. -/
theorem C01_basic_code_decides (c : Nat) (enh : Enh) (rest : Err) :
    cls (.smtp c enh :: rest) = (if c / 100 == 4 then Cls.temp else Cls.perm) ∧
    cls (.plainSmtp c enh :: rest) = (if c / 100 == 4 then Cls.temp else Cls.perm) := by
  constructor <;> simp only [cls, temporaryOf] <;> split <;> simp_all

/-- … and the marker of `exterrors.WithTemporary` when it is. -/
theorem C01_marker_decides (b : Bool) (rest : Err) :
    cls (.marker b :: rest) = (if b then Cls.temp else Cls.perm) := by
  cases b <;> simp [cls, temporaryOf]

/-- Never re-attempted after a permanent failure: a recipient whose error is classified permanent
(a 5yz reply, whatever enhanced code it carries) is reported in this attempt and not re-queued;
one whose error is temporary or unclassified is re-queued iff attempts are left. -/
theorem C01_permanent_reply_not_requeued (maxTries : Nat) (errs : Addr → Option Err)
    (to : List Addr) (hnd : to.Nodup) (tries : Addr → Nat) (r : Addr) (hr : r ∈ to) (e : Err)
    (he : errs r = some e) :
    let a := classify maxTries (fun x => (errs x).map cls) to ⟨tries, [], []⟩
    (r ∈ a.newR ↔ retryDecision maxTries (tries r) e = true) ∧
    (r ∈ a.failedR ↔ retryDecision maxTries (tries r) e = false) := by
  have hs := classify_spec maxTries (fun x => (errs x).map cls) to hnd ⟨tries, [], []⟩
  simp only at hs
  intro a
  have h1 : a.newR = to.filter (willRetry maxTries (fun x => (errs x).map cls) tries) := by
    simpa using hs.1
  have h2 : a.failedR = to.filter (willFail maxTries (fun x => (errs x).map cls) tries) := by
    simpa using hs.2.1
  rw [h1, h2]
  simp only [List.mem_filter, hr, true_and, willRetry, willFail, he, Option.map_some, retryDecision]
  constructor
  · simp [Nat.not_le]
  · cases (cls e).retryable <;> simp

/-- `toSMTPErr` never records a status a failure report cannot carry (`dsn.RecipientInfo.WriteTo`
refuses a status without a class): whatever enhanced code came along, class 0 included. -/
theorem C01_recorded_status_reportable (e : Err) : reportable (recorded e).2 = true := by
  have hd : ∀ b : Bool, (if b then ((451 : Nat), ((4, 0, 0) : Enh)) else (554, (5, 0, 0))).2.1 ≠ 0 := by
    intro b; cases b <;> decide
  have hs : ∀ e : Err, (match firstSmtp e with
      | some (c, x) => (c, if x.1 ≠ 0 then x else
          (if (cls e).retryable then ((451 : Nat), ((4, 0, 0) : Enh)) else (554, (5, 0, 0))).2)
      | none => (if (cls e).retryable then ((451 : Nat), ((4, 0, 0) : Enh)) else (554, (5, 0, 0)))).2.1 ≠ 0 := by
    intro e
    split
    · rename_i c x _
      by_cases hx : x.1 ≠ 0
      · simp [hx]
      · simp only [hx, ↓reduceIte]; exact hd _
    · exact hd _
  unfold recorded reportable
  simp only [bne_iff_ne, ne_eq]
  split
  · rename_i c x rest
    by_cases hx : x.1 ≠ 0
    · simp [hx]
    · simp only [hx, ↓reduceIte]; exact hs (Layer.plainSmtp c x :: rest)
  · exact hs e

/-- Non-vacuity: `550 4.2.2` is final at once, `451 5.1.1` is retried, `550 0.1.1` is recorded with
the generic status; two errors that differ in the enhanced code only. -/
example : retryDecision 3 0 [.smtp 550 (4, 2, 2)] = false ∧ retryDecision 3 0 [.fields, .smtp 451 (5, 1, 1)] = true
    ∧ recorded [.smtp 550 (0, 1, 1)] = (550, (5, 0, 0)) ∧ recorded [.plainSmtp 451 (1, 1, 1)] = (451, (1, 1, 1))
    ∧ eraseEnh [.marker true, .smtp 550 (9, 0, 0)] = eraseEnh [.marker true, .smtp 550 (5, 1, 1)] := by decide

end errclass

/-! ## Round 9: addresses listed twice, status keys outside the envelope, the header -/
section round9
open MaddyVerif.QueueRestart MaddyVerif.QueueHop

theorem mem_dedup (l : List Addr) (x : Addr) : x ∈ dedup l ↔ x ∈ l := by
  induction l with
  | nil => simp [dedup]
  | cons r t ih =>
    simp only [dedup, List.mem_cons, List.mem_filter, ih]
    constructor
    · rintro (h | ⟨h, _⟩)
      · exact Or.inl h
      · exact Or.inr h
    · intro h
      by_cases hx : x = r
      · exact Or.inl hx
      · rcases h with h | h
        · exact Or.inl h
        · exact Or.inr ⟨h, by simpa using hx⟩

theorem dedup_nodup (l : List Addr) : (dedup l).Nodup := by
  induction l with
  | nil => simp [dedup]
  | cons r t ih =>
    simp only [dedup, List.nodup_cons, List.mem_filter]
    exact ⟨by simp, ih.filter _⟩

theorem dedup_of_nodup (l : List Addr) (h : l.Nodup) : dedup l = l := by
  induction l with
  | nil => rfl
  | cons r t ih =>
    have hc := List.nodup_cons.mp h
    simp only [dedup, ih hc.2]
    congr 1
    apply List.filter_eq_self.mpr
    intro x hx
    simp only [bne_iff_ne, ne_eq]
    intro hxr
    exact hc.1 (hxr ▸ hx)

/-- On a duplicate-free envelope the attempt is the attempt of `Model/Queue.lean`. -/
theorem tryDeliveryD_eq (maxTries : Nat) (k : Kind) (dsn : Bool) (p : Plan) (m : Meta)
    (hnd : m.to.Nodup) : tryDeliveryD maxTries k dsn p m = tryDelivery maxTries k dsn p m := by
  unfold tryDeliveryD tryDelivery
  rw [dedup_of_nodup m.to hnd]

/-- Whatever the envelope listed (addresses twice, three times), the list the queue keeps for the
next attempt is duplicate-free and names only addresses of the envelope: from the second attempt on
every theorem about duplicate-free lists applies. -/
theorem C01_pending_list_duplicate_free (maxTries : Nat) (k : Kind) (dsn : Bool) (p : Plan)
    (m m' : Meta) (h : (tryDeliveryD maxTries k dsn p m).1 = some m') :
    m'.to.Nodup ∧ ∀ x ∈ m'.to, x ∈ m.to := by
  have hc := classify_spec maxTries (deliver k p m.to).1 (dedup m.to) (dedup_nodup m.to) ⟨m.tries, [], []⟩
  simp only [List.nil_append] at hc
  unfold tryDeliveryD at h
  simp only at h
  split at h
  · cases h
  · cases h
    simp only
    rw [hc.1]
    refine ⟨(dedup_nodup m.to).filter _, ?_⟩
    intro x hx
    exact (mem_dedup m.to x).mp (List.mem_filter.mp hx).1

/-- **C01 (abort or commit).** `deliver` calls `Commit` iff some ACCEPTED recipient has no error —
for every accepted list (an address may occur any number of times) and every status map (keys that
name nobody in the envelope included). -/
theorem C01_commit_decision_iff (accepted : List Addr) (errs : Errs) :
    commitDecision accepted errs = true ↔ ∃ r ∈ accepted, errs r = none := by
  simp [commitDecision]

/-- Entries of the status map under addresses that were not accepted (stale, converted, other-case
forms; refused recipients) play no part. -/
theorem C01_commit_decision_ignores_foreign_keys (accepted : List Addr) (errs errs' : Errs)
    (h : ∀ r ∈ accepted, errs r = errs' r) :
    commitDecision accepted errs = commitDecision accepted errs' := by
  rw [Bool.eq_iff_iff, C01_commit_decision_iff, C01_commit_decision_iff]
  constructor
  · rintro ⟨r, hr, he⟩
    exact ⟨r, hr, by rw [← h r hr]; exact he⟩
  · rintro ⟨r, hr, he⟩
    exact ⟨r, hr, by rw [h r hr]; exact he⟩

/-- Listing an address twice does not change the decision: it is about the SET of accepted
recipients, never about a count. -/
theorem C01_commit_decision_dedup (accepted : List Addr) (errs : Errs) :
    commitDecision (dedup accepted) errs = commitDecision accepted errs := by
  have h1 := C01_commit_decision_iff (dedup accepted) errs
  have h2 := C01_commit_decision_iff accepted errs
  cases hA : commitDecision (dedup accepted) errs <;> cases hB : commitDecision accepted errs <;> simp_all
  · obtain ⟨r, hr, he⟩ := h2
    have := h1 r ((mem_dedup accepted r).mpr hr)
    simp [he] at this
  · obtain ⟨r, hr, he⟩ := h1
    have := h2 r ((mem_dedup accepted r).mp hr)
    simp [he] at this

/-- The per-recipient errors `deliver` holds when it decides (after the body stage). -/
def bodyErrs (k : Kind) (p : Plan) (to : List Addr) : Errs :=
  let accepted := to.filter (fun r => (p.rcpt r).isOk)
  let e1 : Errs := fun r => if r ∈ to ∧ !(p.rcpt r).isOk then some (p.rcpt r) else none
  match k with
  | .atomic => if !p.body.isOk then (fun r => if r ∈ accepted then some p.body else e1 r) else e1
  | .partialD => fun r => if r ∈ accepted ∧ !(p.bodyRc r).isOk then some (p.bodyRc r) else e1 r

def commits (evs : List Ev) : Bool :=
  evs.any (fun e => match e with | .commit _ => true | _ => false)

theorem commits_rcpts (p : Plan) (to : List Addr) :
    commits (to.map (fun r => Ev.rcpt r (p.rcpt r))) = false := by
  induction to with
  | nil => rfl
  | cons r t ih => simp only [commits] at ih ⊢; simp [ih]

/-- The model's `deliver` takes exactly that decision, for EVERY recipient list — duplicates
allowed — both kinds and every plan: `Commit` is called iff the session started and
`commitDecision` says so. -/
theorem C01_deliver_commits_iff (k : Kind) (p : Plan) (to : List Addr) :
    commits (deliver k p to).2 =
      (p.start.isOk && commitDecision (to.filter (fun r => (p.rcpt r).isOk)) (bodyErrs k p to)) := by
  have hr := commits_rcpts p to
  unfold commits at hr
  unfold deliver
  by_cases hc : p.commit.isOk = true <;> by_cases hs : p.start.isOk = true
  · simp only [hs, Bool.not_true, Bool.false_eq_true, if_false, Bool.true_and]
    by_cases he : (to.filter (fun r => (p.rcpt r).isOk)).isEmpty = true
    · simp only [he, if_true]
      have : to.filter (fun r => (p.rcpt r).isOk) = [] := by simpa using he
      simp [commits, commitDecision, this, hr]
    · simp only [he, if_false]
      cases k with
      | atomic =>
        by_cases hb : p.body.isOk = true
        · simp only [hb, Bool.not_true, Bool.false_eq_true, if_false, bodyErrs]
          split
          · rename_i h; (simp [commits, commitDecision, hr, hc] at h ⊢ <;> first | exact h | (obtain ⟨x, hx, hok, hn⟩ := h; exact ⟨x, hx, hok, by simp_all⟩) | (rename_i h2; obtain ⟨x, hx, hok, hn⟩ := h2; exact ⟨x, hx, hok, by simp_all⟩) | (simp_all; done) | grind)
          · rename_i h
            split <;> (simp [commits, commitDecision, hr, hc] at h ⊢ <;> first | exact h | (obtain ⟨x, hx, hok, hn⟩ := h; exact ⟨x, hx, hok, by simp_all⟩) | (rename_i h2; obtain ⟨x, hx, hok, hn⟩ := h2; exact ⟨x, hx, hok, by simp_all⟩) | (simp_all; done) | grind)
        · simp only [hb, Bool.not_false, if_true, bodyErrs]
          split
          · rename_i h; (simp [commits, commitDecision, hr, hc] at h ⊢ <;> first | exact h | (obtain ⟨x, hx, hok, hn⟩ := h; exact ⟨x, hx, hok, by simp_all⟩) | (rename_i h2; obtain ⟨x, hx, hok, hn⟩ := h2; exact ⟨x, hx, hok, by simp_all⟩) | (simp_all; done) | grind)
          · rename_i h
            split <;> (simp [commits, commitDecision, hr, hc] at h ⊢ <;> first | exact h | (obtain ⟨x, hx, hok, hn⟩ := h; exact ⟨x, hx, hok, by simp_all⟩) | (rename_i h2; obtain ⟨x, hx, hok, hn⟩ := h2; exact ⟨x, hx, hok, by simp_all⟩) | (simp_all; done) | grind)
      | partialD =>
        simp only [bodyErrs]
        split
        · rename_i h; (simp [commits, commitDecision, hr, hc] at h ⊢ <;> first | exact h | (obtain ⟨x, hx, hok, hn⟩ := h; exact ⟨x, hx, hok, by simp_all⟩) | (rename_i h2; obtain ⟨x, hx, hok, hn⟩ := h2; exact ⟨x, hx, hok, by simp_all⟩) | (simp_all; done) | grind)
        · rename_i h
          split <;> (simp [commits, commitDecision, hr, hc] at h ⊢ <;> first | exact h | (obtain ⟨x, hx, hok, hn⟩ := h; exact ⟨x, hx, hok, by simp_all⟩) | (rename_i h2; obtain ⟨x, hx, hok, hn⟩ := h2; exact ⟨x, hx, hok, by simp_all⟩) | (simp_all; done) | grind)
  · simp [hs, commits]
  · simp only [hs, Bool.not_true, Bool.false_eq_true, if_false, Bool.true_and]
    by_cases he : (to.filter (fun r => (p.rcpt r).isOk)).isEmpty = true
    · simp only [he, if_true]
      have : to.filter (fun r => (p.rcpt r).isOk) = [] := by simpa using he
      simp [commits, commitDecision, this, hr]
    · simp only [he, if_false]
      cases k with
      | atomic =>
        by_cases hb : p.body.isOk = true
        · simp only [hb, Bool.not_true, Bool.false_eq_true, if_false, bodyErrs]
          split
          · rename_i h; (simp [commits, commitDecision, hr, hc] at h ⊢ <;> first | exact h | (obtain ⟨x, hx, hok, hn⟩ := h; exact ⟨x, hx, hok, by simp_all⟩) | (rename_i h2; obtain ⟨x, hx, hok, hn⟩ := h2; exact ⟨x, hx, hok, by simp_all⟩) | (simp_all; done) | grind)
          · rename_i h
            split <;> (simp [commits, commitDecision, hr, hc] at h ⊢ <;> first | exact h | (obtain ⟨x, hx, hok, hn⟩ := h; exact ⟨x, hx, hok, by simp_all⟩) | (rename_i h2; obtain ⟨x, hx, hok, hn⟩ := h2; exact ⟨x, hx, hok, by simp_all⟩) | (simp_all; done) | grind)
        · simp only [hb, Bool.not_false, if_true, bodyErrs]
          split
          · rename_i h; (simp [commits, commitDecision, hr, hc] at h ⊢ <;> first | exact h | (obtain ⟨x, hx, hok, hn⟩ := h; exact ⟨x, hx, hok, by simp_all⟩) | (rename_i h2; obtain ⟨x, hx, hok, hn⟩ := h2; exact ⟨x, hx, hok, by simp_all⟩) | (simp_all; done) | grind)
          · rename_i h
            split <;> (simp [commits, commitDecision, hr, hc] at h ⊢ <;> first | exact h | (obtain ⟨x, hx, hok, hn⟩ := h; exact ⟨x, hx, hok, by simp_all⟩) | (rename_i h2; obtain ⟨x, hx, hok, hn⟩ := h2; exact ⟨x, hx, hok, by simp_all⟩) | (simp_all; done) | grind)
      | partialD =>
        simp only [bodyErrs]
        split
        · rename_i h; (simp [commits, commitDecision, hr, hc] at h ⊢ <;> first | exact h | (obtain ⟨x, hx, hok, hn⟩ := h; exact ⟨x, hx, hok, by simp_all⟩) | (rename_i h2; obtain ⟨x, hx, hok, hn⟩ := h2; exact ⟨x, hx, hok, by simp_all⟩) | (simp_all; done) | grind)
        · rename_i h
          split <;> (simp [commits, commitDecision, hr, hc] at h ⊢ <;> first | exact h | (obtain ⟨x, hx, hok, hn⟩ := h; exact ⟨x, hx, hok, by simp_all⟩) | (rename_i h2; obtain ⟨x, hx, hok, hn⟩ := h2; exact ⟨x, hx, hok, by simp_all⟩) | (simp_all; done) | grind)
  · simp [hs, commits]

/-- **C01 (the report decision ignores the header).** Whether a failure report is handed to the bounce
pipeline for the recipients that failed for good is decided by: somebody failed, the sender is not
the null address and a bounce pipeline exists, the report can be generated — never by the header of
the failed message (`Auto-Submitted`, `Precedence`, `List-Id`, … or none at all). -/
theorem C01_report_decision_ignores_header (h h' : Header) (dsn : Bool) (env : Env)
    (failed : List Addr) : reportDecision h dsn env failed = reportDecision h' dsn env failed := rfl

theorem C01_report_decision_spec (h : Header) (dsn : Bool) (env : Env) (failed : List Addr) :
    reportDecision h dsn env failed = true ↔ failed ≠ [] ∧ dsn = true ∧ genOk env failed = true := by
  unfold reportDecision
  cases failed <;> cases dsn <;> cases genOk env _ <;> simp

/-- For every header and every duplicate-free pending list the attempt is the one of
`Model/QueueRestart.lean`. -/
theorem tryDeliveryND_eq (maxTries : Nat) (k : Kind) (dsn : Bool) (env : Env) (hdr : Header)
    (p : Plan) (m : MetaN) (hnd : m.to.Nodup) :
    tryDeliveryND maxTries k dsn env hdr p m = tryDeliveryN maxTries k dsn env p m := by
  have hev : ∀ f : List Addr, (if reportDecision hdr dsn env f = true then [Ev.report f] else []) =
      (if (f.isEmpty || !dsn || !genOk env f) = true then [] else [Ev.report f]) := by
    intro f
    unfold reportDecision
    cases f <;> cases dsn <;> cases genOk env _ <;> simp
  unfold tryDeliveryND tryDeliveryN
  simp only [dedup_of_nodup m.to hnd, hev]

theorem tryDeliveryN_next_nodup (maxTries : Nat) (k : Kind) (dsn : Bool) (env : Env) (p : Plan)
    (m m' : MetaN) (hnd : m.to.Nodup) (h : (tryDeliveryN maxTries k dsn env p m).1 = some m') :
    m'.to.Nodup := by
  have hc := classify_spec maxTries (deliver k p m.to).1 m.to hnd ⟨m.tries, [], []⟩
  simp only [List.nil_append] at hc
  unfold tryDeliveryN at h
  simp only at h
  split at h
  · cases h
  · split at h
    · cases h
    · cases h
      simp only
      rw [hc.1]
      exact hnd.filter _

/-- The life of a message with any header on a duplicate-free envelope is the life `runR` describes. -/
theorem runRD_eq (maxTries : Nat) (k : Kind) (dsn : Bool) (env : Env) (hdr : Header)
    (plans : Nat → Plan) (restarts : Nat → Nat) :
    ∀ (fuel i : Nat) (m : MetaN), m.to.Nodup →
      runRD maxTries k dsn env hdr plans restarts fuel i m =
        runR maxTries k dsn env plans restarts fuel i m := by
  intro fuel
  induction fuel with
  | zero => intro i m _; rfl
  | succ fuel ih =>
    intro i m hnd
    have hnd' : (metaFor restarts i m).to.Nodup := by rw [metaFor_eq]; exact hnd
    simp only [runRD, runR, tryDeliveryND_eq maxTries k dsn env hdr (plans i) _ hnd']
    cases hres : tryDeliveryN maxTries k dsn env (plans i) (metaFor restarts i m) with
    | mk om rest =>
      cases rest with
      | mk evs b =>
        cases b with
        | true => rfl
        | false =>
          cases om with
          | none => rfl
          | some m' =>
            have := tryDeliveryN_next_nodup maxTries k dsn env (plans i) _ m' hnd' (by rw [hres])
            simp only [ih (i + 1) m' this]

/-- **C01 for every header.** Exactly one terminal outcome per recipient, for every header of the
queued message, every schedule of restarts, every well-formed envelope, every duplicate-free list. -/
theorem C01_exactly_one_outcome_any_header (maxTries : Nat) (k : Kind) (plans : Nat → Plan)
    (to : List Addr) (restarts : Nat → Nat) (env : Env) (hdr : Header)
    (hmt : 0 < maxTries) (hnd : to.Nodup) (hne : to ≠ []) (hw : env.wellFormed to) :
    let res := runRD maxTries k true env hdr plans restarts maxTries 0 (accepted to)
    res.2 = false ∧
    (∀ r ∈ to, (commitCount r res.1 = 1 ∧ reportCount r res.1 = 0) ∨
               (commitCount r res.1 = 0 ∧ reportCount r res.1 = 1)) ∧
    (∀ r, r ∉ to → commitCount r res.1 = 0 ∧ reportCount r res.1 = 0) ∧
    res.1.getLast? = some Ev.removed := by
  intro res
  have h : res = runR maxTries k true env plans restarts maxTries 0 (accepted to) :=
    runRD_eq maxTries k true env hdr plans restarts maxTries 0 (accepted to) hnd
  rw [h]
  exact C01_exactly_one_outcome_with_restarts maxTries k plans to restarts env hmt hnd hne hw

/-- The forwarding-target life on a duplicate-free envelope is `runHop`. -/
theorem runHopD_eq (maxTries : Nat) (tk : TKind) (dsn : Bool) (scripts : Nat → Script)
    (lr : Addr → Bool) (dom : Addr → Nat) (nd : Nat) :
    ∀ (fuel i : Nat) (m : Meta), m.to.Nodup →
      runHopD maxTries tk dsn scripts lr dom nd fuel i m =
        runHop maxTries tk dsn scripts lr dom nd fuel i m := by
  intro fuel
  induction fuel with
  | zero => intro i m _; rfl
  | succ fuel ih =>
    intro i m hnd
    simp only [runHopD, runHop, tryDeliveryD_eq maxTries tk.kind dsn _ m hnd]
    cases hres : tryDelivery maxTries tk.kind dsn (hopPlan tk (scripts i) lr dom m.to) m with
    | mk om evs =>
      cases om with
      | none => rfl
      | some m' =>
        have hm' : m'.to.Nodup := by
          have := C01_pending_list_duplicate_free maxTries tk.kind dsn
            (hopPlan tk (scripts i) lr dom m.to) m m'
            (by rw [tryDeliveryD_eq maxTries tk.kind dsn _ m hnd, hres])
          exact this.1
        simp only [ih (i + 1) m' hm']

/-- The full statement for envelopes that list an address twice (outcomes counted per TRANSACTION
the downstream committed, not per entry of its recipient list).  Proved: the part from the second
attempt on (`C01_pending_list_duplicate_free` + the theorems above) and the abort-or-commit decision
of the first attempt (`C01_deliver_commits_iff`); the first attempt's per-recipient bookkeeping over
a list with repetitions is tied to the code by the differential runs only. -/
def C01_exactly_one_outcome_repeated_addresses_stmt : Prop :=
  ∀ (maxTries : Nat) (k : Kind) (plans : Nat → Plan) (to : List Addr), 0 < maxTries → to ≠ [] →
    ∀ r ∈ to,
      let evs := (runRD maxTries k true ⟨true, false, fun _ => false⟩ [] plans (fun _ => 0) maxTries 0
        (accepted to)).1
      ((evs.filter (fun e => match e with | .committed rs => rs.contains r | _ => false)).length = 1 ∧
          reportCount r evs = 0) ∨
      ((evs.filter (fun e => match e with | .committed rs => rs.contains r | _ => false)).length = 0 ∧
          reportCount r evs = 1)

/-- Non-vacuity: `[1, 1, 2]`, per-recipient target, everybody fails at the body stage in attempt 0
(abort, no commit), all fine in attempt 1: one transaction, the address counted once per attempt. -/
example :
    let plans : Nat → Plan := fun i =>
      { start := .ok, rcpt := fun _ => .ok, body := .ok,
        bodyRc := fun _ => if i = 0 then .temp else .ok, commit := .ok }
    let evs := (runRD 2 .partialD true ⟨true, false, fun _ => false⟩ [("Auto-Submitted", "auto-replied")]
      plans (fun _ => 0) 2 0 (accepted [1, 1, 2])).1
    commits (deliver .partialD (plans 0) [1, 1, 2]).2 = false ∧ attempts evs = 2 ∧
    commitCount 2 evs = 1 ∧ reportCount 1 evs = 0 ∧ dedup [1, 1, 2, 1] = [1, 2] := by decide

end round9

/-! ## round 10: the names of the MTAs in the report (submitting client, the server itself) -/
section round10
open MaddyVerif.QueueRestart MaddyVerif.QueueTrace

/-- The MTA names stop the report iff the SERVER's own name is unusable - for every conversion
function, every client name, traced or not. -/
theorem C01_mta_names_ok_iff_server_name (conv : String → Option String) (o : Origin) :
    mtaOk conv o = hostOk conv o.host := by
  unfold mtaOk hostOk mtaFields
  by_cases hh : o.host = ""
  · simp [hh]
  · cases hc : conv o.host with
    | none => simp [hh]
    | some h =>
      by_cases hr : receivedFromMTA o = ""
      · simp [hh, hr]
      · cases conv (receivedFromMTA o) <;> simp [hh, hr]

/-- What the submitting client called itself, whether the sender is traced and whether the instance
still has the connection state play no part in the question whether a report is produced. -/
theorem C01_report_decision_ignores_client (conv : String → Option String)
    (c c' : Option String) (d d' : Bool) (host : String) (hdr : Header) (dsn : Bool) (env : Env)
    (failed : List Addr) :
    reportDecisionT conv ⟨c, d, host⟩ hdr dsn env failed =
      reportDecisionT conv ⟨c', d', host⟩ hdr dsn env failed := by
  unfold reportDecisionT
  rw [C01_mta_names_ok_iff_server_name, C01_mta_names_ok_iff_server_name]

/-- With a usable server name the decision is the one the theorems above speak of
(`C01_exactly_one_outcome_any_header`, `runRD_eq`, …), whatever the client name converts to. -/
theorem C01_report_decision_with_names_eq (conv : String → Option String) (o : Origin)
    (hdr : Header) (dsn : Bool) (env : Env) (failed : List Addr) (hh : hostOk conv o.host = true) :
    reportDecisionT conv o hdr dsn env failed = reportDecision hdr dsn env failed := by
  unfold reportDecisionT
  rw [C01_mta_names_ok_iff_server_name, hh, Bool.and_true]

/-- A client name the conversion refuses is left out of the report; the report is still made. -/
theorem C01_inconvertible_client_name_left_out (conv : String → Option String) (host h helo : String)
    (hh : host ≠ "") (hc : conv host = some h) (hn : helo ≠ "") (he : conv helo = none) :
    mtaFields conv host helo = some [("Reporting-MTA", "dns; " ++ h)] := by
  unfold mtaFields
  simp [hh, hc, hn, he]

/-- Non-vacuity: a conversion that refuses `xn--1.example` (malformed A-label) and empty labels; a
traced client of that name; server `mx.example.org`. -/
example :
    let conv : String → Option String := fun s =>
      if s == "xn--1.example" || s == "laptop..lan" then none else some s
    hostOk conv "mx.example.org" = true ∧
    mtaFields conv "mx.example.org" (receivedFromMTA ⟨some "xn--1.example", false, "mx.example.org"⟩) =
      some [("Reporting-MTA", "dns; mx.example.org")] ∧
    mtaFields conv "mx.example.org" (receivedFromMTA ⟨some "pc.lan", false, "mx.example.org"⟩) =
      some [("Reporting-MTA", "dns; mx.example.org"), ("Received-From-MTA", "dns; pc.lan")] ∧
    receivedFromMTA ⟨some "pc.lan", true, "mx.example.org"⟩ = "" ∧
    reportDecisionT conv ⟨some "laptop..lan", false, "mx.example.org"⟩ [] true
      ⟨false, false, fun _ => false⟩ [3] = true ∧
    reportDecisionT conv ⟨none, false, "xn--1.example"⟩ [] true
      ⟨false, false, fun _ => false⟩ [3] = false := by decide

end round10

/-! ## round 11: the meta-data file as another build of the server left it (`Model/QueueSpool.lean`) -/
section round11
open MaddyVerif.QueueSpool

/-- A member the running build has no field for - wherever it stands in the file, whatever its
value - does not change the entry that is loaded. -/
theorem C01_load_ignores_unknown_fields (d1 d2 : Doc) (k : String) (v : JVal) (hk : k ∉ known) :
    decode (d1 ++ (k, v) :: d2) = decode (d1 ++ d2) := by
  unfold decode
  apply List.map_congr_left
  intro a ha
  apply field_skip
  intro h
  exact hk (h ▸ ha)

/-- Any number of them. -/
theorem C01_load_ignores_other_build (d extra : Doc) (h : ∀ m ∈ extra, m.1 ∉ known) :
    decode (extra ++ d) = decode d := by
  induction extra with
  | nil => rfl
  | cons m rest ih =>
    have := C01_load_ignores_unknown_fields [] (rest ++ d) m.1 m.2 (h m (by simp))
    simp only [List.nil_append] at this
    rw [List.cons_append, this]
    exact ih (fun x hx => h x (by simp [hx]))

/-- A field that holds its zero value may as well be left out of the file. -/
theorem C01_load_absent_is_zero (d1 d2 : Doc) (k : String) (v : JVal) (hz : v.zero = true)
    (h1 : ∀ m ∈ d1, m.1 ≠ k) (h2 : ∀ m ∈ d2, m.1 ≠ k) :
    decode (d1 ++ (k, v) :: d2) = decode (d1 ++ d2) := by
  unfold decode
  apply List.map_congr_left
  intro a _
  by_cases hka : k = a
  · subst hka
    have e1 : d1.filter (fun m => m.1 == k) = [] := by
      simp [List.filter_eq_nil_iff]; exact fun a b hm => h1 (a, b) hm
    have e2 : d2.filter (fun m => m.1 == k) = [] := by
      simp [List.filter_eq_nil_iff]; exact fun a b hm => h2 (a, b) hm
    unfold field
    simp [List.filter_append, List.filter_cons, e1, e2, hz]
  · exact field_skip d1 d2 k a v hka

/-- The order of the members means nothing as long as no name occurs twice: swapping two
neighbours (every permutation is a chain of those). -/
theorem C01_load_ignores_key_order (d1 d2 : Doc) (m n : String × JVal) (h : m.1 ≠ n.1) :
    decode (d1 ++ m :: n :: d2) = decode (d1 ++ n :: m :: d2) := by
  unfold decode
  apply List.map_congr_left
  intro a _
  unfold field
  by_cases hm : m.1 = a <;> by_cases hn : n.1 = a
  · exact absurd (hm.trans hn.symm) h
  · simp [List.filter_append, List.filter_cons, hm, hn]
  · simp [List.filter_append, List.filter_cons, hm, hn]
  · simp [List.filter_append, List.filter_cons, hm, hn]

/-- Non-vacuity, and the contrast with a strict reading of the same file. -/
example :
    let d : Doc := [("MsgMeta", .other "{\"ID\":\"x\"}"), ("From", .str "a@example.org"),
      ("To", .other "[\"b@example.org\"]"), ("RcptErrs", .other "{}"), ("TriesCount", .null)]
    decode (("SpoolFormat", .num 3) :: d) = decode d ∧
    decodeStrict (("SpoolFormat", .num 3) :: d) = none ∧
    decodeStrict d = some (decode d) ∧
    decode (d ++ [("From", .str "")]) ≠ decode d := by decide

end round11

end MaddyVerif.C01
