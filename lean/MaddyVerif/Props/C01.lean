import MaddyVerif.Model.Queue
/-!
# C01 — every queued recipient ends in exactly one terminal outcome

Quantifier: all duplicate-free recipient lists, both downstream kinds, all `maxTries ≥ 1`, all
infinite streams of per-attempt fault plans.
-/
namespace MaddyVerif.C01
open MaddyVerif.Queue

/-! ## counting lemmas -/

theorem commitCount_append (r : Addr) (a b : List Ev) :
    commitCount r (a ++ b) = commitCount r a + commitCount r b := by
  induction a with
  | nil => simp [commitCount]
  | cons e t ih => cases e <;> simp [commitCount, ih, Nat.add_assoc]

theorem reportCount_append (r : Addr) (a b : List Ev) :
    reportCount r (a ++ b) = reportCount r a + reportCount r b := by
  induction a with
  | nil => simp [reportCount]
  | cons e t ih => cases e <;> simp [reportCount, ih, Nat.add_assoc]

theorem commitCount_rcpts (r : Addr) (p : Plan) (to : List Addr) :
    commitCount r (to.map (fun x => Ev.rcpt x (p.rcpt x))) = 0 := by
  induction to with
  | nil => rfl
  | cons a t ih => simp [commitCount, ih]

theorem reportCount_rcpts (r : Addr) (p : Plan) (to : List Addr) :
    reportCount r (to.map (fun x => Ev.rcpt x (p.rcpt x))) = 0 := by
  induction to with
  | nil => rfl
  | cons a t ih => simp [reportCount, ih]

theorem count_filter_nodup (l : List Addr) (hnd : l.Nodup) (f : Addr → Bool) (r : Addr) :
    (l.filter f).count r = if r ∈ l ∧ f r = true then 1 else 0 := by
  have h2 : (l.filter f).Nodup := hnd.filter f
  rw [List.Nodup.count h2]
  simp [List.mem_filter]

/-! ## one attempt at the target: who is committed -/

/-- The downstream commits the message for a recipient of this attempt exactly when the queue
sees no error for it; it commits nothing for anybody else; `deliver` itself reports nothing. -/
theorem deliver_spec (k : Kind) (p : Plan) (to : List Addr) (hnd : to.Nodup) (r : Addr) :
    let res := deliver k p to
    reportCount r res.2 = 0 ∧
    (r ∉ to → commitCount r res.2 = 0) ∧
    (r ∈ to → commitCount r res.2 = if (res.1 r).isNone then 1 else 0) := by
  unfold deliver
  by_cases hs : p.start.isOk = true
  · simp only [hs, Bool.not_true, Bool.false_eq_true, ↓reduceIte]
    by_cases hacc : (to.filter (fun r => (p.rcpt r).isOk)).isEmpty = true
    · simp only [hacc, ↓reduceIte]
      refine ⟨?_, ?_, ?_⟩
      · simp [reportCount_append, reportCount, reportCount_rcpts]
      · intro _; simp [commitCount_append, commitCount, commitCount_rcpts]
      · intro hr
        have : (p.rcpt r).isOk = false := by
          rw [List.isEmpty_iff] at hacc
          cases h : (p.rcpt r).isOk with
          | false => rfl
          | true =>
            have : r ∈ to.filter (fun r => (p.rcpt r).isOk) := by simp [hr, h]
            rw [hacc] at this; simp at this
        simp [commitCount_append, commitCount, commitCount_rcpts, hr, this]
    · simp only [hacc, Bool.false_eq_true, ↓reduceIte]
      -- name the pieces
      generalize hA : to.filter (fun r => (p.rcpt r).isOk) = accepted at *
      have haccND : accepted.Nodup := by rw [← hA]; exact hnd.filter _
      have hmemA : ∀ x, x ∈ accepted ↔ x ∈ to ∧ (p.rcpt x).isOk = true := by
        intro x; rw [← hA]; simp
      cases k with
      | atomic =>
        by_cases hb : p.body.isOk = true
        · -- body ok: e2 = e1
          simp only [hb, Bool.not_true, Bool.false_eq_true, ↓reduceIte]
          split
          · rename_i hall
            refine ⟨?_, ?_, ?_⟩
            · simp [reportCount_append, reportCount, reportCount_rcpts]
            · intro _; simp [commitCount_append, commitCount, commitCount_rcpts]
            · intro hr
              simp [commitCount_append, commitCount, commitCount_rcpts]
              rw [List.all_eq_true] at hall
              by_cases hra : r ∈ accepted
              · have := hall r hra; simpa using this
              · have : (p.rcpt r).isOk = false := by
                  cases h : (p.rcpt r).isOk with
                  | false => rfl
                  | true => exact absurd ((hmemA r).mpr ⟨hr, h⟩) hra
                simp [hr, this]
          · split
            · refine ⟨?_, ?_, ?_⟩
              · simp [reportCount_append, reportCount, reportCount_rcpts]
              · intro _; simp [commitCount_append, commitCount, commitCount_rcpts]
              · intro hr
                simp [commitCount_append, commitCount, commitCount_rcpts]
                by_cases hra : r ∈ accepted
                · simp [hra]
                · have : (p.rcpt r).isOk = false := by
                    cases h : (p.rcpt r).isOk with
                    | false => rfl
                    | true => exact absurd ((hmemA r).mpr ⟨hr, h⟩) hra
                  simp [hra, hr, this]
            · refine ⟨?_, ?_, ?_⟩
              · simp [reportCount_append, reportCount, reportCount_rcpts]
              · intro hr
                simp only [commitCount_append, commitCount, commitCount_rcpts, count_filter_nodup _ haccND]
                have : r ∉ accepted := fun h => hr ((hmemA r).mp h).1
                simp [this]
              · intro hr
                simp only [commitCount_append, commitCount, commitCount_rcpts, count_filter_nodup _ haccND]
                by_cases hra : r ∈ accepted
                · have hok := ((hmemA r).mp hra).2
                  simp [hra, hok]
                · have : (p.rcpt r).isOk = false := by
                    cases h : (p.rcpt r).isOk with
                    | false => rfl
                    | true => exact absurd ((hmemA r).mpr ⟨hr, h⟩) hra
                  simp [hra, hr, this]
        · -- body failed: every accepted recipient has an error, abort
          simp only [hb, Bool.not_false, ↓reduceIte]
          have hall : (accepted.all fun r => (if r ∈ accepted then some p.body else
              if r ∈ to ∧ (!(p.rcpt r).isOk) = true then some (p.rcpt r) else none).isSome) = true := by
            rw [List.all_eq_true]; intro x hx; simp [hx]
          simp only [hall, ↓reduceIte]
          refine ⟨?_, ?_, ?_⟩
          · simp [reportCount_append, reportCount, reportCount_rcpts]
          · intro _; simp [commitCount_append, commitCount, commitCount_rcpts]
          · intro hr
            simp [commitCount_append, commitCount, commitCount_rcpts]
            by_cases hra : r ∈ accepted
            · simp [hra]
            · have : (p.rcpt r).isOk = false := by
                cases h : (p.rcpt r).isOk with
                | false => rfl
                | true => exact absurd ((hmemA r).mpr ⟨hr, h⟩) hra
              simp [hra, hr, this]
      | partialD =>
        simp only
        split
        · rename_i hall
          refine ⟨?_, ?_, ?_⟩
          · simp [reportCount_append, reportCount, reportCount_rcpts]
          · intro _; simp [commitCount_append, commitCount, commitCount_rcpts]
          · intro hr
            simp [commitCount_append, commitCount, commitCount_rcpts]
            rw [List.all_eq_true] at hall
            by_cases hra : r ∈ accepted
            · have := hall r hra
              rw [Option.isSome_iff_ne_none] at this
              simpa using this
            · have : (p.rcpt r).isOk = false := by
                cases h : (p.rcpt r).isOk with
                | false => rfl
                | true => exact absurd ((hmemA r).mpr ⟨hr, h⟩) hra
              simp [hra, hr, this]
        · split
          · refine ⟨?_, ?_, ?_⟩
            · simp [reportCount_append, reportCount, reportCount_rcpts]
            · intro _; simp [commitCount_append, commitCount, commitCount_rcpts]
            · intro hr
              simp [commitCount_append, commitCount, commitCount_rcpts]
              by_cases hra : r ∈ accepted
              · simp [hra]
              · have : (p.rcpt r).isOk = false := by
                  cases h : (p.rcpt r).isOk with
                  | false => rfl
                  | true => exact absurd ((hmemA r).mpr ⟨hr, h⟩) hra
                simp [hra, hr, this]
          · refine ⟨?_, ?_, ?_⟩
            · simp [reportCount_append, reportCount, reportCount_rcpts]
            · intro hr
              simp only [commitCount_append, commitCount, commitCount_rcpts, count_filter_nodup _ haccND]
              have : r ∉ accepted := fun h => hr ((hmemA r).mp h).1
              simp [this]
            · intro hr
              simp only [commitCount_append, commitCount, commitCount_rcpts, count_filter_nodup _ haccND]
              by_cases hra : r ∈ accepted
              · have hok := ((hmemA r).mp hra).2
                by_cases hbr : (p.bodyRc r).isOk = true
                · simp [hra, hbr, hr, hok]
                · simp [hra, hbr]
              · have : (p.rcpt r).isOk = false := by
                  cases h : (p.rcpt r).isOk with
                  | false => rfl
                  | true => exact absurd ((hmemA r).mpr ⟨hr, h⟩) hra
                simp [hra, hr, this]
  · simp only [hs, Bool.not_false, ↓reduceIte]
    refine ⟨by simp [reportCount], fun _ => by simp [commitCount], ?_⟩
    intro hr; simp [commitCount, hr]


theorem deliver_spec_report (k : Kind) (p : Plan) (to : List Addr) (r : Addr) :
    reportCount r (deliver k p to).2 = 0 := by
  cases k <;> unfold deliver <;> simp only <;> (repeat' split) <;>
    simp [reportCount_append, reportCount, reportCount_rcpts]

/-! ## the classification loop -/

def willRetry (maxTries : Nat) (e : Errs) (tries : Addr → Nat) (r : Addr) : Bool :=
  match e r with
  | some c => c.retryable && decide (tries r + 1 < maxTries)
  | none => false

def willFail (maxTries : Nat) (e : Errs) (tries : Addr → Nat) (r : Addr) : Bool :=
  match e r with
  | some c => !c.retryable || decide (tries r + 1 ≥ maxTries)
  | none => false

theorem classify_spec (maxTries : Nat) (e : Errs) (l : List Addr) (hnd : l.Nodup) (a : Acc) :
    let a' := classify maxTries e l a
    a'.newR = a.newR ++ l.filter (willRetry maxTries e a.tries) ∧
    a'.failedR = a.failedR ++ l.filter (willFail maxTries e a.tries) ∧
    (∀ x, a'.tries x =
      if x ∈ l ∧ willRetry maxTries e a.tries x = true then a.tries x + 1
      else if x ∈ l ∧ willFail maxTries e a.tries x = true then 0 else a.tries x) := by
  induction l generalizing a with
  | nil => simp [classify]
  | cons r rest ih =>
    have hr : r ∉ rest := (List.nodup_cons.mp hnd).1
    have hnd' : rest.Nodup := (List.nodup_cons.mp hnd).2
    -- predicates on `rest` do not see an update at `r`
    have congrR : ∀ v, rest.filter (willRetry maxTries e (updTries a.tries r v)) =
        rest.filter (willRetry maxTries e a.tries) := by
      intro v; apply List.filter_congr; intro x hx
      have : x ≠ r := fun h => hr (h ▸ hx)
      simp [willRetry, updTries, this]
    have congrF : ∀ v, rest.filter (willFail maxTries e (updTries a.tries r v)) =
        rest.filter (willFail maxTries e a.tries) := by
      intro v; apply List.filter_congr; intro x hx
      have : x ≠ r := fun h => hr (h ▸ hx)
      simp [willFail, updTries, this]
    simp only [classify]
    cases he : e r with
    | none =>
      simp only
      have := ih hnd' a
      refine ⟨?_, ?_, ?_⟩
      · rw [this.1]; simp [List.filter_cons, willRetry, he]
      · rw [this.2.1]; simp [List.filter_cons, willFail, he]
      · intro x; rw [this.2.2 x]
        by_cases hx : x = r
        · subst hx; simp [hr, willRetry, willFail, he]
        · simp [hx]
    | some c =>
      simp only
      by_cases hc : (!c.retryable || decide (a.tries r + 1 ≥ maxTries)) = true
      · simp only [hc, ↓reduceIte]
        have := ih hnd' { a with tries := updTries a.tries r 0, failedR := a.failedR ++ [r] }
        simp only at this
        have hwr : willRetry maxTries e a.tries r = false := by
          simp [willRetry, he]; simp at hc
          rcases hc with hc | hc
          · simp [hc]
          · intro _; omega
        have hwf : willFail maxTries e a.tries r = true := by simp [willFail, he]; simpa using hc
        refine ⟨?_, ?_, ?_⟩
        · rw [this.1, congrR]; simp [List.filter_cons, hwr]
        · rw [this.2.1, congrF]; simp [List.filter_cons, hwf]
        · intro x; rw [this.2.2 x]
          by_cases hx : x = r
          · subst hx; simp [hr, hwr, hwf, updTries]
          · have e1 : willRetry maxTries e (updTries a.tries r 0) x = willRetry maxTries e a.tries x := by
              simp [willRetry, updTries, hx]
            have e2 : willFail maxTries e (updTries a.tries r 0) x = willFail maxTries e a.tries x := by
              simp [willFail, updTries, hx]
            simp [hx, e1, e2, updTries]
      · simp only [hc, Bool.false_eq_true, ↓reduceIte]
        have := ih hnd' { a with tries := updTries a.tries r (a.tries r + 1), newR := a.newR ++ [r] }
        simp only at this
        have hwr : willRetry maxTries e a.tries r = true := by
          simp [willRetry, he]; simp at hc; exact ⟨hc.1, by omega⟩
        have hwf : willFail maxTries e a.tries r = false := by
          simp [willFail, he]; simp at hc; exact ⟨hc.1, by omega⟩
        refine ⟨?_, ?_, ?_⟩
        · rw [this.1, congrR]; simp [List.filter_cons, hwr]
        · rw [this.2.1, congrF]; simp [List.filter_cons, hwf]
        · intro x; rw [this.2.2 x]
          by_cases hx : x = r
          · subst hx; simp [hr, hwr, updTries]
          · have e1 : willRetry maxTries e (updTries a.tries r (a.tries r + 1)) x = willRetry maxTries e a.tries x := by
              simp [willRetry, updTries, hx]
            have e2 : willFail maxTries e (updTries a.tries r (a.tries r + 1)) x = willFail maxTries e a.tries x := by
              simp [willFail, updTries, hx]
            simp [hx, e1, e2, updTries]


/-! ## one attempt of the queue -/

def newTo : Option Meta → List Addr
  | none => []
  | some m => m.to

theorem tri (maxTries : Nat) (e : Errs) (tries : Addr → Nat) (r : Addr) :
    (e r = none ∧ willRetry maxTries e tries r = false ∧ willFail maxTries e tries r = false) ∨
    (∃ c, e r = some c ∧ willRetry maxTries e tries r = true ∧ willFail maxTries e tries r = false ∧
        c.retryable = true ∧ tries r + 1 < maxTries) ∨
    (∃ c, e r = some c ∧ willRetry maxTries e tries r = false ∧ willFail maxTries e tries r = true) := by
  cases he : e r with
  | none => left; simp [willRetry, willFail, he]
  | some c =>
    right
    by_cases h : c.retryable = true ∧ tries r + 1 < maxTries
    · left; refine ⟨c, rfl, ?_, ?_, h.1, h.2⟩
      · simp [willRetry, he, h.1, h.2]
      · simp [willFail, he, h.1]; omega
    · right; refine ⟨c, rfl, ?_, ?_⟩
      · simp [willRetry, he]; intro hr; have := h; simp [hr] at this; omega
      · simp [willFail, he]
        by_cases hr : c.retryable = true
        · right; simp [hr] at h; omega
        · left; simpa using hr

/-- What one attempt does for a recipient `r`. -/
theorem step_spec (maxTries : Nat) (k : Kind) (p : Plan) (m : Meta) (hnd : m.to.Nodup) (r : Addr) :
    let res := tryDelivery maxTries k true p m
    let e := (deliver k p m.to).1
    (r ∉ m.to → commitCount r res.2 = 0 ∧ reportCount r res.2 = 0 ∧ r ∉ newTo res.1) ∧
    (r ∈ m.to →
      (e r = none ∧ commitCount r res.2 = 1 ∧ reportCount r res.2 = 0 ∧ r ∉ newTo res.1) ∨
      (willFail maxTries e m.tries r = true ∧
        commitCount r res.2 = 0 ∧ reportCount r res.2 = 1 ∧ r ∉ newTo res.1) ∨
      (willRetry maxTries e m.tries r = true ∧
        commitCount r res.2 = 0 ∧ reportCount r res.2 = 0 ∧ r ∈ newTo res.1 ∧
        ∀ m', res.1 = some m' → m'.tries r = m.tries r + 1)) := by
  intro res e
  have hd := deliver_spec k p m.to hnd r
  have hc := classify_spec maxTries e m.to hnd ⟨m.tries, [], []⟩
  simp only [List.nil_append] at hc
  obtain ⟨hcN, hcF, hcT⟩ := hc
  -- shape of the result
  have hres : res = (if (classify maxTries e m.to ⟨m.tries, [], []⟩).newR.isEmpty then
        (none, (deliver k p m.to).2 ++
          (if (classify maxTries e m.to ⟨m.tries, [], []⟩).failedR.isEmpty || !true then []
            else [Ev.report (classify maxTries e m.to ⟨m.tries, [], []⟩).failedR]) ++ [.removed])
      else (some ⟨(classify maxTries e m.to ⟨m.tries, [], []⟩).newR,
                  (classify maxTries e m.to ⟨m.tries, [], []⟩).tries⟩,
            (deliver k p m.to).2 ++
          (if (classify maxTries e m.to ⟨m.tries, [], []⟩).failedR.isEmpty || !true then []
            else [Ev.report (classify maxTries e m.to ⟨m.tries, [], []⟩).failedR]) ++
          [.requeue (classify maxTries e m.to ⟨m.tries, [], []⟩).newR])) := by
    rfl
  have hnewTo : newTo res.1 = m.to.filter (willRetry maxTries e m.tries) := by
    rw [hres]; split
    · rename_i h; rw [hcN] at h; simp [newTo]; simpa using h
    · simp [newTo, hcN]
  have hcc : commitCount r res.2 = commitCount r (deliver k p m.to).2 := by
    rw [hres]; split <;> split <;> simp [commitCount_append, commitCount]
  have hrc : reportCount r res.2 =
      if r ∈ m.to ∧ willFail maxTries e m.tries r = true then 1 else 0 := by
    have hF : reportCount r (if (classify maxTries e m.to ⟨m.tries, [], []⟩).failedR.isEmpty || !true then []
            else [Ev.report (classify maxTries e m.to ⟨m.tries, [], []⟩).failedR]) =
        if r ∈ m.to ∧ willFail maxTries e m.tries r = true then 1 else 0 := by
      rw [hcF]
      split
      · rename_i h
        have h0 : m.to.filter (willFail maxTries e m.tries) = [] := by simpa using h
        have hn : ¬ (r ∈ m.to ∧ willFail maxTries e m.tries r = true) := by
          intro hh
          have : r ∈ m.to.filter (willFail maxTries e m.tries) := List.mem_filter.mpr hh
          rw [h0] at this; simp at this
        simp [reportCount, hn]
      · simp [reportCount, count_filter_nodup _ hnd]
    rw [hres]; split <;> simp only [reportCount_append, hd.1, hF] <;> simp [reportCount]
  have htries : ∀ m', res.1 = some m' → ∀ x, m'.tries x =
      if x ∈ m.to ∧ willRetry maxTries e m.tries x = true then m.tries x + 1
      else if x ∈ m.to ∧ willFail maxTries e m.tries x = true then 0 else m.tries x := by
    intro m' hm' x
    rw [hres] at hm'
    split at hm'
    · cases hm'
    · simp at hm'; rw [← hm']; exact hcT x
  constructor
  · intro hr
    refine ⟨by rw [hcc]; exact hd.2.1 hr, by rw [hrc]; simp [hr], ?_⟩
    rw [hnewTo]; simp [hr]
  · intro hr
    rcases tri maxTries e m.tries r with ⟨h1, h2, h3⟩ | ⟨c, h1, h2, h3, _, _⟩ | ⟨c, h1, h2, h3⟩
    · left
      refine ⟨h1, ?_, ?_, ?_⟩
      · rw [hcc, hd.2.2 hr]; simp [e] at h1; simp [h1]
      · rw [hrc]; simp [h3]
      · rw [hnewTo]; simp [h2]
    · right; right
      refine ⟨h2, ?_, ?_, ?_, ?_⟩
      · rw [hcc, hd.2.2 hr]; simp [e] at h1; simp [h1]
      · rw [hrc]; simp [h3]
      · rw [hnewTo]; simp [hr, h2]
      · intro m' hm'; rw [htries m' hm' r]; simp [hr, h2]
    · right; left
      refine ⟨h3, ?_, ?_, ?_⟩
      · rw [hcc, hd.2.2 hr]; simp [e] at h1; simp [h1]
      · rw [hrc]; simp [hr, h3]
      · rw [hnewTo]; simp [h2]


theorem step_meta (maxTries : Nat) (k : Kind) (p : Plan) (m : Meta) (hnd : m.to.Nodup) :
    let res := tryDelivery maxTries k true p m
    (∀ m', res.1 = some m' → m'.to.Nodup ∧ m'.to ≠ [] ∧ ∀ x ∈ m'.to, x ∈ m.to) ∧
    (res.1 = none → res.2.getLast? = some Ev.removed) := by
  intro res
  have hc := classify_spec maxTries (deliver k p m.to).1 m.to hnd ⟨m.tries, [], []⟩
  simp only [List.nil_append] at hc
  have hres : res = (if (classify maxTries (deliver k p m.to).1 m.to ⟨m.tries, [], []⟩).newR.isEmpty then
        (none, (deliver k p m.to).2 ++
          (if (classify maxTries (deliver k p m.to).1 m.to ⟨m.tries, [], []⟩).failedR.isEmpty || !true then []
            else [Ev.report (classify maxTries (deliver k p m.to).1 m.to ⟨m.tries, [], []⟩).failedR]) ++ [.removed])
      else (some ⟨(classify maxTries (deliver k p m.to).1 m.to ⟨m.tries, [], []⟩).newR,
                  (classify maxTries (deliver k p m.to).1 m.to ⟨m.tries, [], []⟩).tries⟩,
            (deliver k p m.to).2 ++
          (if (classify maxTries (deliver k p m.to).1 m.to ⟨m.tries, [], []⟩).failedR.isEmpty || !true then []
            else [Ev.report (classify maxTries (deliver k p m.to).1 m.to ⟨m.tries, [], []⟩).failedR]) ++
          [.requeue (classify maxTries (deliver k p m.to).1 m.to ⟨m.tries, [], []⟩).newR])) := by
    rfl
  constructor
  · intro m' hm'
    rw [hres] at hm'
    split at hm'
    · cases hm'
    · rename_i hne
      simp at hm'; subst hm'
      simp only
      rw [hc.1] at hne ⊢
      refine ⟨hnd.filter _, by simpa using hne, ?_⟩
      intro x hx; exact (List.mem_filter.mp hx).1
  · intro hn
    rw [hres] at hn ⊢
    split at hn
    · rename_i h; simp [h]
    · cases hn

/-- Invariant-based main lemma: from any pending state in which every pending recipient has
been tried fewer than `maxTries` times and `fuel` attempts suffice to exhaust the bound, the
remaining life of the message gives every pending recipient exactly one terminal outcome, gives
nothing to anybody else, and ends with the spool entry removed. -/
theorem run_spec (maxTries : Nat) (k : Kind) (plans : Nat → Plan) :
    ∀ (fuel i : Nat) (m : Meta), m.to.Nodup → m.to ≠ [] →
      (∀ r ∈ m.to, m.tries r < maxTries ∧ maxTries ≤ m.tries r + fuel) →
      let evs := run maxTries k true plans fuel i m
      (∀ r ∈ m.to, (commitCount r evs = 1 ∧ reportCount r evs = 0) ∨
                   (commitCount r evs = 0 ∧ reportCount r evs = 1)) ∧
      (∀ r, r ∉ m.to → commitCount r evs = 0 ∧ reportCount r evs = 0) ∧
      evs.getLast? = some Ev.removed := by
  intro fuel
  induction fuel with
  | zero =>
    intro i m _ hne hb
    exfalso
    cases hm : m.to with
    | nil => exact hne hm
    | cons r t => have := hb r (by simp [hm]); omega
  | succ fuel ih =>
    intro i m hnd hne hb
    simp only [run]
    have hmeta := step_meta maxTries k (plans i) m hnd
    have hstep := fun r => step_spec maxTries k (plans i) m hnd r
    cases hres : tryDelivery maxTries k true (plans i) m with
    | mk om evs1 =>
      simp only [hres] at hmeta hstep
      cases om with
      | none =>
        simp only
        refine ⟨?_, ?_, hmeta.2 rfl⟩
        · intro r hr
          rcases (hstep r).2 hr with ⟨_, h1, h2, _⟩ | ⟨_, h1, h2, _⟩ | ⟨_, _, _, h3, _⟩
          · left; exact ⟨h1, h2⟩
          · right; exact ⟨h1, h2⟩
          · simp [newTo] at h3
        · intro r hr
          have := (hstep r).1 hr; exact ⟨this.1, this.2.1⟩
      | some m' =>
        simp only
        obtain ⟨hnd', hne', hsub⟩ := hmeta.1 m' rfl
        have hb' : ∀ r ∈ m'.to, m'.tries r < maxTries ∧ maxTries ≤ m'.tries r + fuel := by
          intro r hr
          have hrm := hsub r hr
          rcases (hstep r).2 hrm with ⟨_, _, _, h3⟩ | ⟨_, _, _, h3⟩ | ⟨hw, _, _, _, ht⟩
          · exact absurd hr (by simpa [newTo] using h3)
          · exact absurd hr (by simpa [newTo] using h3)
          · have := ht m' rfl
            have hb0 := hb r hrm
            -- willRetry gives tries r + 1 < maxTries
            have hlt : m.tries r + 1 < maxTries := by
              unfold willRetry at hw
              split at hw
              · simp at hw; exact hw.2
              · cases hw
            omega
        have IH := ih (i + 1) m' hnd' hne' hb'
        simp only at IH
        obtain ⟨IH1, IH2, IH3⟩ := IH
        refine ⟨?_, ?_, ?_⟩
        · intro r hr
          rw [commitCount_append, reportCount_append]
          rcases (hstep r).2 hr with ⟨_, h1, h2, h3⟩ | ⟨_, h1, h2, h3⟩ | ⟨_, h1, h2, h3, _⟩
          · have := IH2 r (by simpa [newTo] using h3); left; omega
          · have := IH2 r (by simpa [newTo] using h3); right; omega
          · have := IH1 r (by simpa [newTo] using h3)
            rcases this with this | this
            · left; omega
            · right; omega
        · intro r hr
          rw [commitCount_append, reportCount_append]
          have h := (hstep r).1 hr
          have := IH2 r (by simpa [newTo] using h.2.2)
          omega
        · rw [List.getLast?_append]
          simp [IH3]

/-! ## property theorems -/

/-- **C01 (exactly one terminal outcome).** For every `maxTries ≥ 1`, downstream kind, stream of
per-attempt fault plans and duplicate-free recipient list: every recipient of an accepted
message is committed by the downstream exactly once and never reported, or reported in exactly
one failure report and never committed; nobody else is committed or reported; and the message
leaves the spool within `maxTries` attempts. -/
theorem C01_exactly_one_outcome (maxTries : Nat) (k : Kind) (plans : Nat → Plan) (to : List Addr)
    (hmt : 0 < maxTries) (hnd : to.Nodup) (hne : to ≠ []) :
    let evs := run maxTries k true plans maxTries 0 ⟨to, fun _ => 0⟩
    (∀ r ∈ to, (commitCount r evs = 1 ∧ reportCount r evs = 0) ∨
               (commitCount r evs = 0 ∧ reportCount r evs = 1)) ∧
    (∀ r, r ∉ to → commitCount r evs = 0 ∧ reportCount r evs = 0) ∧
    evs.getLast? = some Ev.removed :=
  run_spec maxTries k plans maxTries 0 ⟨to, fun _ => 0⟩ hnd hne
    (by intro r _; exact ⟨hmt, by simp⟩)

/-- **C01 (retry only after a temporary or unclassified failure, below the attempt bound).**
A recipient stays in the spool for another attempt only if this attempt ended for it with a
temporary/unclassified error and it has been tried fewer than `maxTries` times; one that was
delivered or failed permanently is never attempted again. -/
theorem C01_retry_only_after_temp (maxTries : Nat) (k : Kind) (p : Plan) (m : Meta)
    (hnd : m.to.Nodup) (r : Addr) :
    let res := tryDelivery maxTries k true p m
    r ∈ newTo res.1 →
      r ∈ m.to ∧ ∃ c, (deliver k p m.to).1 r = some c ∧ c.retryable = true ∧
        m.tries r + 1 < maxTries := by
  intro res hr
  have hs := step_spec maxTries k p m hnd r
  by_cases hm : r ∈ m.to
  · refine ⟨hm, ?_⟩
    rcases hs.2 hm with ⟨_, _, _, h3⟩ | ⟨_, _, _, h3⟩ | ⟨hw, _⟩
    · exact absurd hr h3
    · exact absurd hr h3
    · unfold willRetry at hw
      split at hw
      · rename_i c hc; simp at hw; exact ⟨c, hc, hw.1, hw.2⟩
      · cases hw
  · exact absurd hr (hs.1 hm).2.2

/-- **C01 (no report without a bounce route).** With the null sender or no bounce pipeline the
queue hands nothing to the bounce pipeline. -/
theorem C01_no_report_when_suppressed (maxTries : Nat) (k : Kind) (plans : Nat → Plan) (r : Addr) :
    ∀ (fuel i : Nat) (m : Meta), reportCount r (run maxTries k false plans fuel i m) = 0 := by
  intro fuel
  induction fuel with
  | zero => intro i m; simp [run, reportCount]
  | succ fuel ih =>
    intro i m
    simp only [run]
    have hstep : reportCount r (tryDelivery maxTries k false (plans i) m).2 = 0 := by
      unfold tryDelivery
      have hd := (deliver_spec_report k (plans i) m.to r)
      simp only
      split <;> simp [reportCount_append, reportCount, hd]
    cases hres : tryDelivery maxTries k false (plans i) m with
    | mk om evs1 =>
      rw [hres] at hstep
      cases om with
      | none => simpa using hstep
      | some m' => simp only [reportCount_append, hstep, ih]

/-! ## non-vacuity -/

def demoPlan : Nat → Plan := fun i =>
  { start := .ok, rcpt := fun r => if r = 3 then .perm else .ok, body := .ok,
    bodyRc := fun r => if r = 2 ∧ i = 0 then .temp else .ok, commit := .ok }

example : commitCount 1 (run 3 .partialD true demoPlan 3 0 ⟨[1, 2, 3], fun _ => 0⟩) = 1 ∧
          commitCount 2 (run 3 .partialD true demoPlan 3 0 ⟨[1, 2, 3], fun _ => 0⟩) = 1 ∧
          reportCount 3 (run 3 .partialD true demoPlan 3 0 ⟨[1, 2, 3], fun _ => 0⟩) = 1 := by decide

end MaddyVerif.C01
