import MaddyVerif.Model.AuthzSender
/-!
# C15 — authenticated users can only send as addresses they are entitled to

Quantifier: all configurations `c : Cfg` (any tables — identity, single-valued, multi-valued,
failing —, any normalisation functions, any actions), all user names, all envelope senders, all
headers (any number of `From` / `Sender` fields, each with any parse result).

`Entitled c user addr` is the property's "address the authenticated user is entitled to under the
configured mapping": some entry the mapping table gives the (normalised) user name is `*`, the
address, or the address's domain — the address being first mapped through `prepare_email`.
It is stated over the table's own answer (`tableEntries`); an empty entry covers nothing.
-/
namespace MaddyVerif.C15
open MaddyVerif.Address MaddyVerif.AuthzSender

/-! ## the specification -/

/-- Entry `e` of the user's entitlement list covers the (prepared) address `p`:
`*`, the address itself, or its domain.  An empty entry (key-only line of a table file, list
ending in a comma) covers nothing — in particular not the domain-less `postmaster`, whose
`split` domain is the empty string. -/
def Covers (e p : Str) : Prop :=
  e ≠ [] ∧ (e = STAR ∨ e = p ∨ ∃ m d, split p = .ok (m, d) ∧ e = d)

/-- The user may send as `addr` under the configured mapping. -/
def Entitled (c : Cfg) (user addr : Str) : Prop :=
  ∃ nu na ps es,
    c.authNorm user = some nu ∧ c.fromNorm addr = some na ∧
    prepared c.emailPrepare na = .ok ps ∧ tableEntries c.userToEmail nu = .ok es ∧
    ∃ p ∈ ps, ∃ e ∈ es, Covers e p

/-- "every address in a From field": there is a From field, every From field parses to a
non-empty address list, and every address in every one of them is the user's. -/
def FromAuthorOK (c : Cfg) (user : Str) (h : Header) : Prop :=
  h.fromFields ≠ [] ∧ ∀ f ∈ h.fromFields, ∃ l, f.parse = some l ∧ l ≠ [] ∧ ∀ a ∈ l, Entitled c user a

/-- "the Sender address": there is a Sender field and the address of every Sender field is the user's. -/
def SenderAuthorOK (c : Cfg) (user : Str) (h : Header) : Prop :=
  h.senderFields ≠ [] ∧ ∀ sf ∈ h.senderFields, ∃ s, sf.parse = some s ∧ Entitled c user s

/-- The header author is the user: every From address, or the Sender address when the From
address is not the user's. -/
def AuthorOK (c : Cfg) (user : Str) (h : Header) : Prop :=
  FromAuthorOK c user h ∨ SenderAuthorOK c user h

/-- All three failure actions are `reject` (the defaults). -/
def AllReject (c : Cfg) : Prop :=
  c.unauthAction.reject = true ∧ c.noMatchAction.reject = true ∧ c.errAction.reject = true

/-- The message is accepted by the check: neither stage asks for rejection. -/
def accepted (c : Cfg) (conn : Option Str) (mailFrom : Str) (h : Header) : Bool :=
  !(checkSender c conn mailFrom).reject && !(checkBody c conn h).reject

/-! ## helper lemmas -/

theorem fail_reason (a : FailAction) (r : Reason) : (fail a r).reason = some r := by
  simp [fail, FailAction.apply]

theorem fail_reject (a : FailAction) (r : Reason) : (fail a r).reject = a.reject := by
  simp [fail, FailAction.apply]

theorem fail_quarantine (a : FailAction) (r : Reason) : (fail a r).quarantine = a.quarantine := by
  simp [fail, FailAction.apply]

theorem fail_ne_pass_reason (a : FailAction) (r : Reason) : (fail a r).reason ≠ none := by
  simp [fail_reason]

/-- `validEmails` is the table's answer without its empty entries. -/
theorem validEmails_eq (t : Table) (u : Str) :
    validEmails t u = match tableEntries t u with
      | .error e => .error e
      | .ok es => .ok (es.filter (fun e => !e.isEmpty)) := by
  cases t with
  | multi f => simp only [validEmails, tableEntries]; cases f u <;> rfl
  | single f =>
    simp only [validEmails, tableEntries]
    split
    · rfl
    · rename_i v _; cases hv : v.isEmpty <;> simp [List.filter, hv]
    · rfl

theorem validEmails_ok (t : Table) (u : Str) (es' : List Str) (h : validEmails t u = .ok es') :
    ∃ es, tableEntries t u = .ok es ∧ es' = es.filter (fun e => !e.isEmpty) := by
  rw [validEmails_eq] at h
  split at h
  · cases h
  · rename_i es hes; cases h; exact ⟨es, hes, rfl⟩

theorem validEmails_of_entries (t : Table) (u : Str) (es : List Str) (h : tableEntries t u = .ok es) :
    validEmails t u = .ok (es.filter (fun e => !e.isEmpty)) := by
  rw [validEmails_eq, h]

theorem authorizeLoop_true (es : List Str) (ps : List Str) (h : authorizeLoop es ps = .ok true) :
    ∃ p ∈ ps, ∃ e ∈ es, (e = STAR ∨ e = p ∨ ∃ m d, split p = .ok (m, d) ∧ e = d) := by
  induction ps with
  | nil => simp [authorizeLoop] at h
  | cons p rest ih =>
    simp only [authorizeLoop] at h
    split at h
    · cases h
    · rename_i m d hs
      split at h
      · rename_i hany
        rw [List.any_eq_true] at hany
        obtain ⟨e, he, hm⟩ := hany
        refine ⟨p, by simp, e, he, ?_⟩
        simp [entMatches] at hm
        rcases hm with (hm | hm) | hm
        · exact .inr (.inr ⟨m, d, hs, hm⟩)
        · exact .inl hm
        · exact .inr (.inl hm)
      · obtain ⟨p', hp', r⟩ := ih h
        exact ⟨p', by simp [hp'], r⟩

/-- Shape of every `authzSender` result: clean, or a failure carrying the action configured for
its reason. -/
theorem authzSender_shape (c : Cfg) (u a : Str) :
    authzSender c u a = pass ∨ ∃ r, authzSender c u a = fail (actionFor c r) r := by
  unfold authzSender
  split
  · exact .inr ⟨.authRequired, rfl⟩
  · split
    · exact .inr ⟨.normFrom, rfl⟩
    · split
      · exact .inr ⟨.normAuth, rfl⟩
      · split
        · exact .inr ⟨.internal, rfl⟩
        · split
          · exact .inr ⟨.internal, rfl⟩
          · exact .inr ⟨.noMatch, rfl⟩
          · exact .inl rfl

/-- A clean `authzSender` result means: authenticated, and entitled to the address. -/
theorem authzSender_pass (c : Cfg) (u a : Str) (h : (authzSender c u a).reason = none) :
    u ≠ [] ∧ Entitled c u a := by
  unfold authzSender at h
  split at h
  · simp [refuse, fail_reason] at h
  · rename_i hne
    split at h
    · simp [refuse, fail_reason] at h
    · rename_i na hna
      split at h
      · simp [refuse, fail_reason] at h
      · rename_i nu hnu
        split at h
        · simp [refuse, fail_reason] at h
        · rename_i ps hps
          split at h
          · simp [refuse, fail_reason] at h
          · simp [refuse, fail_reason] at h
          · rename_i hauth
            refine ⟨by intro hu; simp [hu] at hne, ?_⟩
            unfold authorizeEmailUse at hauth
            split at hauth
            · cases hauth
            · rename_i es' hes'
              obtain ⟨es, hes, hfilter⟩ := validEmails_ok _ _ _ hes'
              obtain ⟨p, hp, e, he, hc⟩ := authorizeLoop_true es' ps hauth
              rw [hfilter, List.mem_filter] at he
              have hne : e ≠ [] := by intro h0; simp [h0] at he
              exact ⟨nu, na, ps, es, hnu, hna, hps, hes, p, hp, e, he.1, hne, hc⟩

theorem authzSender_isNone_pass (c : Cfg) (u a : Str) (h : (authzSender c u a).reason.isNone = true) :
    authzSender c u a = pass := by
  rcases authzSender_shape c u a with hp | ⟨r, hr⟩
  · exact hp
  · rw [hr, fail_reason] at h; simp at h

theorem checkBody_shape (c : Cfg) (conn : Option Str) (h : Header) :
    checkBody c conn h = pass ∨ ∃ r, checkBody c conn h = fail (actionFor c r) r := by
  unfold checkBody
  split
  · exact .inl rfl
  · split
    · exact .inl rfl
    · rename_i u
      split
      · exact .inr ⟨.missingFrom, rfl⟩
      · split
        · exact .inr ⟨.missingFrom, rfl⟩
        · split
          · exact .inr ⟨.repeatedFrom, rfl⟩
          · split
            · exact .inr ⟨.malformedFrom, rfl⟩
            · exact .inr ⟨.malformedFrom, rfl⟩
            · split
              · exact .inr ⟨.multipleFromAddrs, rfl⟩
              · split
                · exact .inr ⟨.repeatedSender, rfl⟩
                · split
                  · exact .inr ⟨.malformedSender, rfl⟩
                  · simp only
                    split
                    · next hn => exact .inl (authzSender_isNone_pass c u _ hn)
                    · split
                      · split
                        · next hn => exact .inl (authzSender_isNone_pass c u _ hn)
                        · exact .inr ⟨.noMatch, rfl⟩
                      · exact .inr ⟨.noMatch, rfl⟩

/-! ## C15: what a clean result of each stage implies -/

/-- **C15 (envelope).** If the MAIL FROM stage passes for a client connection, the client is
authenticated and entitled to the envelope sender. -/
theorem C15_envelope_pass_implies_entitled (c : Cfg) (u mailFrom : Str)
    (h : (checkSender c (some u) mailFrom).reason = none) :
    u ≠ [] ∧ Entitled c u mailFrom := by
  simp only [checkSender] at h
  exact authzSender_pass c u mailFrom h

/-- **C15 (header).** If the body stage passes for a client connection with header checking on,
the client is authenticated, the header has exactly one From field and at most one Sender field,
and the author is the user: every address of every From field, or else every Sender address. -/
theorem C15_header_pass_implies_author_entitled (c : Cfg) (u : Str) (h : Header)
    (hch : c.checkHeader = true) (hp : (checkBody c (some u) h).reason = none) :
    u ≠ [] ∧ h.fromFields.length = 1 ∧ h.senderFields.length ≤ 1 ∧ AuthorOK c u h := by
  unfold checkBody at hp
  simp only [hch, Bool.not_true, Bool.false_eq_true, ↓reduceIte] at hp
  split at hp
  · simp [refuse, fail_reason] at hp
  · rename_i f more hff
    split at hp
    · simp [refuse, fail_reason] at hp
    · split at hp
      · simp [refuse, fail_reason] at hp
      · rename_i hmore
        have hmore' : more = [] := by simpa using hmore
        subst hmore'
        split at hp
        · simp [refuse, fail_reason] at hp
        · simp [refuse, fail_reason] at hp
        · rename_i fromEmail moreAddrs hparse
          split at hp
          · simp [refuse, fail_reason] at hp
          · rename_i hma
            have hma' : moreAddrs = [] := by simpa using hma
            subst hma'
            split at hp
            · simp [refuse, fail_reason] at hp
            · rename_i hsl
              have hsl' : h.senderFields.length ≤ 1 := by omega
              split at hp
              · simp [refuse, fail_reason] at hp
              · rename_i sender hsender
                split at hp
                · -- the From address is the user's
                  rename_i hn
                  have hn' : (authzSender c u fromEmail).reason = none := by simpa using hn
                  have := authzSender_pass c u fromEmail hn'
                  refine ⟨this.1, by simp [hff], hsl', .inl ⟨by simp [hff], ?_⟩⟩
                  intro f' hf'
                  simp [hff] at hf'
                  subst hf'
                  exact ⟨[fromEmail], hparse, by simp, by simpa using this.2⟩
                · split at hp
                  · split at hp
                    · -- the Sender address is the user's
                      rename_i hcond hn
                      have hn' : (authzSender c u sender).reason = none := by simpa using hn
                      have := authzSender_pass c u sender hn'
                      refine ⟨this.1, by simp [hff], hsl', .inr ?_⟩
                      -- the single Sender field parsed to `sender`
                      unfold senderAddr at hsender
                      split at hsender
                      · simp at hsender; subst hsender; simp at hcond
                      · rename_i sf rest hsf
                        have hrest : rest = [] := by
                          rw [hsf] at hsl'
                          simp at hsl'
                          exact hsl'
                        subst hrest
                        split at hsender
                        · simp at hsender; subst hsender; simp at hcond
                        · split at hsender
                          · cases hsender
                          · rename_i a ha
                            simp at hsender
                            subst hsender
                            refine ⟨by simp [hsf], ?_⟩
                            intro sf' hsf'
                            simp [hsf] at hsf'
                            subst hsf'
                            exact ⟨a, ha, this.2⟩
                    · simp [refuse, fail_reason] at hp
                  · simp [refuse, fail_reason] at hp

/-! ## C15: the accept/reject decision -/

/-- With `reject` actions, a stage asks for rejection exactly when it has a reason. -/
theorem reject_of_reason_sender (c : Cfg) (hr : AllReject c) (conn : Option Str) (mf : Str)
    (h : (checkSender c conn mf).reject = false) : (checkSender c conn mf).reason = none := by
  cases conn with
  | none => rfl
  | some u =>
    simp only [checkSender] at *
    rcases authzSender_shape c u mf with hp | ⟨r, hf⟩
    · rw [hp]; rfl
    · rw [hf, fail_reject] at h
      obtain ⟨h1, h2, h3⟩ := hr
      cases r <;> simp [actionFor, h1, h2, h3] at h

theorem reject_of_reason_body (c : Cfg) (hr : AllReject c) (conn : Option Str) (hd : Header)
    (h : (checkBody c conn hd).reject = false) : (checkBody c conn hd).reason = none := by
  rcases checkBody_shape c conn hd with hp | ⟨r, hf⟩
  · rw [hp]; rfl
  · rw [hf, fail_reject] at h
    obtain ⟨h1, h2, h3⟩ := hr
    cases r <;> simp [actionFor, h1, h2, h3] at h

/-- **C15 (main theorem).** On a client connection, with the failure actions set to reject, a
message is accepted only if the client is authenticated, entitled to the envelope sender, and —
when header checking is on — the header author (every address in every From field, or the
Sender address) is an address the user is entitled to. -/
theorem C15_accepted_only_if_entitled (c : Cfg) (hr : AllReject c) (u mailFrom : Str) (h : Header)
    (hacc : accepted c (some u) mailFrom h = true) :
    u ≠ [] ∧ Entitled c u mailFrom ∧ (c.checkHeader = true → AuthorOK c u h) := by
  simp [accepted] at hacc
  have hs := reject_of_reason_sender c hr (some u) mailFrom hacc.1
  have hb := reject_of_reason_body c hr (some u) h hacc.2
  have he := C15_envelope_pass_implies_entitled c u mailFrom hs
  refine ⟨he.1, he.2, ?_⟩
  intro hch
  exact (C15_header_pass_implies_author_entitled c u h hch hb).2.2.2

/-- **C15 (unauthenticated clients are refused).** For a client connection without an
authenticated user the MAIL FROM stage answers `530 Authentication required` with the
configured `unauth_action`; with the default action the message is not accepted, whatever the
tables, the sender and the header are. -/
theorem C15_unauthenticated_refused (c : Cfg) (mailFrom : Str) (h : Header) :
    checkSender c (some []) mailFrom = fail c.unauthAction .authRequired ∧
    (c.checkHeader = true → (checkBody c (some []) h).reason ≠ none) := by
  refine ⟨by simp [checkSender, authzSender, refuse, actionFor], ?_⟩
  intro hch hh
  exact absurd rfl (C15_header_pass_implies_author_entitled c [] h hch hh).1

/-- … and with `unauth_action reject` (the default) the message is not accepted. -/
theorem C15_unauthenticated_not_accepted (c : Cfg) (hr : c.unauthAction.reject = true)
    (mailFrom : Str) (h : Header) : accepted c (some []) mailFrom h = false := by
  simp [accepted, checkSender, authzSender, refuse, actionFor, fail_reject, hr]

/-- **C15 (configured action).** Every refusal of either stage carries exactly the flags of the
action configured for its reason (`unauth_action` for 530, `no_match_action` for "unauthorized
use", `err_action` for everything else); a clean result carries no flag. -/
theorem C15_refusal_uses_configured_action (c : Cfg) (conn : Option Str) (mailFrom : Str) (h : Header) :
    (checkSender c conn mailFrom = pass ∨ ∃ r, checkSender c conn mailFrom = fail (actionFor c r) r) ∧
    (checkBody c conn h = pass ∨ ∃ r, checkBody c conn h = fail (actionFor c r) r) := by
  refine ⟨?_, checkBody_shape c conn h⟩
  cases conn with
  | none => exact .inl rfl
  | some u => exact authzSender_shape c u mailFrom

/-! ## the action directives: the word decides, a custom reply never does

`unauth_action`, `no_match_action`, `err_action` are written `ignore`, `reject`, `quarantine` or
`reject|quarantine <code> [<enhanced code> [<text>]]`.  Whatever reply is configured, the parsed
action asks for rejection exactly when the word is `reject` and for quarantine exactly when it is
`quarantine`; the reply only appears in `Result.reply`. -/

theorem fail_reply (a : FailAction) (r : Reason) : (fail a r).reply = a.override := by
  simp only [fail, FailAction.apply]
  cases a.override <;> rfl

/-- **C15 (action grammar).** The flags of a parsed action directive are those of its first word,
whatever follows it. -/
theorem C15_action_flags_from_word (w : Str) (rest : List Str) (a : FailAction)
    (h : parseActionDirective (w :: rest) = some a) :
    a.reject = (w == REJECT) ∧ a.quarantine = (w == QUARANTINE) := by
  simp only [parseActionDirective] at h
  split at h
  · split at h
    · cases h; exact ⟨rfl, rfl⟩
    · split at h
      · cases h
      · cases h; exact ⟨rfl, rfl⟩
  · split at h
    · cases h; exact ⟨rfl, rfl⟩
    · cases h

/-- **C15 (custom reply).** A directive with a custom reply parses to the same flags as the bare
word (which always parses when the long form does): the reply changes the answer's code and text,
never whether the message is rejected or quarantined. -/
theorem C15_custom_reply_keeps_flags (w : Str) (rest : List Str) (a : FailAction)
    (h : parseActionDirective (w :: rest) = some a) :
    ∃ a0, parseActionDirective [w] = some a0 ∧ a0.reject = a.reject ∧ a0.quarantine = a.quarantine ∧
      a0.override = none := by
  obtain ⟨hr, hq⟩ := C15_action_flags_from_word w rest a h
  refine ⟨wordFlags w, ?_, by simp [wordFlags, hr], by simp [wordFlags, hq], rfl⟩
  simp only [parseActionDirective] at h ⊢
  split
  · rfl
  · rename_i hw
    rw [if_neg hw] at h
    split at h
    · rename_i hi; rw [if_pos hi]
    · cases h

/-- `reject …` parses to a rejecting action, `quarantine …` to a quarantining one, `ignore …` to neither. -/
theorem C15_reject_directive_rejects (rest : List Str) (a : FailAction)
    (h : parseActionDirective (REJECT :: rest) = some a) : a.reject = true ∧ a.quarantine = false := by
  obtain ⟨hr, hq⟩ := C15_action_flags_from_word _ rest a h
  exact ⟨by rw [hr]; decide, by rw [hq]; decide⟩

theorem C15_quarantine_directive_quarantines (rest : List Str) (a : FailAction)
    (h : parseActionDirective (QUARANTINE :: rest) = some a) : a.reject = false ∧ a.quarantine = true := by
  obtain ⟨hr, hq⟩ := C15_action_flags_from_word _ rest a h
  exact ⟨by rw [hr]; decide, by rw [hq]; decide⟩

/-- The reply of an action does not enter the decision: two actions that differ only in their
reply give results that differ only in the reply. -/
theorem C15_reply_does_not_change_the_flags (a : FailAction) (o : Option Reply) (r : Result) :
    ({ a with override := o }.apply r).reject = (a.apply r).reject ∧
    ({ a with override := o }.apply r).quarantine = (a.apply r).quarantine ∧
    ({ a with override := o }.apply r).reason = (a.apply r).reason := by
  simp only [FailAction.apply]
  cases r.reason <;> simp

/-- A configuration block whose three action directives are written with the word `reject` — with
or without a custom reply — or are left out. -/
def RejectWritten (d : Option FailAction) : Prop :=
  d = none ∨ ∃ rest a, parseActionDirective (REJECT :: rest) = some a ∧ d = some a

/-- **C15 (reject with any reply).** Whenever the configured actions say `reject` — bare, with a
custom code, enhanced code or text, or by default — a client's message is accepted only if the
client is authenticated, entitled to the envelope sender and (with header checking) the author is
an address the user is entitled to. -/
theorem C15_reject_with_any_reply_accepted_only_if_entitled (d : Directives)
    (h1 : RejectWritten d.unauthAction) (h2 : RejectWritten d.noMatchAction) (h3 : RejectWritten d.errAction)
    (u mailFrom : Str) (h : Header) (hacc : accepted d.cfg (some u) mailFrom h = true) :
    u ≠ [] ∧ Entitled d.cfg u mailFrom ∧ (d.cfg.checkHeader = true → AuthorOK d.cfg u h) := by
  have key : ∀ x : Option FailAction, RejectWritten x → (x.getD rejectAction).reject = true := by
    intro x hx
    rcases hx with hx | ⟨rest, a, hp, hx⟩
    · rw [hx]; rfl
    · rw [hx]; exact (C15_reject_directive_rejects rest a hp).1
  exact C15_accepted_only_if_entitled d.cfg ⟨key _ h1, key _ h2, key _ h3⟩ u mailFrom h hacc

/-- **C15 (unauthenticated, any reply).** `unauth_action reject …`: an unauthenticated client's MAIL
FROM is refused with the reject flag; `unauth_action quarantine …`: with the quarantine flag. -/
theorem C15_unauthenticated_refused_with_any_reply (c : Cfg) (w : Str) (rest : List Str) (a : FailAction)
    (hp : parseActionDirective (w :: rest) = some a) (hc : c.unauthAction = a) (mailFrom : Str) :
    (checkSender c (some []) mailFrom).reason = some .authRequired ∧
    (checkSender c (some []) mailFrom).reject = (w == REJECT) ∧
    (checkSender c (some []) mailFrom).quarantine = (w == QUARANTINE) ∧
    (checkSender c (some []) mailFrom).reply = a.override := by
  obtain ⟨hr, hq⟩ := C15_action_flags_from_word w rest a hp
  have hs : checkSender c (some []) mailFrom = fail a .authRequired := by
    simp [checkSender, authzSender, refuse, actionFor, hc]
  rw [hs]
  exact ⟨fail_reason _ _, by rw [fail_reject, hr], by rw [fail_quarantine, hq], fail_reply _ _⟩

/-- A refusal because of no entitlement carries the flags of the `no_match_action` word. -/
theorem C15_no_match_refused_with_any_reply (c : Cfg) (w : Str) (rest : List Str) (a : FailAction)
    (hp : parseActionDirective (w :: rest) = some a) (hc : c.noMatchAction = a) :
    (refuse c .noMatch).reject = (w == REJECT) ∧ (refuse c .noMatch).quarantine = (w == QUARANTINE) ∧
    (refuse c .noMatch).reply = a.override := by
  obtain ⟨hr, hq⟩ := C15_action_flags_from_word w rest a hp
  simp only [refuse, actionFor, hc]
  exact ⟨by rw [fail_reject, hr], by rw [fail_quarantine, hq], fail_reply _ _⟩

/-- **C15 (submission endpoint).** `submissionPrepare` writes neither `From` nor `Sender`: the
author fields the check judges are the ones the client sent and the ones that are delivered. -/
theorem C15_submission_prepare_leaves_author_fields :
    "From" ∉ submissionWrites ∧ "Sender" ∉ submissionWrites := by decide

/-! ## C15: spellings -/

/-- **C15 (spellings of names and addresses).** The decision depends on the user name and on the
address only through their normal forms: two spellings the configured normalisers map to the
same string get the same answer (the tables are consulted with normal forms only). -/
theorem C15_decision_depends_only_on_normal_forms (c : Cfg) (u u' a a' : Str)
    (hu : c.authNorm u = c.authNorm u') (ha : c.fromNorm a = c.fromNorm a')
    (hne : u = [] ↔ u' = []) :
    authzSender c u a = authzSender c u' a' := by
  unfold authzSender
  have : u.isEmpty = u'.isEmpty := by
    cases u <;> cases u' <;> simp_all
  rw [this, hu, ha]

/-- **C15 (spellings of the user name, whole message).** Two spellings of the authenticated name
with the same normal form get the same answer from both stages, for every message. -/
theorem C15_user_spelling_irrelevant (c : Cfg) (u u' : Str) (hu : c.authNorm u = c.authNorm u')
    (hne : u = [] ↔ u' = []) (mailFrom : Str) (h : Header) :
    checkSender c (some u) mailFrom = checkSender c (some u') mailFrom ∧
    checkBody c (some u) h = checkBody c (some u') h := by
  have key : ∀ x, authzSender c u x = authzSender c u' x :=
    fun x => C15_decision_depends_only_on_normal_forms c u u' x x hu rfl hne
  exact ⟨key mailFrom, by simp only [checkBody, key]⟩

/-- What the normalisers must satisfy with respect to a coarse spelling equivalence `canon`
(same `canon` = same address / domain up to letter case, Unicode normalisation, IDN form). -/
structure SpellingSound (c : Cfg) (canon : Str → Str) : Prop where
  /-- normalising an address keeps its equivalence class -/
  addr : ∀ a na, c.fromNorm a = some na → canon na = canon a
  /-- the domain of the normal form is a spelling of the domain of the address -/
  dom : ∀ a na m d, c.fromNorm a = some na → split na = .ok (m, d) →
    ∃ m' d', split a = .ok (m', d') ∧ canon d = canon d'

/-- Entry `e` covers `a` up to spelling. -/
def CoarseCovers (canon : Str → Str) (e a : Str) : Prop :=
  e = STAR ∨ canon e = canon a ∨ ∃ m d, split a = .ok (m, d) ∧ canon e = canon d

/-- **C15 (no spelling trick).** Without an alias table (`prepare_email` left at identity), if
the normaliser respects a spelling equivalence, an address the check lets pass is — up to that
equivalence — literally one of the user's entries, in the domain of one, or covered by `*`.
So no case / normalisation / IDN spelling of a foreign address can pass. -/
theorem C15_pass_implies_entry_up_to_spelling (c : Cfg) (canon : Str → Str) (hs : SpellingSound c canon)
    (hid : ∀ na, prepared c.emailPrepare na = .ok [na]) (u a : Str)
    (h : (authzSender c u a).reason = none) :
    ∃ nu es, c.authNorm u = some nu ∧ tableEntries c.userToEmail nu = .ok es ∧
      ∃ e ∈ es, e ≠ [] ∧ CoarseCovers canon e a := by
  obtain ⟨_, nu, na, ps, es, hnu, hna, hps, hes, p, hp, e, he, hc⟩ := authzSender_pass c u a h
  rw [hid na] at hps
  cases hps
  simp at hp
  subst hp
  obtain ⟨hne, hc⟩ := hc
  refine ⟨nu, es, hnu, hes, e, he, hne, ?_⟩
  rcases hc with hc | hc | ⟨m, d, hsp, hd⟩
  · exact .inl hc
  · subst hc; exact .inr (.inl (hs.addr a e hna))
  · obtain ⟨m', d', hsa, hcd⟩ := hs.dom a p m d hna hsp
    subst hd
    exact .inr (.inr ⟨m', d', hsa, hcd⟩)

/-! ## entitlement is LITERAL equality after the configured normaliser

`from_normalize` decides which spellings are one address: under a case-preserving setting
(`precis_email`, `precis`, `noop`) `Support@example.org` and `support@example.org` have different
prepared forms and are different mailboxes.  The comparison itself adds no folding of its own. -/

/-- **C15 (literal comparison).** Without an alias table, an address passes only if its PREPARED form
(the result of the configured normaliser) is literally an entry, its `split` domain is literally an
entry, or `*` is an entry. -/
theorem C15_pass_implies_prepared_form_listed (c : Cfg)
    (hid : ∀ na, prepared c.emailPrepare na = .ok [na]) (u a : Str)
    (h : (authzSender c u a).reason = none) :
    ∃ nu na es, c.authNorm u = some nu ∧ c.fromNorm a = some na ∧ tableEntries c.userToEmail nu = .ok es ∧
      ∃ e ∈ es, Covers e na := by
  obtain ⟨_, nu, na, ps, es, hnu, hna, hps, hes, p, hp, e, he, hc⟩ := authzSender_pass c u a h
  rw [hid na] at hps
  cases hps
  simp at hp
  subst hp
  exact ⟨nu, p, es, hnu, hna, hes, e, he, hc⟩

/-- One entry covering two DIFFERENT prepared forms is the wildcard or the domain of one of them: an
address entry entitles to exactly one prepared form. -/
theorem Covers_two_forms (e p q : Str) (hpq : p ≠ q) (hp : Covers e p) (hq : Covers e q) :
    e = STAR ∨ (∃ m d, split p = .ok (m, d) ∧ e = d) ∨ (∃ m d, split q = .ok (m, d) ∧ e = d) := by
  obtain ⟨_, hp⟩ := hp
  obtain ⟨_, hq⟩ := hq
  rcases hp with hp | hp | hp
  · exact .inl hp
  · rcases hq with hq | hq | hq
    · exact .inl hq
    · exact absurd (hp.symm.trans hq) hpq
    · exact .inr (.inr hq)
  · exact .inr (.inl hp)

/-- **C15 (different prepared forms never share an address entry).** Two addresses whose prepared
forms differ — e.g. two letter-case spellings of a local part under a case-preserving
`from_normalize` — both pass only if EACH prepared form is covered by an entry of the user's list;
and if it is one and the same entry, that entry is `*` or a domain entry.  In particular a list of
address entries lets both pass only if both prepared forms are literally listed. -/
theorem C15_different_prepared_forms_share_no_address_entry (c : Cfg)
    (hid : ∀ na, prepared c.emailPrepare na = .ok [na]) (u a b na nb : Str)
    (hna : c.fromNorm a = some na) (hnb : c.fromNorm b = some nb) (hne : na ≠ nb)
    (ha : (authzSender c u a).reason = none) (hb : (authzSender c u b).reason = none) :
    ∃ nu es, c.authNorm u = some nu ∧ tableEntries c.userToEmail nu = .ok es ∧
      ∃ ea ∈ es, ∃ eb ∈ es, Covers ea na ∧ Covers eb nb ∧
        (ea = eb → ea = STAR ∨ (∃ m d, split na = .ok (m, d) ∧ ea = d) ∨ (∃ m d, split nb = .ok (m, d) ∧ ea = d)) := by
  obtain ⟨nu, na', es, hnu, hna', hes, ea, hea, hca⟩ := C15_pass_implies_prepared_form_listed c hid u a ha
  obtain ⟨nu', nb', es', hnu', hnb', hes', eb, heb, hcb⟩ := C15_pass_implies_prepared_form_listed c hid u b hb
  rw [hna] at hna'; cases hna'
  rw [hnb] at hnb'; cases hnb'
  rw [hnu] at hnu'; cases hnu'
  rw [hes] at hes'; cases hes'
  refine ⟨nu, es, hnu, hes, ea, hea, eb, heb, hca, hcb, ?_⟩
  intro heq
  subst heq
  exact Covers_two_forms ea na nb hne hca hcb

/-- … so with only address entries (no `*`, no entry that is the domain of either form) both prepared
forms are literally in the list. -/
theorem C15_address_entries_entitle_only_listed_forms (c : Cfg)
    (hid : ∀ na, prepared c.emailPrepare na = .ok [na]) (u a nu na : Str) (es : List Str)
    (hnu : c.authNorm u = some nu) (hna : c.fromNorm a = some na) (hes : tableEntries c.userToEmail nu = .ok es)
    (hstar : STAR ∉ es) (hdom : ∀ m d, split na = .ok (m, d) → d ∉ es)
    (ha : (authzSender c u a).reason = none) : na ∈ es := by
  obtain ⟨nu', na', es', hnu', hna', hes', e, he, hc⟩ := C15_pass_implies_prepared_form_listed c hid u a ha
  rw [hna] at hna'; cases hna'
  rw [hnu] at hnu'; cases hnu'
  rw [hes] at hes'; cases hes'
  obtain ⟨_, hc⟩ := hc
  rcases hc with hc | hc | ⟨m, d, hs, hd⟩
  · exact absurd (hc ▸ he) hstar
  · exact hc ▸ he
  · exact absurd (hd ▸ he) (hdom m d hs)

/-! ## the check is not trivially refusing: entitled senders pass -/

theorem authorizeLoop_complete (es ps : List Str)
    (hsplit : ∀ p ∈ ps, ∃ m d, split p = .ok (m, d))
    (hcov : ∃ p ∈ ps, ∃ e ∈ es, (e = STAR ∨ e = p ∨ ∃ m d, split p = .ok (m, d) ∧ e = d)) :
    authorizeLoop es ps = .ok true := by
  induction ps with
  | nil => simp at hcov
  | cons p rest ih =>
    obtain ⟨m, d, hs⟩ := hsplit p (by simp)
    simp only [authorizeLoop, hs]
    split
    · rfl
    · rename_i hany
      apply ih
      · intro q hq; exact hsplit q (by simp [hq])
      · obtain ⟨q, hq, e, he, hc⟩ := hcov
        simp at hq
        rcases hq with rfl | hq
        · exfalso
          apply hany
          rw [List.any_eq_true]
          refine ⟨e, he, ?_⟩
          rcases hc with hc | hc | ⟨m', d', hs', hd⟩
          · simp [entMatches, hc]
          · simp [entMatches, hc]
          · rw [hs] at hs'; cases hs'; simp [entMatches, hd]
        · exact ⟨q, hq, e, he, hc⟩

/-- **C15 (converse).** An authenticated user entitled to the address passes, provided every
address `prepare_email` yields is splittable (otherwise the code answers with an internal error). -/
theorem C15_entitled_passes (c : Cfg) (u a nu na : Str) (ps es : List Str) (hu : u ≠ [])
    (hnu : c.authNorm u = some nu) (hna : c.fromNorm a = some na)
    (hps : prepared c.emailPrepare na = .ok ps) (hes : tableEntries c.userToEmail nu = .ok es)
    (hsplit : ∀ p ∈ ps, ∃ m d, split p = .ok (m, d))
    (hcov : ∃ p ∈ ps, ∃ e ∈ es, Covers e p) :
    authzSender c u a = pass := by
  unfold authzSender
  have : u.isEmpty = false := by cases u <;> simp_all
  have hcov' : ∃ p ∈ ps, ∃ e ∈ es.filter (fun e => !e.isEmpty),
      (e = STAR ∨ e = p ∨ ∃ m d, split p = .ok (m, d) ∧ e = d) := by
    obtain ⟨p, hp, e, he, hne, hc⟩ := hcov
    refine ⟨p, hp, e, ?_, hc⟩
    rw [List.mem_filter]
    refine ⟨he, ?_⟩
    cases e <;> simp_all
  simp [this, hna, hnu, hps, authorizeEmailUse, validEmails_of_entries _ _ _ hes,
    authorizeLoop_complete _ ps hsplit hcov']

/-! ## entries that name nothing: the empty string -/

/-- **C15 (empty entries are inert).** Two mapping tables whose answers for the user differ only in
empty entries (a key-only line of a table file, a list ending in a comma, an empty SQL column)
give the same entitlement decision for every list of (prepared) sender values — including values
whose `split` domain is empty (the bare `postmaster`). -/
theorem C15_empty_entries_inert (t t' : Table) (u : Str) (es es' ps : List Str)
    (h : tableEntries t u = .ok es) (h' : tableEntries t' u = .ok es')
    (hsame : es.filter (fun e => !e.isEmpty) = es'.filter (fun e => !e.isEmpty)) :
    authorizeEmailUse u ps t = authorizeEmailUse u ps t' := by
  simp [authorizeEmailUse, validEmails_of_entries _ _ _ h, validEmails_of_entries _ _ _ h', hsame]

/-- **C15 (empty entries).** A user whose mapping yields only empty entries is entitled to
nothing: no sender value passes, whatever `prepare_email` turns it into. -/
theorem C15_empty_entries_entitle_to_nothing (c : Cfg) (u a nu : Str) (es : List Str)
    (hnu : c.authNorm u = some nu) (hes : tableEntries c.userToEmail nu = .ok es)
    (hempty : ∀ e ∈ es, e = []) : (authzSender c u a).reason ≠ none := by
  intro h
  obtain ⟨_, nu', na, ps, es', hnu', _, _, hes', p, _, e, he, hne, _⟩ := authzSender_pass c u a h
  rw [hnu] at hnu'
  cases hnu'
  rw [hes] at hes'
  cases hes'
  exact hne (hempty e he)

/-! ## the configuration block: directives that are left out

`Init` gives every directive that is not written its default, and no default looks at another
directive.  So the usual configuration — no action directive, no `check_header` — is one the main
theorem speaks about, and writing a directive with its default value changes nothing. -/

/-- **C15 (defaults).** Without action directives all three actions are `reject`. -/
theorem C15_default_actions_reject (d : Directives) (h1 : d.unauthAction = none)
    (h2 : d.noMatchAction = none) (h3 : d.errAction = none) : AllReject d.cfg := by
  simp [AllReject, Directives.cfg, h1, h2, h3, rejectAction]

/-- **C15 (the default configuration).** With no action directive and no `check_header` directive
written — whatever the tables and normalisers are — a client's message is accepted only if the
client is authenticated, entitled to the envelope sender and to the header author. -/
theorem C15_default_configuration_accepted_only_if_entitled (d : Directives)
    (h1 : d.unauthAction = none) (h2 : d.noMatchAction = none) (h3 : d.errAction = none)
    (hch : d.checkHeader = none) (u mailFrom : Str) (h : Header)
    (hacc : accepted d.cfg (some u) mailFrom h = true) :
    u ≠ [] ∧ Entitled d.cfg u mailFrom ∧ AuthorOK d.cfg u h := by
  have := C15_accepted_only_if_entitled d.cfg (C15_default_actions_reject d h1 h2 h3) u mailFrom h hacc
  exact ⟨this.1, this.2.1, this.2.2 (by simp [Directives.cfg, hch])⟩

/-- The configuration block with every default written out. -/
def explicitDirectives (d : Directives) : Directives :=
  { d with
    checkHeader := some (d.checkHeader.getD true)
    emailPrepare := some (d.emailPrepare.getD identityTable)
    userToEmail := some (d.userToEmail.getD identityTable)
    unauthAction := some (d.unauthAction.getD rejectAction)
    noMatchAction := some (d.noMatchAction.getD rejectAction)
    errAction := some (d.errAction.getD rejectAction) }

/-- **C15 (defaults, written or not).** Leaving a directive out and writing it with its default
value give the same check. -/
theorem C15_defaults_written_or_not (d : Directives) : (explicitDirectives d).cfg = d.cfg := rfl

/-- **C15 (defaults are independent).** What the check does with one action directive left out
does not depend on whether any other directive is written: the action of every refusal site is
the written one or `reject`. -/
theorem C15_default_of_each_action (d : Directives) (r : Reason) :
    actionFor d.cfg r =
      (match r with
       | .authRequired => d.unauthAction
       | .noMatch => d.noMatchAction
       | _ => d.errAction).getD rejectAction := by
  cases r <;> rfl

/-! ## entitlements kept in a file (`table.file`): edits and reloads -/

theorem FileState.run_append (s : FileState) (ops ops' : List FileOp) :
    s.run (ops ++ ops') = (s.run ops).run ops' := by
  simp [FileState.run, List.foldl_append]

theorem FileState.run_reload (s : FileState) (ops : List FileOp) :
    s.run (ops ++ [.reload]) = (s.run ops).step .reload := by
  rw [FileState.run_append]; rfl

/-- **C15 (reload, file there).** Whatever happened before — any edits, any reloads —, after a
reload the table holds exactly the entry lines of the file as it is now; in particular none when
the file has no entry line left (emptied, comments only). -/
theorem C15_file_reload_loads_current (s : FileState) (ops : List FileOp) (ls : Lines)
    (h : (s.run ops).file = .entries ls) : (s.run (ops ++ [.reload])).loaded = ls := by
  rw [FileState.run_reload]
  simp only [FileState.step, h]

/-- **C15 (reload, file gone).** After a reload with the file deleted the table holds nothing. -/
theorem C15_file_reload_absent (s : FileState) (ops : List FileOp)
    (h : (s.run ops).file = .absent) : (s.run (ops ++ [.reload])).loaded = [] := by
  rw [FileState.run_reload]
  simp only [FileState.step, h]

/-- A reload does not touch the file. -/
theorem C15_file_reload_keeps_file (s : FileState) (ops : List FileOp) :
    (s.run (ops ++ [.reload])).file = (s.run ops).file := by
  rw [FileState.run_reload]
  simp only [FileState.step]
  split <;> rfl

/-- **C15 (decisions follow the current content).** After a reload both stages decide exactly as
a check whose `user_to_email` is a table with the file's current entry lines — the history
(earlier contents, earlier reloads) has no influence. -/
theorem C15_file_decision_follows_current_content (c : Cfg) (s : FileState) (ops : List FileOp)
    (ls : Lines) (h : (s.run ops).file = .entries ls) (conn : Option Str) (mailFrom : Str) (hd : Header) :
    checkSender { c with userToEmail := (s.run (ops ++ [.reload])).table } conn mailFrom =
      checkSender { c with userToEmail := fileTable ls } conn mailFrom ∧
    checkBody { c with userToEmail := (s.run (ops ++ [.reload])).table } conn hd =
      checkBody { c with userToEmail := fileTable ls } conn hd := by
  simp [FileState.table, C15_file_reload_loads_current s ops ls h]

/-- **C15 (withdrawn entitlements).** If the file as it is now gives the user no entry (no line
with the user's key, or only empty values — the user's lines were removed, given to someone
else, the file was emptied), then after a reload no sender address passes for that user, whatever
the file held before. -/
theorem C15_file_withdrawn_refused (c : Cfg) (s : FileState) (ops : List FileOp) (ls : Lines)
    (h : (s.run ops).file = .entries ls) (u a nu : Str) (hnu : c.authNorm u = some nu)
    (hno : ∀ e ∈ fileLookup ls nu, e = []) :
    (authzSender { c with userToEmail := (s.run (ops ++ [.reload])).table } u a).reason ≠ none := by
  apply C15_empty_entries_entitle_to_nothing
    { c with userToEmail := (s.run (ops ++ [.reload])).table } u a nu (fileLookup ls nu) hnu _ hno
  simp [FileState.table, C15_file_reload_loads_current s ops ls h, fileTable, tableEntries]

/-- … in particular when the file was emptied, … -/
theorem C15_file_emptied_refused (c : Cfg) (s : FileState) (ops : List FileOp)
    (h : (s.run ops).file = .entries []) (u a nu : Str) (hnu : c.authNorm u = some nu) :
    (authzSender { c with userToEmail := (s.run (ops ++ [.reload])).table } u a).reason ≠ none :=
  C15_file_withdrawn_refused c s ops [] h u a nu hnu (by simp [fileLookup])

/-- … and when it was deleted. -/
theorem C15_file_deleted_refused (c : Cfg) (s : FileState) (ops : List FileOp)
    (h : (s.run ops).file = .absent) (u a nu : Str) (hnu : c.authNorm u = some nu) :
    (authzSender { c with userToEmail := (s.run (ops ++ [.reload])).table } u a).reason ≠ none := by
  apply C15_empty_entries_entitle_to_nothing
    { c with userToEmail := (s.run (ops ++ [.reload])).table } u a nu [] hnu _ (by simp)
  simp [FileState.table, C15_file_reload_absent s ops h, fileTable, tableEntries, fileLookup]

/-! ## table.chain as an entitlement table: the answer is the composition of the step tables

`StepRel t k v`: the step table `t` gives `v` for `k`.  `Comp steps k v`: `v` is reached from `k` by ONE
application of every step in order, an `optional_step` possibly left out.  Order and multiplicity of the
answer list mean nothing for entitlement (`Entitled` asks for membership only), so the theorems speak
about membership. -/

def StepRel (t : Table) (k v : Str) : Prop := ∃ vs, tableEntries t k = .ok vs ∧ v ∈ vs

def Comp : List (Bool × Table) → Str → Str → Prop
  | [], k, v => v = k
  | (opt, t) :: rest, k, v => (∃ m, StepRel t k m ∧ Comp rest m v) ∨ (opt = true ∧ Comp rest k v)

/-- the composition without leaving out any step -/
def CompAll : List (Bool × Table) → Str → Str → Prop
  | [], k, v => v = k
  | (_, t) :: rest, k, v => ∃ m, StepRel t k m ∧ CompAll rest m v

/-- the inner loop, when no key is without a mapping: the answer holds exactly the values the table gives
for the keys, and every key has a value. -/
theorem stepKeys_some (t : Table) (keys r : List Str) (h : stepKeys t keys = .ok (some r)) :
    (∀ v, v ∈ r ↔ ∃ k ∈ keys, StepRel t k v) ∧ ∀ k ∈ keys, ∃ v, StepRel t k v := by
  induction keys generalizing r with
  | nil =>
    simp [stepKeys] at h
    subst h
    simp
  | cons k ks ih =>
    unfold stepKeys at h
    split at h
    · simp at h
    · simp at h
    · rename_i v vs hk
      split at h
      · simp at h
      · simp at h
      · rename_i r' hr'
        cases h
        have ⟨ih1, ih2⟩ := ih r' hr'
        constructor
        · intro x
          constructor
          · intro hx
            rcases List.mem_append.mp hx with hx | hx
            · exact ⟨k, by simp, v :: vs, hk, hx⟩
            · obtain ⟨k', hk', hrel⟩ := (ih1 x).mp hx
              exact ⟨k', by simp [hk'], hrel⟩
          · rintro ⟨k', hk', vs', hvs', hx⟩
            rcases List.mem_cons.mp hk' with rfl | hk'
            · rw [hk] at hvs'
              cases hvs'
              exact List.mem_append.mpr (Or.inl hx)
            · exact List.mem_append.mpr (Or.inr ((ih1 x).mpr ⟨k', hk', vs', hvs', hx⟩))
        · intro k' hk'
          rcases List.mem_cons.mp hk' with rfl | hk'
          · exact ⟨v, v :: vs, hk, by simp⟩
          · exact ih2 k' hk'

/-- **table.chain, soundness.**  Every value of the answer is reached from one of the keys through the
step tables, one application per step (optional steps possibly left out): nothing a step's table gives
only for ANOTHER step's output — or for its own output — gets in. -/
theorem C15_chain_answer_is_composition (steps : List (Bool × Table)) (keys r : List Str)
    (h : chainLookup steps keys = .ok r) : ∀ v ∈ r, ∃ k ∈ keys, Comp steps k v := by
  induction steps generalizing keys r with
  | nil =>
    simp [chainLookup] at h
    subst h
    intro v hv
    exact ⟨v, hv, rfl⟩
  | cons st rest ih =>
    obtain ⟨opt, t⟩ := st
    unfold chainLookup at h
    split at h
    · simp at h
    · split at h
      · rename_i hopt
        intro v hv
        obtain ⟨k, hk, hc⟩ := ih keys r h v hv
        exact ⟨k, hk, Or.inr ⟨hopt, hc⟩⟩
      · simp at h
        subst h
        intro v hv
        simp at hv
    · rename_i r1 hr1
      intro v hv
      obtain ⟨m, hm, hc⟩ := ih r1 r h v hv
      obtain ⟨k, hk, hrel⟩ := ((stepKeys_some t keys r1 hr1).1 m).mp hm
      exact ⟨k, hk, Or.inl ⟨m, hrel, hc⟩⟩

/-- **table.chain, completeness.**  With `step` directives only, a non-empty answer holds EVERY value of the
composition: no value reached through the tables is lost. -/
theorem C15_chain_answer_is_whole_composition (steps : List (Bool × Table)) (keys r : List Str)
    (hno : ∀ st ∈ steps, st.1 = false) (h : chainLookup steps keys = .ok r) (hne : r ≠ []) :
    ∀ k ∈ keys, ∀ v, CompAll steps k v → v ∈ r := by
  induction steps generalizing keys r with
  | nil =>
    simp [chainLookup] at h
    subst h
    intro k hk v hv
    simp [CompAll] at hv
    subst hv
    exact hk
  | cons st rest ih =>
    obtain ⟨opt, t⟩ := st
    have hopt : opt = false := hno (opt, t) (by simp)
    subst hopt
    unfold chainLookup at h
    split at h
    · simp at h
    · simp at h
      exact absurd h hne
    · rename_i r1 hr1
      intro k hk v hv
      obtain ⟨m, hrel, hc⟩ := hv
      have hm : m ∈ r1 := ((stepKeys_some t keys r1 hr1).1 m).mpr ⟨k, hk, hrel⟩
      exact ih r1 r (fun st hst => hno st (by simp [hst])) h hne m hm v hc

/-- a `step` that has no value for one of the keys: the lookup answers nothing -/
theorem C15_chain_step_without_mapping (t : Table) (rest : List (Bool × Table)) (keys : List Str)
    (h : stepKeys t keys = .ok none) : chainLookup ((false, t) :: rest) keys = .ok [] := by
  simp [chainLookup, h]

/-- an `optional_step` that has no value for one of the keys is left out as a whole -/
theorem C15_chain_optional_step_left_out (t : Table) (rest : List (Bool × Table)) (keys : List Str)
    (h : stepKeys t keys = .ok none) : chainLookup ((true, t) :: rest) keys = chainLookup rest keys := by
  simp [chainLookup, h]

/-- **C15 with a chain as `user_to_email`.**  A clean envelope result means: the client is authenticated and
some value the composition of the step tables gives the normalised user name covers a prepared form of the
sender. -/
theorem C15_chain_envelope_pass_implies_reached_entry (c : Cfg) (steps : List (Bool × Table)) (u mailFrom : Str)
    (hc : c.userToEmail = chainTable steps)
    (h : (checkSender c (some u) mailFrom).reason = none) :
    u ≠ [] ∧ ∃ nu na ps e, c.authNorm u = some nu ∧ c.fromNorm mailFrom = some na ∧
      prepared c.emailPrepare na = .ok ps ∧ Comp steps nu e ∧ ∃ p ∈ ps, Covers e p := by
  obtain ⟨hu, nu, na, ps, es, hnu, hna, hps, hes, p, hp, e, he, hcov⟩ := C15_envelope_pass_implies_entitled c u mailFrom h
  refine ⟨hu, nu, na, ps, e, hnu, hna, hps, ?_, p, hp, hcov⟩
  rw [hc] at hes
  simp only [chainTable, tableEntries] at hes
  obtain ⟨k, hk, hcomp⟩ := C15_chain_answer_is_composition steps [nu] es hes e he
  simp at hk
  subst hk
  exact hcomp

/-! ## the identity of the session (SASL PLAIN) -/

/-- **The identity authorize_sender is shown is the account whose password was verified.**  An accepted
AUTH PLAIN exchange makes the login name itself the session's user, and the password was verified for the
normal form of that name — whatever authorization identity the client sent. -/
theorem C15_session_identity_is_the_authenticated_one (norm : Str → Option Str) (verify : Str → Str → Bool)
    (authzid authcid password user : Str) (h : saslPlain norm verify authzid authcid password = some user) :
    user = authcid ∧ ∃ name, norm authcid = some name ∧ verify name password = true := by
  cases hn : norm authcid with
  | none => simp [saslPlain, hn] at h
  | some name =>
    by_cases hv : verify name password = true
    · refine ⟨?_, name, rfl, hv⟩
      by_cases hz : authzid.isEmpty = true
      · simp [saslPlain, hn, hv, hz] at h
        exact h.symm
      · simp [saslPlain, hn, hv, hz] at h
        obtain ⟨h1, h2⟩ := h
        rw [← h2, h1]
    · simp [saslPlain, hn, hv] at h

/-- another account's name (or any other spelling of the own one) as authorization identity is refused -/
theorem C15_foreign_authorization_identity_refused (norm : Str → Option Str) (verify : Str → Str → Bool)
    (authzid authcid password : Str) (hne : authzid ≠ []) (hd : authzid ≠ authcid) :
    saslPlain norm verify authzid authcid password = none := by
  unfold saslPlain
  have : authzid.isEmpty = false := by cases authzid <;> simp_all
  simp [this, hd]

/-- so the decision of the check for the session is the decision for the login name -/
theorem C15_session_decides_for_the_login_name (c : Cfg) (norm : Str → Option Str) (verify : Str → Str → Bool)
    (authzid authcid password user mailFrom : Str) (h : saslPlain norm verify authzid authcid password = some user) :
    checkSender c (some user) mailFrom = checkSender c (some authcid) mailFrom := by
  rw [(C15_session_identity_is_the_authenticated_one norm verify authzid authcid password user h).1]

/-! ## non-vacuity: concrete configurations and messages -/

/-! ### `table.email_with_domain` as entitlement table (round 10)

Every value is the WHOLE key, written as a local part, in front of a configured domain.  An account whose name holds
an at-sign (an address of another realm) is therefore given quoted local parts only: no value is the address of
the account named by the local part of that name. -/

theorem C15_with_domain_values (ds : List Str) (k v : Str) :
    v ∈ emailWithDomain ds k ↔ ∃ d ∈ ds, v = quoteMbox k ++ AT :: d := by
  simp only [emailWithDomain, List.mem_map]
  constructor
  · rintro ⟨d, hd, rfl⟩; exact ⟨d, hd, rfl⟩
  · rintro ⟨d, hd, rfl⟩; exact ⟨d, hd, rfl⟩

theorem quoteMbox_of_at {k : Str} (h : AT ∈ k) : quoteMbox k = DQ :: (escapeAll k ++ [DQ]) := by
  have : k.any isSpecial = true := List.any_eq_true.mpr ⟨AT, h, by decide⟩
  simp [quoteMbox, this]

/-- An account named by an address: every value of the table starts with the quotation mark (the whole name is
the local part) — in particular it is none of the plain addresses `<anything not starting with a quote>`. -/
theorem C15_with_domain_address_name_gets_quoted_local_part (ds : List Str) (k v : Str) (hat : AT ∈ k)
    (hv : v ∈ emailWithDomain ds k) : v.head? = some DQ := by
  obtain ⟨d, _, rfl⟩ := (C15_with_domain_values ds k v).mp hv
  rw [quoteMbox_of_at hat]; rfl

theorem C15_with_domain_address_name_shares_no_plain_address (ds : List Str) (k addr : Str) (hat : AT ∈ k)
    (hplain : addr.head? ≠ some DQ) : addr ∉ emailWithDomain ds k := fun h =>
  hplain (C15_with_domain_address_name_gets_quoted_local_part ds k addr hat h)

/-- a name without specials is used as it is: `bob` owns `bob@<domain>` for every configured domain -/
theorem C15_with_domain_plain_name (ds : List Str) (k d : Str) (hk : k.any isSpecial = false) (hd : d ∈ ds) :
    k ++ AT :: d ∈ emailWithDomain ds k := by
  refine (C15_with_domain_values ds k _).mpr ⟨d, hd, ?_⟩
  simp [quoteMbox, hk]

/-! ### authorize_sender next to other checks of the group (round 10)

The runner's merge of the verdicts: the command fails iff SOME check rejected — whatever the other checks say
(quarantine, a reason without action, nothing) and whichever goroutine finished first. -/

theorem verdict_beq : (Verdict.none == Verdict.reject) = false ∧ (Verdict.quarantine == Verdict.reject) = false ∧
    (Verdict.none == Verdict.quarantine) = false ∧ (Verdict.reject == Verdict.quarantine) = false := by decide

theorem foldl_merge_rErr (l : List Verdict) : ∀ m : Merge,
    (l.foldl Merge.step m).rErr = (m.rErr || l.any (· == .reject)) := by
  induction l with
  | nil => intro m; simp
  | cons v rest ih =>
    intro m
    simp only [List.foldl_cons, ih, List.any_cons]
    cases v <;> simp [Merge.step, verdict_beq]

theorem foldl_merge_qErr (l : List Verdict) : ∀ m : Merge,
    (l.foldl Merge.step m).qErr = (m.qErr || l.any (· == .quarantine)) := by
  induction l with
  | nil => intro m; simp
  | cons v rest ih =>
    intro m
    simp only [List.foldl_cons, ih, List.any_cons]
    cases v <;> simp [Merge.step, verdict_beq]

theorem mergeResults_fails_iff (l : List Verdict) : (mergeResults l).1 = l.any (· == .reject) := by
  unfold mergeResults
  simp only [foldl_merge_rErr]
  cases h : l.any (· == .reject) <;> simp

theorem mergeResults_flag (l : List Verdict) :
    (mergeResults l).2 = (!l.any (· == .reject) && l.any (· == .quarantine)) := by
  unfold mergeResults
  simp only [foldl_merge_rErr, foldl_merge_qErr]
  cases h : l.any (· == .reject) <;> simp

/-- The decision does not depend on which goroutine finished first. -/
theorem C15_merge_order_independent {l₁ l₂ : List Verdict} (h : l₁.Perm l₂) : mergeResults l₁ = mergeResults l₂ := by
  apply Prod.ext
  · rw [mergeResults_fails_iff, mergeResults_fails_iff, h.any_eq]
  · rw [mergeResults_flag, mergeResults_flag, h.any_eq, h.any_eq]

/-- A rejection of ANY check of the group fails the command: no verdict of a neighbour, finishing before or
after, takes it back. -/
theorem C15_refusal_survives_any_neighbour (before after : List Verdict) :
    mergeResults (before ++ Verdict.reject :: after) = (true, false) := by
  have h1 : (mergeResults (before ++ Verdict.reject :: after)).1 = true := by
    rw [mergeResults_fails_iff]; simp
  have h2 : (mergeResults (before ++ Verdict.reject :: after)).2 = false := by
    rw [mergeResults_flag]; simp
  exact Prod.ext h1 h2

/-- With the actions that reject (the defaults): a client that is not entitled to the envelope sender is refused
at the sender stage whatever the other checks of the group answer and however fast they are. -/
theorem C15_not_entitled_sender_refused_next_to_any_checks (c : Cfg) (user : Option Str) (mailFrom : Str)
    (before after : List Verdict)
    (hr : (checkSender c user mailFrom).reject = true) (hq : (checkSender c user mailFrom).quarantine = false) :
    (mergeResults (before ++ (checkSender c user mailFrom).verdict :: after)).1 = true := by
  have : (checkSender c user mailFrom).verdict = .reject := by simp [Result.verdict, hr, hq]
  rw [this, C15_refusal_survives_any_neighbour]

theorem C15_not_entitled_author_refused_next_to_any_checks (c : Cfg) (user : Option Str) (h : Header)
    (before after : List Verdict)
    (hr : (checkBody c user h).reject = true) (hq : (checkBody c user h).quarantine = false) :
    (mergeResults (before ++ (checkBody c user h).verdict :: after)).1 = true := by
  have : (checkBody c user h).verdict = .reject := by simp [Result.verdict, hr, hq]
  rw [this, C15_refusal_survives_any_neighbour]

/-- Wherever the group is declared and in whatever order recipients are named: when the group's verdict on the
envelope sender is a rejection, NO recipient whose delivery lies behind the group is accepted. -/
theorem C15_placed_sender_refusal_reaches_every_checked_recipient (p : Place) (order : List Bool) (i : Nat)
    (hi : i < order.length) (hb : p.behind (order[i]'hi) = true) :
    (placedRcpts p true order)[i]'(by simpa [placedRcpts] using hi) = false := by
  simp [placedRcpts, rcptAccepted, hb]

/-- … and recipients are refused for no other reason: without a rejection all are accepted; a recipient that is not
behind the group is accepted whatever the verdict. -/
theorem C15_placed_no_refusal_without_rejection (p : Place) (order : List Bool) :
    placedRcpts p false order = order.map (fun _ => true) := by
  simp [placedRcpts, rcptAccepted]

theorem C15_placed_unchecked_recipient_accepted (r : Bool) (order : List Bool) (i : Nat)
    (hi : i < order.length) (hb : order[i]'hi = false) :
    (placedRcpts .dest r order)[i]'(by simpa [placedRcpts] using hi) = true := by
  simp [placedRcpts, rcptAccepted, Place.behind, hb]

/-- With the actions that reject: a client that is not entitled to the envelope sender gets no recipient behind the
check group accepted, wherever the group is declared (also in a destination block, where the sender verdict is a
replay), whatever the order of the recipients, whatever the other checks of the group answer. -/
theorem C15_not_entitled_sender_refused_wherever_declared (c : Cfg) (user : Option Str) (mailFrom : Str)
    (before after : List Verdict) (p : Place) (order : List Bool) (i : Nat)
    (hr : (checkSender c user mailFrom).reject = true) (hq : (checkSender c user mailFrom).quarantine = false)
    (hi : i < order.length) (hb : p.behind (order[i]'hi) = true) :
    (placedRcpts p (mergeResults (before ++ (checkSender c user mailFrom).verdict :: after)).1 order)[i]'(by
      simpa [placedRcpts] using hi) = false := by
  have h := C15_not_entitled_sender_refused_next_to_any_checks c user mailFrom before after hr hq
  simp [placedRcpts, rcptAccepted, hb, h]

section Examples

def s (x : String) : Str := x.toList.map Char.toNat

/-- ASCII lower-casing as the normaliser of the examples. -/
def lowerNorm (x : Str) : Option Str := some (x.map asciiLower)

/-- alice may use her address and the whole of corp.example; bob only his address. -/
def exTable : Table := .multi fun k =>
  if k = s "alice" then .ok [s "alice@example.org", s "corp.example"]
  else if k = s "bob" then .ok [s "bob@example.org"]
  else .ok []

def exCfg : Cfg where
  checkHeader := true
  emailPrepare := .single fun k => .ok (some k)      -- table.Identity
  userToEmail := exTable
  unauthAction := { reject := true, quarantine := false }
  noMatchAction := { reject := true, quarantine := false }
  errAction := { reject := true, quarantine := false }
  fromNorm := lowerNorm
  authNorm := lowerNorm

def one (a : String) : FromField := { empty := false, parse := some [s a] }

-- hypotheses of the main theorem are satisfiable, and accepted messages exist:
example : AllReject exCfg := ⟨rfl, rfl, rfl⟩
example : accepted exCfg (some (s "Alice")) (s "ALICE@example.org")
    { fromFields := [one "x@CORP.example"], senderFields := [] } = true := by decide
-- foreign From, own Sender: accepted; foreign Sender too: refused
example : accepted exCfg (some (s "alice")) (s "alice@example.org")
    { fromFields := [one "bob@example.org"], senderFields := [{ empty := false, parse := some (s "alice@example.org") }] } = true := by decide
example : accepted exCfg (some (s "alice")) (s "alice@example.org")
    { fromFields := [one "bob@example.org"], senderFields := [{ empty := false, parse := some (s "bob@example.org") }] } = false := by decide
-- two From fields, first entitled, second not (DESIGN §6 m): refused, in both orders
example : checkBody exCfg (some (s "alice")) { fromFields := [one "alice@example.org", one "bob@example.org"], senderFields := [] }
    = refuse exCfg .repeatedFrom := by decide
example : checkBody exCfg (some (s "alice")) { fromFields := [one "bob@example.org", one "alice@example.org"], senderFields := [] }
    = refuse exCfg .repeatedFrom := by decide
-- near misses
example : accepted exCfg (some (s "alice")) (s "alice@sub.corp.example") { fromFields := [one "alice@example.org"], senderFields := [] } = false := by decide
example : accepted exCfg (some (s "bob")) (s "bob@example.org") { fromFields := [one "alice@example.org"], senderFields := [] } = false := by decide
-- unauthenticated / local
example : accepted exCfg (some []) (s "alice@example.org") { fromFields := [one "alice@example.org"], senderFields := [] } = false := by decide
example : accepted exCfg none (s "mailer-daemon@example.org") { fromFields := [], senderFields := [] } = true := by decide

/-! case-preserving normalisation: `Alice@…` and `alice@…` are different prepared forms -/
def preservingTable : Table := .multi fun k =>
  if k = s "alice" then .ok [s "alice@example.org"] else .ok []
def preservingCfg : Cfg := { exCfg with fromNorm := some, userToEmail := preservingTable }
example : checkSender preservingCfg (some (s "alice")) (s "alice@example.org") = pass := by decide
example : checkSender preservingCfg (some (s "alice")) (s "Alice@example.org") = refuse preservingCfg .noMatch := by decide
example : checkSender preservingCfg (some (s "alice")) (s "alice@EXAMPLE.org") = refuse preservingCfg .noMatch := by decide
example : ∀ na, prepared preservingCfg.emailPrepare na = .ok [na] := fun _ => rfl

/-! action directives -/
example : parseActionDirective [REJECT] = some { reject := true, quarantine := false } := by decide
example : parseActionDirective [REJECT, s "553", s "5.7.1", s "Not yours"] =
    some { reject := true, quarantine := false, override := some ⟨553, (5, 7, 1), s "Not yours"⟩ } := by decide
example : parseActionDirective [QUARANTINE, s "450"] =
    some { reject := false, quarantine := true, override := some ⟨450, (4, 7, 0), defaultReplyMsg⟩ } := by decide
example : parseActionDirective [IGNORE] = some { reject := false, quarantine := false } := by decide
example : parseActionDirective [REJECT, s "250"] = none := by decide
example : parseActionDirective [REJECT, s "553", s "2.7.1"] = none := by decide
example : parseActionDirective [REJECT, s "553", s "5.7"] = none := by decide
example : parseActionDirective [REJECT, s "553", s "5.7.1", []] = none := by decide
example : parseActionDirective [s "drop"] = none := by decide
example : RejectWritten (parseActionDirective [REJECT, s "553", s "5.7.1", s "Not yours"]) :=
  .inr ⟨[s "553", s "5.7.1", s "Not yours"], _, rfl, rfl⟩
/-- the forged sender is refused under `no_match_action reject 553 5.7.1 "Not yours"`, with that reply -/
example : checkSender { exCfg with noMatchAction := ⟨true, false, some ⟨553, (5, 7, 1), s "Not yours"⟩⟩ }
    (some (s "bob")) (s "alice@example.org") =
    { reason := some .noMatch, reject := true, quarantine := false, reply := some ⟨553, (5, 7, 1), s "Not yours"⟩ } := by decide

-- an empty entry entitles to nothing, not even to the domain-less postmaster (whose `split`
-- domain is the empty string), with or without `prepare_email email_localpart`
def emptyEntryCfg : Cfg :=
  { exCfg with
    userToEmail := .multi fun k => if k = s "backup" then .ok [[]] else .ok [s "postmaster", []]
    fromNorm := some }
def localpartPrepare : Table := .single fun k =>
  match split k with
  | .ok (m, _) => .ok (some m)
  | .error _ => .ok none
example : split (s "postmaster") = .ok (s "postmaster", []) := by rfl
example : checkSender emptyEntryCfg (some (s "backup")) (s "postmaster") = refuse emptyEntryCfg .noMatch := by decide
example : checkSender { emptyEntryCfg with emailPrepare := localpartPrepare } (some (s "backup")) (s "postmaster@example.org")
    = refuse emptyEntryCfg .noMatch := by decide
example : checkSender { emptyEntryCfg with emailPrepare := localpartPrepare } (some (s "backup")) (s "alice@example.org")
    = refuse emptyEntryCfg .internal := by decide
example : checkSender emptyEntryCfg (some (s "root")) (s "postmaster") = pass := by decide
example : checkSender { emptyEntryCfg with emailPrepare := localpartPrepare } (some (s "root")) (s "postmaster@example.org") = pass := by decide
-- the hypotheses of `C15_empty_entries_entitle_to_nothing` are satisfiable
example : emptyEntryCfg.authNorm (s "Backup") = some (s "backup") ∧
    tableEntries emptyEntryCfg.userToEmail (s "backup") = .ok [[]] ∧ ∀ e ∈ [([] : Str)], e = [] :=
  ⟨by decide, by rfl, by simp⟩

/-- `SpellingSound` is satisfiable with a non-trivial equivalence (ASCII case folding) for the
identity normaliser, and `prepared … = [na]` holds for the identity table. -/
example : SpellingSound { exCfg with fromNorm := some } (fun x => x.map asciiLower) :=
  ⟨by intro a na h; cases h; rfl, by intro a na m d h hs; cases h; exact ⟨m, d, hs, rfl⟩⟩
example : ∀ na, prepared exCfg.emailPrepare na = .ok [na] := fun _ => rfl

/-- the hypotheses of the spelling theorems are satisfiable by distinct spellings -/
example : exCfg.authNorm (s "Alice") = exCfg.authNorm (s "ALICE") ∧ s "Alice" ≠ s "ALICE" := by decide
example : exCfg.fromNorm (s "Alice@Example.ORG") = exCfg.fromNorm (s "alice@example.org") := by decide

/-- the hypotheses of `C15_entitled_passes` are satisfiable -/
example : authzSender exCfg (s "ALICE") (s "Someone@Corp.Example") = pass := by decide

-- the default configuration block (nothing written but the table) is one the theorems speak about
def exDirectives : Directives := { userToEmail := some exTable, fromNorm := lowerNorm, authNorm := lowerNorm }
example : exDirectives.cfg.errAction = rejectAction ∧ exDirectives.cfg.checkHeader = true := ⟨rfl, rfl⟩
example : accepted exDirectives.cfg (some (s "alice")) (s "alice@example.org")
    { fromFields := [one "alice@example.org"], senderFields := [] } = true := by decide
example : accepted exDirectives.cfg (some (s "alice")) (s "alice@example.org")
    { fromFields := [{ empty := false, parse := some [s "alice@example.org", s "bob@example.org"] }], senderFields := [] } = false := by decide

-- a table file: alice is entitled, the file is emptied (or deleted) and reloaded: refused; before
-- the reload the old entries still count; a damaged file keeps them
def exFile : FileState := FileState.init (some [(s "alice", [s "alice@example.org"]), (s "alice", [s "corp.example"])])
def exFileCfg (st : FileState) : Cfg := { exCfg with userToEmail := st.table }
example : fileLookup exFile.loaded (s "alice") = [s "alice@example.org", s "corp.example"] := by decide
example : checkSender (exFileCfg exFile) (some (s "alice")) (s "x@corp.example") = pass := by decide
example : checkSender (exFileCfg (exFile.run [.write []])) (some (s "alice")) (s "alice@example.org") = pass := by decide
example : checkSender (exFileCfg (exFile.run [.write [], .reload])) (some (s "alice")) (s "alice@example.org")
    = refuse exCfg .noMatch := by decide
example : checkSender (exFileCfg (exFile.run [.delete, .reload])) (some (s "alice")) (s "alice@example.org")
    = refuse exCfg .noMatch := by decide
example : checkSender (exFileCfg (exFile.run [.damage, .reload])) (some (s "alice")) (s "alice@example.org") = pass := by decide
example : checkSender (exFileCfg (exFile.run [.write [], .reload, .write [(s "alice", [s "*"])], .reload])) (some (s "alice")) (s "bob@example.org")
    = pass := by decide
-- the hypotheses of `C15_file_withdrawn_refused` are satisfiable (alice's line given to bob)
example : (exFile.run [.write [(s "bob", [s "alice@example.org"])]]).file = .entries [(s "bob", [s "alice@example.org"])] ∧
    ∀ e ∈ fileLookup [(s "bob", [s "alice@example.org"])] (s "alice"), e = [] := ⟨rfl, by decide⟩

/-! table.chain: accounts → groups, then one level of delegation (whose values are again its keys) -/
def chAccounts : Table := .multi fun k =>
  if k == s "alice" then .ok [s "alice@example.org", s "info@example.org"] else .ok []
def chDeleg : Table := .multi fun k =>
  if k == s "alice@example.org" then .ok [s "alice@example.org", s "a.smith@example.org"]
  else if k == s "info@example.org" then .ok [s "info@example.org", s "sales@example.org"]
  else if k == s "a.smith@example.org" then .ok [s "a.smith@example.org", s "ceo-office@example.org"]
  else .ok []
def chSteps : List (Bool × Table) := [(false, chAccounts), (false, chDeleg)]
def chCfg : Cfg := { exCfg with userToEmail := chainTable chSteps }
example : chainLookup chSteps [s "alice"] =
    .ok [s "alice@example.org", s "a.smith@example.org", s "info@example.org", s "sales@example.org"] := rfl
example : checkSender chCfg (some (s "alice")) (s "sales@example.org") = pass := by decide
example : checkSender chCfg (some (s "alice")) (s "info@example.org") = pass := by decide
-- a.smith's own delegation is NOT alice's: one application per step
example : checkSender chCfg (some (s "alice")) (s "ceo-office@example.org") = refuse exCfg .noMatch := by decide
-- a key without a mapping: `step` answers nothing, `optional_step` is left out
example : chainLookup [(false, chAccounts), (false, chDeleg), (false, chDeleg)] [s "alice"] = .ok [] := rfl
example : chainLookup [(false, chAccounts), (false, chDeleg), (true, chDeleg)] [s "alice"] = chainLookup chSteps [s "alice"] := rfl
-- the hypotheses of the completeness theorem are satisfiable
example : (∀ st ∈ chSteps, st.1 = false) ∧ ∃ r, chainLookup chSteps [s "alice"] = .ok r ∧ r ≠ [] :=
  ⟨by decide, _, rfl, by decide⟩
-- SASL PLAIN: the own name or nothing as authorization identity; a case variant is another identity
def exVerify (name pw : Str) : Bool := name == pw
example : saslPlain some exVerify [] (s "admin") (s "admin") = some (s "admin") := by decide
example : saslPlain some exVerify (s "admin") (s "admin") (s "admin") = some (s "admin") := by decide
example : saslPlain some exVerify (s "Admin") (s "admin") (s "admin") = none := by decide
example : saslPlain some exVerify [] (s "Admin") (s "admin") = none := by decide

-- table.email_with_domain: `bob` owns bob@example.org / bob@example.com; the account `bob@example.net` does not
def wdCfg : Cfg := { exCfg with userToEmail := emailWithDomainTable [s "example.org", s "example.com"] }
example : checkSender wdCfg (some (s "bob")) (s "bob@example.com") = pass := by decide
example : checkSender wdCfg (some (s "bob@example.net")) (s "bob@example.org") = refuse exCfg .noMatch := by decide
example : emailWithDomain [s "example.org"] (s "bob@example.net") = [s "\"bob@example.net\"@example.org"] := by decide
example : AT ∈ s "bob@example.net" ∧ (s "bob@example.org").head? ≠ some DQ := by decide

-- next to a quarantining neighbour, in either order: refused; an entitled sender: passed and flagged
example : mergeResults [.quarantine, (checkSender wdCfg (some (s "bob@example.net")) (s "bob@example.org")).verdict] = (true, false) := by decide
example : mergeResults [(checkSender wdCfg (some (s "bob@example.net")) (s "bob@example.org")).verdict, .quarantine] = (true, false) := by decide
example : mergeResults [.quarantine, (checkSender wdCfg (some (s "bob")) (s "bob@example.org")).verdict] = (false, true) := by decide
example : (checkSender wdCfg (some (s "bob@example.net")) (s "bob@example.org")).reject = true ∧
    (checkSender wdCfg (some (s "bob@example.net")) (s "bob@example.org")).quarantine = false := by decide

end Examples

end MaddyVerif.C15
